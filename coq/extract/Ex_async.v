Require Import QtlVerif.AsyncDefs QtlVerif.SrcAsync.
Require Extraction.
Require Import ExtrOcamlBasic.
Definition src_copy (amb m : msg) : observation := obs (copy_msg_with src_copy_cfg amb m).
Definition src_copy_complete : bool := copy_ok src_copy_cfg.
Definition src_time_sources : bool * bool := (tsrc_is_message src_time_process, tsrc_is_message src_time_boot).
(* which thread runs the sink steps (ATake/ADone) when moveToOwnThread() was called with / without an application object: true = own thread *)
Definition src_sink_on_own_thread (app : bool) : bool :=
  match exec_thread src_worker_move app ADone, exec_thread src_worker_move app ATake with TOwn, TOwn => true | _, _ => false end.
Extraction "async_model.ml" accept_async accepted_prefix x0 src_copy src_copy_complete src_time_sources render_rel src_sink_on_own_thread.
