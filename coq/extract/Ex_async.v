Require Import QtlVerif.AsyncDefs QtlVerif.SrcAsync.
Require Extraction.
Require Import ExtrOcamlBasic.
Definition src_copy (amb m : msg) : observation := obs (copy_msg_with src_copy_cfg amb m).
Definition src_copy_complete : bool := copy_ok src_copy_cfg.
Extraction "async_model.ml" accept_async accepted_prefix x0 src_copy src_copy_complete.
