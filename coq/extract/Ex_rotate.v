Require Import QtlVerif.RotateDefs QtlVerif.SrcRotate.
Require Extraction.
Require Import ExtrOcamlBasic.
Extraction "rotate_model.ml" src_shape std_shape shape_eqb step shown_text WriteMsg w0 run listing snap_of to_int civil
  prop_c05_b prop_c06_b prop_c07_b prop_c09_b.
