Require Import QtlVerif.CategoryDefs QtlVerif.SrcCategory.
Require Extraction.
Require Import ExtrOcamlBasic.
(* the model with the configuration translated from the source *)
Definition model_verdict := category_filter src_cfg.
Definition model_rules := parse_rules src_cfg.
(* the same constants with the pre-repair matching semantics (classification of LF failures only) *)
Definition legacy_verdict := category_filter (with_line_anchors src_cfg).
(* one object answering a history of messages (address, name text, type) *)
Definition model_answers := object_answers src_cfg.
Extraction "category_model.ml" model_verdict model_rules legacy_verdict spec_verdict spec_rules prop_c15_b
  model_answers spec_answers prop_c15_seq_b.
