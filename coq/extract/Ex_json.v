Require Import QtlVerif.JsonDefs QtlVerif.SrcJson.
Require Extraction.
Require Import ExtrOcamlBasic.
Definition json_format_src := json_format src_json_cfg.
Extraction "json_model.ml" json_format_src prop_c13_b parse_doc write_doc sort_keys unitsb num_value num_in_range.
