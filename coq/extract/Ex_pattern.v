Require Import QtlVerif.PatternDefs QtlVerif.SrcPattern.
From Coq Require Import List NArith.
Require Extraction.
Require Import ExtrOcamlBasic.
Definition n_removing (p : qstr) (m : msg) : nat := length (filter (removes m) (active m (parse_pattern p))).
Definition n_tokens (p : qstr) : nat := length (parse_pattern p).
Definition full_text (p : qstr) (m : msg) : qstr := concat_pieces m (parse_pattern p).
Definition inband_pattern (mk : N) (p : qstr) (m : msg) : qstr := format_inband mk (parse_pattern p) m.
Definition oob_pattern (p : qstr) (m : msg) : qstr := format_oob (parse_pattern p) m.
Extraction "pattern_model.ml" format_pattern oracle_pattern n_removing n_tokens full_text inband_pattern oob_pattern
  parse_pattern src_inband_marker result_is_null oracle_pattern_null
  construct call_model otoks.
