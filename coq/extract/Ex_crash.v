Require Import QtlVerif.CrashDefs QtlVerif.SrcCrash.
Require Extraction.
Require Import ExtrOcamlBasic.
(* the model with the step order translated from the source *)
Definition m_history := history_tagged src_crash.
Definition m_src_good := src_goodb src_crash.
Extraction "crash_model.ml" m_history m_src_good apply_step retired prop_c10_b wf_fsb flushed all_safe.
