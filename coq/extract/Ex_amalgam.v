Require Import QtlVerif.AmalgamDefs.
Require Extraction.
Require Import ExtrOcamlBasic.
Extraction "amalgam_model.ml" expand finish generate sources emitted included starved met.
