Require Import QtlVerif.AmalgamDefs QtlVerif.AmalgamCondDefs.
Require Extraction.
Require Import ExtrOcamlBasic.
Extraction "amalgam_model.ml" expand finish generate sources emitted included starved met
  run_tu branches confined mentioned_nonk bad taken too_deep.
