Require Import QtlVerif.AmalgamDefs QtlVerif.AmalgamCondDefs QtlVerif.AmalgamCommentDefs.
Require Extraction.
Require Import ExtrOcamlBasic.
Extraction "amalgam_model.ml" expand finish generate sources emitted included starved met
  includes_outside_comments files_with_include_in_comment
  run_tu branches confined mentioned_nonk bad taken too_deep.
