Require Import QtlVerif.ShutdownDefs QtlVerif.SrcShutdown.
Require Extraction.
Require Import ExtrOcamlBasic.
(* the model's code-dependent switches are computed from the translated skeleton *)
Definition rc_src : bool := rechecks_after_relock src_skeleton.
Definition du_src : bool := dec_unconditional src_skeleton.
Definition accept_src := accept_shutdown rc_src du_src.
Definition run_src := run rc_src du_src.
Extraction "shutdown_model.ml" accept_src prop_c04_b stuck_b leaked_b errorb run_src init mu rc_src du_src.
