Require Import QtlVerif.ShutdownDefs QtlVerif.SrcShutdown QtlVerif.ShutdownCounterDefs.
Require Extraction.
Require Import ExtrOcamlBasic.
(* the model's code-dependent switches are computed from the translated skeleton *)
Definition rc_src : bool := rechecks_after_relock src_skeleton.
Definition du_src : bool := dec_unconditional src_skeleton.
Definition accept_src := accept_shutdown rc_src du_src.
Definition run_src := run rc_src du_src.
(* the loop test of the drain loop as the code evaluates it on its [src_counter_bits]-bit counter, and as the model does *)
Definition src_drain_test (n : nat) : bool * bool := (drain_test src_counter_bits n, Nat.ltb 0 n).
Extraction "shutdown_model.ml" accept_src prop_c04_b stuck_b leaked_b errorb run_src init mu rc_src du_src src_drain_test src_counter_bits.
