Require Import QtlVerif.ShutdownDefs.
Require Extraction.
Require Import ExtrOcamlBasic.
Extraction "shutdown_model.ml" accept_shutdown prop_c04_b stuck_b run init mu.
