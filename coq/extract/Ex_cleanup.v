Require Import QtlVerif.FuncCleanupDefs.
Require Extraction.
Require Import ExtrOcamlBasic.
Extraction "cleanup_model.ml" cleanup cleanup_ptr prop_c14_func_b.
