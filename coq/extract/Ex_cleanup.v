Require Import QtlVerif.FuncCleanupDefs.
Require Extraction.
Require Import ExtrOcamlBasic.
Extraction "cleanup_model.ml" cleanup prop_c14_func_b.
