Require Import QtlVerif.ConfigDefs QtlVerif.SrcConfig.
Require Extraction.
Require Import ExtrOcamlBasic.
(* the model of the code, instantiated with what the translator read from the source *)
Definition ini_handlers := build_ini src_ini.
Definition ini_is_async := ini_async src_ini.
Definition oneline_handlers := build_oneline src_oneline.
Definition oneline_is_async := oneline_async src_oneline.
Definition install_trace := itrace src_inst.
Definition src_strip := strip (ol_strip_class src_oneline).
Extraction "config_model.ml" ini_handlers ini_is_async oneline_handlers oneline_is_async install_trace
  src_strip run project stderr_records stream_text spec_stdout spec_stderr spec_file prop_ini_b
  prop_oneline_b strip_sgr prop_install_b rules_text rx_text pattern_text.
