Require Import QtlVerif.ConfigDefs QtlVerif.SrcConfig.
Require Extraction.
Require Import ExtrOcamlBasic.
(* the model of the code, instantiated with what the translator read from the source *)
Definition ini_handlers := build_ini src_ini.
Definition ini_is_async := ini_async src_ini.
Definition oneline_handlers := build_oneline src_oneline.
Definition oneline_is_async := oneline_async src_oneline.
Definition install_trace := itrace src_inst.
Definition src_strip := strip (ol_strip_class src_oneline).
(* the file sink each front-end builds, laid out over the days of the records that reach it *)
Definition ini_layout s npre d0 ms := lay_obs (layout (ini_fparams src_ini s) npre d0 (ini_file_days s ms)).
Definition oneline_layout a npre d0 ms := lay_obs (layout (ol_fparams src_oneline a) npre d0 (ol_file_days a ms)).
Definition ini_layout_oracle s npre d0 ms obs := prop_layout_b (ini_want s) npre d0 (ini_file_days s ms) obs.
Definition oneline_layout_oracle a npre d0 ms obs := prop_layout_b (ol_want a) npre d0 (ol_file_days a ms) obs.
Extraction "config_model.ml" ini_handlers ini_is_async oneline_handlers oneline_is_async install_trace
  src_strip run project stderr_records stream_text spec_stdout spec_stderr spec_file prop_ini_b
  prop_oneline_b strip_sgr prop_install_b rules_text rx_text pattern_text
  ini_layout oneline_layout ini_layout_oracle oneline_layout_oracle multi prop_multi_b.
