Require Import QtlVerif.FuncCleanupDefs QtlVerif.SafetyDefs.
Require Extraction.
Require Import ExtrOcamlBasic.
Extraction "safety_model.ml" parse_pattern_c format_c format_pattern_c fmt_bound prop_c14_pattern_b pretty_seq_c type_letter_c env_of_raw format_raw_c prop_c14_raw_b pretty_seq_raw_c strip_sgr configure_seq_raw_c.
