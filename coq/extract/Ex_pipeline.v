Require Import QtlVerif.PipelineDefs QtlVerif.SrcPipeline.
Require Extraction.
Require Import ExtrOcamlBasic.
Definition run_src := run_seq src_cfg.
Definition run_steps_src := run_steps src_cfg.
Definition child_scoped_src := fluent_child_scoped src_cfg.
Extraction "pipeline_model.ml" run_src run_steps_src child_scoped_src prop_c01_b prop_c01_which which_steps apply_edit inline all_accept forget forget_l.
