Require Import List.
Import ListNotations.
Require Import QtlVerif.ConcDefs QtlVerif.SrcConc.
Require Extraction.
Require Import ExtrOcamlBasic.
(* static facts about the translated entry points, reported by the check in its coverage *)
Definition src_family_bracketed : bool := bracketed_family src_entry_points.
Definition src_full_family_guarded : bool := guarded_family src_entry_points.
Definition src_direct_and_fatal_guarded : bool := guarded_family [src_handler_sk; src_logger_fatal_sk].
Extraction "conc_model.ml" accept_conc accepted_prefix a0 prop_c02_b src_family_bracketed src_full_family_guarded src_direct_and_fatal_guarded.
