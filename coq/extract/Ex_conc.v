Require Import List.
Import ListNotations.
Require Import QtlVerif.ConcDefs QtlVerif.ConcResetDefs QtlVerif.ConcSigDefs QtlVerif.SrcConc.
Require Extraction.
Require Import ExtrOcamlBasic.
(* static facts about the translated entry points, reported by the check in its coverage *)
Definition src_family_bracketed : bool := bracketed_family src_entry_points.
Definition src_full_family_guarded : bool := guarded_family src_entry_points.
Definition src_direct_and_fatal_guarded : bool := guarded_family [src_handler_sk; src_logger_fatal_sk].
(* resetOwnThread() as translated: drain before quit and clear *)
Definition src_reset_is_ok : bool := reset_ok src_reset_prog.
Definition src_signal_anchors : bool := src_signal_emits_in_send && src_signal_autoconnect && src_signal_type_registered.
Definition src_no_shared_state : bool := src_handlers_no_shared_mutable_state.
Extraction "conc_model.ml" accept_conc accepted_prefix a0 prop_c02_b src_family_bracketed src_full_family_guarded src_direct_and_fatal_guarded
  accept_sig sig_prefix ss0 prop_sig_b prop_sig_strict_b src_reset_is_ok src_signal_anchors src_no_shared_state.
