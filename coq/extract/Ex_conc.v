Require Import QtlVerif.ConcDefs.
Require Extraction.
Require Import ExtrOcamlBasic.
Extraction "conc_model.ml" accept_conc accepted_prefix a0 prop_c02_b.
