Require Import List.
Require Import QtlVerif.FatalDefs QtlVerif.SrcFatal.
Require Extraction.
Require Import ExtrOcamlBasic.
(* the model with the configuration read from the source and Qt's own buffering policy *)
Definition run_src_fatal rej t msgs r := ids_of (survivors (run_fatal src_fatal_cfg qfile_policy rej t msgs r)).
Definition run_src_kill rej t msgs := ids_of (survivors (log_all src_fatal_cfg qfile_policy rej t msgs)).
(* the specification, independent of the source: what must be in every file after qFatal(r) *)
Definition expected_ids rej t msgs r := ids_of (expected rej t (msgs ++ (Fatal, r) :: nil)).
Definition src_cfg_good := cfg_goodb src_fatal_cfg.
Extraction "fatal_model.ml" run_src_fatal run_src_kill expected_ids prop_c11_b fresh src_cfg_good flush_on_fatal.
