Require Import List.
Require Import QtlVerif.FatalDefs QtlVerif.SrcFatal.
Require Extraction.
Require Import ExtrOcamlBasic.
(* the model with the configuration read from the source and Qt's own buffering policy; histories are
   event lists (messages, explicit flush() calls, reconfigurations) *)
Definition run_src_fatal rej t evs r := ids_of (survivors (run_events_fatal src_fatal_cfg qfile_policy rej t evs r)).
Definition run_src_kill rej t evs := ids_of (survivors (run_events src_fatal_cfg qfile_policy rej t evs)).
(* the same with the source as compiled with -DQTLOGGER_NO_THREAD *)
Definition run_nth_fatal rej t evs r := ids_of (survivors (run_events_fatal src_fatal_cfg_nothread qfile_policy rej t evs r)).
Definition run_nth_kill rej t evs := ids_of (survivors (run_events src_fatal_cfg_nothread qfile_policy rej t evs)).
(* the specification, independent of the source: what must be in every file after qFatal(r) *)
Definition expected_ids rej t evs r := ids_of (expected_ev rej t evs r).
Definition src_cfg_good := cfg_goodb src_fatal_cfg.
Definition nth_cfg_good := cfg_goodb src_fatal_cfg_nothread.
(* histories in which several sinks log to ONE file (a sink replaced by a new one for the same file, a second
   short-lived Logger object): the state = handler tree + destroyed sinks; observed per file through [stream_ids] *)
Definition w_src_fatal rej t evs r := wrun_fatal src_fatal_cfg qfile_policy rej t evs r.
Definition w_src_kill rej t evs := wrun src_fatal_cfg qfile_policy rej t evs.
Definition w_nth_fatal rej t evs r := wrun_fatal src_fatal_cfg_nothread qfile_policy rej t evs r.
Definition w_nth_kill rej t evs := wrun src_fatal_cfg_nothread qfile_policy rej t evs.
Extraction "fatal_model.ml" run_src_fatal run_src_kill run_nth_fatal run_nth_kill expected_ids prop_c11_ev_b final_sids
  fresh src_cfg_good nth_cfg_good flush_on_fatal flush_on_fatal_nothread
  w_src_fatal w_src_kill w_nth_fatal w_nth_kill expected_w stream_ids live_files prop_c11_w_b.
