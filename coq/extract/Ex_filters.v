Require Import QtlVerif.RegexDefs QtlVerif.FiltersDefs QtlVerif.SrcFilters.
Require Extraction.
Require Import ExtrOcamlBasic.
Definition observe_src := observe src_cfg.
Definition level_pass_src := level_pass src_cfg.
Definition observe_ref := observe ref_cfg.
Extraction "filters_model.ml" observe_src observe_ref prop_c16_b level_pass_src level_spec regex_search16 pp printable.
