Require Import QtlVerif.SortedDefs QtlVerif.SrcSorted.
Require Extraction.
Require Import ExtrOcamlBasic.
Definition run_src := run_cfg src_cfg.
Extraction "sorted_model.ml" run_src spec_list prop_c17_b.
