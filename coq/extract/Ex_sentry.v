Require Import QtlVerif.JsonDefs QtlVerif.SentryDefs QtlVerif.SrcSentry.
Require Extraction.
Require Import ExtrOcamlBasic.
Definition sentry_format_src := sentry_format src_sentry_cfg.
Extraction "sentry_model.ml" sentry_format_src prop_c18_b iso_utc iso_decode id128_hex is_hex32 num_value num_in_range int_typed apply_ops with_ops ids_ok_b.
