Require Import QtlVerif.GzipDefs QtlVerif.SrcGzip.
Require Extraction.
Require Import ExtrOcamlBasic.
(* the model with the configuration translated from the source *)
Definition m_header := g_header src_gz.
Definition m_trailer := trailer src_gz.
Definition m_body_of := body_of src_gz.
Definition m_cfg_good := cfg_goodb src_gz.
Definition m_removed_last := removed_lastb src_compress_steps.
Extraction "gzip_model.ml" m_header m_trailer rfc_trailer m_body_of m_cfg_good m_removed_last
  gunzip prop_c08_b crc32_bitwise lenN bytes_eqb.
