(* C18 — Sentry events are valid Store-API payloads that carry the message faithfully.
   Property theorems only; each is closed by [exact] of a lemma of SentryProofs.v, instantiated at
   [src_sentry_cfg], the configuration tools/s2c/sentry.py reads from
   /repo/src/qtlogger/formatters/sentryformatter.cpp/.h on every run (level switch, routed names
   and their slots, skip list of the extra loop, fingerprint cut and text source, logger rule, sdk
   constants).  [sentry_format] is the function that is extracted and compared byte for byte with
   the real SentryFormatter; [prop_c18_b] is the oracle evaluated on the implementation's output.
   The Qt version string, the thread id and the fresh event id are inputs of the model. *)
From Coq Require Import List NArith ZArith Bool.
Import ListNotations.
Require Import QtlVerif.JsonDefs QtlVerif.JsonProofs QtlVerif.SentryDefs QtlVerif.SentryProofs QtlVerif.SrcSentry.
Local Open Scope N_scope.

(* the translated source is the specified configuration (by computation) *)
Theorem C18_source_configuration_good : sentry_cfg_goodb src_sentry_cfg = true.
Proof. vm_compute. reflexivity. Qed.
Print Assumptions C18_source_configuration_good.

Definition src_event_members := event_members (sdk_name src_sentry_cfg) (sdk_version src_sentry_cfg).

(* valid and lossless, by C13's round trip: the text is exactly one JSON object — the event with
   its keys in QJsonObject order — and nothing else; it holds no character below U+0020 *)
Theorem C18_valid_and_lossless : forall qtver eid m, units qtver -> units eid -> wf_msg (s_msg m) -> time_ok (s_time_ms m) ->
  parse_doc (sentry_format src_sentry_cfg qtver eid m) = Some (JObj (src_event_members qtver eid m))
  /\ sort_keys (sentry_event (spec_cfg (sdk_name src_sentry_cfg) (sdk_version src_sentry_cfg)) qtver eid m) = JObj (src_event_members qtver eid m)
  /\ Forall (fun c => 32 <= c) (sentry_format src_sentry_cfg qtver eid m).
Proof.
  exact (fun qtver eid m Hq He Hm Ht =>
    conj (sentry_roundtrip src_sentry_cfg C18_source_configuration_good qtver eid m Hq He Hm Ht)
   (conj (event_sorted _ _ qtver eid m) (sentry_one_line src_sentry_cfg qtver eid m))).
Qed.
Print Assumptions C18_valid_and_lossless.

(* level: debug / info / warning / error / fatal *)
Theorem C18_level_map : forall qtver eid m,
  look k_level (src_event_members qtver eid m) = Some (JStr (spec_level (mtype (s_msg m))))
  /\ map spec_level [0; 4; 1; 2; 3]
     = [[100;101;98;117;103]; [105;110;102;111]; [119;97;114;110;105;110;103]; [101;114;114;111;114]; [102;97;116;97;108]].
Proof. exact (fun qtver eid m => conj (ev_level _ _ qtver eid m) eq_refl). Qed.
Print Assumptions C18_level_map.

Theorem C18_message_formatted_is_text : forall qtver eid m,
  get2 (src_event_members qtver eid m) k_message k_formatted = Some (JStr (s_text m)).
Proof. exact (ev_message _ _). Qed.
Print Assumptions C18_message_formatted_is_text.

Theorem C18_logger_iff_non_default : forall qtver eid m,
  (is_nil (s_cat m) || seqb (s_cat m) s_default = true -> look k_logger (src_event_members qtver eid m) = None)
  /\ (is_nil (s_cat m) || seqb (s_cat m) s_default = false -> look k_logger (src_event_members qtver eid m) = Some (JStr (s_cat m))).
Proof. exact (ev_logger_rule _ _). Qed.
Print Assumptions C18_logger_iff_non_default.

(* fingerprint = [level; category or "default"; first 100 UTF-16 units of the message text] *)
Theorem C18_fingerprint : forall qtver eid m,
  look k_fingerprint (src_event_members qtver eid m)
  = Some (JArr [JStr (spec_level (mtype (s_msg m))); JStr (fp_category m); JStr (firstn 100 (s_text m))]).
Proof. exact (ev_fingerprint_ok _ _). Qed.
Print Assumptions C18_fingerprint.

(* timestamp: the 20 characters YYYY-MM-DDThh:mm:ssZ which, read back as a UTC civil time, give
   exactly floor(message time / 1000) — for every time in years 0001..9999 *)
Theorem C18_timestamp_to_the_second : forall qtver eid m,
  look k_timestamp (src_event_members qtver eid m) = Some (JStr (iso_utc (s_time_ms m)))
  /\ length (iso_utc (s_time_ms m)) = 20%nat
  /\ (time_ok (s_time_ms m) -> iso_decode (iso_utc (s_time_ms m)) = Some (s_time_ms m / 1000)%Z).
Proof. exact (fun qtver eid m => conj (ev_timestamp _ _ qtver eid m) (conj (iso_length _) (iso_decode_utc _))). Qed.
Print Assumptions C18_timestamp_to_the_second.

Theorem C18_civil_from_days_correct : forall days,
  let '(y, m, d) := civil days in (1 <= m <= 12 /\ 1 <= d <= 31 /\ days_from_civil y m d = days)%Z.
Proof. exact civil_correct. Qed.
Print Assumptions C18_civil_from_days_correct.

(* attribute conservation: every custom attribute (at its last setting) occurs exactly once — a
   routed name in its dedicated tag/context slot as its string rendering and NOT under extra, any
   other name under extra with its value *)
Theorem C18_attr_conservation : forall qtver eid m pre k v post,
  s_attrs m = pre ++ (k, v) :: post -> has_key k post = false ->
  (is_routed k = false -> get2 (src_event_members qtver eid m) k_extra k = Some (sort_keys v))
  /\ (forall sl name, In (sl, (name, k)) spec_routes ->
        slot_get (src_event_members qtver eid m) sl name = Some (JStr (to_qstring v))
        /\ get2 (src_event_members qtver eid m) k_extra k = None).
Proof.
  exact (fun qtver eid m pre k v post E Hk =>
    conj (other_attribute_in_extra _ _ qtver eid m k v pre post E Hk)
         (fun sl name Hin => conj (routed_attribute_in_slot _ _ qtver eid m sl name k v pre post Hin E Hk)
                                  (routed_not_in_extra _ _ qtver eid m k (routed_in_spec sl name k Hin)))).
Qed.
Print Assumptions C18_attr_conservation.

(* numeric attribute values: whatever numeric QVariant type carries the integer z (int, uint, qlonglong,
   qulonglong, double, float; within the range of the type, |z| <= 2^53) the value is intact - the number z
   under extra for an ordinary name; for a routed name (integer types: QVariant::toString gives the digits)
   the decimal text of z in its slot, which identifies z: 4294967295 held by a uint is neither -1 nor "-1" *)
Theorem C18_numeric_attribute_intact : forall qtver eid m pre k t z post,
  s_attrs m = pre ++ (k, num_value t z) :: post -> has_key k post = false -> num_in_range t z = true ->
  (is_routed k = false -> get2 (src_event_members qtver eid m) k_extra k = Some (JNum z))
  /\ (int_typed t = true -> forall sl name, In (sl, (name, k)) spec_routes ->
        slot_get (src_event_members qtver eid m) sl name = Some (JStr (num_chars z))
        /\ get2 (src_event_members qtver eid m) k_extra k = None).
Proof. exact (numeric_attribute_intact _ _). Qed.
Print Assumptions C18_numeric_attribute_intact.
Theorem C18_number_text_identifies_value : forall a b, num_chars a = num_chars b -> a = b.
Proof. exact num_chars_inj. Qed.
Print Assumptions C18_number_text_identifies_value.

(* The full statement of the property's last sentence would be, for EVERY value v (lists, maps and null
   included) of a routed name:
     forall qtver eid m pre k v post sl name, s_attrs m = pre ++ (k, v) :: post -> has_key k post = false ->
       In (sl, (name, k)) spec_routes ->
       (slot_get ev sl name = Some (sort_keys v) /\ get2 ev k_extra k = None)
       \/ (get2 ev k_extra k = Some (sort_keys v) /\ slot_get ev sl name = None)
   It is FALSE of the faithful model (and of the code: open finding F16): QVariant::toString() of a
   list / map / null is the empty string, and the name is skipped in extra.  Witness: appname = [1, 2]
   gives tags.app_name = "" and no entry under extra, so the value occurs nowhere in the event and
   the oracle rejects the model's own output.  [C18_attr_conservation] above is the part that holds
   (routed names with string / number / boolean values, every other name with any value). *)
Theorem C18_routed_nonscalar_value_lost_refuted :
  exists m qtver eid, wf_msg (s_msg m) /\ time_ok (s_time_ms m) /\ units qtver /\ is_hex32 eid = true
    /\ s_attrs m = [(k_appname, JArr [JNum 1%Z; JNum 2%Z])]
    /\ slot_get (src_event_members qtver eid m) STag k_app_name = Some (JStr [])
    /\ get2 (src_event_members qtver eid m) k_extra k_appname = None
    /\ prop_c18_b m (sentry_format src_sentry_cfg qtver eid m) = false.
Proof. exact (routed_nonscalar_lost src_sentry_cfg C18_source_configuration_good). Qed.
Print Assumptions C18_routed_nonscalar_value_lost_refuted.

(* the event id: 32 lowercase hex digits; distinct 128-bit values give distinct ids *)
Theorem C18_id_hex32 : forall x, is_hex32 (id128_hex x) = true.
Proof. exact id_hex32. Qed.
Print Assumptions C18_id_hex32.
Theorem C18_id_injective : forall x y, x < 2 ^ 128 -> y < 2 ^ 128 -> id128_hex x = id128_hex y -> x = y.
Proof. exact id_injective. Qed.
Print Assumptions C18_id_injective.
Theorem C18_event_id_carried : forall qtver eid m, look k_event_id (src_event_members qtver eid m) = Some (JStr eid).
Proof. exact (ev_event_id _ _). Qed.
Print Assumptions C18_event_id_carried.

(* ---- attributes that reach the message through the handlers of a pipeline (attribute handlers, overrides) ---- *)
(* the attribute store after each kind of step: setAttribute / updateAttributes (what AttrHandler::process does with
   the hash a FunctionAttrHandler returns) REPLACE the value of a name, setAttributes replaces the store (a scoped
   pipeline restoring the attributes), removeAttribute drops the name; every other name keeps its value *)
Theorem C18_attribute_store_semantics : forall a k,
  (forall k' v, look_last k (apply_op a (OSet k' v)) = if seqb k k' then Some v else look_last k a)
  /\ (forall h, look_last k (apply_op a (OUpdate h)) = match look_last k h with Some v => Some v | None => look_last k a end)
  /\ (forall l, look_last k (apply_op a (OSetAll l)) = look_last k l)
  /\ (forall k', look_last k (apply_op a (ORemove k')) = if seqb k k' then None else look_last k a).
Proof.
  exact (fun a k => conj (fun k' v => store_set k' v a k) (conj (fun h => store_update h a k)
                   (conj (fun l => store_set_all l a k) (fun k' => store_remove k' a k)))).
Qed.
Print Assumptions C18_attribute_store_semantics.
(* whatever steps produced the store, the event carries for every name exactly its CURRENT value, once *)
Theorem C18_current_value_conserved : forall qtver eid m ops k v,
  look_last k (apply_ops (s_attrs m) ops) = Some v ->
  (is_routed k = false -> get2 (src_event_members qtver eid (with_ops m ops)) k_extra k = Some (sort_keys v))
  /\ (forall sl name, In (sl, (name, k)) spec_routes ->
        slot_get (src_event_members qtver eid (with_ops m ops)) sl name = Some (JStr (to_qstring v))
        /\ get2 (src_event_members qtver eid (with_ops m ops)) k_extra k = None).
Proof. exact (fun qtver eid m ops k v => current_value_conserved _ _ qtver eid (with_ops m ops) k v). Qed.
Print Assumptions C18_current_value_conserved.
(* a name that is no longer on the message does not show up under extra *)
Theorem C18_absent_name_not_in_extra : forall qtver eid m ops k,
  look_last k (apply_ops (s_attrs m) ops) = None -> k <> k_line -> k <> k_file -> k <> k_thread_id ->
  get2 (src_event_members qtver eid (with_ops m ops)) k_extra k = None.
Proof. exact (fun qtver eid m ops k => absent_name_not_in_extra _ _ qtver eid (with_ops m ops) k). Qed.
Print Assumptions C18_absent_name_not_in_extra.
(* the attribute handler that runs last before the formatter OVERRIDES: for each name of its hash the event carries
   the handler's value and not an older one - whether the older one came from setAttribute, from an earlier handler
   of the same pipeline or from a handler of the enclosing pipeline - and the other names keep theirs *)
Theorem C18_handler_override_conserved : forall qtver eid m ops h k v, look_last k h = Some v ->
  (is_routed k = false -> get2 (src_event_members qtver eid (with_ops m (ops ++ [OUpdate h]))) k_extra k = Some (sort_keys v))
  /\ (forall sl name, In (sl, (name, k)) spec_routes ->
        slot_get (src_event_members qtver eid (with_ops m (ops ++ [OUpdate h]))) sl name = Some (JStr (to_qstring v))
        /\ get2 (src_event_members qtver eid (with_ops m (ops ++ [OUpdate h]))) k_extra k = None).
Proof. exact (handler_override _ _). Qed.
Print Assumptions C18_handler_override_conserved.
Theorem C18_handler_keeps_other_names : forall m ops h k, look_last k h = None ->
  look_last k (s_attrs (with_ops m (ops ++ [OUpdate h]))) = look_last k (s_attrs (with_ops m ops)).
Proof. exact handler_keeps_other. Qed.
Print Assumptions C18_handler_keeps_other_names.

(* ---- ids over a whole run with several formatter objects ---- *)
(* the k-th format() call of the process takes the k-th draw of the process-wide source, on whichever formatter
   object ([objs]) it is made: with distinct draws ALL ids of the run are well-formed and pairwise distinct *)
Theorem C18_ids_distinct_over_all_formatters : forall draw objs,
  (forall i, draw i < 2 ^ 128) -> (forall i j, draw i = draw j -> i = j) ->
  ids_ok_b (run_ids draw objs) = true /\ length (run_ids draw objs) = length objs.
Proof. exact run_ids_ok. Qed.
Print Assumptions C18_ids_distinct_over_all_formatters.
Theorem C18_ids_oracle_sound : forall ids, ids_ok_b ids = true -> NoDup ids /\ forallb is_hex32 ids = true.
Proof.
  exact (fun ids H => conj (strs_distinctb_sound ids (proj2 (proj1 (andb_true_iff _ _) H))) (proj1 (proj1 (andb_true_iff _ _) H))).
Qed.
Print Assumptions C18_ids_oracle_sound.
(* for contrast: a per-process base plus a counter kept by each formatter object repeats ids as soon as two objects
   have formatted one event each (the oracle rejects such a run) *)
Theorem C18_per_object_counter_ids_repeat : forall base o1 o2, o1 <> o2 -> ids_ok_b (counter_ids base [o1; o2]) = false.
Proof. exact counter_ids_repeat. Qed.
Print Assumptions C18_per_object_counter_ids_repeat.

(* the boolean oracle the check evaluates on the implementation's output holds of the model's output *)
Theorem C18_oracle_holds : forall qtver eid m, units qtver -> units eid -> wf_msg (s_msg m) -> time_ok (s_time_ms m) ->
  routed_scalar (s_attrs m) = true ->
  is_hex32 eid = true -> prop_c18_b m (sentry_format src_sentry_cfg qtver eid m) = true.
Proof. exact (sentry_oracle_holds src_sentry_cfg C18_source_configuration_good). Qed.
Print Assumptions C18_oracle_holds.

(* non-vacuity: a critical message in category "net" at 2024-02-29T23:59:59.999Z with a routed and
   an ordinary attribute *)
Definition ex_smsg : smsg := {|
  s_msg := {| mtype := 2; mtext := [104; 105; 34]; mfmt := None; mfile := Some [102]; mfunc := None; mcat := Some [110; 101; 116];
              mline := 7%Z; mtime := []; mtid := 5%Z;
              mattrs := [(k_host_name, JStr [98; 111; 120]); ([117], JNum 3%Z)] |};
  s_time_ms := 1709251199999%Z |}.
Example C18_nonvacuous :
  iso_utc (s_time_ms ex_smsg) = [50;48;50;52;45;48;50;45;50;57;84;50;51;58;53;57;58;53;57;90]
  /\ routed_scalar (s_attrs ex_smsg) = true
  /\ prop_c18_b ex_smsg (sentry_format src_sentry_cfg [53] (id128_hex 255) ex_smsg) = true
  /\ slot_get (src_event_members [53] (id128_hex 255) ex_smsg) SDevice k_name = Some (JStr [98; 111; 120])
  /\ get2 (src_event_members [53] (id128_hex 255) ex_smsg) k_extra [117] = Some (JNum 3%Z)
  /\ look k_logger (src_event_members [53] (id128_hex 255) ex_smsg) = Some (JStr [110; 101; 116]).
Proof. vm_compute. repeat split. Qed.
(* non-vacuity of the numeric types: UINT_MAX held by a uint under an ordinary and under a routed name *)
Definition ex_num_smsg : smsg := {|
  s_msg := {| mtype := 0; mtext := [104]; mfmt := None; mfile := None; mfunc := None; mcat := None;
              mline := 1%Z; mtime := []; mtid := 1%Z;
              mattrs := [([117], num_value TUInt 4294967295%Z); (k_appname, num_value TUInt 2147483648%Z);
                         ([100], num_value TDouble 9007199254740992%Z)] |};
  s_time_ms := 0%Z |}.
Example C18_numeric_nonvacuous :
  num_in_range TUInt 4294967295%Z = true /\ int_typed TUInt = true /\ int_typed TDouble = false
  /\ get2 (src_event_members [53] (id128_hex 1) ex_num_smsg) k_extra [117] = Some (JNum 4294967295%Z)
  /\ get2 (src_event_members [53] (id128_hex 1) ex_num_smsg) k_extra [100] = Some (JNum 9007199254740992%Z)
  /\ slot_get (src_event_members [53] (id128_hex 1) ex_num_smsg) STag k_app_name = Some (JStr [50;49;52;55;52;56;51;54;52;56])
  /\ prop_c18_b ex_num_smsg (sentry_format src_sentry_cfg [53] (id128_hex 1) ex_num_smsg) = true.
Proof. vm_compute. repeat split. Qed.
(* non-vacuity of the handler steps: "user" and "appname" set on the message, overridden by a handler of the root
   pipeline and again by a handler of the nested pipeline; "tmp" removed: the event carries the LAST values only *)
Definition ex_ops : list attr_op :=
  [OUpdate [([117], JStr [98]); (k_appname, JStr [120])]; OSet [116] (JNum 1%Z);
   OUpdate [([117], JStr [99]); (k_appname, JStr [121])]; ORemove [116]].
Definition ex_ops_smsg : smsg := {|
  s_msg := {| mtype := 4; mtext := [104; 233]; mfmt := None; mfile := None; mfunc := None; mcat := None;
              mline := 1%Z; mtime := []; mtid := 1%Z; mattrs := [([117], JStr [97]); (k_appname, JStr [119])] |};
  s_time_ms := 1000%Z |}.
Example C18_handler_steps_nonvacuous :
  s_attrs (with_ops ex_ops_smsg ex_ops)
  = [([117], JStr [97]); (k_appname, JStr [119]); ([117], JStr [98]); (k_appname, JStr [120]); ([117], JStr [99]); (k_appname, JStr [121])]
  /\ look_last [117] (s_attrs (with_ops ex_ops_smsg ex_ops)) = Some (JStr [99])
  /\ get2 (src_event_members [53] (id128_hex 7) (with_ops ex_ops_smsg ex_ops)) k_extra [117] = Some (JStr [99])
  /\ slot_get (src_event_members [53] (id128_hex 7) (with_ops ex_ops_smsg ex_ops)) STag k_app_name = Some (JStr [121])
  /\ get2 (src_event_members [53] (id128_hex 7) (with_ops ex_ops_smsg ex_ops)) k_extra [116] = None
  /\ prop_c18_b (with_ops ex_ops_smsg ex_ops) (sentry_format src_sentry_cfg [53] (id128_hex 7) (with_ops ex_ops_smsg ex_ops)) = true.
Proof. vm_compute. repeat split. Qed.
Example C18_run_ids_nonvacuous :
  ids_ok_b (run_ids (fun k => N.of_nat k * 4294967296 + 5) [0; 1; 0; 2; 1]%nat) = true
  /\ length (run_ids (fun k => N.of_nat k * 4294967296 + 5) [0; 1; 0; 2; 1]%nat) = 5%nat
  /\ ids_ok_b (counter_ids 5 [0; 1; 0; 2; 1]%nat) = false
  /\ ids_ok_b (counter_ids 5 [0; 0; 0]%nat) = true.
Proof. vm_compute. repeat split. Qed.

(* ---- front end (round 8): the SentryFormatter OBJECT an application obtains through SimplePipeline::formatToSentry(sdkName,
   sdkVersion) - any of the three call shapes (), (n), (n, v) - behaves exactly as SentryFormatter constructed directly with the
   same arguments, so every theorem above carries over to it.  [src_sentry_front] is translated from the body of
   SimplePipeline::formatToSentry (simplepipeline.cpp) and the default arguments of its declaration (simplepipeline.h) on every run *)
Theorem C18_source_front_end_good : front_goodb src_sentry_cfg src_sentry_front = true.
Proof. vm_compute. reflexivity. Qed.
Print Assumptions C18_source_front_end_good.

Theorem C18_front_end_is_the_direct_object : forall c qtver eid m,
  front_format src_sentry_cfg src_sentry_front c qtver eid m = sentry_format (direct_cfg src_sentry_cfg c) qtver eid m.
Proof. exact (front_format_is_direct src_sentry_cfg src_sentry_front C18_source_front_end_good). Qed.
Print Assumptions C18_front_end_is_the_direct_object.

(* ... and the directly constructed object with arguments is again the specified configuration, with the arguments as its sdk strings *)
Theorem C18_direct_object_with_arguments_good : forall c, call_unitsb c = true ->
  sentry_cfg_goodb (direct_cfg src_sentry_cfg c) = true
  /\ sdk_name (direct_cfg src_sentry_cfg c) = fst (direct_args src_sentry_cfg c)
  /\ sdk_version (direct_cfg src_sentry_cfg c) = snd (direct_args src_sentry_cfg c).
Proof. exact (fun c Hc => conj (direct_cfg_good src_sentry_cfg c C18_source_configuration_good Hc) (direct_cfg_sdk src_sentry_cfg c)). Qed.
Print Assumptions C18_direct_object_with_arguments_good.

(* valid and lossless through the front end; the sdk object of the event holds the caller's two strings (the defaults for omitted ones) *)
Theorem C18_front_end_valid_and_lossless : forall c qtver eid m,
  call_unitsb c = true -> units qtver -> units eid -> wf_msg (s_msg m) -> time_ok (s_time_ms m) ->
  parse_doc (front_format src_sentry_cfg src_sentry_front c qtver eid m)
  = Some (JObj (event_members (fst (direct_args src_sentry_cfg c)) (snd (direct_args src_sentry_cfg c)) qtver eid m)).
Proof. exact (front_roundtrip src_sentry_cfg src_sentry_front C18_source_configuration_good C18_source_front_end_good). Qed.
Print Assumptions C18_front_end_valid_and_lossless.
Theorem C18_sdk_object_holds_the_arguments : forall sdkn sdkv qtver eid m,
  get2 (event_members sdkn sdkv qtver eid m) k_sdk k_name = Some (JStr sdkn)
  /\ get2 (event_members sdkn sdkv qtver eid m) k_sdk k_version = Some (JStr sdkv).
Proof. exact ev_sdk. Qed.
Print Assumptions C18_sdk_object_holds_the_arguments.

Theorem C18_front_end_oracle_holds : forall c qtver eid m,
  call_unitsb c = true -> units qtver -> units eid -> wf_msg (s_msg m) -> time_ok (s_time_ms m) ->
  routed_scalar (s_attrs m) = true -> is_hex32 eid = true ->
  prop_c18_b m (front_format src_sentry_cfg src_sentry_front c qtver eid m) = true.
Proof. exact (front_oracle_holds src_sentry_cfg src_sentry_front C18_source_configuration_good C18_source_front_end_good). Qed.
Print Assumptions C18_front_end_oracle_holds.

(* broken front ends do not have the property: the arguments dropped (SentryFormatterPtr::create()), the shared
   instance() object handed out, only the name handed on, the two swapped - for each some call gets other constructor
   arguments than the direct construction; and a declaration default that is not the constructor's *)
Theorem C18_front_end_dropping_the_arguments_refuted : forall dn dv,
  exists c, fst (front_args src_sentry_cfg (front_no_args dn dv) c) <> fst (direct_args src_sentry_cfg c).
Proof. exact (front_no_args_refuted src_sentry_cfg). Qed.
Print Assumptions C18_front_end_dropping_the_arguments_refuted.
Theorem C18_front_end_shared_instance_refuted : forall dn dv,
  exists c, fst (front_args src_sentry_cfg (front_shared dn dv) c) <> fst (direct_args src_sentry_cfg c).
Proof. exact (front_shared_refuted src_sentry_cfg). Qed.
Print Assumptions C18_front_end_shared_instance_refuted.
Theorem C18_front_end_version_dropped_or_swapped_refuted : forall dn dv,
  (exists c, snd (front_args src_sentry_cfg (front_name_only dn dv) c) <> snd (direct_args src_sentry_cfg c))
  /\ (exists c, front_args src_sentry_cfg (front_swapped dn dv) c <> direct_args src_sentry_cfg c).
Proof. exact (fun dn dv => conj (front_name_only_refuted src_sentry_cfg dn dv) (front_swapped_refuted src_sentry_cfg dn dv)). Qed.
Print Assumptions C18_front_end_version_dropped_or_swapped_refuted.
Theorem C18_front_end_other_default_refuted : forall fr, front_object fr = FOFresh [FAName; FAVersion] ->
  front_default_name fr <> sdk_name src_sentry_cfg -> front_args src_sentry_cfg fr SdkNone <> direct_args src_sentry_cfg SdkNone.
Proof. exact (front_wrong_default_refuted src_sentry_cfg). Qed.
Print Assumptions C18_front_end_other_default_refuted.

(* non-vacuity: formatToSentry("ab", "7") on the example message - the event is the one of SentryFormatter("ab", "7"), its sdk
   object holds "ab" / "7", it differs from the default object's event, and the oracle accepts it; a front end that drops the
   arguments gives the default object's event instead *)
Example C18_front_nonvacuous :
  let c := SdkBoth [97; 98] [55] in
  front_format src_sentry_cfg src_sentry_front c [53] (id128_hex 255) ex_smsg = sentry_format (with_sdk src_sentry_cfg [97; 98] [55]) [53] (id128_hex 255) ex_smsg
  /\ front_format src_sentry_cfg src_sentry_front c [53] (id128_hex 255) ex_smsg <> sentry_format src_sentry_cfg [53] (id128_hex 255) ex_smsg
  /\ front_format src_sentry_cfg src_sentry_front SdkNone [53] (id128_hex 255) ex_smsg = sentry_format src_sentry_cfg [53] (id128_hex 255) ex_smsg
  /\ front_format src_sentry_cfg src_sentry_front (SdkName [97; 98]) [53] (id128_hex 255) ex_smsg
     = sentry_format (with_sdk src_sentry_cfg [97; 98] (sdk_version src_sentry_cfg)) [53] (id128_hex 255) ex_smsg
  /\ get2 (event_members [97; 98] [55] [53] (id128_hex 255) ex_smsg) k_sdk k_name = Some (JStr [97; 98])
  /\ prop_c18_b ex_smsg (front_format src_sentry_cfg src_sentry_front c [53] (id128_hex 255) ex_smsg) = true
  /\ front_format src_sentry_cfg (front_no_args [] []) c [53] (id128_hex 255) ex_smsg = sentry_format src_sentry_cfg [53] (id128_hex 255) ex_smsg.
Proof. vm_compute. repeat split. discriminate. Qed.
