(* C17 — The sorted pipeline keeps handler classes in order for any call sequence.
   Property theorems only; each is closed by [exact] of a lemma of SortedProofs.v, instantiated at
   [src_cfg], the configuration tools/src2coq.py reads from /repo/src/qtlogger/sortedpipeline.cpp on
   every run (search shapes of insertBetweenNearLeft/Right, class sets of the five typed calls). *)
From Coq Require Import List Arith Sorted.
Import ListNotations.
Require Import QtlVerif.SortedDefs QtlVerif.SortedProofs QtlVerif.SrcSorted.
Require QtlVerif.PipelineDefs QtlVerif.SrcPipeline QtlVerif.SortedExecProofs.

(* the translated source passes the decidable well-formedness check (by computation) *)
Theorem C17_source_configuration_good : cfg_goodb src_cfg = true.
Proof. vm_compute. reflexivity. Qed.
Print Assumptions C17_source_configuration_good.

(* every typed call of the code, on any sorted list, is ranked stable insertion *)
Theorem C17_typed_calls_are_insert_sorted : forall l id o,
  sorted l -> no_gen l -> step_cfg src_cfg l id o = step_ref l id o.
Proof. exact (fun l id o => typed_calls_are_insert_sorted src_cfg l id o C17_source_configuration_good). Qed.
Print Assumptions C17_typed_calls_are_insert_sorted.

(* full strength: after ANY history the list is exactly
   attribute handlers ++ filters ++ (last formatter) ++ sinks ++ pipelines,
   each part being that class's insertions since its last clear, in call order *)
Theorem C17_list_is_class_logs_in_order : forall ops, run_cfg src_cfg ops = spec_list ops.
Proof. exact (fun ops => run_is_spec src_cfg ops C17_source_configuration_good). Qed.
Print Assumptions C17_list_is_class_logs_in_order.

Theorem C17_sorted_after_any_history : forall ops,
  StronglySorted (fun a b => rank (fst a) <= rank (fst b)) (run_cfg src_cfg ops).
Proof. exact (fun ops => proj1 (sorted_inv src_cfg ops C17_source_configuration_good)). Qed.
Print Assumptions C17_sorted_after_any_history.

(* identities (= index of the call that created the object) never decrease along a class part: handlers
   of one class are in call order; two equal neighbours are the SAME object appended again *)
Theorem C17_same_class_keeps_insertion_order : forall c ops, ids_increasing (class_log c ops) = true.
Proof. exact class_log_in_insertion_order. Qed.
Print Assumptions C17_same_class_keeps_insertion_order.

Theorem C17_at_most_one_formatter : forall ops, length (class_log Fmt ops) <= 1.
Proof. exact at_most_one_formatter. Qed.
Print Assumptions C17_at_most_one_formatter.

Theorem C17_clear_removes_only_its_class : forall c l,
  of_class c (clear c l) = [] /\ (forall c', c' <> c -> of_class c' (clear c l) = of_class c' l).
Proof. exact clear_removes_only_class. Qed.
Print Assumptions C17_clear_removes_only_its_class.

(* the boolean oracle the check evaluates on the implementation's lists follows from the above *)
Theorem C17_oracle_holds : forall ops, prop_c17_b (run_cfg src_cfg ops) = true.
Proof. exact (fun ops => oracle_holds src_cfg ops C17_source_configuration_good). Qed.
Print Assumptions C17_oracle_holds.

(* the property's last sentence — "hence attributes are always set before any filter or formatter runs
   and formatting always precedes every sink": under the pipeline semantics of C01 (instantiated with
   the configuration translated from pipeline.cpp), for every history of typed calls without nested
   pipelines, every assignment of handler objects of the right classes to the list entries, every
   handler state and message, the handlers that actually run are a prefix of the list (cut at the
   first rejection) in list order, hence in class order *)
Theorem C17_pipeline_semantics_configuration_good :
  QtlVerif.PipelineDefs.cfg_goodb QtlVerif.SrcPipeline.src_cfg = true.
Proof. vm_compute. reflexivity. Qed.
Print Assumptions C17_pipeline_semantics_configuration_good.
Theorem C17_execution_follows_class_order : forall ops leaf_of st m,
  exists pre, (exists rest, run_cfg src_cfg ops = pre ++ rest)
    /\ map QtlVerif.PipelineProofs.ev_oid
          (QtlVerif.PipelineDefs.res_events
             (QtlVerif.PipelineDefs.run QtlVerif.SrcPipeline.src_cfg
                (QtlVerif.SortedExecProofs.to_handlers leaf_of (run_cfg src_cfg ops)) st m)) = map snd pre
    /\ StronglySorted (fun a b => rank (fst a) <= rank (fst b)) pre.
Proof.
  exact (QtlVerif.SortedExecProofs.execution_follows_class_order src_cfg QtlVerif.SrcPipeline.src_cfg
           C17_source_configuration_good C17_pipeline_semantics_configuration_good).
Qed.
Print Assumptions C17_execution_follows_class_order.

(* the same sentence read class by class: of any two handlers that ran, the earlier one first —
   before an attribute handler only attribute handlers ran; before a filter only attribute handlers and
   filters; before the formatter no sink or nested pipeline; after a sink only sinks and pipelines *)
Theorem C17_attributes_first_formatting_before_sinks : forall ops leaf_of st m,
  exists pre, (exists rest, run_cfg src_cfg ops = pre ++ rest)
    /\ map QtlVerif.PipelineProofs.ev_oid
          (QtlVerif.PipelineDefs.res_events
             (QtlVerif.PipelineDefs.run QtlVerif.SrcPipeline.src_cfg
                (QtlVerif.SortedExecProofs.to_handlers leaf_of (run_cfg src_cfg ops)) st m)) = map snd pre
    /\ forall l1 a l2 b l3, pre = l1 ++ a :: l2 ++ b :: l3 ->
         (fst b = Attr -> fst a = Attr)
         /\ (fst b = Filt -> fst a = Attr \/ fst a = Filt)
         /\ (fst b = Fmt -> fst a = Attr \/ fst a = Filt \/ fst a = Fmt)
         /\ (fst a = Snk -> fst b = Snk \/ fst b = Pipe \/ fst b = Gen).
Proof.
  exact (QtlVerif.SortedExecProofs.attributes_first_formatting_before_sinks src_cfg QtlVerif.SrcPipeline.src_cfg
           C17_source_configuration_good C17_pipeline_semantics_configuration_good).
Qed.
Print Assumptions C17_attributes_first_formatting_before_sinks.

(* non-vacuity: a history mixing all calls, out of class order, with clears *)
Example C17_nonvacuous :
  run_cfg src_cfg [AppendPipeline; AppendSink; SetFormatter; AppendFilter; AppendAttr; AppendSink;
                   SetFormatter; Clear Filt; AppendFilter; AppendAttr; AppendPipeline]
  = [(Attr, 4); (Attr, 9); (Filt, 8); (Fmt, 6); (Snk, 1); (Snk, 5); (Pipe, 0); (Pipe, 10)].
Proof. vm_compute. reflexivity. Qed.
(* appending the SAME attribute handler / filter / sink object again keeps the class order (the
   object then occurs twice, both occurrences inside its class part) *)
Example C17_nonvacuous_same_object_again :
  run_cfg src_cfg [SetFormatter; AppendAttr; AppendAgain Attr; AppendSink; AppendFilter; AppendAgain Filt; AppendAgain Snk]
  = [(Attr, 1); (Attr, 1); (Filt, 4); (Filt, 4); (Fmt, 0); (Snk, 3); (Snk, 3)].
Proof. vm_compute. reflexivity. Qed.
(* setting the SAME formatter object again leaves exactly one formatter (its identity is 1) *)
Example C17_nonvacuous_same_formatter_again :
  run_cfg src_cfg [AppendSink; SetFormatter; SetFormatterAgain; AppendFilter; SetFormatterAgain]
  = [(Filt, 3); (Fmt, 1); (Snk, 0)].
Proof. vm_compute. reflexivity. Qed.
