(* C02 — concurrent logging: executable definitions only (no proofs; this file must keep compiling and
   extracting when a proof elsewhere breaks).

   * a tiny IR for the locking skeleton of Logger::processMessage / OwnThreadHandler::process, as
     tools/s2c/conc.py translates it from the source (SrcConc.v);
   * the decidable predicate [bracketed] on skeletons;
   * an interleaving semantics that INTERPRETS a skeleton: any number of threads, each sending
     [quota t] messages by running the skeleton once per message; mutexes L (Logger::m_mutex) and M
     (OwnThreadHandler::m_mutex); the pipeline run [Work] is four micro-steps — enter, read the
     sequence counter, write it back incremented, deliver to the sink and leave — so that a lost
     update of SeqNumberAttr::m_count (seqnumberattr.cpp:12, "m_count++") is expressible;
   * the trace acceptor [accept_conc] that the check runs on the traces recorded from the real code. *)
From Coq Require Import List Arith Bool.
Import ListNotations.

Inductive mutex := L | M.
Definition mutex_eqb (a b : mutex) : bool := match a, b with L, L | M, M => true | _, _ => false end.

(* flat skeleton of one logging call *)
(* Work = the pipeline run (handlers incl. Sink::send); Flush = SimplePipeline::flush() (Sink::flush of every sink:
   the fatal path of Logger::processMessage); both touch the sinks *)
Inductive instr := Lock (m : mutex) | Unlock (m : mutex) | Work | Flush | Other.
(* Logger::processMessage as the translator sees it: its own instructions and the virtual call
   process(lmsg), which for a Logger is OwnThreadHandler<SimplePipeline>::process *)
Inductive linstr := LI (i : instr) | LCall.
Definition inline (lg : list linstr) (callee : list instr) : list instr :=
  flat_map (fun x => match x with LI i => [i] | LCall => callee end) lg.
Definition is_lockop (i : instr) : bool := match i with Lock _ | Unlock _ => true | _ => false end.
(* the same program with every lock step erased (used only for the refutation) *)
Definition erase_locks (sk : list instr) : list instr := filter (fun i => negb (is_lockop i)) sk.

(* ---- the decidable shape predicate -------------------------------------------------------------
   For a mutex g the automaton checks that one activation of the skeleton is
     P0 (g not yet taken, no pipeline work)  --Lock g-->  P1 (g held, before the pipeline run)
     --Work-->  P2 (g held, after the run)  --Unlock g-->  P3 (g released, no work, no re-lock)
   i.e. the single pipeline run of the call happens while holding g, acquired and released in the same
   activation.  Instructions on the other mutex and [Other] do not move the automaton. *)
Inductive phase := P0 | P1 | P2 | P3 | PErr.
Definition next (g : mutex) (p : phase) (i : instr) : phase :=
  match i with
  | Lock m => if mutex_eqb m g then match p with P0 => P1 | _ => PErr end else p
  | Unlock m => if mutex_eqb m g then match p with P2 => P3 | _ => PErr end else p
  | Work => match p with P1 => P2 | _ => PErr end
  | Flush | Other => p
  end.
Definition phase_at (g : mutex) (sk : list instr) (n : nat) : phase := fold_left (next g) (firstn n sk) P0.
Definition shape (g : mutex) (sk : list instr) : bool :=
  match fold_left (next g) sk P0 with P3 => true | _ => false end.
Definition bracketed (sk : list instr) : bool := shape L sk || shape M sk.
(* every Flush is executed while the guarding mutex is held (phase P1 or P2) *)
Definition holding (p : phase) : bool := match p with P1 | P2 => true | _ => false end.
Fixpoint flush_guarded_from (g : mutex) (sk : list instr) (p : phase) : bool :=
  match sk with
  | [] => true
  | i :: r => (match i with Flush => holding p | _ => true end) && flush_guarded_from g r (next g p i)
  end.
Definition sinks_guarded (sk : list instr) : bool :=
  (shape L sk && flush_guarded_from L sk P0) || (shape M sk && flush_guarded_from M sk P0).
(* two entry points (a call through Qt's macros / a direct call of process()) exclude each other only if they are
   guarded by one and the same mutex *)
Definition share_guard (a b : list instr) : bool := (shape L a && shape L b) || (shape M a && shape M b).
(* a FAMILY of skeletons (the entry points the threads of one run may use):
   [bracketed_family]: every member is bracketed by one and the same mutex (pipeline runs exclude each other);
   [guarded_family]:   moreover every sink-touching instruction (Work and Flush) of every member lies inside the critical
                       section of that same mutex *)
Definition bracketed_family (sks : list (list instr)) : bool := forallb (shape L) sks || forallb (shape M) sks.
Definition guarded_by (g : mutex) (sk : list instr) : bool := shape g sk && flush_guarded_from g sk P0.
Definition guarded_family (sks : list (list instr)) : bool := forallb (guarded_by L) sks || forallb (guarded_by M) sks.

(* ---- interleaving semantics -------------------------------------------------------------------- *)
Inductive wphase := W0 | W1 | W2 (tmp : nat) | W3 (tmp : nat).
Record tstate := { pc : nat; wph : wphase; idx : nat }.
(* what an observer sees: a thread enters the pipeline with its i-th message; the sink receives the
   i-th message of thread t carrying sequence number sq, and the thread leaves the pipeline *)
Inductive event := EEnter (t i : nat) | EDeliver (t i sq : nat).
Definition entry := (nat * nat * nat)%type.     (* (thread, per-thread index, sequence number) *)
Record state := { th : nat -> tstate; owner : mutex -> option nat; count : nat;
                  log : list entry;                    (* the sink *)
                  acq : list (mutex * nat * nat);     (* ghost: lock acquisitions (mutex, thread, index) in order *)
                  evs : list event }.                 (* ghost: observable events in order *)
Definition upd {A} (f : nat -> A) (t : nat) (v : A) : nat -> A := fun t' => if Nat.eqb t' t then v else f t'.
Definition updm {A} (f : mutex -> A) (m : mutex) (v : A) : mutex -> A := fun m' => if mutex_eqb m' m then v else f m'.
Definition mk_t (p : nat) (w : wphase) (i : nat) : tstate := {| pc := p; wph := w; idx := i |}.

(* one step of thread t; None = blocked (or finished: all its messages sent) *)
(* [skf t] is the skeleton thread t runs (its entry point into the logger): different threads may run different ones *)
Definition step (skf : nat -> list instr) (quota : nat -> nat) (s : state) (t : nat) : option state :=
  let ts := th s t in
  if Nat.leb (quota t) (idx ts) then None else
  match nth_error (skf t) (pc ts) with
  | None =>    (* the call returns; next message *)
      Some {| th := upd (th s) t (mk_t 0 W0 (S (idx ts))); owner := owner s; count := count s;
              log := log s; acq := acq s; evs := evs s |}
  | Some (Lock m) =>
      match owner s m with
      | None => Some {| th := upd (th s) t (mk_t (S (pc ts)) W0 (idx ts)); owner := updm (owner s) m (Some t);
                        count := count s; log := log s; acq := acq s ++ [(m, t, idx ts)]; evs := evs s |}
      | Some _ => None
      end
  | Some (Unlock m) =>
      match owner s m with
      | Some o => if Nat.eqb o t
                  then Some {| th := upd (th s) t (mk_t (S (pc ts)) W0 (idx ts)); owner := updm (owner s) m None;
                               count := count s; log := log s; acq := acq s; evs := evs s |}
                  else None
      | None => None
      end
  | Some Work =>
      match wph ts with
      | W0 => Some {| th := upd (th s) t (mk_t (pc ts) W1 (idx ts)); owner := owner s; count := count s;
                      log := log s; acq := acq s; evs := evs s ++ [EEnter t (idx ts)] |}
      | W1 => Some {| th := upd (th s) t (mk_t (pc ts) (W2 (count s)) (idx ts)); owner := owner s; count := count s;
                      log := log s; acq := acq s; evs := evs s |}
      | W2 tmp => Some {| th := upd (th s) t (mk_t (pc ts) (W3 tmp) (idx ts)); owner := owner s; count := S tmp;
                          log := log s; acq := acq s; evs := evs s |}
      | W3 tmp => Some {| th := upd (th s) t (mk_t (S (pc ts)) W0 (idx ts)); owner := owner s; count := count s;
                          log := log s ++ [(t, idx ts, tmp)]; acq := acq s;
                          evs := evs s ++ [EDeliver t (idx ts) tmp] |}
      end
  | Some Flush | Some Other =>    (* the model gives Flush no effect of its own: only WHERE it runs matters (at_sink) *)
      Some {| th := upd (th s) t (mk_t (S (pc ts)) W0 (idx ts)); owner := owner s; count := count s;
              log := log s; acq := acq s; evs := evs s |}
  end.
(* a schedule is any list of thread ids; a blocked thread's turn is skipped *)
Fixpoint run (skf : nat -> list instr) (quota : nat -> nat) (s : state) (sched : list nat) : state :=
  match sched with
  | [] => s
  | t :: r => match step skf quota s t with Some s' => run skf quota s' r | None => run skf quota s r end
  end.
(* all threads through one entry point *)
Definition uni (sk : list instr) : nat -> list instr := fun _ => sk.
Definition s0 : state := {| th := fun _ => mk_t 0 W0 0; owner := fun _ => None; count := 0; log := []; acq := []; evs := [] |}.
Definition inside (s : state) (t : nat) : bool := match wph (th s t) with W0 => false | _ => true end.
(* thread t is at (about to execute / executing) an instruction that touches the sinks *)
Definition at_sink (skf : nat -> list instr) (s : state) (t : nat) : bool :=
  match nth_error (skf t) (pc (th s t)) with Some Work | Some Flush => true | _ => false end.
(* every thread below n has sent all its messages *)
Definition finishedb (n : nat) (quota : nat -> nat) (s : state) : bool :=
  forallb (fun t => Nat.eqb (idx (th s t)) (quota t)) (seq 0 n).

(* ---- the trace acceptor ------------------------------------------------------------------------ *)
Record astate := { a_in : option (nat * nat); a_cnt : nat; a_next : nat -> nat }.
Definition astep (quota : nat -> nat) (n : nat) (a : astate) (e : event) : option astate :=
  match e with
  | EEnter t i =>
      match a_in a with
      | None => if Nat.ltb t n && Nat.eqb i (a_next a t) && Nat.ltb i (quota t)
                then Some {| a_in := Some (t, i); a_cnt := a_cnt a; a_next := a_next a |} else None
      | Some _ => None
      end
  | EDeliver t i sq =>
      match a_in a with
      | Some (t', i') => if Nat.eqb t t' && Nat.eqb i i' && Nat.eqb sq (a_cnt a)
                         then Some {| a_in := None; a_cnt := S (a_cnt a); a_next := upd (a_next a) t (S i) |} else None
      | None => None
      end
  end.
Fixpoint arun (quota : nat -> nat) (n : nat) (a : astate) (tr : list event) : option astate :=
  match tr with
  | [] => Some a
  | e :: r => match astep quota n a e with Some a' => arun quota n a' r | None => None end
  end.
Definition a0 : astate := {| a_in := None; a_cnt := 0; a_next := fun _ => 0 |}.
Definition a_final (quota : nat -> nat) (n : nat) (a : astate) : bool :=
  match a_in a with None => forallb (fun t => Nat.eqb (a_next a t) (quota t)) (seq 0 n) | Some _ => false end.
(* accepts exactly the complete traces: every event allowed, nobody left inside, every thread delivered
   its quota *)
Definition accept_conc (quota : nat -> nat) (n : nat) (tr : list event) : bool :=
  match arun quota n a0 tr with Some a => a_final quota n a | None => false end.
(* diagnostics: number of leading events the acceptor takes before it rejects *)
Fixpoint accepted_prefix (quota : nat -> nat) (n : nat) (a : astate) (tr : list event) : nat :=
  match tr with
  | [] => 0
  | e :: r => match astep quota n a e with Some a' => S (accepted_prefix quota n a' r) | None => 0 end
  end.

(* ---- trace-level vocabulary of the property ---------------------------------------------------- *)
Fixpoint delivs (tr : list event) : list entry :=
  match tr with
  | [] => []
  | EDeliver t i sq :: r => (t, i, sq) :: delivs r
  | _ :: r => delivs r
  end.
Definition e_tid (e : entry) : nat := fst (fst e).
Definition e_idx (e : entry) : nat := snd (fst e).
Definition e_seq (e : entry) : nat := snd e.
Definition of_thread (t : nat) (l : list entry) : list entry := filter (fun e => Nat.eqb (e_tid e) t) l.
(* the log a sequential execution produces when whole messages run one after the other in [order] *)
Definition serial_log (order : list (nat * nat)) : list entry := combine order (seq 0 (length order)).
Definition acq_of (g : mutex) (l : list (mutex * nat * nat)) : list (nat * nat) :=
  map (fun x => (snd (fst x), snd x)) (filter (fun x => mutex_eqb (fst (fst x)) g) l).
(* a trace in which every pipeline entry is immediately followed by the delivery of the same message *)
Definition paired (l : list entry) : list event :=
  flat_map (fun e => [EEnter (e_tid e) (e_idx e); EDeliver (e_tid e) (e_idx e) (e_seq e)]) l.

(* direct boolean oracle on a recorded trace, independent of the acceptor: no overlap (strict
   alternation), sequence numbers consecutive, per-thread indices 0..quota-1 in order *)
Fixpoint alternates (tr : list event) : bool :=
  match tr with
  | [] => true
  | EEnter t i :: EDeliver t' i' _ :: r => Nat.eqb t t' && Nat.eqb i i' && alternates r
  | _ => false
  end.
Fixpoint list_eqb (a b : list nat) : bool :=
  match a, b with [], [] => true | x :: a', y :: b' => Nat.eqb x y && list_eqb a' b' | _, _ => false end.
Definition prop_c02_b (quota : nat -> nat) (n : nat) (tr : list event) : bool :=
  alternates tr
  && list_eqb (map e_seq (delivs tr)) (seq 0 (length (delivs tr)))
  && forallb (fun t => list_eqb (map e_idx (of_thread t (delivs tr))) (seq 0 (quota t))) (seq 0 n)
  && forallb (fun e => Nat.ltb (e_tid e) n) (delivs tr).

(* ---- sequential (whole-message) schedules ------------------------------------------------------
   [solo_ok]: a thread running the skeleton alone never blocks on itself: it locks a mutex only when it does
   not hold it, unlocks only what it holds, and holds nothing when the call returns. *)
Fixpoint wf_from (sk : list instr) (hl hm : bool) : bool :=
  match sk with
  | [] => negb hl && negb hm
  | Lock L :: r => negb hl && wf_from r true hm
  | Lock M :: r => negb hm && wf_from r hl true
  | Unlock L :: r => hl && wf_from r false hm
  | Unlock M :: r => hm && wf_from r hl false
  | _ :: r => wf_from r hl hm
  end.
Definition solo_ok (sk : list instr) : bool := wf_from sk false false.
(* the schedule that runs whole messages one after the other, in the given order of (thread, index):
   one activation of a skeleton with a single Work takes length sk + 3 steps, plus the return *)
Definition whole_msgs (skf : nat -> list instr) (order : list (nat * nat)) : list nat :=
  flat_map (fun x => repeat (fst x) (length (skf (fst x)) + 4)) order.

(* ---- two pipeline objects in one process (harness mode "twopipes") -------------------------------
   Each pipeline object owns its lock and its SeqNumberAttr (SimplePipeline::addSeqNumber creates a
   fresh one per call).  A trace of the process tags every event with the pipeline it belongs to;
   the state is a PAIR of acceptor states and an event moves only the component of its own pipeline:
   runs of A and B may overlap in time, and each pipeline counts its own deliveries from 0. *)
Inductive pipe := PA | PB.
Definition tev := (pipe * event)%type.
Definition proj_pipe (p : pipe) (tr : list tev) : list event :=
  flat_map (fun te => match fst te, p with PA, PA | PB, PB => [snd te] | _, _ => [] end) tr.
Definition astep2 (qa : nat -> nat) (na : nat) (qb : nat -> nat) (nb : nat) (s : astate * astate) (te : tev)
  : option (astate * astate) :=
  match fst te with
  | PA => match astep qa na (fst s) (snd te) with Some a' => Some (a', snd s) | None => None end
  | PB => match astep qb nb (snd s) (snd te) with Some b' => Some (fst s, b') | None => None end
  end.
Fixpoint arun2 (qa : nat -> nat) (na : nat) (qb : nat -> nat) (nb : nat) (s : astate * astate) (tr : list tev)
  : option (astate * astate) :=
  match tr with
  | [] => Some s
  | e :: r => match astep2 qa na qb nb s e with Some s' => arun2 qa na qb nb s' r | None => None end
  end.
Definition accept_two (qa : nat -> nat) (na : nat) (qb : nat -> nat) (nb : nat) (tr : list tev) : bool :=
  match arun2 qa na qb nb (a0, a0) tr with Some s => a_final qa na (fst s) && a_final qb nb (snd s) | None => false end.
