(* C08 — lemmas about GzipDefs.v *)
From Coq Require Import List NArith ZArith Bool Lia Arith ZifyN ZifyBool ZifyNat.
Ltac Zify.zify_post_hook ::= Z.div_mod_to_equations.
Import ListNotations.
Require Import QtlVerif.GzipDefs.
Local Open Scope N_scope.

(* ------------------------------------------------------------------ CRC: table = bitwise *)
Lemma odd_lxor a b : N.odd (N.lxor a b) = xorb (N.odd a) (N.odd b).
Proof. rewrite <- !N.bit0_odd. apply N.lxor_spec. Qed.

Lemma crc_step_lxor p a b : crc_step p (N.lxor a b) = N.lxor (crc_step p a) (crc_step p b).
Proof.
  unfold crc_step. rewrite odd_lxor, N.shiftr_lxor.
  set (x := N.shiftr a 1). set (y := N.shiftr b 1).
  destruct (N.odd a), (N.odd b); simpl.
  - rewrite (N.lxor_comm y p), N.lxor_assoc, <- (N.lxor_assoc p p y).
    rewrite N.lxor_nilpotent, N.lxor_0_l. reflexivity.
  - rewrite !N.lxor_assoc. f_equal. apply N.lxor_comm.
  - rewrite N.lxor_assoc. reflexivity.
  - reflexivity.
Qed.
Lemma crc_iter_lxor p k : forall a b, crc_iter p k (N.lxor a b) = N.lxor (crc_iter p k a) (crc_iter p k b).
Proof. induction k as [|k IH]; intros a b; simpl; [reflexivity|]. rewrite crc_step_lxor. apply IH. Qed.

(* a number whose low k bits are zero just shifts *)
Lemma crc_iter_shift p k : forall x, (forall j, j < N.of_nat k -> N.testbit x j = false) ->
  crc_iter p k x = N.shiftr x (N.of_nat k).
Proof.
  induction k as [|k IH]; intros x Hlow.
  - cbn [crc_iter]. change (N.of_nat 0) with 0. rewrite N.shiftr_0_r. reflexivity.
  - cbn [crc_iter]. unfold crc_step.
    assert (Hodd : N.odd x = false). { rewrite <- N.bit0_odd. apply Hlow. lia. }
    rewrite Hodd. rewrite IH.
    + rewrite N.shiftr_shiftr. f_equal. lia.
    + intros j Hj. rewrite N.shiftr_spec by lia. apply Hlow. lia.
Qed.

Lemma split_low x : x = N.lxor (N.land x 255) (N.shiftl (N.shiftr x 8) 8).
Proof.
  apply N.bits_inj. intro j. rewrite N.lxor_spec, N.land_spec.
  destruct (N.ltb_spec j 8) as [Hlt|Hge].
  - rewrite N.shiftl_spec_low by lia.
    replace (N.testbit 255 j) with true.
    + rewrite andb_true_r, xorb_false_r. reflexivity.
    + assert (H : j = 0 \/ j = 1 \/ j = 2 \/ j = 3 \/ j = 4 \/ j = 5 \/ j = 6 \/ j = 7) by lia.
      repeat (destruct H as [->|H]; [reflexivity|]). subst; reflexivity.
  - rewrite N.shiftl_spec_high by lia. rewrite N.shiftr_spec by lia.
    replace (j - 8 + 8) with j by lia.
    replace (N.testbit 255 j) with false.
    + rewrite andb_false_r. destruct (N.testbit x j); reflexivity.
    + symmetry. apply N.bits_above_log2. change (N.log2 255) with 7. lia.
Qed.

Lemma table_nth p i : (i < 256)%nat -> nth i (crc_table p) 0 = crc_iter p 8 (N.of_nat i).
Proof.
  intros Hi. unfold crc_table.
  set (f := fun i => crc_iter p 8 (N.of_nat i)).
  rewrite (nth_indep _ 0 (f 0%nat)) by (rewrite map_length, seq_length; exact Hi).
  rewrite (map_nth f). rewrite seq_nth by exact Hi. reflexivity.
Qed.

Lemma land255_lt x : N.land x 255 < 256.
Proof. change 255 with (N.ones 8). rewrite N.land_ones. apply N.mod_lt. discriminate. Qed.

(* one table-driven update = eight shift-xor steps, for every polynomial *)
Theorem upd_table_correct p crc b : b < 256 ->
  crc_update_table (crc_table p) 255 crc b = crc_update_bitwise p crc b.
Proof.
  intros Hb. unfold crc_update_table, crc_update_bitwise.
  set (x := N.lxor crc b).
  assert (Hlt : (N.to_nat (N.land x 255) < 256)%nat) by (pose proof (land255_lt x); lia).
  rewrite table_nth by exact Hlt. rewrite N2Nat.id.
  rewrite (split_low x) at 2. rewrite crc_iter_lxor. f_equal.
  rewrite crc_iter_shift.
  - change (N.of_nat 8) with 8. rewrite N.shiftr_shiftl_l by lia. rewrite N.sub_diag, N.shiftl_0_r.
    unfold x. rewrite N.shiftr_lxor.
    replace (N.shiftr b 8) with 0; [rewrite N.lxor_0_r; reflexivity|].
    symmetry. apply N.shiftr_eq_0. destruct (N.eq_dec b 0) as [->|Hne]; [reflexivity|].
    apply N.log2_lt_pow2; [lia|]. exact Hb.
  - intros j Hj. change (N.of_nat 8) with 8 in Hj. apply N.shiftl_spec_low. exact Hj.
Qed.

Lemma fold_upd_eq p : forall d c, wf_bytes d ->
  fold_left (crc_update_table (crc_table p) 255) d c = fold_left (crc_update_bitwise p) d c.
Proof.
  induction d as [|x d IH]; intros c Hw; [reflexivity|].
  inversion Hw; subst. cbn [fold_left]. rewrite upd_table_correct by assumption. apply IH. assumption.
Qed.

(* ------------------------------------------------------------------ good configurations *)
Lemma andb_split a b : a && b = true -> a = true /\ b = true.
Proof. apply andb_true_iff. Qed.
Ltac split_good H :=
  repeat match type of H with
         | _ && _ = true => let H2 := fresh "G" in apply andb_split in H; destruct H as [H H2]
         end.

Record cfg_good (c : gz_cfg) : Prop := {
  cg_poly : g_poly c = rfc_poly; cg_init : g_init c = ones32; cg_xor : g_xorout c = ones32;
  cg_mask : g_mask c = 255; cg_buf : 0 < g_buf c;
  cg_hdr : header_okb (g_header c) = true;
  cg_front : g_front c = 6; cg_sa : g_sub_a c = 6; cg_sb : g_sub_b c = 4; cg_guard : g_guard c = 10;
  cg_tr : g_trailer c = [TCrc; TSize]; cg_end : g_endian c = LE }.

Lemma tfields_eqb_eq a b : tfields_eqb a b = true -> a = b.
Proof.
  revert b. induction a as [|x a IH]; destruct b as [|y b]; cbn; try discriminate; [reflexivity|].
  intros H. apply andb_split in H. destruct H as [H1 H2]. f_equal; [|apply IH, H2].
  destruct x, y; try discriminate; reflexivity.
Qed.

Lemma cfg_goodb_good c : cfg_goodb c = true -> cfg_good c.
Proof.
  unfold cfg_goodb. intros H. split_good H.
  constructor; try (apply N.eqb_eq; assumption); try assumption.
  - apply N.ltb_lt; assumption.
  - apply tfields_eqb_eq; assumption.
  - destruct (g_endian c); [reflexivity|discriminate].
Qed.

(* ------------------------------------------------------------------ crc32 = bitwise spec, chunking *)
Theorem crc_table_correct c d : cfg_good c -> wf_bytes d -> crc32 c d = crc32_bitwise d.
Proof.
  intros G Hw. unfold crc32, crc32_bitwise.
  rewrite (cg_poly c G), (cg_init c G), (cg_xor c G), (cg_mask c G).
  rewrite fold_upd_eq by exact Hw. reflexivity.
Qed.

Lemma fold_concat {A B} (f : A -> B -> A) : forall (cs : list (list B)) (a : A),
  fold_left f (concat cs) a = fold_left (fun a ch => fold_left f ch a) cs a.
Proof.
  induction cs as [|ch cs IH]; intros a; [reflexivity|].
  cbn [concat fold_left]. rewrite fold_left_app. apply IH.
Qed.

(* the running crc carried across ANY split into chunks = crc of the concatenation *)
Theorem crc_chunking c cs : crc_chunks c cs = crc32 c (concat cs).
Proof. unfold crc_chunks, crc32. rewrite fold_concat. reflexivity. Qed.

Lemma rev'_rev {A} (l : list A) : rev' l = rev l.
Proof. unfold rev'. rewrite <- rev_alt. reflexivity. Qed.

Lemma chunk_go_concat n : forall d cur k acc,
  concat (chunk_go n d cur k acc) = concat (rev acc) ++ rev cur ++ d.
Proof.
  induction d as [|x d IH]; intros cur k acc; cbn [chunk_go].
  - rewrite rev'_rev. destruct cur as [|y cur].
    + cbn. rewrite app_nil_r. reflexivity.
    + rewrite rev'_rev. cbn [rev]. rewrite concat_app. cbn [concat]. rewrite !app_nil_r. reflexivity.
  - destruct (N.succ k =? n).
    + rewrite IH. rewrite rev'_rev. cbn [rev]. rewrite concat_app. cbn [concat app].
      rewrite app_nil_r, <- !app_assoc. reflexivity.
    + rewrite IH. cbn [rev]. rewrite <- !app_assoc. reflexivity.
Qed.
Lemma chunks_of_concat n d : concat (chunks_of n d) = d.
Proof. unfold chunks_of. rewrite chunk_go_concat. reflexivity. Qed.

(* every chunk but the last has exactly n bytes, none is empty, the last has <= n (the read loop) *)
Lemma file_crc_crc32 c d : file_crc c d = crc32 c d.
Proof. unfold file_crc. rewrite crc_chunking, chunks_of_concat. reflexivity. Qed.

Theorem file_crc_correct c d : cfg_good c -> wf_bytes d -> file_crc c d = crc32_bitwise d.
Proof. intros G Hw. rewrite file_crc_crc32. apply crc_table_correct; assumption. Qed.

(* ------------------------------------------------------------------ 32-bit bounds *)
Lemma lxor_bound a b : a < two32 -> b < two32 -> N.lxor a b < two32.
Proof.
  unfold two32. intros Ha Hb. destruct (N.eq_dec (N.lxor a b) 0) as [E|E]; [rewrite E; reflexivity|].
  change 4294967296 with (2 ^ 32). apply N.log2_lt_pow2; [lia|].
  eapply N.le_lt_trans; [apply N.log2_lxor|]. apply N.max_lub_lt.
  - destruct (N.eq_dec a 0) as [->|]; [reflexivity|]. apply N.log2_lt_pow2; [lia|exact Ha].
  - destruct (N.eq_dec b 0) as [->|]; [reflexivity|]. apply N.log2_lt_pow2; [lia|exact Hb].
Qed.
Lemma crc_step_bound x : x < two32 -> crc_step rfc_poly x < two32.
Proof.
  intros H. unfold crc_step.
  assert (Hs : N.shiftr x 1 < two32).
  { rewrite N.shiftr_div_pow2. change (2 ^ 1) with 2. unfold two32 in *. apply N.div_lt_upper_bound; lia. }
  destruct (N.odd x); [|exact Hs]. apply lxor_bound; [exact Hs|reflexivity].
Qed.
Lemma crc_iter_bound k : forall x, x < two32 -> crc_iter rfc_poly k x < two32.
Proof. induction k as [|k IH]; intros x H; cbn [crc_iter]; [exact H|]. apply IH, crc_step_bound, H. Qed.
Lemma crc32_bitwise_bound d : wf_bytes d -> crc32_bitwise d < two32.
Proof.
  intros Hw. unfold crc32_bitwise. apply lxor_bound; [|reflexivity].
  assert (H : forall l c, wf_bytes l -> c < two32 -> fold_left (crc_update_bitwise rfc_poly) l c < two32).
  { induction l as [|x l IH]; intros c Hl Hc; cbn [fold_left]; [exact Hc|].
    inversion Hl; subst. apply IH; [assumption|]. unfold crc_update_bitwise.
    apply crc_iter_bound, lxor_bound; [exact Hc|]. unfold two32. lia. }
  apply H; [exact Hw|reflexivity].
Qed.

(* ------------------------------------------------------------------ framing *)
Lemma un_le32_le32 x r : x < two32 -> un_le32 (le32 x ++ r) = Some (x, r).
Proof.
  unfold two32. intros H. unfold le32. cbn [app un_le32]. f_equal. f_equal.
  assert (E : x = x mod 256 + 256 * ((x / 256) mod 256) + 65536 * ((x / 65536) mod 256) + 16777216 * ((x / 16777216) mod 256)) by lia.
  symmetry. exact E.
Qed.

Lemma lenN_acc : forall (d : bytes) n, fold_left (fun n _ => N.succ n) d n = n + lenN d.
Proof.
  unfold lenN. induction d as [|x d IH]; intros n; cbn [fold_left]; [lia|].
  rewrite IH, (IH (N.succ 0)). lia.
Qed.
Lemma lenN_length d : lenN d = N.of_nat (length d).
Proof.
  induction d as [|x d IH]; [reflexivity|]. unfold lenN. cbn [fold_left length]. rewrite lenN_acc, IH. lia.
Qed.

Lemma trailer_rfc c d : cfg_good c -> wf_bytes d -> trailer c d = rfc_trailer d.
Proof.
  intros G Hw. unfold trailer, rfc_trailer. rewrite (cg_tr c G), (cg_end c G).
  cbn [flat_map enc32 field_value]. rewrite app_nil_r, file_crc_correct by assumption. reflexivity.
Qed.

Lemma two_elems (l : bytes) : length l = 2%nat -> exists a b, l = [a; b].
Proof. destruct l as [|a [|b [|? ?]]]; try discriminate. intros _. exists a, b. reflexivity. Qed.

Section Slice.
  Variable deflate : bytes -> bytes.
  Variable zhdr : bytes.
  Hypothesis deflate_nonnil : forall d, deflate d <> [].
  Hypothesis zhdr_two : length zhdr = 2%nat.
  (* the slice of qCompress's output that compressFile() writes is exactly the raw deflate stream *)
  Theorem slice_is_raw_deflate c d : cfg_good c ->
    g_guard c < lenN (qcompress deflate zhdr d) /\ slice c (qcompress deflate zhdr d) = deflate d.
  Proof.
    intros G. unfold slice, qcompress. rewrite (cg_front c G), (cg_sa c G), (cg_sb c G), (cg_guard c G).
    destruct (two_elems zhdr zhdr_two) as (z1 & z2 & E). rewrite E.
    split.
    - rewrite lenN_length. unfold be32. cbn [app length]. rewrite app_length. cbn [length].
      pose proof (deflate_nonnil d) as Hn. destruct (deflate d) as [|y yr]; [contradiction|]. cbn [length]. lia.
    - unfold be32. cbn [app]. change (N.to_nat 6) with 6%nat. change (N.to_nat 4) with 4%nat. cbn [skipn length].
      rewrite app_length. cbn [length].
      replace (S (S (S (S (S (S (length (deflate d) + 4))))))  - 6 - 4)%nat with (length (deflate d) + 0)%nat by lia.
      rewrite firstn_app_2. cbn [firstn]. apply app_nil_r.
  Qed.

  Theorem compress_file_is_gzip_member c d : cfg_good c -> wf_bytes d ->
    compress_file deflate zhdr c d = gzip_member deflate c d.
  Proof.
    intros G Hw. unfold compress_file, gzip_member, body_of.
    destruct (slice_is_raw_deflate c d G) as [Hg Hs].
    apply N.ltb_lt in Hg. rewrite Hg, Hs, trailer_rfc by assumption. reflexivity.
  Qed.

End Slice.

Section Zlib.
  Variable deflate : bytes -> bytes.
  Variable inflate : bytes -> option (bytes * bytes).
  Variable zhdr : bytes.
  (* the zlib oracle: inflate undoes deflate and stops at the end of the deflate stream *)
  Hypothesis inflate_deflate : forall d rest, inflate (deflate d ++ rest) = Some (d, rest).
  (* a deflate stream has at least its block header; the zlib header is two bytes (RFC 1950) *)
  Hypothesis deflate_nonnil : forall d, deflate d <> [].
  Hypothesis zhdr_two : length zhdr = 2%nat.

  (* the RFC 1952 reader accepts the member and returns d: the CRC32 and ISIZE fields it checks
     against the decoded data are the ones written *)
  Theorem gunzip_member_roundtrip c d rest : cfg_good c -> wf_bytes d ->
    gunzip_member inflate (gzip_member deflate c d ++ rest) = Some (d, rest).
  Proof.
    intros G Hw. unfold gzip_member.
    pose proof (cg_hdr c G) as Hh. unfold header_okb in Hh.
    destruct (g_header c) as [|i1 [|i2 [|cm [|fl [|m0 [|m1 [|m2 [|m3 [|xf [|os [|? ?]]]]]]]]]]]; try discriminate Hh.
    split_good Hh.
    apply N.eqb_eq in Hh, G1, G2, G3. subst i1 i2 cm fl.
    cbn [app]. unfold gunzip_member. cbn [N.eqb Pos.eqb andb N.ltb N.compare N.testbit Pos.testbit].
    change (31 =? 31) with true. change (139 =? 139) with true. change (8 =? 8) with true.
    change (0 <? 32) with true. cbn [andb N.testbit obind].
    rewrite <- app_assoc. rewrite inflate_deflate. cbn [obind fst snd].
    unfold rfc_trailer. rewrite <- app_assoc.
    rewrite un_le32_le32 by (apply crc32_bitwise_bound; exact Hw). cbn [obind fst snd].
    rewrite un_le32_le32 by (apply N.mod_lt; discriminate). cbn [obind fst snd].
    rewrite !N.eqb_refl. reflexivity.
  Qed.

  Theorem gzip_roundtrip c d : cfg_good c -> wf_bytes d ->
    gunzip inflate (gzip_member deflate c d) = Some d.
  Proof.
    intros G Hw. unfold gunzip. rewrite <- (app_nil_r (gzip_member deflate c d)).
    rewrite gunzip_member_roundtrip by assumption. reflexivity.
  Qed.

  Lemma bytes_eqb_refl d : bytes_eqb d d = true.
  Proof. induction d as [|x d IH]; [reflexivity|]. cbn. rewrite N.eqb_refl. exact IH. Qed.
  Lemma bytes_eqb_eq : forall a b, bytes_eqb a b = true -> a = b.
  Proof.
    induction a as [|x a IH]; destruct b as [|y b]; cbn; try discriminate; [reflexivity|].
    destruct (N.eqb_spec x y); [|discriminate]. intros H. subst. f_equal. apply IH, H.
  Qed.

  (* what the file written by compressFile() is, end to end *)
  Theorem compressed_file_decodes c d : cfg_good c -> wf_bytes d ->
    gunzip inflate (compress_file deflate zhdr c d) = Some d.
  Proof. intros G Hw. rewrite (compress_file_is_gzip_member deflate zhdr deflate_nonnil zhdr_two) by assumption. apply gzip_roundtrip; assumption. Qed.

  Theorem oracle_holds c d : cfg_good c -> wf_bytes d ->
    prop_c08_b inflate d (compress_file deflate zhdr c d) = true.
  Proof. intros G Hw. unfold prop_c08_b. rewrite compressed_file_decodes by assumption. apply bytes_eqb_refl. Qed.

  (* and conversely: the oracle accepts a file only if the reader decodes it to the expected bytes *)
  Theorem oracle_sound expected file : prop_c08_b inflate expected file = true -> gunzip inflate file = Some expected.
  Proof.
    unfold prop_c08_b. destruct (gunzip inflate file) as [d|]; [|discriminate].
    intros H. apply bytes_eqb_eq in H. subst. reflexivity.
  Qed.
End Zlib.

(* header bytes of a good configuration: ID1 ID2 CM=8 FLG=0, ten bytes *)
Theorem header_conforms c : cfg_good c ->
  length (g_header c) = 10%nat /\ nth 0 (g_header c) 0 = 31 /\ nth 1 (g_header c) 0 = 139 /\
  nth 2 (g_header c) 0 = 8 /\ nth 3 (g_header c) 0 = 0 /\ wf_bytes (g_header c).
Proof.
  intros G. pose proof (cg_hdr c G) as Hh. unfold header_okb in Hh.
  destruct (g_header c) as [|i1 [|i2 [|cm [|fl [|m0 [|m1 [|m2 [|m3 [|xf [|os [|? ?]]]]]]]]]]]; try discriminate Hh.
  split_good Hh. apply N.eqb_eq in Hh, G1, G2, G3. subst. cbn [nth length].
  repeat split; try reflexivity.
  unfold wf_bytesb in G0. rewrite forallb_forall in G0. apply Forall_forall. intros x Hx.
  apply N.ltb_lt, G0, Hx.
Qed.

(* ------------------------------------------------------------------ step order *)
Lemma before_spec a b l : before a b l = true ->
  exists i j, index_of a l = Some i /\ index_of b l = Some j /\ (i < j)%nat.
Proof.
  unfold before. destruct (index_of a l) as [i|]; [|discriminate]. destruct (index_of b l) as [j|]; [|discriminate].
  intros H. exists i, j. repeat split. apply Nat.ltb_lt, H.
Qed.
Theorem removed_last_spec l : removed_lastb l = true ->
  (exists pre, l = pre ++ [CRemoveOrig] /\ ~ In CRemoveOrig pre) /\
  before CCloseOut CRemoveOrig l = true /\ before CWriteTrailer CCloseOut l = true /\
  before CWriteBody CWriteTrailer l = true /\ before CWriteHeader CWriteBody l = true.
Proof.
  unfold removed_lastb. intros H. split_good H.
  repeat split; try assumption.
  destruct (rev l) as [|x r] eqn:E; [discriminate|]. destruct x; try discriminate.
  exists (rev r). assert (El : l = rev r ++ [CRemoveOrig]).
  { rewrite <- (rev_involutive l), E. reflexivity. }
  split; [exact El|]. intros Hin.
  apply Nat.eqb_eq in H. unfold count_of in H. rewrite El, filter_app, app_length in H. cbn in H.
  assert (Hpos : (0 < length (filter (cstmt_eqb CRemoveOrig) (rev r)))%nat).
  { destruct (filter (cstmt_eqb CRemoveOrig) (rev r)) eqn:F; [|cbn; lia].
    assert (Hf : In CRemoveOrig (filter (cstmt_eqb CRemoveOrig) (rev r))) by (apply filter_In; split; [exact Hin|reflexivity]).
    rewrite F in Hf. destruct Hf. }
  lia.
Qed.

(* ------------------------------------------------------------------ the hypotheses are satisfiable:
   a toy self-delimiting codec (marker 1 before every byte, 0 at the end) instantiates the Section,
   so the round-trip theorems are not vacuous *)
Definition toy_deflate (d : bytes) : bytes := flat_map (fun b => [1; b]) d ++ [0].
Fixpoint toy_inflate (b : bytes) : option (bytes * bytes) :=
  match b with
  | 0 :: r => Some ([], r)
  | _ :: x :: r => match toy_inflate r with Some (d, rest) => Some (x :: d, rest) | None => None end
  | _ => None
  end.
Lemma toy_inflate_deflate d rest : toy_inflate (toy_deflate d ++ rest) = Some (d, rest).
Proof.
  unfold toy_deflate. induction d as [|x d IH]; [reflexivity|].
  cbn [flat_map app]. cbn [toy_inflate]. rewrite IH. reflexivity.
Qed.
Lemma toy_deflate_nonnil d : toy_deflate d <> [].
Proof. unfold toy_deflate. destruct d; discriminate. Qed.
