(* C14 — totality (no out-of-range access, no int overflow, termination) and resource bounds of the
   checked transcriptions in SafetyDefs.v. *)
From Coq Require Import List NArith ZArith Bool Lia ZifyBool.
Require Import QtlVerif.SrcSafety QtlVerif.FuncCleanupDefs QtlVerif.FuncCleanupProofs QtlVerif.SafetyDefs.
Import ListNotations.
Local Open Scope Z_scope.
Ltac Zify.zify_post_hook ::= Z.div_mod_to_equations.

Lemma len_app (a b : list N) : len (a ++ b) = len a + len b.
Proof. unfold len. rewrite app_length. lia. Qed.
Lemma len_repeat (c : N) n : len (repeat c n) = Z.of_nat n.
Proof. unfold len. rewrite repeat_length. reflexivity. Qed.
Lemma len_cons (c : N) l : len (c :: l) = 1 + len l.
Proof. unfold len. cbn [length]. lia. Qed.
Lemma len_nil : len (@nil N) = 0. Proof. reflexivity. Qed.

Lemma left_c_ok s n : 0 <= n <= len s -> exists r, left_c s n = Some r /\ len r = n.
Proof.
  intros H. unfold left_c, truncate_c. destruct (Z.leb_spec 0 n); [|lia]. destruct (Z.leb_spec n (len s)); [|lia]. cbn [andb].
  eexists; split; [reflexivity|]. unfold len in *. rewrite firstn_length. lia.
Qed.
Lemma right_c_ok s n : 0 <= n <= len s -> exists r, right_c s n = Some r /\ len r = n.
Proof.
  intros H. unfold right_c. destruct (Z.leb_spec 0 n); [|lia]. destruct (Z.leb_spec n (len s)); [|lia]. cbn [andb].
  eexists; split; [reflexivity|]. unfold len in *. rewrite skipn_length. lia.
Qed.
Lemma fill_c_ok n c : 0 <= n -> exists r, fill_c n c = Some r /\ len r = n.
Proof. intros H. unfold fill_c. destruct (Z.leb_spec 0 n); [|lia]. eexists; split; [reflexivity|]. rewrite len_repeat. lia. Qed.
Lemma is_empty_len s : is_empty s = false -> 1 <= len s.
Proof. destruct s; [discriminate|]. intros _. rewrite len_cons. pose proof (len_nonneg s). lia. Qed.

(* ---- QString::toInt stays in the int range ---- *)
Lemma to_int_range l v : to_int l = (v, true) -> INT_MIN <= v <= INT_MAX.
Proof.
  unfold to_int. destruct (trimmed l) as [|c r]; [discriminate|].
  destruct (if (c =? 45)%N then (true, r) else if (c =? 43)%N then (false, r) else (false, c :: r)) as [neg ds].
  destruct ds; [discriminate|]. destruct (digits_val _ 0) as [x|]; [|discriminate].
  destruct ((INT_MIN <=? (if neg then - x else x)) && ((if neg then - x else x) <=? INT_MAX)) eqn:E; [|discriminate].
  intros H. injection H as <-. lia.
Qed.

(* ---- applyPadding: total, and |result| <= max(|value|, width) ---- *)
Theorem apply_padding_total sp v : width sp <= INT_MAX -> len v <= INT_MAX ->
  exists r, apply_padding_c sp v = Some r /\ len r <= Z.max (len v) (width sp).
Proof.
  intros Hw Hv. pose proof (len_nonneg v) as Hv0. unfold apply_padding_c.
  destruct (Z.leb_spec (width sp) 0); [exists v; split; [reflexivity|lia]|].
  destruct (is_monly (mode sp)).
  { destruct (Z.leb_spec (len v) (width sp)); [exists v; split; [reflexivity|lia]|].
    destruct (is_right (al sp)); [destruct (right_c_ok v (width sp)) as (r & -> & Hr)|destruct (left_c_ok v (width sp)) as (r & -> & Hr)];
      try lia; exists r; (split; [reflexivity|lia]). }
  destruct (is_anone (al sp)) eqn:Ea; [exists v; split; [reflexivity|lia]|].
  match goal with |- exists r, bind ?e _ = Some r /\ _ => assert (Hval : exists val, e = Some val
               /\ len val <= len v /\ (len val <= Z.max (len v) (width sp))) end.
  { destruct (is_mtrunc (mode sp) && (width sp <? len v)) eqn:E; [|exists v; split; [reflexivity|lia]].
    apply andb_prop in E as [_ E]. apply Z.ltb_lt in E.
    destruct (is_right (al sp)); [destruct (right_c_ok v (width sp)) as (r & -> & Hr)|destruct (left_c_ok v (width sp)) as (r & -> & Hr)];
      try lia; exists r; (split; [reflexivity|lia]). }
  destruct Hval as (val & -> & Hl1 & Hl2). cbn [bind]. pose proof (len_nonneg val) as Hval0.
  destruct (Z.leb_spec (width sp) (len val)); [exists val; split; [reflexivity|lia]|].
  rewrite ck_ok by (unfold INT_MIN, INT_MAX in *; lia). cbn [bind].
  set (padding := width sp - len val) in *.
  destruct (al sp); [discriminate| | |].
  - destruct (fill_c_ok padding (fill sp)) as (f & -> & Hf); [lia|]. cbn [bind]. eexists; split; [reflexivity|]. rewrite len_app. lia.
  - destruct (fill_c_ok padding (fill sp)) as (f & -> & Hf); [lia|]. cbn [bind]. eexists; split; [reflexivity|]. rewrite len_app. lia.
  - cbn zeta. rewrite ck_ok by (unfold INT_MIN, INT_MAX in *; lia). cbn [bind].
    destruct (fill_c_ok (padding / 2) (fill sp)) as (l & -> & Hlf); [lia|]. cbn [bind].
    destruct (fill_c_ok (padding - padding / 2) (fill sp)) as (r & -> & Hrf); [lia|]. cbn [bind].
    eexists; split; [reflexivity|]. rewrite !len_app. lia.
Qed.

(* ---- parseFormatSpec: total; an accepted width is a positive int ---- *)
Theorem parse_spec_total s0 : exists r, parse_spec_c s0 = Some r /\ (forall sp, r = Some sp -> 0 < width sp <= INT_MAX).
Proof.
  unfold parse_spec_c. destruct (is_empty s0) eqn:E0; [eexists; split; [reflexivity|discriminate]|].
  match goal with |- exists r, bind ?e _ = Some r /\ _ => assert (Hsb : exists s bang, e = Some (s, bang)) end.
  { destruct (ends_with s0 [src_trunc_suffix]) eqn:E; [|eauto]. apply ends_with_len in E. change (len [src_trunc_suffix]) with 1 in E.
    destruct (chop_c_ok s0 1) as (g & -> & _); [lia|]. cbn [bind]. eauto. }
  destruct Hsb as (s & bang & ->). cbn [bind].
  destruct (bang && is_empty s) eqn:Eb; [eexists; split; [reflexivity|discriminate]|].
  pose proof (len_nonneg s) as Hs0.
  match goal with |- exists r, bind ?e _ = Some r /\ _ => assert (Hr1 : exists fl a1 ex pos1, e = Some (fl, a1, ex, pos1) /\ (pos1 = 0 \/ pos1 = 2)) end.
  { destruct (Z.leb_spec 2 (len s)); [|do 4 eexists; split; [reflexivity|lia]].
    destruct (at_ok s 1) as [pa ->]; [lia|]. cbn [bind]. destruct (is_anone (align_of pa)); [do 4 eexists; split; [reflexivity|lia]|].
    destruct (at_ok s 0) as [f ->]; [lia|]. cbn [bind]. do 4 eexists; split; [reflexivity|lia]. }
  destruct Hr1 as (fl & a1 & ex & pos1 & -> & Hp1). cbn [bind].
  match goal with |- exists r, bind ?e _ = Some r /\ _ => assert (Hr2 : exists a2 pos2, e = Some (a2, pos2) /\ 0 <= pos2 <= 2) end.
  { destruct (is_anone a1 && negb (is_empty s)) eqn:E; [|do 2 eexists; split; [reflexivity|lia]].
    apply andb_prop in E as [_ E]. apply negb_true_iff, is_empty_len in E.
    destruct (at_ok s 0) as [pa ->]; [lia|]. cbn [bind]. destruct (is_anone (align_of pa)); do 2 eexists; (split; [reflexivity|lia]). }
  destruct Hr2 as (a2 & pos2 & -> & Hp2). cbn [bind].
  destruct (is_anone a2).
  - destruct bang; [|eexists; split; [reflexivity|discriminate]].
    destruct (to_int s) as [v ok] eqn:Et. destruct (ok && (0 <? v)) eqn:E; [|eexists; split; [reflexivity|discriminate]].
    apply andb_prop in E as [E1 E2]. subst ok. apply to_int_range in Et.
    eexists; split; [reflexivity|]. intros sp Hsp; injection Hsp as <-. cbn. lia.
  - destruct (Z.leb_spec (len s) pos2); [eexists; split; [reflexivity|discriminate]|].
    destruct (mid_c_ok s pos2 (-1)) as (ws & -> & _); [lia|left; reflexivity|]. cbn [bind].
    destruct (to_int ws) as [v ok] eqn:Et. destruct (negb ok || (v <=? 0)) eqn:E; [eexists; split; [reflexivity|discriminate]|].
    apply orb_false_elim in E as [E1 E2]. apply negb_false_iff in E1. subst ok. apply to_int_range in Et.
    eexists; split; [reflexivity|]. intros sp Hsp; injection Hsp as <-. cbn. lia.
Qed.

(* ---- ShortFileToken ---- *)
Theorem short_file_total base file : len file <= INT_MAX ->
  exists r, short_file_c base file = Some r /\ len r <= len file.
Proof.
  intros Hf. pose proof (len_nonneg file) as Hf0. unfold short_file_c. destruct (is_empty base).
  - set (ls := if last_index file [47%N] =? -1 then last_index file [92%N] else last_index file [47%N]).
    assert (Hls : ls = -1 \/ (0 <= ls /\ ls + 1 <= len file)).
    { unfold ls. destruct (Z.eqb_spec (last_index file [47%N]) (-1)).
      - destruct (last_index_range file [92%N] _ eq_refl) as [H|H]; [left; exact H|right; exact H].
      - destruct (last_index_range file [47%N] _ eq_refl) as [H|H]; [contradiction|right; exact H]. }
    cbn zeta. fold ls. destruct (Z.eqb_spec ls (-1)); [exists file; split; [reflexivity|lia]|].
    destruct Hls as [Hls|Hls]; [contradiction|]. rewrite ck_ok by (unfold INT_MIN, INT_MAX in *; lia). cbn [bind].
    apply mid_c_ok; [lia|left; reflexivity].
  - destruct (starts_with file base) eqn:E; [|exists file; split; [reflexivity|lia]]. apply starts_with_len in E.
    destruct (mid_c_ok file (len base) (-1)) as (r & -> & Hr); [pose proof (len_nonneg base); lia|left; reflexivity|]. cbn [bind].
    destruct (starts_with r [47%N] || starts_with r [92%N]) eqn:E2; [|exists r; split; [reflexivity|lia]].
    assert (1 <= len r) by (apply orb_prop in E2 as [E2|E2]; apply starts_with_len in E2; exact E2).
    destruct (mid_c_ok r 1 (-1)) as (r2 & -> & Hr2); [lia|left; reflexivity|]. exists r2. split; [reflexivity|lia].
Qed.

(* ---- PrettyFormatter: the table index is in range for the five message types ---- *)
Theorem pretty_index_safe : forall t : mtype, exists c, type_letter_c t = Some c.
Proof. intros t. destruct t; vm_compute; eauto. Qed.

(* the width arithmetic fits an int and the padding count is never negative; the remembered
   category width stays within [0, INT_MAX] *)
Theorem pretty_total colorize maxw cw t cat msg :
  maxw <= INT_MAX -> 0 <= cw <= INT_MAX ->
  len msg + (match cat with Some c => len c | None => 0 end) <= INT_MAX - 200 ->
  exists out cw', pretty_c colorize maxw cw t cat msg = Some (out, cw') /\ 0 <= cw' <= INT_MAX.
Proof.
  intros Hm Hcw Hl. unfold pretty_c. pose proof (len_nonneg msg) as Hm0.
  assert (Hc0 : 0 <= match cat with Some c => len c | None => 0 end) by (destruct cat; [apply len_nonneg|lia]).
  cbn zeta. rewrite ck_ok.
  2:{ unfold src_pretty_est_base, src_pretty_est_extra, src_pretty_est_color, INT_MIN, INT_MAX in *. destruct colorize; destruct cat; lia. }
  cbn [bind]. destruct (pretty_index_safe t) as [letter ->]. cbn [bind].
  match goal with |- exists out cw', bind ?e _ = _ /\ _ => assert (Hcfl : exists cfl, e = Some cfl /\ 0 <= cfl <= INT_MAX) end.
  { destruct cat; [|exists 0; split; [reflexivity|unfold INT_MAX; lia]].
    rewrite ck_ok; unfold src_pretty_cat_extra, INT_MIN, INT_MAX in *; [eexists; split; [reflexivity|lia]|lia]. }
  destruct Hcfl as (cfl & -> & Hcfl). cbn [bind].
  destruct (Z.ltb_spec 0 maxw).
  - set (cw1 := if cw <? cfl then Z.min cfl maxw else cw).
    assert (Hcw1 : 0 <= cw1 <= INT_MAX) by (unfold cw1; destruct (cw <? cfl); lia).
    rewrite ck_ok by (unfold INT_MIN, INT_MAX in *; lia). cbn [bind].
    destruct (Z.ltb_spec 0 (cw1 - cfl)).
    + destruct (fill_c_ok (cw1 - cfl) 32%N) as (f & -> & _); [lia|]. cbn [bind]. do 2 eexists; split; [reflexivity|exact Hcw1].
    + do 2 eexists; split; [reflexivity|exact Hcw1].
  - cbn [bind]. do 2 eexists; split; [reflexivity|exact Hcw].
Qed.

(* ---- one token: Token::appendToString on (dest, t_pendingRemove) ---- *)
Definition env_ok (m : menv) : Prop := len (mfile m) <= INT_MAX /\ len (mfunc m) <= INT_MAX - 1.

Lemma value_c_total k m : env_ok m -> cfg_okb src_cfg = true -> exists v, value_c k m = Some v.
Proof.
  intros He Hc. destruct k; cbn [value_c]; eauto.
  - destruct (short_file_total base (mfile m) (proj1 He)) as (r & -> & _). eauto.
  - destruct (cleanup_cfg_total src_cfg Hc (mfunc m) (proj2 He)) as (r & Hr & _). unfold cleanup. rewrite Hr. eauto.
  - destruct (lookup name (attrs m)); eauto.
Qed.

Lemma emit_value_total t m dest pending v : value_c (kind t) m = Some v ->
  0 <= pending -> len dest + pending + Z.max (len v) (width (tspec t)) <= INT_MAX ->
  exists e, (do v' <- value_c (kind t) m; do e <- apply_padding_c (tspec t) v'; Some (dest ++ e, pending)) = Some (dest ++ e, pending)
            /\ len (dest ++ e) <= len dest + Z.max (len v) (width (tspec t)).
Proof.
  intros Hv Hp Hb. rewrite Hv. cbn [bind]. pose proof (len_nonneg dest). pose proof (len_nonneg v).
  destruct (apply_padding_total (tspec t) v) as (e & -> & He); [lia|lia|]. cbn [bind]. exists e. split; [reflexivity|]. rewrite len_app. lia.
Qed.

Lemma emit_total t m dest pending : env_ok m -> cfg_okb src_cfg = true -> cond_ok t m = true ->
  0 <= pending <= INT_MAX -> len dest + tok_bound t m <= INT_MAX ->
  exists dest' pending', emit_c t m (dest, pending) = Some (dest', pending')
    /\ len dest' <= len dest + tok_bound t m /\ 0 <= pending' <= INT_MAX.
Proof.
  intros He Hc Hco Hp Hb. unfold tok_bound in *. rewrite Hco in Hb |- *. unfold emit_c.
  pose proof (len_nonneg dest) as Hd0.
  destruct (value_c_total (kind t) m He Hc) as [v Hv].
  destruct (kind t) as [txt| | | | |base| | | |fmt| | |name opt rb ra] eqn:K;
    try (rewrite Hv in Hb |- *; cbn [bind];
         destruct (apply_padding_total (tspec t) v) as (e & -> & Hle); [pose proof (len_nonneg v); lia|pose proof (len_nonneg v); lia|];
         cbn [bind]; do 2 eexists; split; [reflexivity|rewrite len_app; lia]).
  - (* literal *)
    pose proof (len_nonneg txt) as Ht0.
    destruct ((0 <? pending) && (pending <? len txt)) eqn:E.
    + apply andb_prop in E as [E1 E2]. apply Z.ltb_lt in E1, E2.
      destruct (mid_c_ok txt pending (-1)) as (r & -> & Hr); [lia|left; reflexivity|]. cbn [bind].
      do 2 eexists; split; [reflexivity|rewrite len_app; unfold INT_MAX in *; lia].
    + destruct (Z.eqb_spec pending 0); do 2 eexists; (split; [reflexivity|rewrite ?len_app; unfold INT_MAX in *; lia]).
  - (* attribute *)
    destruct opt.
    2:{ rewrite Hv in Hb |- *. cbn [bind].
        destruct (apply_padding_total (tspec t) v) as (e & -> & Hle); [pose proof (len_nonneg v); lia|pose proof (len_nonneg v); lia|].
        cbn [bind]. do 2 eexists; split; [reflexivity|rewrite len_app; lia]. }
    destruct (lookup name (attrs m)) as [av|] eqn:El.
    + destruct (apply_padding_total (tspec t) av) as (e & -> & Hle); [pose proof (len_nonneg av); lia|pose proof (len_nonneg av); lia|].
      cbn [bind]. do 2 eexists; split; [reflexivity|rewrite len_app; lia].
    + match goal with |- exists d' p', bind ?e _ = _ /\ _ => assert (Hst1 : exists d1 p1, e = Some (d1, p1) /\ len d1 <= len dest /\ 0 <= p1 <= pending) end.
      { destruct (Z.ltb_spec 0 rb); [|do 2 eexists; split; [reflexivity|lia]].
        destruct (Z.leb_spec rb (len dest + pending)); [|do 2 eexists; split; [reflexivity|lia]]. cbn zeta.
        rewrite ck_ok by (unfold INT_MIN, INT_MAX in *; lia). cbn [bind].
        rewrite ck_ok by (unfold INT_MIN, INT_MAX in *; lia). cbn [bind].
        destruct (chop_c_ok dest (rb - Z.min rb pending)) as (d1 & -> & Hd1); [lia|]. cbn [bind].
        do 2 eexists; split; [reflexivity|lia]. }
      destruct Hst1 as (d1 & p1 & -> & Hd1 & Hp1). cbn [bind].
      destruct (Z.ltb_spec 0 ra); do 2 eexists; (split; [reflexivity|unfold INT_MAX in *; lia]).
Qed.

Definition sum_bound (toks : list token) (m : menv) : Z := fold_right (fun t a => tok_bound t m + a) 0 toks.
Lemma tok_bound_nonneg t m : 0 <= tok_bound t m.
Proof.
  unfold tok_bound. destruct (cond_ok t m); [|lia].
  destruct (kind t); try (destruct (value_c _ m) as [v|]; [pose proof (len_nonneg v); lia|lia]); try apply len_nonneg.
  destruct opt; [destruct (lookup name (attrs m)) as [v|]; [pose proof (len_nonneg v); lia|lia]|].
  destruct (value_c _ m) as [v|]; [pose proof (len_nonneg v); lia|lia].
Qed.
Lemma sum_bound_nonneg toks m : 0 <= sum_bound toks m.
Proof. induction toks as [|t r IH]; cbn; [lia|]. pose proof (tok_bound_nonneg t m). unfold sum_bound in IH. lia. Qed.

Lemma format_loop_total m : env_ok m -> cfg_okb src_cfg = true -> forall toks dest pending,
  0 <= pending <= INT_MAX -> len dest + sum_bound toks m <= INT_MAX ->
  exists r, format_loop toks m (dest, pending) = Some r /\ len r <= len dest + sum_bound toks m.
Proof.
  intros He Hc. induction toks as [|t r IH]; intros dest pending Hp Hb.
  - exists dest. split; [reflexivity|cbn; lia].
  - cbn [format_loop]. cbn [sum_bound fold_right] in Hb |- *. fold (sum_bound r m) in *.
    pose proof (sum_bound_nonneg r m). pose proof (tok_bound_nonneg t m).
    destruct (cond_ok t m) eqn:Eco.
    + destruct (emit_total t m dest pending He Hc Eco Hp) as (d' & p' & -> & Hd' & Hp'); [lia|]. cbn [bind fst snd].
      destruct (len dest <? len d').
      * destruct (IH d' 0) as (x & Hx & Hlx); [unfold INT_MAX; lia|lia|]. exists x. split; [exact Hx|lia].
      * destruct (IH d' p') as (x & Hx & Hlx); [lia|lia|]. exists x. split; [exact Hx|lia].
    + assert (tok_bound t m = 0) by (unfold tok_bound; rewrite Eco; reflexivity).
      destruct (IH dest pending) as (x & Hx & Hlx); [lia|lia|]. exists x. split; [exact Hx|lia].
Qed.

(* PatternFormatter::format on a token list: total, and |result| <= sum of max(|value|, width),
   provided that bound fits an int (QString sizes are ints) *)
Theorem format_total toks m : env_ok m -> cfg_okb src_cfg = true ->
  fmt_bound toks m <= INT_MAX ->
  exists r, format_c toks m = Some r /\ len r <= fmt_bound toks m.
Proof.
  intros He Hc Hb. unfold format_c, fmt_bound in *. destruct toks as [|t r]; [exists (text m); split; [reflexivity|lia]|].
  apply (format_loop_total m He Hc (t :: r) [] 0); [unfold INT_MAX; lia|]. rewrite len_nil. exact Hb.
Qed.

(* the bound is attained: padding produces exactly `width` code units however large the width is
   (the resource side of finding F6: a width near INT_MAX is a request for gigabytes) *)
Theorem padding_reaches_width sp v : 0 < width sp <= INT_MAX -> len v <= width sp ->
  is_anone (al sp) = false -> mode sp = MNone ->
  exists r, apply_padding_c sp v = Some r /\ len r = width sp.
Proof.
  intros Hw Hv Ha Hm. pose proof (len_nonneg v) as Hv0. unfold apply_padding_c. rewrite Hm, Ha. cbn [is_monly is_mtrunc andb bind].
  destruct (Z.leb_spec (width sp) 0); [lia|].
  destruct (Z.leb_spec (width sp) (len v)); [exists v; split; [reflexivity|lia]|].
  rewrite ck_ok by (unfold INT_MIN, INT_MAX in *; lia). cbn [bind].
  set (padding := width sp - len v) in *.
  destruct (al sp); [discriminate| | |].
  - destruct (fill_c_ok padding (fill sp)) as (f & -> & Hf); [lia|]. cbn [bind]. eexists; split; [reflexivity|]. rewrite len_app. lia.
  - destruct (fill_c_ok padding (fill sp)) as (f & -> & Hf); [lia|]. cbn [bind]. eexists; split; [reflexivity|]. rewrite len_app. lia.
  - cbn zeta. rewrite ck_ok by (unfold INT_MIN, INT_MAX in *; lia). cbn [bind].
    destruct (fill_c_ok (padding / 2) (fill sp)) as (l & -> & Hlf); [lia|]. cbn [bind].
    destruct (fill_c_ok (padding - padding / 2) (fill sp)) as (r & -> & Hrf); [lia|]. cbn [bind].
    eexists; split; [reflexivity|]. rewrite !len_app. lia.
Qed.

(* ---- parsePattern ---- *)
Lemma classify_total ph : len ph <= INT_MAX -> exists r, classify_c ph = Some r.
Proof.
  intros Hl. pose proof (len_nonneg ph) as H0. unfold classify_c.
  repeat match goal with
  | |- exists r, (if beqb ?a ?b then _ else _) = Some r => destruct (beqb a b); [eauto|]
  | |- exists r, (if starts_with ph ?b then _ else _) = Some r =>
      let E := fresh "E" in destruct (starts_with ph b) eqn:E;
      [apply starts_with_len in E; vm_compute (len b) in E;
       match goal with |- exists r, bind (mid_c ph ?k _) _ = Some r =>
         let g := fresh "g" in destruct (mid_c_ok ph k (-1)) as (g & -> & _); [lia|left; reflexivity|]; cbn [bind]; eauto end|]
  end.
  cbn zeta. destruct (Z.eqb_spec (index_of ph [63%N] 0) (-1)); [eauto|].
  destruct (index_of_range ph [63%N] 0 _ ltac:(lia) eq_refl) as [Hx|[Hq1 Hq2]]; [contradiction|].
  set (qp := index_of ph [63%N] 0) in *. change (len [63%N]) with 1 in Hq2.
  destruct (left_c_ok ph qp) as (name & -> & _); [lia|]. cbn [bind].
  rewrite ck_ok by (unfold INT_MIN, INT_MAX in *; lia). cbn [bind].
  destruct (mid_c_ok ph (qp + 1) (-1)) as (suffix & -> & Hsl); [lia|left; reflexivity|]. cbn [bind].
  destruct (Z.eqb_spec (index_of suffix [44%N] 0) (-1)); [eauto|].
  destruct (index_of_range suffix [44%N] 0 _ ltac:(lia) eq_refl) as [Hx|[Hc1 Hc2]]; [contradiction|].
  set (cp := index_of suffix [44%N] 0) in *. change (len [44%N]) with 1 in Hc2.
  match goal with |- exists r, bind ?e _ = Some r => assert (Hrb : exists rb, e = Some rb) end.
  { destruct (0 <? cp); [|eauto]. destruct (left_c_ok suffix cp) as (l & -> & _); [lia|]. cbn [bind]. eauto. }
  destruct Hrb as [rb ->]. cbn [bind].
  rewrite ck_ok by (unfold INT_MIN, INT_MAX in *; lia). cbn [bind].
  destruct (mid_c_ok suffix (cp + 1) (-1)) as (rs & -> & _); [lia|left; reflexivity|]. cbn [bind]. eauto.
Qed.

Lemma parse_loop_total p : len p <= INT_MAX - 2 -> forall fuel pos lit cnd toks,
  0 <= pos <= len p -> (Z.to_nat (len p - pos) < fuel)%nat -> exists r, parse_loop fuel p pos lit cnd toks = Some r.
Proof.
  intros Hlen. induction fuel as [|fu IH]; intros pos lit cnd toks Hpos Hf; [lia|]. cbn [parse_loop].
  destruct (Z.ltb_spec pos (len p)); [|eauto].
  destruct (at_ok p pos) as [c ->]; [lia|]. cbn [bind].
  destruct ((pos <? len p - 1) && (c =? 37)%N) eqn:E.
  2:{ rewrite ck_ok by (unfold INT_MIN, INT_MAX in *; lia). cbn [bind]. apply IH; lia. }
  apply andb_prop in E as [E _]. apply Z.ltb_lt in E.
  rewrite ck_ok by (unfold INT_MIN, INT_MAX in *; lia). cbn [bind].
  destruct (at_ok p (pos + 1)) as [d ->]; [lia|]. cbn [bind].
  destruct (d =? 123)%N.
  - cbn zeta. rewrite ck_ok by (unfold INT_MIN, INT_MAX in *; lia). cbn [bind].
    destruct (Z.eqb_spec (index_of p [125%N] (pos + 2)) (-1)); [apply IH; lia|].
    destruct (index_of_range p [125%N] (pos + 2) _ ltac:(lia) eq_refl) as [Hx|[Hc1 Hc2]]; [contradiction|].
    set (cp := index_of p [125%N] (pos + 2)) in *. change (len [125%N]) with 1 in Hc2.
    rewrite ck_ok by (unfold INT_MIN, INT_MAX in *; lia). cbn [bind].
    destruct (mid_c_ok p (pos + 2) (cp - pos - 2)) as (ph0 & -> & Hph0); [lia|right; lia|]. cbn [bind].
    pose proof (len_nonneg ph0) as Hph00.
    match goal with |- exists r, bind ?e _ = Some r => assert (Hphsp : exists ph sp, e = Some (ph, sp) /\ len ph <= len ph0) end.
    { destruct (negb (last_index ph0 [58%N] =? -1) && (last_index ph0 [58%N] <? len ph0 - 1)) eqn:E2; [|do 2 eexists; split; [reflexivity|lia]].
      apply andb_prop in E2 as [E2 E3]. apply negb_true_iff, Z.eqb_neq in E2. apply Z.ltb_lt in E3.
      destruct (last_index_range ph0 [58%N] _ eq_refl) as [Hx|[Hl1 Hl2]]; [contradiction|].
      destruct (mid_c_ok ph0 (last_index ph0 [58%N] + 1) (-1)) as (ps & -> & _); [lia|left; reflexivity|]. cbn [bind].
      destruct (parse_spec_total ps) as (sp & -> & _). cbn [bind]. destruct sp as [s|]; [|do 2 eexists; split; [reflexivity|lia]].
      destruct (left_c_ok ph0 (last_index ph0 [58%N])) as (l & -> & Hl); [lia|]. cbn [bind]. do 2 eexists; split; [reflexivity|lia]. }
    destruct Hphsp as (ph & sp & -> & Hph). cbn [bind].
    destruct (classify_total ph) as [cl ->]; [lia|]. cbn [bind].
    rewrite ck_ok by (unfold INT_MIN, INT_MAX in *; lia). cbn [bind].
    destruct cl; apply IH; lia.
  - destruct (d =? 37)%N.
    + rewrite ck_ok by (unfold INT_MIN, INT_MAX in *; lia). cbn [bind]. apply IH; lia.
    + apply IH; lia.
Qed.
Theorem parse_pattern_total p : len p <= INT_MAX - 2 -> exists toks, parse_pattern_c p = Some toks.
Proof.
  intros H. unfold parse_pattern_c. apply parse_loop_total; [exact H|pose proof (len_nonneg p); lia|unfold len; lia].
Qed.

(* the oracle means "implementation = checked model, within the resource bound" *)
Lemma pattern_oracle_sound p m out : prop_c14_pattern_b p m out = true ->
  exists toks, parse_pattern_c p = Some toks /\ format_c toks m = Some out /\ len out <= fmt_bound toks m.
Proof.
  unfold prop_c14_pattern_b. destruct (parse_pattern_c p) as [toks|]; [|discriminate].
  destruct (format_c toks m) as [r|] eqn:Ef; [|discriminate]. intros H. apply andb_prop in H as [H1 H2].
  apply beqb_eq in H1. subst r. apply Z.leb_le in H2. exists toks. split; [reflexivity|]. split; [exact Ef|exact H2].
Qed.

(* ---- null pointers: file / function / category == nullptr ---- *)
Lemma env_of_raw_denull r : env_of_raw (denull r) = env_of_raw r.
Proof. destruct r as [t x f g c l tm ti pt a]. destruct f, g, c; reflexivity. Qed.
(* a null pointer formats exactly as a pointer to the empty string, for every pattern *)
Theorem format_raw_null_is_empty p r : format_raw_c p (denull r) = format_raw_c p r.
Proof. unfold format_raw_c. rewrite env_of_raw_denull. reflexivity. Qed.
(* ... and formatting is total on it *)
Theorem format_raw_total toks r : len (cstr (r_file r)) <= INT_MAX -> len (cstr (r_func r)) <= INT_MAX - 1 ->
  cfg_okb src_cfg = true -> fmt_bound toks (env_of_raw r) <= INT_MAX ->
  exists out, format_c toks (env_of_raw r) = Some out /\ len out <= fmt_bound toks (env_of_raw r).
Proof. intros Hf Hg Hc Hb. apply format_total; [split; [exact Hf|exact Hg]|exact Hc|exact Hb]. Qed.
Lemma short_file_nil base : short_file_c base [] = Some [].
Proof. unfold short_file_c. destruct base as [|b base']; reflexivity. Qed.
(* every placeholder that reads one of the three pointers yields the empty string on the all-null context; every
   other placeholder is unaffected (has a value) *)
Theorem null_placeholders k r : cfg_okb src_cfg = true -> r_file r = None -> r_func r = None -> r_cat r = None ->
  exists v, value_c k (env_of_raw r) = Some v /\ (is_ptr_kind k = true -> v = []).
Proof.
  intros Hc Hf Hg Hcat. destruct r as [t x f g c l tm ti pt a]. cbn in Hf, Hg, Hcat. subst f g c.
  destruct k; cbn [value_c env_of_raw mfile mfunc mcat cstr SafetyDefs.text mt mline mtime mtid mptr attrs is_ptr_kind r_mt r_text r_file r_func r_cat r_line r_time r_tid r_ptr r_attrs];
    try (eexists; split; [reflexivity|intros; try reflexivity; discriminate]).
  - exists []. split; [apply short_file_nil|reflexivity].
  - destruct (lookup name a); eexists; (split; [reflexivity|discriminate]).
Qed.
(* PrettyFormatter on the raw category pointer (null = the non-default category with the empty name) *)
Theorem pretty_raw_total colorize maxw cw t (c : option qstr) msg :
  maxw <= INT_MAX -> 0 <= cw <= INT_MAX -> len msg + len (cstr c) <= INT_MAX - 200 ->
  exists out cw', pretty_c colorize maxw cw t (pretty_cat_of_ptr c) msg = Some (out, cw') /\ 0 <= cw' <= INT_MAX.
Proof.
  intros Hm Hcw Hl. apply pretty_total; [exact Hm|exact Hcw|].
  destruct c as [s|]; cbn [pretty_cat_of_ptr cstr] in *; [|exact Hl].
  destruct (beqb s s_default); [pose proof (len_nonneg s); lia|lia].
Qed.

(* ---- widths of ten and more digits: QString::toInt never wraps ---- *)
Lemma is_digit_bounds c : is_digit c = true -> (48 <= c <= 57)%N.
Proof. unfold is_digit. lia. Qed.
Lemma is_digit_not_space c : is_digit c = true -> is_space c = false.
Proof. intros H. apply is_digit_bounds in H. unfold is_space. lia. Qed.
Lemma dec_value_mono l : forall acc, 0 <= acc -> forallb is_digit l = true -> acc <= dec_value l acc.
Proof.
  induction l as [|c r IH]; intros acc Ha Hd; cbn [dec_value]; [lia|].
  cbn [forallb] in Hd. apply andb_prop in Hd as [Hc Hr]. apply is_digit_bounds in Hc.
  specialize (IH (acc * 10 + Z.of_N (c - 48)) ltac:(lia) Hr). lia.
Qed.
Lemma digits_val_spec l : forall acc, 0 <= acc <= INT_MAX + 1 -> forallb is_digit l = true ->
  digits_val l acc = if dec_value l acc <=? INT_MAX + 1 then Some (dec_value l acc) else None.
Proof.
  induction l as [|c r IH]; intros acc Ha Hd; cbn [dec_value digits_val].
  - destruct (Z.leb_spec acc (INT_MAX + 1)); [reflexivity|lia].
  - cbn [forallb] in Hd. apply andb_prop in Hd as [Hc Hr]. fold (is_digit c). rewrite Hc.
    apply is_digit_bounds in Hc. cbn zeta.
    destruct (Z.leb_spec (acc * 10 + Z.of_N (c - 48)) (INT_MAX + 1)) as [Hle|Hgt].
    + apply IH; [lia|exact Hr].
    + pose proof (dec_value_mono r (acc * 10 + Z.of_N (c - 48)) ltac:(lia) Hr).
      destruct (Z.leb_spec (dec_value r (acc * 10 + Z.of_N (c - 48))) (INT_MAX + 1)); [lia|reflexivity].
Qed.
Lemma forallb_rev {X} (f : X -> bool) l : forallb f (rev l) = forallb f l.
Proof. induction l as [|a l IH]; [reflexivity|]. cbn [rev forallb]. rewrite forallb_app, IH. cbn. rewrite andb_true_r. apply andb_comm. Qed.
Lemma drop_space_digits l : forallb is_digit l = true -> drop_space l = l.
Proof. destruct l as [|c r]; [reflexivity|]. cbn [forallb drop_space]. intros H. apply andb_prop in H as [H _]. rewrite (is_digit_not_space c H). reflexivity. Qed.
Lemma trimmed_digits l : forallb is_digit l = true -> trimmed l = l.
Proof. intros H. unfold trimmed. rewrite (drop_space_digits l H), (drop_space_digits (rev l)) by (rewrite forallb_rev; exact H). apply rev_involutive. Qed.
(* an all-digit text is accepted iff its MATHEMATICAL value fits an int, and then that value is the result *)
Theorem to_int_digits l : l <> [] -> forallb is_digit l = true ->
  to_int l = if dec_value l 0 <=? INT_MAX then (dec_value l 0, true) else (0, false).
Proof.
  intros Hne Hd. unfold to_int. rewrite (trimmed_digits l Hd). destruct l as [|c r]; [contradiction|].
  pose proof Hd as Hd'. cbn [forallb] in Hd'. apply andb_prop in Hd' as [Hc _]. apply is_digit_bounds in Hc.
  destruct (N.eqb_spec c 45); [lia|]. destruct (N.eqb_spec c 43); [lia|].
  rewrite (digits_val_spec (c :: r) 0) by (unfold INT_MAX; try lia; exact Hd).
  pose proof (dec_value_mono (c :: r) 0 ltac:(lia) Hd) as H0.
  destruct (Z.leb_spec (dec_value (c :: r) 0) (INT_MAX + 1)) as [H1|H1].
  - destruct (Z.leb_spec (dec_value (c :: r) 0) INT_MAX) as [H2|H2].
    + destruct (Z.leb_spec INT_MIN (dec_value (c :: r) 0)); [|unfold INT_MIN in *; lia]. reflexivity.
    + destruct (Z.leb_spec INT_MIN (dec_value (c :: r) 0)); reflexivity.
  - destruct (Z.leb_spec (dec_value (c :: r) 0) INT_MAX); [lia|reflexivity].
Qed.
Corollary to_int_overflow_rejected l : l <> [] -> forallb is_digit l = true -> INT_MAX < dec_value l 0 -> to_int l = (0, false).
Proof. intros Hne Hd Hv. rewrite (to_int_digits l Hne Hd). destruct (Z.leb_spec (dec_value l 0) INT_MAX); [lia|reflexivity]. Qed.
(* the digits are neither alignment characters nor the truncate suffix (constants read from the source) *)
Lemma digit_not_align d : is_digit d = true -> is_anone (align_of d) = true.
Proof.
  intros H. apply is_digit_bounds in H. unfold align_of, src_align_left, src_align_right, src_align_center.
  destruct (N.eqb_spec d 60); [lia|]. destruct (N.eqb_spec d 62); [lia|]. destruct (N.eqb_spec d 94); [lia|]. reflexivity.
Qed.
Lemma ends_with_last_digit pre ds : ds <> [] -> forallb is_digit ds = true -> ends_with (pre ++ ds) [src_trunc_suffix] = false.
Proof.
  intros Hne Hd. unfold ends_with. rewrite rev_app_distr. rewrite <- forallb_rev in Hd.
  destruct (rev ds) as [|c r] eqn:E.
  - exfalso. apply Hne. rewrite <- (rev_involutive ds), E. reflexivity.
  - cbn [forallb] in Hd. apply andb_prop in Hd as [Hc _]. apply is_digit_bounds in Hc.
    unfold src_trunc_suffix. cbn [rev app prefixb]. destruct (N.eqb_spec 33 c); [lia|reflexivity].
Qed.
(* a width text that does not fit an int is not a format spec, with or without a fill character *)
Theorem parse_spec_overflow_rejected a ds : is_anone (align_of a) = false -> ds <> [] -> forallb is_digit ds = true ->
  INT_MAX < dec_value ds 0 -> parse_spec_c (a :: ds) = Some None.
Proof.
  intros Ha Hne Hd Hv. pose proof (to_int_overflow_rejected ds Hne Hd Hv) as Hti.
  pose proof (ends_with_last_digit [a] ds Hne Hd) as He. cbn [app] in He.
  destruct ds as [|d ds']; [contradiction|].
  assert (Hdd : is_digit d = true) by (cbn [forallb] in Hd; apply andb_prop in Hd; tauto).
  pose proof (digit_not_align d Hdd) as Had.
  unfold parse_spec_c. cbn [is_empty]. rewrite He. cbn [bind andb].
  assert (Hlen : (2 <=? len (a :: d :: ds')) = true) by (rewrite !len_cons; pose proof (len_nonneg ds'); lia).
  rewrite Hlen. change (at_ (a :: d :: ds') 1) with (Some d). cbn [bind]. rewrite Had. cbn [bind is_anone is_empty negb andb].
  change (at_ (a :: d :: ds') 0) with (Some a). cbn [bind]. rewrite Ha.
  assert (Hl1 : (len (a :: d :: ds') <=? 1) = false) by (rewrite !len_cons; pose proof (len_nonneg ds'); lia).
  cbn [bind]. cbn beta iota. rewrite Ha. rewrite Hl1.
  assert (Hmid : mid_c (a :: d :: ds') 1 (-1) = Some (d :: ds')).
  { unfold mid_c. assert ((0 <=? 1) && (1 <=? len (a :: d :: ds')) = true) as -> by (rewrite !len_cons; pose proof (len_nonneg ds'); lia). reflexivity. }
  rewrite Hmid. cbn [bind]. rewrite Hti. reflexivity.
Qed.
Theorem parse_spec_overflow_rejected_trunc ds : ds <> [] -> forallb is_digit ds = true ->
  INT_MAX < dec_value ds 0 -> parse_spec_c (ds ++ [src_trunc_suffix]) = Some None.
Proof.
  intros Hne Hd Hv. pose proof (to_int_overflow_rejected ds Hne Hd Hv) as Hti.
  unfold parse_spec_c.
  assert (is_empty (ds ++ [src_trunc_suffix]) = false) as -> by (destruct ds; reflexivity).
  assert (ends_with (ds ++ [src_trunc_suffix]) [src_trunc_suffix] = true) as ->.
  { unfold ends_with. rewrite rev_app_distr. cbn [rev app prefixb]. rewrite N.eqb_refl. reflexivity. }
  assert (chop_c (ds ++ [src_trunc_suffix]) 1 = Some ds) as ->.
  { unfold chop_c. rewrite len_app. change (len [src_trunc_suffix]) with 1. pose proof (len_nonneg ds).
    assert ((0 <=? 1) && (1 <=? len ds + 1) = true) as -> by lia.
    replace (len ds + 1 - 1) with (len ds) by lia. unfold len. rewrite Nat2Z.id, firstn_app, Nat.sub_diag, firstn_all. cbn. rewrite app_nil_r. reflexivity. }
  cbn [bind]. destruct ds as [|d ds']; [contradiction|]. cbn [is_empty andb].
  assert (Hdd : is_digit d = true) by (cbn [forallb] in Hd; apply andb_prop in Hd; tauto).
  pose proof (digit_not_align d Hdd) as Had.
  assert (Hr1 : (if 2 <=? len (d :: ds') then do pa <- at_ (d :: ds') 1; if is_anone (align_of pa) then Some (32%N, ANone, false, 0)
              else do f <- at_ (d :: ds') 0; Some (f, align_of pa, true, 2) else Some (32%N, ANone, false, 0)) = Some (32%N, ANone, false, 0)).
  { destruct (Z.leb_spec 2 (len (d :: ds'))) as [H2|H2]; [|reflexivity]. destruct ds' as [|e ds'']; [cbn in H2; lia|].
    change (at_ (d :: e :: ds'') 1) with (Some e). cbn [bind].
    assert (is_digit e = true) as He by (cbn [forallb] in Hd; apply andb_prop in Hd as [_ Hd]; apply andb_prop in Hd; tauto).
    rewrite (digit_not_align e He). reflexivity. }
  rewrite Hr1. cbn [bind]. cbn beta iota. cbn [is_anone is_empty negb andb].
  change (at_ (d :: ds') 0) with (Some d). cbn [bind]. rewrite Had. cbn beta iota. cbn [is_anone]. rewrite Hti. reflexivity.
Qed.

(* ---- round 5: the column limit maxCategoryWidth over the whole int range -------------------------------- *)
(* the components of one PrettyFormatter step that the column theorems speak about *)
Definition cat_field_len (cat : option qstr) : Z := match cat with Some c => len c + src_pretty_cat_extra | None => 0 end.

(* the remembered column after one message, in closed form: unchanged without a positive limit, otherwise raised
   to min(field length, limit) when the field is longer *)
Theorem pretty_column colorize maxw cw t cat msg out cw' :
  pretty_c colorize maxw cw t cat msg = Some (out, cw') ->
  cw' = if 0 <? maxw then (if cw <? cat_field_len cat then Z.min (cat_field_len cat) maxw else cw) else cw.
Proof.
  unfold pretty_c, cat_field_len. cbn zeta. intros H.
  destruct (ck _) as [est|]; [|discriminate]. cbn [bind] in H.
  destruct (type_letter_c t) as [letter|]; [|discriminate]. cbn [bind] in H.
  assert (Hcfl : forall cfl, (match cat with Some _ => ck (match cat with Some c => len c | None => 0 end + src_pretty_cat_extra) | None => Some 0 end) = Some cfl ->
                 cfl = match cat with Some c => len c + src_pretty_cat_extra | None => 0 end).
  { intros cfl. destruct cat; [|intros E; injection E as <-; reflexivity]. unfold ck.
    destruct (_ && _); [intros E; injection E as <-; reflexivity|discriminate]. }
  destruct (match cat with Some _ => ck _ | None => Some 0 end) as [cfl|] eqn:Ec; [|discriminate]. cbn [bind] in H.
  rewrite <- (Hcfl cfl eq_refl). clear Hcfl Ec.
  destruct (0 <? maxw).
  - destruct (ck _) as [sc|]; [|discriminate]. cbn [bind] in H.
    destruct (0 <? sc).
    + destruct (fill_c sc 32%N); [|discriminate]. cbn [bind] in H. injection H as _ <-. reflexivity.
    + injection H as _ <-. reflexivity.
  - injection H as _ <-. reflexivity.
Qed.
(* ... so a column that starts below a positive limit never shrinks and never exceeds the limit, without a
   positive limit it is not touched, and with the largest limit ("no limit": INT_MAX) it is simply the longest
   field seen so far *)
Corollary pretty_column_bounds colorize maxw cw t cat msg out cw' :
  pretty_c colorize maxw cw t cat msg = Some (out, cw') ->
  (0 < maxw -> cw <= maxw -> cw <= cw' <= maxw) /\ (maxw <= 0 -> cw' = cw).
Proof. intros H. rewrite (pretty_column _ _ _ _ _ _ _ _ H). destruct (Z.ltb_spec 0 maxw); [|lia]. destruct (Z.ltb_spec cw (cat_field_len cat)); lia. Qed.
Corollary pretty_column_no_limit colorize cw t cat msg out cw' : len msg + (match cat with Some c => len c | None => 0 end) <= INT_MAX - 200 ->
  pretty_c colorize INT_MAX cw t cat msg = Some (out, cw') -> cw' = Z.max cw (cat_field_len cat).
Proof.
  intros Hl H. rewrite (pretty_column _ _ _ _ _ _ _ _ H). change (0 <? INT_MAX) with true. cbn iota.
  assert (cat_field_len cat <= INT_MAX) by (unfold cat_field_len, src_pretty_cat_extra, INT_MAX in *; destruct cat; [pose proof (len_nonneg msg)|]; lia).
  destruct (Z.ltb_spec cw (cat_field_len cat)); lia.
Qed.

(* a whole message sequence through ONE formatter object (the column is carried from message to message): total for
   EVERY column limit an int can hold - no bound from below, INT_MAX included - and one output per message *)
Definition item_fits (x : mtype * option qstr * qstr) : Prop :=
  len (snd x) + (match snd (fst x) with Some c => len c | None => 0 end) <= INT_MAX - 200.
Theorem pretty_seq_total colorize maxw l : maxw <= INT_MAX -> Forall item_fits l ->
  forall cw, 0 <= cw <= INT_MAX -> exists outs, pretty_seq_c colorize maxw cw l = Some outs /\ length outs = length l.
Proof.
  intros Hm Hl. induction Hl as [|[[t c] m] r Hx _ IH]; intros cw Hcw; [exists []; split; reflexivity|].
  cbn [pretty_seq_c]. destruct (pretty_total colorize maxw cw t c m Hm Hcw Hx) as (out & cw' & -> & Hcw'). cbn [bind snd fst].
  destruct (IH cw' Hcw') as (outs & -> & Hlen). cbn [bind]. eexists; split; [reflexivity|]. cbn [length]. rewrite Hlen. reflexivity.
Qed.
Lemma item_fits_raw l : Forall (fun x => len (snd x) + len (cstr (snd (fst x))) <= INT_MAX - 200) l ->
  Forall item_fits (map (fun x : mtype * option qstr * qstr => (fst (fst x), pretty_cat_of_ptr (snd (fst x)), snd x)) l).
Proof.
  intros H. induction H as [|[[t c] m] r Hx _ IH]; [constructor|]. cbn [map]. constructor; [|exact IH].
  unfold item_fits. cbn [fst snd] in *. destruct c as [s|]; cbn [pretty_cat_of_ptr cstr] in *; [|exact Hx].
  destruct (beqb s s_default); [pose proof (len_nonneg s); lia|lia].
Qed.
Theorem pretty_seq_raw_total colorize maxw l : INT_MIN <= maxw <= INT_MAX ->
  Forall (fun x => len (snd x) + len (cstr (snd (fst x))) <= INT_MAX - 200) l ->
  exists outs, pretty_seq_raw_c colorize maxw 0 l = Some outs /\ length outs = length l.
Proof.
  intros Hm Hl. unfold pretty_seq_raw_c.
  destruct (pretty_seq_total colorize maxw _ (proj2 Hm) (item_fits_raw l Hl) 0) as (outs & -> & Hlen); [unfold INT_MAX; lia|].
  exists outs. split; [reflexivity|]. rewrite Hlen, map_length. reflexivity.
Qed.

(* ---- round 5: the colour-code remover of configure()'s formatter chain ---------------------------------- *)
Lemma strip_go_len s : forall st, len (strip_go st s) <= len (sgr_pending st) + len s.
Proof.
  induction s as [|c r IH]; intros st; [rewrite len_nil; cbn [strip_go]; lia|].
  rewrite (len_cons c r). destruct st as [| |rp]; cbn [strip_go].
  - destruct (c =? src_sgr_esc)%N.
    + pose proof (IH SgE) as H. cbn [sgr_pending] in *. rewrite len_cons, len_nil in H. rewrite len_nil. lia.
    + rewrite len_cons. pose proof (IH SgN) as H. cbn [sgr_pending] in *. lia.
  - cbn [sgr_pending]. rewrite len_cons, len_nil. destruct (c =? src_sgr_open)%N; [|destruct (c =? src_sgr_esc)%N].
    + pose proof (IH (SgP [])) as H. cbn [sgr_pending rev] in H. rewrite !len_cons, len_nil in H. lia.
    + rewrite len_cons. pose proof (IH SgE) as H. cbn [sgr_pending] in H. rewrite len_cons, len_nil in H. lia.
    + rewrite !len_cons. pose proof (IH SgN) as H. cbn [sgr_pending] in H. rewrite len_nil in H. lia.
  - assert (Hp : len (sgr_pending (SgP (c :: rp))) = len (sgr_pending (SgP rp)) + 1).
    { cbn [sgr_pending rev]. rewrite !len_cons, len_app, len_cons, len_nil. lia. }
    destruct (is_sgr_param c); [pose proof (IH (SgP (c :: rp))); lia|].
    pose proof (len_nonneg (sgr_pending (SgP rp))) as Hp0.
    destruct (c =? src_sgr_final)%N; [pose proof (IH SgN) as H; cbn [sgr_pending] in H; rewrite len_nil in H; lia|].
    destruct (c =? src_sgr_esc)%N; rewrite len_app.
    + pose proof (IH SgE) as H. cbn [sgr_pending] in H. rewrite len_cons, len_nil in H. lia.
    + rewrite len_cons. pose proof (IH SgN) as H. cbn [sgr_pending] in H. rewrite len_nil in H. lia.
Qed.
(* removing colour codes never makes the text longer *)
Theorem strip_sgr_len s : len (strip_sgr s) <= len s.
Proof. unfold strip_sgr. destruct (utf16_ok s); [|lia]. pose proof (strip_go_len s SgN) as H. cbn [sgr_pending] in H. rewrite len_nil in H. lia. Qed.
(* a text without ESC is left alone *)
Lemma strip_go_plain s : ~ In src_sgr_esc s -> strip_go SgN s = s.
Proof.
  induction s as [|c r IH]; [reflexivity|]. intros Hn. cbn [strip_go].
  destruct (N.eqb_spec c src_sgr_esc) as [->|_]; [exfalso; apply Hn; left; reflexivity|].
  rewrite IH; [reflexivity|]. intros Hi. apply Hn. right. exact Hi.
Qed.
Theorem strip_sgr_plain s : ~ In src_sgr_esc s -> strip_sgr s = s.
Proof. intros Hn. unfold strip_sgr. destruct (utf16_ok s); [apply strip_go_plain; exact Hn|reflexivity]. Qed.
(* an unfinished colour code at the END of the text (ESC, or ESC [ and parameters, with nothing behind) is kept: the
   remover comes back on it - this is the input on which a hand-written "find ESC [, find the final byte" loop spins *)
Lemma strip_go_app_params ps : forallb is_sgr_param ps = true -> forall rp, strip_go (SgP rp) ps = src_sgr_esc :: src_sgr_open :: rev rp ++ ps.
Proof.
  induction ps as [|c r IH]; intros Hp rp; [cbn [strip_go sgr_pending]; rewrite app_nil_r; reflexivity|].
  cbn [forallb] in Hp. apply andb_prop in Hp as [Hc Hr]. cbn [strip_go]. rewrite Hc. rewrite (IH Hr). cbn [rev]. rewrite <- app_assoc. reflexivity.
Qed.
Theorem strip_sgr_unfinished_tail s ps : ~ In src_sgr_esc s -> forallb is_sgr_param ps = true ->
  strip_sgr (s ++ src_sgr_esc :: src_sgr_open :: ps) = s ++ src_sgr_esc :: src_sgr_open :: ps.
Proof.
  unfold strip_sgr. intros Hn Hp. destruct (utf16_ok _); [|reflexivity]. induction s as [|c r IH].
  - cbn [app strip_go]. rewrite N.eqb_refl. cbn [strip_go]. rewrite N.eqb_refl. rewrite (strip_go_app_params ps Hp). reflexivity.
  - cbn [app strip_go]. destruct (N.eqb_spec c src_sgr_esc) as [->|_]; [exfalso; apply Hn; left; reflexivity|].
    rewrite IH; [reflexivity|]. intros Hi. apply Hn. right. exact Hi.
Qed.
(* a text that is not well-formed UTF-16 matches nothing: it reaches the file unchanged (colour codes and all) *)
Theorem strip_sgr_ill_formed s : utf16_ok s = false -> strip_sgr s = s.
Proof. intros H. unfold strip_sgr. rewrite H. reflexivity. Qed.
(* the whole chain on one message: total under the hypotheses of the PrettyFormatter theorem, and what reaches the
   file is the PrettyFormatter text with colour codes removed - never longer *)
Theorem configure_total cw t (c : option qstr) msg : 0 <= cw <= INT_MAX -> len msg + len (cstr c) <= INT_MAX - 200 ->
  exists p out cw', pretty_c src_cfg_colorize src_pretty_default_maxw cw t (pretty_cat_of_ptr c) msg = Some (p, cw') /\
                    configure_c cw t (pretty_cat_of_ptr c) msg = Some (out, cw') /\ out = strip_sgr p /\ len out <= len p /\ 0 <= cw' <= INT_MAX.
Proof.
  intros Hcw Hl. destruct (pretty_raw_total src_cfg_colorize src_pretty_default_maxw cw t c msg) as (p & cw' & Hp & Hcw'); [vm_compute; discriminate|exact Hcw|exact Hl|].
  exists p, (strip_sgr p), cw'. unfold configure_c. rewrite Hp. cbn [bind fst snd]. repeat split; try reflexivity; try lia. apply strip_sgr_len.
Qed.
