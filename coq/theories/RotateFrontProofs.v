From Coq Require Import List ZArith Bool Lia.
Import ListNotations.
Require Import QtlVerif.RotateDefs QtlVerif.RotateFrontDefs.
Local Open Scope Z_scope.

Lemma same_files_refl : forall w, same_files w w.
Proof. intro w. unfold same_files. repeat split. Qed.

Section NoRotationAsked.
Variable sh : shape.
Variable c : cfg.
Hypothesis HL : (0 <? cL c) = false.
Hypothesis HS : startup c = false.
Hypothesis HD : daily c = false.

Lemma init_same : forall w, same_files (init sh c w) w.
Proof.
  intro w. unfold init. destruct (inited w); [apply same_files_refl|].
  rewrite HS. cbn [andb]. unfold same_files; cbn. repeat split.
Qed.
Lemma check_daily_id : forall w d, check_daily sh c w d = w.
Proof. intros w d. unfold check_daily. rewrite HD. reflexivity. Qed.
Lemma check_size_id : forall w a, check_size sh c w a = w.
Proof. intros w a. unfold check_size. rewrite HL. reflexivity. Qed.

Lemma plain_step_same : forall w1 w2 o, same_files w1 w2 -> same_files (plain_step sh c w1 o) (step sh c w2 o).
Proof.
  intros w1 w2 o S. destruct S as [S1 [S2 [S3 [S4 [S5 [S6 S7]]]]]].
  destruct o as [ty p | dt | | n b]; cbn [plain_step step].
  - unfold write. rewrite check_daily_id, check_size_id.
    destruct (init_same w2) as [I1 [I2 [I3 [I4 [I5 [I6 I7]]]]]].
    unfold append, same_files; cbn.
    rewrite I1, I2, I3, I5, I6, I7, S1, S2, S3, S5, S6, S7. repeat split.
  - unfold same_files; cbn. rewrite S1, S2, S3, S4, S5, S6, S7. repeat split.
  - unfold same_files; cbn. repeat split; assumption.
  - unfold put_foreign. destruct (parse_name c n) as [[[d ds] gz]|].
    + unfold same_files; cbn. rewrite S1, S2, S3, S4, S5, S6, S7. repeat split.
    + destruct (str_eqb n (active_name c)).
      * unfold same_files. repeat split; assumption.
      * unfold same_files; cbn. rewrite S1, S2, S3, S4, S5, S6, S7. repeat split.
Qed.

Lemma plain_run_same : forall ops w1 w2, same_files w1 w2 ->
  same_files (fold_left (plain_step sh c) ops w1) (fold_left (step sh c) ops w2).
Proof.
  induction ops as [|o ops IH]; intros w1 w2 S; cbn [fold_left]; [exact S|].
  apply IH. apply plain_step_same. exact S.
Qed.

(* and the rotating sink itself never rotates and never removes anything in such a configuration *)
Lemma step_keeps_files : forall w o, (forall n b, o <> PutForeign n b) -> rot (step sh c w o) = rot w /\ gone (step sh c w o) = gone w.
Proof.
  intros w o NF. destruct o as [ty p | dt | | n b]; cbn [step]; try (split; reflexivity).
  - unfold write. rewrite check_daily_id, check_size_id. destruct (init_same w) as [I1 [I2 _]].
    unfold append; cbn. split; assumption.
  - exfalso. exact (NF n b eq_refl).
Qed.
End NoRotationAsked.

Lemma fold_left_ext_world : forall (f g : world -> op -> world), (forall w o, f w o = g w o) ->
  forall ops w, fold_left f ops w = fold_left g ops w.
Proof. intros f g E. induction ops as [|o ops IH]; intro w; cbn [fold_left]; [reflexivity|]. rewrite E. apply IH. Qed.

Theorem front_end_equivalent : forall fr, front_goodb fr = true -> forall sh c t0 ops,
  same_files (run_front fr sh c t0 ops) (run sh c t0 ops).
Proof.
  intros fr G sh c t0 ops. unfold front_goodb in G.
  apply andb_true_iff in G. destruct G as [G G4]. apply andb_true_iff in G. destruct G as [G G3].
  apply andb_true_iff in G. destruct G as [G1 G2].
  unfold run_front, run. destruct (picks_rotating fr c) eqn:P.
  - rewrite (fold_left_ext_world (front_step fr sh c) (step sh c)).
    + apply same_files_refl.
    + intros w o. unfold front_step. rewrite P. reflexivity.
  - rewrite (fold_left_ext_world (front_step fr sh c) (plain_step sh c)).
    + unfold picks_rotating in P. rewrite G1, G2, G3 in P. cbn [andb] in P.
      apply orb_false_iff in P. destruct P as [P P3]. apply orb_false_iff in P. destruct P as [P1 P2].
      apply plain_run_same; try assumption. apply same_files_refl.
    + intros w o. unfold front_step. rewrite P. reflexivity.
Qed.

(* a front end that forgets the daily flag: a configuration exists in which it builds the plain sink although a day change
   must rotate *)
Definition forgetful_front : front := {| f_size := true; f_startup := true; f_daily := false; f_args := true |}.
Definition daily_only_cfg : cfg :=
  {| cL := 0; cN := 0; startup := false; daily := true; compress := false; cgran := G1ms; cbase := [97%N]; csuffix := [];
     ctz := 0 |}.
Lemma forgetful_front_refuted :
  exists ops, rot (run_front forgetful_front std_shape daily_only_cfg 0 ops) = []
              /\ rot (run std_shape daily_only_cfg 0 ops) <> [].
Proof.
  exists [Write TInfo [120%N]; Advance 86400000; Write TInfo [121%N]]. split; [vm_compute; reflexivity|].
  vm_compute. discriminate.
Qed.
