(* C12 (round 8) — the fluent front ends SimplePipeline::format(const QString &pattern) and formatByQt(): which formatter
   OBJECT an application gets, and from which argument it is made.  Definitions only (no proofs).
   The raw description (src_front_named / src_front_otherwise / src_front_by_qt / src_default_message_pattern) is translated
   from simplepipeline.cpp and messagepatterns.h by tools/s2c/pattern.py on every run. *)
From Coq Require Import List NArith Bool.
Require Import QtlVerif.SrcPattern QtlVerif.PatternDefs.
Import ListNotations.
Local Open Scope N_scope.

(* the argument the PatternFormatter constructor is called with *)
Inductive front_arg :=
| ACaller                (* the caller's pattern, unchanged *)
| AConst (q : qstr)      (* a constant text *)
| ATrimmed               (* the caller's pattern .trimmed() *)
| AShared                (* ONE function-local static object, made from the pattern of the first call *)
| ANoArg.
Inductive front_target :=
| TPattern (a : front_arg)   (* PatternFormatterPtr::create(a) *)
| TQt                        (* QtLogMessageFormatter::instance() *)
| TPretty                    (* PrettyFormatterPtr::create() *)
| TUnknown.
Definition decode_target (c : N * N * list N) : front_target :=
  match c with
  | (0, 1, _) => TPattern ACaller
  | (0, 2, q) => TPattern (AConst q)
  | (0, 3, _) => TPattern ATrimmed
  | (0, 4, _) => TPattern AShared
  | (0, 0, _) => TPattern ANoArg
  | (1, 0, _) => TQt
  | (2, 0, _) => TPretty
  | _ => TUnknown
  end.
Record pattern_front := {
  named : list (qstr * front_target);    (* format(pattern): if (pattern == name) append(target) else ... *)
  otherwise : front_target;              (* ... else append(target) *)
  by_qt : front_target }.                (* formatByQt() *)
Definition src_pattern_front : pattern_front := {|
  named := map (fun e => (fst e, decode_target (snd e))) src_front_named;
  otherwise := decode_target src_front_otherwise;
  by_qt := decode_target src_front_by_qt |}.

(* what survives between two calls of the front end in one process: the pattern of the function-local static object, if
   the front end has one and it exists already *)
Definition fstate := option qstr.
Definition select (fr : pattern_front) (p : qstr) : front_target :=
  match find (fun e => qeqb (fst e) p) (named fr) with Some e => snd e | None => otherwise fr end.
(* one call format(p): new state, and the pattern of the PatternFormatter the pipeline got (None: another formatter class) *)
Definition obtain_target (t : front_target) (st : fstate) (p : qstr) : fstate * option qstr :=
  match t with
  | TPattern ACaller => (st, Some p)
  | TPattern (AConst q) => (st, Some q)
  | TPattern ATrimmed => (st, Some (trimmed p))
  | TPattern AShared => match st with Some q => (st, Some q) | None => (Some p, Some p) end
  | TPattern ANoArg => (st, Some [])
  | _ => (st, None)
  end.
Definition obtain (fr : pattern_front) (st : fstate) (p : qstr) : fstate * option qstr := obtain_target (select fr p) st p.
Definition obtain_all (fr : pattern_front) (st : fstate) (ps : list qstr) : fstate := fold_left (fun s p => fst (obtain fr s p)) ps st.

(* The texts.  An application that has called format(h) for every h of hs (on whatever pipelines) calls
   SimplePipeline().format(p) and lets that pipeline format the message m / the messages ms in order (the thread's
   pending-remove counter holding [leftover] before the first of them).  None: the pipeline got no PatternFormatter. *)
Definition front_format (fr : pattern_front) (hs : list qstr) (p : qstr) (m : msg) : option qstr :=
  option_map (fun q => format_pattern q m) (snd (obtain fr (obtain_all fr None hs) p)).
Definition front_format_seq (fr : pattern_front) (hs : list qstr) (p : qstr) (leftover : N) (ms : list msg) : option (list qstr) :=
  option_map (fun q => format_seq q leftover ms) (snd (obtain fr (obtain_all fr None hs) p)).

(* the three words format() documents as names of ready-made formats; every other text is a pattern *)
Definition x_default : qstr := [100;101;102;97;117;108;116].   (* "default" *)
Definition x_qt : qstr := [113;116].                           (* "qt" *)
Definition x_pretty : qstr := [112;114;101;116;116;121].       (* "pretty" *)
Definition reserved_names : list qstr := [x_default; x_qt; x_pretty].
Definition target_okb (t : front_target) : bool :=
  match t with TPattern (AConst _) | TQt | TPretty => true | _ => false end.
(* what the translated description must satisfy (decided by computation): a text that is not one of the three words is handed
   to PatternFormatter unchanged; the words get a constant pattern or one of the two other formatter classes; formatByQt()
   appends the Qt formatter *)
Definition front_goodb (fr : pattern_front) : bool :=
  match otherwise fr with TPattern ACaller => true | _ => false end
  && match by_qt fr with TQt => true | _ => false end
  && forallb (fun e => existsb (qeqb (fst e)) reserved_names && target_okb (snd e)) (named fr).

(* plausible broken front ends (refuted in PatternFrontProofs.v) *)
Definition dropped_front : pattern_front :=   (* the argument is not handed on: the default pattern is used *)
  {| named := named src_pattern_front; otherwise := TPattern (AConst src_default_message_pattern); by_qt := TQt |}.
Definition shared_front : pattern_front :=    (* one static formatter object serves every pipeline *)
  {| named := named src_pattern_front; otherwise := TPattern AShared; by_qt := TQt |}.
Definition trimmed_front : pattern_front :=   (* the pattern is trimmed on the way *)
  {| named := named src_pattern_front; otherwise := TPattern ATrimmed; by_qt := TQt |}.
