(* C20 — comments and the generator model.  tools/gen_qtlogger.h.py finds include directives with a regular
   expression over the RAW text of a file: a directive inside a comment is expanded as well, the body of the file
   it names lands inside that comment and the once-only rule then deletes the real directive — the single header
   is byte for byte the generator's output and still lacks the declarations of that file.
   Here: a C++ comment/literal lexer over bytes, a DECIDABLE predicate on source trees
   ([includes_outside_comments], evaluated by the extracted driver on the real tree on every run) and a guarded
   variant of the expansion ([process_g]: refuses to expand a file whose body would not start in code).
   Definitions only.  Not modelled: raw string literals, backslash-newline inside // comments, digraphs/trigraphs;
   a string/character literal is taken to end at the end of the line (as an unterminated one is an error anyway). *)
From Coq Require Import List NArith Bool.
Import ListNotations.
Require Import QtlVerif.AmalgamDefs.
Local Open Scope N_scope.

Inductive lx := LCode | LSlash | LLine | LBlock | LBlockStar | LStr | LStrEsc | LChr | LChrEsc.

Definition lx_step (st : lx) (c : N) : lx :=
  match st with
  | LCode => if c =? 47 then LSlash else if c =? 34 then LStr else if c =? 39 then LChr else LCode
  | LSlash => if c =? 47 then LLine else if c =? 42 then LBlock else if c =? 34 then LStr else if c =? 39 then LChr else LCode
  | LLine => if c =? 10 then LCode else LLine
  | LBlock => if c =? 42 then LBlockStar else LBlock
  | LBlockStar => if c =? 47 then LCode else if c =? 42 then LBlockStar else LBlock
  | LStr => if c =? 92 then LStrEsc else if c =? 34 then LCode else if c =? 10 then LCode else LStr
  | LStrEsc => LStr
  | LChr => if c =? 92 then LChrEsc else if c =? 39 then LCode else if c =? 10 then LCode else LChr
  | LChrEsc => LChr
  end.
Fixpoint lx_run (st : lx) (s : str) : lx :=
  match s with [] => st | c :: r => lx_run (lx_step st c) r end.
Definition is_code (st : lx) : bool := match st with LCode => true | _ => false end.
(* a line break brings the lexer back to code: everything but the inside of a block comment (and an escaped line end) *)
Definition ends_ok (st : lx) : bool := is_code (lx_step st 10).
(* is the character read in state st part of a comment? *)
Definition in_comment (st : lx) : bool := match st with LLine | LBlock | LBlockStar => true | _ => false end.

(* one file (its text after the SPDX/Copyright cut), walked exactly as [scan] walks it: every directive the scan stands on
   is met in code, the directive text itself brings the lexer back to code, and the file ends outside a block comment *)
Fixpoint inc_ok (s : str) (skip : nat) (st : lx) : bool :=
  match s with
  | [] => ends_ok st
  | c :: r =>
    match skip with
    | S k => inc_ok r k (lx_step st c)
    | O =>
      match match_include s with
      | None => inc_ok r O (lx_step st c)
      | Some (_, mlen) =>
        is_code st && is_code (lx_run (lx_step st c) (firstn (pred mlen) r)) && inc_ok r (pred mlen) (lx_step st c)
      end
    end
  end.
Definition file_ok (content : str) : bool := inc_ok (stripped content) O LCode.
(* the comment lines the generator puts around a body do not themselves open a comment *)
Definition name_ok (q : path) : bool := is_code (lx_run LCode (header_of q)) && is_code (lx_run LCode (footer_of q)).
Definition includes_outside_comments (t : tree) : bool :=
  forallb (fun pc => file_ok (snd pc)) t && forallb name_ok (all_paths t) && name_ok root_header.
(* the files that break it (for the report) *)
Definition files_with_include_in_comment (t : tree) : list path :=
  map fst (filter (fun pc => negb (file_ok (snd pc))) t).

(* state of the lexer after the text pushed so far (the accumulator is reversed) *)
Definition ost (out : str) : lx := lx_run LCode (rev_append out []).

(* the expansion with a run-time guard: a file is only expanded when its body starts in code *)
Fixpoint process_g (fuel : nat) (t : tree) (p : path) (g : gst) (out : str) : str * gst :=
  match fuel with
  | O => (out, starve g)
  | S f =>
    match lookup t p with
    | None => (out, g)
    | Some content =>
      if is_code (ost out) then scan t (process_g f t) (stripped content) O false (enter g p) out
      else (out, starve g)
    end
  end.
Fixpoint main_loop_g (t : tree) (srcs : list path) (first : bool) (g : gst) (out : str) : str * gst :=
  match srcs with
  | [] => (out, g)
  | p :: r =>
    let out1 := rev_append (header_of p) (if first then out else 10 :: out) in
    let (out2, g2) := process_g (fuel_for t) t p g (10 :: out1) in
    main_loop_g t r false g2 (10 :: out2)
  end.
Definition expand_g (t : tree) : str * gst := main_loop_g t (sources t) true init_state [].

(* what a compiler sees of a text: the characters outside comments *)
Fixpoint decomment (st : lx) (s : str) : str :=
  match s with
  | [] => []
  | c :: r => let st' := lx_step st c in
              if in_comment st' || in_comment st then decomment st' r else c :: decomment st' r
  end.
