(* C20 — The single-header distribution is exactly the amalgamation of the sources.
   The property itself is an equality for ONE tree and is decided on every run by checks/c20.py
   (translation validation: committed header = project generator output = output of the model below).
   The theorems here are the for-all content: they are about the Gallina model of the generator
   (AmalgamDefs.generate — the very function that is extracted and run against tools/gen_qtlogger.h.py),
   for EVERY source tree. *)
From Coq Require Import List NArith Bool.
Import ListNotations.
Require Import QtlVerif.AmalgamDefs QtlVerif.AmalgamProofs QtlVerif.AmalgamCondDefs QtlVerif.AmalgamCondProofs.
Require Import QtlVerif.AmalgamCommentDefs QtlVerif.AmalgamCommentProofs.
Local Open Scope N_scope.

(* included_once: no file body is emitted twice.  For arbitrary trees this is FALSE of the generator
   (C20_included_once_unconditional_refuted: the root sources are not entered into included_files, so a
   source that includes src/qtlogger/qtlogger.h gets its body again).  It holds in full under the
   hypothesis that is true of the real tree and that checks/c20.py evaluates on every run: no root
   source (qtlogger.h, the .cpp files) is in the include set.  (NoDup (map fst t): the tree is a map.) *)
Theorem C20_included_once : forall t,
  NoDup (map fst t) ->
  (forall p, In p (sources t) -> ~ In p (included_files t)) ->
  NoDup (emitted_files t).
Proof. exact included_once. Qed.
Print Assumptions C20_included_once.

Theorem C20_included_once_set : forall t, NoDup (included_files t).
Proof. exact included_once_set. Qed.
Print Assumptions C20_included_once_set.

Theorem C20_included_once_unconditional_refuted : exists t, NoDup (map fst t) /\ ~ NoDup (emitted_files t).
Proof.
  exists tiny_tree. split.
  - vm_compute. constructor; [intros [E|[]]; discriminate E|constructor; [intros []|constructor]].
  - vm_compute. intros H. inversion H as [|x l Hn _]. apply Hn. right. left. reflexivity.
Qed.
Print Assumptions C20_included_once_unconditional_refuted.

Theorem C20_emitted_are_sources_or_included : forall t p,
  In p (emitted_files t) -> In p (sources t) \/ In p (included_files t).
Proof. exact emitted_are_sources_or_included. Qed.
Print Assumptions C20_emitted_are_sources_or_included.

(* fuel sufficiency: the nesting fuel [fuel_for t] never runs out, for any tree.  Measure: every nested
   expansion is entered with one more path in the include set, which is duplicate-free and consists of
   paths that exist in the tree (files and directories on the way to them), so the nesting depth is at
   most |all_paths t| < fuel_for t. *)
Theorem C20_fuel_sufficient : forall t, starved (snd (expand t)) = false.
Proof. exact never_starved. Qed.
Print Assumptions C20_fuel_sufficient.

(* closure_complete.  A static notion of reachability does not exist for this generator: a directive is
   resolved against the GLOBAL include_dir, which is whatever directory the most recently entered file
   lives in — the same directive text in the same file resolves differently depending on what was
   expanded before it (C20_resolution_is_dynamic below).  Completeness is therefore stated against the
   trace the expansion itself produces: [directives_met] logs EVERY directive the scan stands on (the
   only place in [scan] where match_include succeeds), with the directory it was resolved against and
   the result.  Proved for every tree: whatever such a directive resolved to is in the include set, and
   if it is a file its body has been emitted (no fuel hypothesis any more). *)
Theorem C20_closure_complete_dynamic : forall t dir inc q,
  In (dir, inc, Some q) (directives_met t) ->
  In q (included_files t) /\ (is_file t q = true -> In q (emitted_files t)).
Proof. exact closure_complete_dynamic. Qed.
Print Assumptions C20_closure_complete_dynamic.

Theorem C20_closure_included_file_is_emitted : forall t q,
  In q (included_files t) -> is_file t q = true -> In q (emitted_files t).
Proof. exact included_file_is_emitted. Qed.
Print Assumptions C20_closure_included_file_is_emitted.

Theorem C20_closure_step : forall t fuel c r keep g out inc mlen q,
  match_include (c :: r) = Some (inc, mlen) -> resolve t (include_dir g) inc = Some q ->
  In q (included (snd (scan t (process fuel t) (c :: r) O keep g out))).
Proof. exact (fun t fuel => scan_closure_step t (process fuel t) (process_mono t fuel)). Qed.
Print Assumptions C20_closure_step.

Theorem C20_include_set_only_grows : forall t fuel p g out q,
  In q (included g) -> In q (included (snd (process fuel t p g out))).
Proof. exact (fun t fuel p g out q H => proj1 (process_mono t fuel p g out) q H). Qed.
Print Assumptions C20_include_set_only_grows.

(* the same directive, in the same file, unresolvable before and resolvable after another include:
   qtlogger.h = include x.h / include sub/a.h / include x.h, with sub/a.h and sub/x.h in the tree *)
Definition dynamic_tree : tree :=
  [ ([[115;114;99]; [113;116;108;111;103;103;101;114]; [113;116;108;111;103;103;101;114;46;104]], [35;105;110;99;108;117;100;101;32;34;120;46;104;34;10] ++ [35;105;110;99;108;117;100;101;32;34;115;117;98;47;97;46;104;34;10] ++ [35;105;110;99;108;117;100;101;32;34;120;46;104;34;10]);
    ([[115;114;99]; [113;116;108;111;103;103;101;114]; [115;117;98]; [97;46;104]], [105;110;116;32;97;59;10]);
    ([[115;114;99]; [113;116;108;111;103;103;101;114]; [115;117;98]; [120;46;104]], [105;110;116;32;120;59;10]) ].
Example C20_resolution_is_dynamic :
  map (fun e => (snd (fst e), snd e)) (directives_met dynamic_tree)
  = [ ([120;46;104], None); ([115;117;98;47;97;46;104], Some [[115;114;99]; [113;116;108;111;103;103;101;114]; [115;117;98]; [97;46;104]]); ([120;46;104], Some [[115;114;99]; [113;116;108;111;103;103;101;114]; [115;117;98]; [120;46;104]]) ].
Proof. vm_compute. reflexivity. Qed.

(* body_preserved.  Full statement: every non-include, non-copyright, non-pragma-once line of every
   emitted file occurs in the output, in order.  Proved, for every tree, every file and every nesting
   level: whenever a file is expanded, every character of its licence-stripped content that lies
   outside include directives is pushed on the output, in order (a subsequence of what the expansion
   of that file adds), and the last pass (newline squeezing) removes nothing but newlines.  Missing:
   the global pragma-once deletion in between (a substring deletion on the joined text; it can join
   the characters around it into new tokens, so no line-level statement holds in general). *)
Theorem C20_body_preserved_partial : forall t fuel p g out content,
  lookup t p = Some content ->
  exists X, fst (process (S fuel) t p g out) = rev X ++ out /\ Subseq (noninc (stripped content) O) X.
Proof. exact body_preserved_by_expansion. Qed.
Print Assumptions C20_body_preserved_partial.

Theorem C20_squeeze_removes_only_newlines : forall s,
  filter (fun c => negb (c =? 10)) (squeeze s O []) = filter (fun c => negb (c =? 10)) s.
Proof. exact (fun s => squeeze_keeps_non_newlines s O []). Qed.
Print Assumptions C20_squeeze_removes_only_newlines.

(* non-vacuity: a four-file tree with a nested directory, licence lines, pragma once, a blank run, a
   duplicate include, an include with blanks after the hash, an unresolvable include and a source that
   includes the root header.  The right-hand side is what tools/gen_qtlogger.h.py wrote for this tree
   (after the fixed preamble). *)
Definition example_tree : tree :=
    [([[115;114;99]; [113;116;108;111;103;103;101;114]; [113;116;108;111;103;103;101;114;46;104]], [47;47;32;67;111;112;121;114;105;103;104;116;32;40;67;41;32;120;10;47;47;32;83;80;68;88;45;76;105;99;101;110;115;101;45;73;100;101;110;116;105;102;105;101;114;58;32;77;73;84;10;35;112;114;97;103;109;97;32;111;110;99;101;10;35;105;110;99;108;117;100;101;32;34;115;117;98;47;97;46;104;34;10;35;105;110;99;108;117;100;101;32;34;98;46;104;34;10;105;110;116;32;113;59;10]);
     ([[115;114;99]; [113;116;108;111;103;103;101;114]; [115;117;98]; [97;46;104]], [35;112;114;97;103;109;97;32;111;110;99;101;10;10;10;10;35;105;110;99;108;117;100;101;32;34;46;46;47;98;46;104;34;10;105;110;116;32;97;59;10]);
     ([[115;114;99]; [113;116;108;111;103;103;101;114]; [98;46;104]], [35;112;114;97;103;109;97;32;111;110;99;101;10;105;110;116;32;98;59;32;47;47;32;83;80;68;88;32;116;97;105;108;10]);
     ([[115;114;99]; [113;116;108;111;103;103;101;114]; [120;46;99;112;112]], [35;105;110;99;108;117;100;101;32;34;113;116;108;111;103;103;101;114;46;104;34;10;35;105;110;99;108;117;100;101;32;34;115;117;98;47;97;46;104;34;10;35;32;32;105;110;99;108;117;100;101;32;34;98;46;104;34;10;35;105;110;99;108;117;100;101;32;34;109;105;115;115;105;110;103;46;104;34;10;105;110;116;32;120;59;10])].
Example C20_nonvacuous :
  generate example_tree = preamble ++
    [10;47;47;32;113;116;108;111;103;103;101;114;46;104;10;10;47;47;32;97;46;104;10;10;47;47;32;98;46;104;10;10;105;110;116;32;98;59;32;10;10;47;47;32;101;110;100;32;98;46;104;10;10;105;110;116;32;97;59;10;10;47;47;32;101;110;100;32;97;46;104;10;10;105;110;116;32;113;59;10;10;47;47;32;120;46;99;112;112;10;10;47;47;32;113;116;108;111;103;103;101;114;46;104;10;10;105;110;116;32;113;59;10;10;47;47;32;101;110;100;32;113;116;108;111;103;103;101;114;46;104;10;10;35;105;110;99;108;117;100;101;32;34;109;105;115;115;105;110;103;46;104;34;10;105;110;116;32;120;59;10;10]
  /\ map (map (@length N)) (emitted_files example_tree) = [[3; 8; 10]; [3; 8; 3; 3]; [3; 8; 3]; [3; 8; 5]; [3; 8; 10]]%nat.
Proof. vm_compute. split; reflexivity. Qed.

(* ---- "so header-only users get precisely the behaviour of the library build" -------------------------------------
   The two distributions compile the same text under different macro environments (library: QTLOGGER_STATIC and
   QTLOGGER_LIBRARY; single header: QTLOGGER_DECL_SPEC and neither of the two).  AmalgamCondDefs models what decides
   which text a build sees: conditional groups, define/undef, local includes, pragma once; checks/c20.py runs the
   extracted model against g++ -E on every translation unit of the real tree and evaluates [confined] for the two
   environments.  When [confined] holds - the environments agree on every macro that a group outside the known set K
   mentions, and the known chains (logger_global.h: QTLOGGER_EXPORT, the default of QTLOGGER_DECL_SPEC) contain nothing
   but define/undef of macros no other group mentions - both builds enter exactly the same groups outside K, for every
   tree, every table of opaque conditions and every pair of environments. *)
Theorem C20_branches_confined_to_known_groups : forall K opq fs root e1 e2,
  confined K opq fs root e1 e2 = true ->
  filter (not_k K) (branches K opq fs root e1) = filter (not_k K) (branches K opq fs root e2)
  /\ once (run_tu K opq fs root e1) = once (run_tu K opq fs root e2)
  /\ too_deep (run_tu K opq fs root e1) = too_deep (run_tu K opq fs root e2).
Proof. exact confined_sound. Qed.
Print Assumptions C20_branches_confined_to_known_groups.

Theorem C20_same_text_unless_a_condition_mentions_the_difference : forall opq fs root e1 e2,
  confined [] opq fs root e1 e2 = true ->
  branches [] opq fs root e1 = branches [] opq fs root e2.
Proof. exact same_branches_unless_mentioned. Qed.
Print Assumptions C20_same_text_unless_a_condition_mentions_the_difference.

(* non-vacuity.  Macros: 1 = QTLOGGER_STATIC, 2 = QTLOGGER_LIBRARY, 3 = QTLOGGER_DECL_SPEC, 4 = QTLOGGER_EXPORT,
   5 = QTLOGGER_NO_THREAD.  File 0 = logger_global.h (pragma once; the known chains 10/11/12 and 13), file 1 = a source
   that includes it twice and has a feature group (20/21).  Library environment [1;2], single-header environment [3]. *)
Definition global_h : list line :=
  [LOnce; LIf 10 (CDef 1); LDefine 4; LElif 11 (CDef 2); LDefine 4; LElse 12; LDefine 4; LEndif;
   LIf 13 (CNot (CDef 3)); LDefine 3; LEndif].
Definition good_source : list line :=
  [LInclude 0; LInclude 0; LIf 20 (CNot (CDef 5)); LElse 21; LEndif].
Definition known_groups : list N := [10; 11; 12; 13]%N.
Example C20_confined_nonvacuous :
  confined known_groups (fun _ => false) [global_h; good_source] 1 [1; 2]%N [3]%N = true
  /\ branches known_groups (fun _ => false) [global_h; good_source] 1 [1; 2]%N = [10; 13; 20]%N
  /\ branches known_groups (fun _ => false) [global_h; good_source] 1 [3]%N = [12; 20]%N.
Proof. vm_compute. repeat split; reflexivity. Qed.

(* the shape of an instance() split on QTLOGGER_STATIC: not confined, and the two builds do enter different groups *)
Definition split_source : list line :=
  [LInclude 0; LIf 30 (CDef 1); LElse 31; LEndif].
Example C20_split_on_static_is_not_confined :
  confined known_groups (fun _ => false) [global_h; split_source] 1 [1; 2]%N [3]%N = false
  /\ filter (not_k known_groups) (branches known_groups (fun _ => false) [global_h; split_source] 1 [1; 2]%N) = [30]%N
  /\ filter (not_k known_groups) (branches known_groups (fun _ => false) [global_h; split_source] 1 [3]%N) = [31]%N.
Proof. vm_compute. repeat split; reflexivity. Qed.

(* a known chain that starts to guard something else (here: another group) is flagged as well *)
Example C20_known_chain_with_foreign_content_is_not_confined :
  confined known_groups (fun _ => false)
    [[LOnce; LIf 10 (CDef 1); LIf 40 (CDef 5); LEndif; LEndif]; good_source] 1 [1; 2]%N [3]%N = false.
Proof. vm_compute. reflexivity. Qed.

(* ---- comments.  The generator's directive regex works on raw text: a directive inside a comment is expanded too, the body lands
   in the comment and the once-only rule deletes the real directive (header = generator output, declarations gone).
   [includes_outside_comments] is decidable and evaluated by the extracted driver on the real tree on every run.  Under it, for
   EVERY tree: the expansion guarded by "the body of a file starts in code" ([expand_g]: the guard is checked at every nesting
   level, on the lexer state of the whole text written so far) is the expansion itself - the guard never fires - and every file
   expansion entered in code hands the lexer back outside a block comment. *)
Theorem C20_bodies_start_in_code : forall t, includes_outside_comments t = true -> expand_g t = expand t.
Proof. exact expand_g_eq. Qed.
Print Assumptions C20_bodies_start_in_code.

Theorem C20_file_expansion_is_comment_neutral : forall t, includes_outside_comments t = true ->
  forall fuel q g out, ost out = LCode ->
  process_g fuel t q g out = process fuel t q g out /\ ends_ok (ost (fst (process fuel t q g out))) = true.
Proof. exact process_g_eq. Qed.
Print Assumptions C20_file_expansion_is_comment_neutral.

Theorem C20_amalgamation_ends_outside_comment : forall t, includes_outside_comments t = true ->
  ends_ok (ost (fst (expand t))) = true.
Proof. exact expansion_ends_outside_comment. Qed.
Print Assumptions C20_amalgamation_ends_outside_comment.

(* non-vacuity: a tree that satisfies the predicate; and the round-5 shape (directive quoted in a block comment before the real
   one) does not: the predicate is false, names the file, and the guarded expansion really differs (the guard fires) *)
Example C20_comment_predicate_holds : includes_outside_comments ok_tree = true /\ emitted_files ok_tree = [root_dir ++ [qh]; root_dir ++ [bh]].
Proof. vm_compute. split; reflexivity. Qed.
Example C20_comment_predicate_refutes_doc_example :
  includes_outside_comments doc_tree = false
  /\ files_with_include_in_comment doc_tree = [root_dir ++ [qh]]
  /\ starved (snd (expand_g doc_tree)) = true /\ starved (snd (expand doc_tree)) = false
  /\ decomment LCode (generate ok_tree) <> decomment LCode (generate doc_tree).
Proof. vm_compute. repeat split; try reflexivity. discriminate. Qed.
