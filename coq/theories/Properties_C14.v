(* C14 — No input can crash, corrupt memory or hang formatting and filtering.
   Property theorems only; each is closed by [exact] of a lemma of FuncCleanupProofs.v /
   SafetyProofs.v.  The models are CHECKED transcriptions: every array access, slice, table index
   and C int result is an operation that returns None when out of range, every loop carries fuel.
   "model x = Some r" therefore says: on input x no access is out of bounds, no int overflows and
   every loop finishes.  The constants (qualifier list, operator characters, look-behind numbers,
   typeLetters table, ...) are the ones tools/s2c/safety.py reads from /repo on every run.
   PARTIAL by nature: PCRE2/QRegularExpression, Qt's string allocation and C++-level memory
   safety are outside any Gallina model; the ASan+UBSan run of the real library is the tie. *)
From Coq Require Import List NArith ZArith Bool.
Import ListNotations.
Require Import QtlVerif.SrcSafety QtlVerif.FuncCleanupDefs QtlVerif.FuncCleanupProofs QtlVerif.SafetyDefs QtlVerif.SafetyProofs.
Local Open Scope Z_scope.

(* the constants read from the source satisfy the decidable side condition (by computation):
   no empty qualifier; `openParen >= 8`, mid(openParen - 8, 8), `openParen == 8`, at(openParen - 9)
   are mutually consistent *)
Theorem C14_cleanup_source_constants_admissible : cfg_okb src_cfg = true.
Proof. vm_compute. reflexivity. Qed.
Print Assumptions C14_cleanup_source_constants_admissible.

(* HEADLINE.  For EVERY byte string that a QByteArray can hold (size < 2^31 - 1), the checked
   transcription of FunctionToken::cleanup returns a result: no at()/mid()/truncate()/chop()/remove()
   argument is ever out of range, every position, bracket counter and length the C++ computes in an
   int stays within [-2^31, 2^31), none of its loops runs out of fuel (= it terminates), and
   the result is never longer than the input. *)
Theorem C14_cleanup_total : forall s, len s <= INT_MAX - 1 -> exists r, cleanup s = Some r /\ len r <= len s.
Proof. exact (cleanup_cfg_total src_cfg C14_cleanup_source_constants_admissible). Qed.
Print Assumptions C14_cleanup_total.

(* the oracle the check evaluates on the implementation's %{func} output means exactly
   "the implementation computed what the checked model computes" *)
Theorem C14_func_oracle_iff : forall input out, len input <= INT_MAX - 1 ->
  (prop_c14_func_b input out = true <-> cleanup input = Some out).
Proof. exact (fun i o => oracle_iff i o C14_cleanup_source_constants_admissible). Qed.
Print Assumptions C14_func_oracle_iff.

(* parseFormatSpec: total for every spec text (s.at(0), s.at(1), chop(1), mid(pos) in range); an
   accepted width is a positive int *)
Theorem C14_parse_spec_total : forall s, exists r, parse_spec_c s = Some r /\
  (forall sp, r = Some sp -> 0 < width sp <= INT_MAX).
Proof. exact parse_spec_total. Qed.
Print Assumptions C14_parse_spec_total.

(* applyPadding: for every spec whose width is an int and every value whose size is an int, no
   left/right/QString(n, ch) argument is out of range, `width - length`, `padding / 2`,
   `padding - leftPad` fit an int and are never negative, and |result| <= max(|value|, width) *)
Theorem C14_padding_total : forall sp v, width sp <= INT_MAX -> len v <= INT_MAX ->
  exists r, apply_padding_c sp v = Some r /\ len r <= Z.max (len v) (width sp).
Proof. exact apply_padding_total. Qed.
Print Assumptions C14_padding_total.

(* ...and that bound is attained: plain padding yields exactly `width` code units, however large.
   This is the resource side of finding F6 (width near INT_MAX = a request for gigabytes; the real
   code dies with std::bad_alloc): no theorem can bound the output below the width the pattern asks for *)
Theorem C14_padding_reaches_width : forall sp v, 0 < width sp <= INT_MAX -> len v <= width sp ->
  is_anone (al sp) = false -> mode sp = MNone -> exists r, apply_padding_c sp v = Some r /\ len r = width sp.
Proof. exact padding_reaches_width. Qed.
Print Assumptions C14_padding_reaches_width.

(* ShortFileToken: mid(lastSlash + 1), mid(baseDir.length()), mid(1) in range *)
Theorem C14_short_file_total : forall base file, len file <= INT_MAX ->
  exists r, short_file_c base file = Some r /\ len r <= len file.
Proof. exact short_file_total. Qed.
Print Assumptions C14_short_file_total.

(* parsePattern: for every pattern text (size + 2 an int) the scanning loop finishes and every
   m_pattern[pos], mid, left, pos + 1, pos + 2, closingPos + 1 ... is in range *)
Theorem C14_parse_pattern_total : forall p, len p <= INT_MAX - 2 -> exists toks, parse_pattern_c p = Some toks.
Proof. exact parse_pattern_total. Qed.
Print Assumptions C14_parse_pattern_total.

(* PatternFormatter::format: for EVERY token list and message, if the resource bound
   sum over emitting tokens of max(|value|, width) fits an int (QString sizes are ints), every token
   emits without an out-of-range access or int overflow - including %{func} (cleanup), the literal's
   mid(removeCount), the optional attribute's chop and the saturating pending-remove counter - and
   |result| <= that bound *)
Theorem C14_format_total : forall toks m, len (mfile m) <= INT_MAX -> len (mfunc m) <= INT_MAX - 1 ->
  fmt_bound toks m <= INT_MAX ->
  exists r, format_c toks m = Some r /\ len r <= fmt_bound toks m.
Proof. exact (fun toks m Hf Hg Hb => format_total toks m (conj Hf Hg) C14_cleanup_source_constants_admissible Hb). Qed.
Print Assumptions C14_format_total.

(* PrettyFormatter: typeLetters[type] is inside the table for the five message types (the table read
   from the source has at least 5 entries), and the width arithmetic (estimatedSize,
   categoryFormatLength, spaceCount) fits an int with a non-negative padding count; the remembered
   category width stays an int *)
Theorem C14_pretty_index_safe : forall t : mtype, exists c, type_letter_c t = Some c.
Proof. exact pretty_index_safe. Qed.
Print Assumptions C14_pretty_index_safe.
Theorem C14_pretty_total : forall colorize maxw cw t cat msg,
  maxw <= INT_MAX -> 0 <= cw <= INT_MAX ->
  len msg + (match cat with Some c => len c | None => 0 end) <= INT_MAX - 200 ->
  exists out cw', pretty_c colorize maxw cw t cat msg = Some (out, cw') /\ 0 <= cw' <= INT_MAX.
Proof. exact pretty_total. Qed.
Print Assumptions C14_pretty_total.

(* the oracle the check evaluates on the implementation's pattern output implies: the checked
   model ran to completion on this input, the implementation returned its result, within the bound *)
Theorem C14_pattern_oracle_sound : forall p m out, prop_c14_pattern_b p m out = true ->
  exists toks, parse_pattern_c p = Some toks /\ format_c toks m = Some out /\ len out <= fmt_bound toks m.
Proof. exact pattern_oracle_sound. Qed.
Print Assumptions C14_pattern_oracle_sound.


(* ---- round 4: the NULL POINTER as file / function / category ------------------------------------
   QMessageLogContext{nullptr, 0, nullptr, nullptr} is what release builds (QT_NO_MESSAGELOGCONTEXT), QML and
   scripting callers and a default-constructed LogMessage deliver.  [rawmsg] carries the three C strings as
   options; the checked model converts them as the code does (QString(p) / fromLatin1(p) / QByteArray(p)). *)
(* a null pointer formats exactly as a pointer to "" - for every pattern text *)
Theorem C14_null_pointer_formats_as_empty : forall p r, format_raw_c p (denull r) = format_raw_c p r.
Proof. exact format_raw_null_is_empty. Qed.
Print Assumptions C14_null_pointer_formats_as_empty.
(* formatting a message with any combination of null pointers is total, within the resource bound *)
Theorem C14_format_total_with_null_pointers : forall toks r,
  len (cstr (r_file r)) <= INT_MAX -> len (cstr (r_func r)) <= INT_MAX - 1 -> fmt_bound toks (env_of_raw r) <= INT_MAX ->
  exists out, format_c toks (env_of_raw r) = Some out /\ len out <= fmt_bound toks (env_of_raw r).
Proof. exact (fun toks r Hf Hg Hb => format_raw_total toks r Hf Hg C14_cleanup_source_constants_admissible Hb). Qed.
Print Assumptions C14_format_total_with_null_pointers.
(* every placeholder has a value on the all-null context, and the ones that read a pointer (file, shortfile with
   and without base dir, function, func, category) yield the empty string *)
Theorem C14_every_placeholder_on_null_context : forall k r, r_file r = None -> r_func r = None -> r_cat r = None ->
  exists v, value_c k (env_of_raw r) = Some v /\ (is_ptr_kind k = true -> v = []).
Proof. exact (fun k r => null_placeholders k r C14_cleanup_source_constants_admissible). Qed.
Print Assumptions C14_every_placeholder_on_null_context.
(* PrettyFormatter on the raw category pointer: null is the non-default category with the empty name *)
Theorem C14_pretty_total_raw_category : forall colorize maxw cw t (c : option qstr) msg,
  maxw <= INT_MAX -> 0 <= cw <= INT_MAX -> len msg + len (cstr c) <= INT_MAX - 200 ->
  exists out cw', pretty_c colorize maxw cw t (pretty_cat_of_ptr c) msg = Some (out, cw') /\ 0 <= cw' <= INT_MAX.
Proof. exact pretty_raw_total. Qed.
Print Assumptions C14_pretty_total_raw_category.

(* ---- round 4: widths of ten and more digits -----------------------------------------------------
   an all-digit width text is accepted iff its MATHEMATICAL value (no cut-off, no wrap-around) fits an int, and then
   that value is the width: 4294967301 is never read as 5 *)
Theorem C14_width_text_value : forall l, l <> [] -> forallb is_digit l = true ->
  to_int l = if dec_value l 0 <=? INT_MAX then (dec_value l 0, true) else (0, false).
Proof. exact to_int_digits. Qed.
Print Assumptions C14_width_text_value.
(* [fill]align + a width above INT_MAX, and width + '!' above INT_MAX, are not format specs at all *)
Theorem C14_width_overflow_is_not_a_spec : forall a ds, is_anone (align_of a) = false -> ds <> [] ->
  forallb is_digit ds = true -> INT_MAX < dec_value ds 0 -> parse_spec_c (a :: ds) = Some None.
Proof. exact parse_spec_overflow_rejected. Qed.
Print Assumptions C14_width_overflow_is_not_a_spec.
Theorem C14_truncate_width_overflow_is_not_a_spec : forall ds, ds <> [] -> forallb is_digit ds = true ->
  INT_MAX < dec_value ds 0 -> parse_spec_c (ds ++ [src_trunc_suffix]) = Some None.
Proof. exact parse_spec_overflow_rejected_trunc. Qed.
Print Assumptions C14_truncate_width_overflow_is_not_a_spec.

(* ---- round 5: the column limit maxCategoryWidth is quantified over the WHOLE int range ------------------------
   PrettyFormatter(colorize, maxCategoryWidth): INT_MAX is the natural way to say "no limit", 0 and negative values
   switch the alignment off.  One formatter object, a whole message sequence (the column is remembered from message to
   message): for every limit in [INT_MIN, INT_MAX] every sum and difference of the width arithmetic
   (estimatedSize, categoryFormatLength, qMin(field, limit), spaceCount) fits an int, the padding count is never
   negative, and there is one output per message. *)
Theorem C14_pretty_sequence_total_every_limit : forall colorize maxw l, INT_MIN <= maxw <= INT_MAX ->
  Forall (fun x : mtype * option qstr * qstr => len (snd x) + len (cstr (snd (fst x))) <= INT_MAX - 200) l ->
  exists outs, pretty_seq_raw_c colorize maxw 0 l = Some outs /\ length outs = length l.
Proof. exact pretty_seq_raw_total. Qed.
Print Assumptions C14_pretty_sequence_total_every_limit.
(* the remembered column: below a positive limit it never shrinks and never exceeds the limit (in particular it is
   never negative and never above INT_MAX), without a positive limit it is not touched *)
Theorem C14_pretty_column_within_limit : forall colorize maxw cw t cat msg out cw',
  pretty_c colorize maxw cw t cat msg = Some (out, cw') ->
  (0 < maxw -> cw <= maxw -> cw <= cw' <= maxw) /\ (maxw <= 0 -> cw' = cw).
Proof. exact pretty_column_bounds. Qed.
Print Assumptions C14_pretty_column_within_limit.
(* "no limit" = INT_MAX: the column is the longest "[name] " field seen so far - no wrap-around at the top of the range *)
Theorem C14_pretty_no_limit_column : forall colorize cw t cat msg out cw',
  len msg + (match cat with Some c => len c | None => 0 end) <= INT_MAX - 200 ->
  pretty_c colorize INT_MAX cw t cat msg = Some (out, cw') -> cw' = Z.max cw (cat_field_len cat).
Proof. exact pretty_column_no_limit. Qed.
Print Assumptions C14_pretty_no_limit_column.

(* ---- round 5: the formatter chain of the one-line configure(pipeline, path, ...) ---------------------------------
   PrettyFormatter(colour) -> console sink -> FunctionFormatter that removes the colour codes (ESC [ params* final,
   constants read from configure.cpp) -> file sink.  For every message text - escape fragments included - the
   chain is total and what reaches the file is the PrettyFormatter text without colour codes, never longer. *)
Theorem C14_configure_chain_total : forall cw t (c : option qstr) msg, 0 <= cw <= INT_MAX -> len msg + len (cstr c) <= INT_MAX - 200 ->
  exists p out cw', pretty_c src_cfg_colorize src_pretty_default_maxw cw t (pretty_cat_of_ptr c) msg = Some (p, cw') /\
                    configure_c cw t (pretty_cat_of_ptr c) msg = Some (out, cw') /\ out = strip_sgr p /\ len out <= len p /\ 0 <= cw' <= INT_MAX.
Proof. exact configure_total. Qed.
Print Assumptions C14_configure_chain_total.
Theorem C14_strip_colour_codes_never_longer : forall s, len (strip_sgr s) <= len s.
Proof. exact strip_sgr_len. Qed.
Print Assumptions C14_strip_colour_codes_never_longer.
Theorem C14_strip_leaves_text_without_esc : forall s, ~ In src_sgr_esc s -> strip_sgr s = s.
Proof. exact strip_sgr_plain. Qed.
Print Assumptions C14_strip_leaves_text_without_esc.
(* message texts are arbitrary code units: on a text that is not well-formed UTF-16 (lone surrogate) the regular
   expression matches nothing, the text - colour codes included - reaches the file as it is (observed on the real chain) *)
Theorem C14_strip_ill_formed_text_untouched : forall s, utf16_ok s = false -> strip_sgr s = s.
Proof. exact strip_sgr_ill_formed. Qed.
Print Assumptions C14_strip_ill_formed_text_untouched.
(* an UNFINISHED colour code at the end of the text (ESC [ and parameters, no final byte behind it) is kept and the
   remover returns: the message text on which a "find ESC [, then find the final byte" loop does not come back *)
Theorem C14_strip_returns_on_unfinished_code : forall s ps, ~ In src_sgr_esc s -> forallb is_sgr_param ps = true ->
  strip_sgr (s ++ src_sgr_esc :: src_sgr_open :: ps) = s ++ src_sgr_esc :: src_sgr_open :: ps.
Proof. exact strip_sgr_unfinished_tail. Qed.
Print Assumptions C14_strip_returns_on_unfinished_code.

(* non-vacuity: the model computes real results on real signatures *)
Example C14_cleanup_nonvacuous :
  (* "std::vector<int> ns::C<T>::f(int) const [with T = int]" -> "ns::C::f" *)
  cleanup (B [115;116;100;58;58;118;101;99;116;111;114;60;105;110;116;62;32;110;115;58;58;67;60;84;62;58;58;102;40;105;110;116;41;32;99;111;110;115;116;32;91;119;105;116;104;32;84;32;61;32;105;110;116;93])
  = Some (B [110;115;58;58;67;58;58;102]).
Proof. vm_compute. reflexivity. Qed.

(* "[%{type:>8}] %{a?1,1}>%{message:*^7!}" on (Warning, "hello world") with no attribute a:
   the missing optional attribute removes the "] " ... one char before and the ">" after *)
Example C14_format_nonvacuous :
  format_pattern_c (A [91;37;123;116;121;112;101;58;62;56;125;93;32;37;123;97;63;49;44;49;125;62;37;123;109;101;115;115;97;103;101;58;42;94;55;33;125])
    {| mt := Warning; text := A [104;101;108;108;111;32;119;111;114;108;100]; mfile := []; mfunc := []; mcat := []; mline := 1;
       mtime := []; mtid := []; mptr := []; attrs := [] |}
  = Some (A [91;32;119;97;114;110;105;110;103;93;104;101;108;108;111;32;119]).
Proof. vm_compute. reflexivity. Qed.

(* "%{shortfile}:%{line} %{message}" on (Warning, "hello", line 0) with file = function = category = nullptr -> ":0 hello" *)
Example C14_null_context_nonvacuous :
  format_raw_c (A [37;123;115;104;111;114;116;102;105;108;101;125;58;37;123;108;105;110;101;125;32;37;123;109;101;115;115;97;103;101;125])
    {| r_mt := Warning; r_text := A [104;101;108;108;111]; r_file := None; r_func := None; r_cat := None; r_line := 0;
       r_time := []; r_tid := []; r_ptr := []; r_attrs := [] |}
  = Some (A [58;48;32;104;101;108;108;111]).
Proof. vm_compute. reflexivity. Qed.
(* "<4294967301" (2^32 + 5) is not a spec; "<5" is *)
Example C14_width_overflow_nonvacuous :
  parse_spec_c (A [60;52;50;57;52;57;54;55;51;48;49]) = Some None
  /\ parse_spec_c (A [60;53]) = Some (Some {| fill := 32%N; al := ALeft; width := 5; mode := MNone |})
  /\ dec_value (A [52;50;57;52;57;54;55;51;48;49]) 0 = 4294967301.
Proof. vm_compute. repeat split; reflexivity. Qed.

(* PrettyFormatter(false, INT_MAX) on (W, "app.network", "x"), (W, "ui", "y"): the second message is padded to the
   column of the first ("[app.network] " = 14, "[ui] " = 5 -> 9 blanks) *)
Example C14_pretty_no_limit_nonvacuous :
  pretty_seq_raw_c false INT_MAX 0
    [ (Warning, Some (A [97;112;112;46;110;101;116;119;111;114;107]), A [120]); (Warning, Some (A [117;105]), A [121]) ]
  = Some [ A [87;32;91;97;112;112;46;110;101;116;119;111;114;107;93;32;120];
           A [87;32;91;117;105;93;32;32;32;32;32;32;32;32;32;32;121] ].
Proof. vm_compute. reflexivity. Qed.
(* ESC[1;32m I ESC[0m " x " ESC[m ESC[1;3  ->  I " x " ESC[1;3   (complete codes removed, the cut-off one kept) *)
Example C14_strip_nonvacuous :
  strip_sgr (A [27;91;49;59;51;50;109;73;27;91;48;109;32;120;32;27;91;109;27;91;49;59;51]) = A [73;32;120;32;27;91;49;59;51].
Proof. vm_compute. reflexivity. Qed.
(* ... and with a lone low surrogate in front nothing is removed *)
Example C14_strip_ill_formed_nonvacuous :
  strip_sgr (A [56832;27;91;48;109;120]) = A [56832;27;91;48;109;120] /\ strip_sgr (A [55357;56832;27;91;48;109;120]) = A [55357;56832;120].
Proof. vm_compute. split; reflexivity. Qed.
(* configure chain, debug message "a" ESC "[1;3" in category "app": "  [app] a" ESC "[1;3" reaches the file *)
Example C14_configure_chain_nonvacuous :
  configure_seq_raw_c 0 [ (Debug, Some (A [97;112;112]), A [97;27;91;49;59;51]) ]
  = Some [ A [32;32;91;97;112;112;93;32;97;27;91;49;59;51] ].
Proof. vm_compute. reflexivity. Qed.
