(* C02 — signal sinks (SimplePipeline::sendToSignal / SignalSink): executable definitions only (no proofs).

   A SignalSink is a sink whose send() emits the Qt signal message(lmsg) from the thread that runs the pipeline, inside
   the pipeline's critical section.  What a connected receiver observes is decided by Qt's connection type; the library's
   sendToSignal() makes a string-based AutoConnection, i.e. at emission time
     - emitting thread = the thread the receiver lives in ([home])  ->  direct call: received at once, by the emitter;
     - any other emitting thread  ->  the call is QUEUED (the argument type is looked up by name and copied) and the
       receiver gets it when its thread dispatches its event queue, in FIFO order.
   The model: a recorded trace is a list of
       SX e   the recording sink of the pipeline received entry e = (thread, per-thread index, sequence number)
       SS e   the signal was emitted with e (observed by a directly connected functor = the emission itself)
       SQ e   the AutoConnection receiver living in thread [home] received e
   [accept_sig] replays the trace against Qt's delivery rule (a pending emission, a pending direct call, the FIFO of
   queued calls); [sgen] is the generative small-step model (enter / emit / pump) whose traces the acceptor takes;
   [prop_sig_b] is the direct boolean oracle in the property's own terms. *)
From Coq Require Import List Arith Bool.
Import ListNotations.
Require Import QtlVerif.ConcDefs.

Inductive sev := SX (e : entry) | SS (e : entry) | SQ (e : entry).
Definition entry_eqb (a b : entry) : bool :=
  Nat.eqb (e_tid a) (e_tid b) && Nat.eqb (e_idx a) (e_idx b) && Nat.eqb (e_seq a) (e_seq b).
Fixpoint entries_eqb (a b : list entry) : bool :=
  match a, b with [], [] => true | x :: a', y :: b' => entry_eqb x y && entries_eqb a' b' | _, _ => false end.

(* s_cur: delivered to the recording sink, emission due (still inside the critical section);
   s_dir: emitted by the home thread: the direct call of the receiver is due before anything else happens;
   s_q:   queued calls not yet dispatched by the home thread *)
Record sstate := { s_cur : option entry; s_dir : option entry; s_q : list entry }.
Definition ss0 : sstate := {| s_cur := None; s_dir := None; s_q := [] |}.
Definition sstep (home : nat) (s : sstate) (ev : sev) : option sstate :=
  match ev with
  | SX e => match s_cur s, s_dir s with
            | None, None => Some {| s_cur := Some e; s_dir := None; s_q := s_q s |}
            | _, _ => None
            end
  | SS e => match s_cur s, s_dir s with
            | Some c, None =>
                if entry_eqb e c
                then if Nat.eqb (e_tid e) home
                     then Some {| s_cur := None; s_dir := Some e; s_q := s_q s |}
                     else Some {| s_cur := None; s_dir := None; s_q := s_q s ++ [e] |}
                else None
            | _, _ => None
            end
  | SQ e => match s_dir s with
            | Some d => if entry_eqb e d then Some {| s_cur := s_cur s; s_dir := None; s_q := s_q s |} else None
            | None => match s_q s with
                      | h :: r => if entry_eqb e h then Some {| s_cur := s_cur s; s_dir := None; s_q := r |} else None
                      | [] => None
                      end
            end
  end.
Fixpoint srun (home : nat) (s : sstate) (tr : list sev) : option sstate :=
  match tr with
  | [] => Some s
  | ev :: r => match sstep home s ev with Some s' => srun home s' r | None => None end
  end.
Definition s_quiet (s : sstate) : bool :=
  match s_cur s, s_dir s, s_q s with None, None, [] => true | _, _, _ => false end.
(* accepts exactly the complete traces: every event allowed by Qt's delivery rule, nothing left undelivered *)
Definition accept_sig (home : nat) (tr : list sev) : bool :=
  match srun home ss0 tr with Some s => s_quiet s | None => false end.
Fixpoint sig_prefix (home : nat) (s : sstate) (tr : list sev) : nat :=
  match tr with
  | [] => 0
  | ev :: r => match sstep home s ev with Some s' => S (sig_prefix home s' r) | None => 0 end
  end.

(* projections of a trace *)
Fixpoint sxs (tr : list sev) : list entry := match tr with [] => [] | SX e :: r => e :: sxs r | _ :: r => sxs r end.
Fixpoint sss (tr : list sev) : list entry := match tr with [] => [] | SS e :: r => e :: sss r | _ :: r => sss r end.
Fixpoint sqs (tr : list sev) : list entry := match tr with [] => [] | SQ e :: r => e :: sqs r | _ :: r => sqs r end.

(* the oracle in the property's own terms, independent of the acceptor:
   - the signal sink is handed every message exactly once, in pipeline order (emissions = deliveries of the recording sink);
   - the receiver gets every message exactly once (same number, and per producing thread the same list in the same order);
   - unless the receiver's own thread emits too, the receiver gets them in pipeline order (so consecutive sequence numbers
     stay consecutive at the receiver) *)
Definition emits_from (home : nat) (l : list entry) : bool := existsb (fun e => Nat.eqb (e_tid e) home) l.
Definition prop_sig_b (home : nat) (tr : list sev) : bool :=
  entries_eqb (sss tr) (sxs tr)
  && Nat.eqb (length (sqs tr)) (length (sxs tr))
  && forallb (fun t => entries_eqb (of_thread t (sqs tr)) (of_thread t (sxs tr))) (map e_tid (sxs tr ++ sqs tr))
  && (emits_from home (sxs tr) || entries_eqb (sqs tr) (sxs tr)).
(* the stronger statement "the receiver sees pipeline order whoever emits" (false for an AutoConnection as soon as the
   receiver's thread logs while queued calls are pending: see C02_signal_home_thread_overtakes) *)
Definition prop_sig_strict_b (tr : list sev) : bool := entries_eqb (sqs tr) (sxs tr).

(* ---- generative model: what the threads do -----------------------------------------------------
   AEnter e : a thread delivers e to the recording sink (inside the pipeline)
   AEmit    : the same thread reaches the signal sink: emission; a home-thread emission is received at once
   APump    : the home thread dispatches the oldest queued call
   an action that is not enabled is skipped *)
Inductive sact := AEnter (e : entry) | AEmit | APump.
Definition sgen_step (home : nat) (s : sstate) (a : sact) : sstate * list sev :=
  match a with
  | AEnter e => match s_cur s, s_dir s with
                | None, None => ({| s_cur := Some e; s_dir := None; s_q := s_q s |}, [SX e])
                | _, _ => (s, [])
                end
  | AEmit => match s_cur s, s_dir s with
             | Some c, None => if Nat.eqb (e_tid c) home
                               then ({| s_cur := None; s_dir := None; s_q := s_q s |}, [SS c; SQ c])
                               else ({| s_cur := None; s_dir := None; s_q := s_q s ++ [c] |}, [SS c])
             | _, _ => (s, [])
             end
  | APump => match s_dir s, s_q s with
             | None, h :: r => ({| s_cur := s_cur s; s_dir := None; s_q := r |}, [SQ h])
             | _, _ => (s, [])
             end
  end.
Fixpoint sgen (home : nat) (s : sstate) (acts : list sact) : sstate * list sev :=
  match acts with
  | [] => (s, [])
  | a :: r => let (s1, t1) := sgen_step home s a in let (s2, t2) := sgen home s1 r in (s2, t1 ++ t2)
  end.
