(* C20 — executable model of tools/gen_qtlogger.h.py (the amalgamation generator) over an abstract
   source tree (path -> bytes).  Definitions only.  Characters are bytes (N); every character-level
   pass is structurally recursive on its input and tail-recursive (accumulator, reversed), so that
   the extracted code runs on the 140 KB header in well under a second.

   Quirks of the generator that are modelled on purpose:
   * include_dir is a GLOBAL that is set on entering a file and NOT restored when a nested include
     returns: later directives of the outer file resolve relative to the last nested file's directory,
     with the fallback <dir>/../<path>;
   * once-only inclusion through the global set included_files; the root sources (qtlogger.h, every
     .cpp) are NOT put into that set;
   * the SPDX and Copyright comment markers are cut to the end of the line wherever they occur;
   * the directive regex  hash, whitespace*, include, one blank, quoted non-empty path  (whitespace and the path may span lines);
   * an unresolvable directive is kept verbatim (system-style local includes), an already included
     one is deleted;
   * os.path.exists is true for directories (header/footer comments without a body);
   * the pragma-once directive is deleted everywhere in the joined text, then runs of 3+ newlines become 2. *)
From Coq Require Import List NArith Bool.
Import ListNotations.
Local Open Scope N_scope.

Definition str := list N.
Definition path := list str.                    (* components, relative to the repository root *)
Definition tree := list (path * str).           (* the files *)

Fixpoint seqb (a b : str) : bool :=
  match a, b with [], [] => true | x :: a', y :: b' => (x =? y) && seqb a' b' | _, _ => false end.
Fixpoint prefixb (p s : str) : bool :=
  match p, s with [], _ => true | x :: p', y :: s' => (x =? y) && prefixb p' s' | _, [] => false end.
Fixpoint patheqb (a b : path) : bool :=
  match a, b with [], [] => true | x :: a', y :: b' => seqb x y && patheqb a' b' | _, _ => false end.
(* p is a proper prefix of q: p names a directory on the way to q *)
Fixpoint pathprefixb (p q : path) : bool :=
  match p, q with
  | [], _ :: _ => true
  | x :: p', y :: q' => seqb x y && pathprefixb p' q'
  | _, _ => false
  end.
Fixpoint lookup (t : tree) (p : path) : option str :=
  match t with [] => None | (q, c) :: r => if patheqb p q then Some c else lookup r p end.
Definition is_file (t : tree) (p : path) : bool := match lookup t p with Some _ => true | None => false end.
Definition is_dir (t : tree) (p : path) : bool := existsb (fun qc => pathprefixb p (fst qc)) t.
Definition exists_path (t : tree) (p : path) : bool := is_file t p || is_dir t p.   (* os.path.exists *)
Definition mem_path (p : path) (l : list path) : bool := existsb (patheqb p) l.
Definition dirname (p : path) : path := removelast p.
Definition basename (p : path) : str := last p [].

(* ---- os.path.abspath(os.path.join(dir, rel)); None = leaves the tree (absolute path or above the root) *)
Definition dotdot : str := [46;46].
Definition dot : str := [46].
Fixpoint split_slash (s cur : str) (acc : list str) : list str :=
  match s with
  | [] => rev_append acc [rev_append cur []]
  | c :: r => if c =? 47 then split_slash r [] (rev_append cur [] :: acc) else split_slash r (c :: cur) acc
  end.
Fixpoint norm (comps : list str) (acc : path) : option path :=   (* acc reversed *)
  match comps with
  | [] => Some (rev_append acc [])
  | c :: r => if seqb c dotdot then match acc with [] => None | _ :: a' => norm r a' end
              else if seqb c dot || seqb c [] then norm r acc
              else norm r (c :: acc)
  end.
Definition join (dir : path) (up : bool) (rel : str) : option path :=
  match rel with
  | 47 :: _ => None
  | _ => norm ((if up then [dotdot] else []) ++ split_slash rel [] []) (rev_append dir [])
  end.
Definition resolve (t : tree) (dir : path) (inc : str) : option path :=
  let second :=
    match join dir true inc with
    | Some p2 => if exists_path t p2 then Some p2 else None
    | None => None
    end in
  match join dir false inc with
  | Some p1 => if exists_path t p1 then Some p1 else second
  | None => second
  end.

(* ---- re.sub of the SPDX / Copyright markers: cut from the marker to the end of the line *)
Definition m_spdx : str := [47;47;32;83;80;68;88].
Definition m_copy : str := [47;47;32;67;111;112;121;114;105;103;104;116].
Fixpoint strip_marker (marker s : str) (dropping : bool) (acc : str) : str :=
  match s with
  | [] => rev_append acc []
  | c :: r =>
    if dropping then (if c =? 10 then strip_marker marker r false (c :: acc) else strip_marker marker r true acc)
    else if prefixb marker s then strip_marker marker r true acc
    else strip_marker marker r false (c :: acc)
  end.
Definition stripped (content : str) : str :=
  strip_marker m_copy (strip_marker m_spdx content false []) false [].

(* ---- the include directive regex -> (path, length of the match) *)
Definition is_space (c : N) : bool := ((9 <=? c) && (c <=? 13)) || ((28 <=? c) && (c <=? 32)).
Fixpoint skip_sp (s : str) (n : nat) : str * nat :=
  match s with c :: r => if is_space c then skip_sp r (S n) else (s, n) | [] => ([], n) end.
Fixpoint until_quote (s acc : str) (n : nat) : option (str * nat) :=
  match s with
  | [] => None
  | c :: r => if c =? 34 then Some (rev_append acc [], n) else until_quote r (c :: acc) (S n)
  end.
Definition s_include_q : str := [105;110;99;108;117;100;101;32;34].     (* the word include, a blank, a double quote *)
Definition match_include (s : str) : option (str * nat) :=
  match s with
  | 35 :: r =>
    let (r1, nsp) := skip_sp r O in
    if prefixb s_include_q r1 then
      match until_quote (skipn 9 r1) [] O with
      | Some (p, n) => match p with [] => None | _ => Some (p, (1 + nsp + 9 + n + 1)%nat) end
      | None => None
      end
    else None
  | _ => None
  end.

(* characters of s that lie outside every directive match (what the expansion must carry over) *)
Fixpoint noninc (s : str) (skip : nat) : str :=
  match s with
  | [] => []
  | c :: r =>
    match skip with
    | S k => noninc r k
    | O => match match_include s with None => c :: noninc r O | Some (_, mlen) => noninc r (pred mlen) end
    end
  end.

(* ---- generator state: the two globals, plus a ghost log of every file whose content was scanned *)
(* [starved]: the nesting fuel ran out somewhere (never on a finite tree with [fuel_for]; reported by the driver) *)
(* [met] (ghost): every directive the expansion stood on, in reverse order: the include_dir it was resolved
   against, its path text and what it resolved to *)
Record gst := { include_dir : path; included : list path; emitted : list path; starved : bool;
                met : list (path * str * option path) }.
Definition with_met (g : gst) (e : path * str * option path) : gst :=
  {| include_dir := include_dir g; included := included g; emitted := emitted g; starved := starved g; met := e :: met g |}.
Definition add_inc (g : gst) (q : path) : gst :=
  {| include_dir := include_dir g; included := q :: included g; emitted := emitted g; starved := starved g; met := met g |}.
Definition enter (g : gst) (p : path) : gst :=
  {| include_dir := dirname p; included := included g; emitted := p :: emitted g; starved := starved g; met := met g |}.
Definition starve (g : gst) : gst :=
  {| include_dir := include_dir g; included := included g; emitted := emitted g; starved := true; met := met g |}.
Definition s_open : str := [10;47;47;32].      (* \n//_  *)
Definition s_end : str := [10;47;47;32;101;110;100;32].        (* \n//_end_ *)
Definition header_of (q : path) : str := s_open ++ basename q ++ [10].
Definition footer_of (q : path) : str := s_end ++ basename q ++ [10].

Section Scan.
  Variable t : tree.
  (* process_includes at smaller fuel: expands file q, pushing its text on the reversed output *)
  Variable rec_process : path -> gst -> str -> str * gst.
  (* skip > 0: inside a directive match: drop (keep = false) or copy (keep = true) without matching *)
  Fixpoint scan (s : str) (skip : nat) (keep : bool) (g : gst) (out : str) : str * gst :=
    match s with
    | [] => (out, g)
    | c :: r =>
      match skip with
      | S k => scan r k keep g (if keep then c :: out else out)
      | O =>
        match match_include s with
        | None => scan r O false g (c :: out)
        | Some (inc, mlen) =>
          let res := resolve t (include_dir g) inc in
          let g0 := with_met g (include_dir g, inc, res) in
          match res with
          | None => scan r (pred mlen) true g0 (c :: out)                 (* return match.group(0) *)
          | Some q =>
            if mem_path q (included g) then scan r (pred mlen) false g0 out   (* return the empty string *)
            else
              let (out2, g2) := rec_process q (add_inc g0 q) (rev_append (header_of q) out) in
              scan r (pred mlen) false g2 (rev_append (footer_of q) out2)
          end
        end
      end
    end.
End Scan.

(* process_includes(path); fuel bounds the nesting depth (every nested call adds a new path to
   [included], so the number of files + directories is enough) *)
Fixpoint process (fuel : nat) (t : tree) (p : path) (g : gst) (out : str) : str * gst :=
  match fuel with
  | O => (out, starve g)
  | S f =>
    match lookup t p with
    | None => (out, g)                                                    (* IOError: return the empty string *)
    | Some content =>
      scan t (process f t) (stripped content) O false (enter g p) out
    end
  end.

(* ---- main() ---- *)
Definition root_dir : path := [[115;114;99]; [113;116;108;111;103;103;101;114]].
Definition root_header : path := root_dir ++ [[113;116;108;111;103;103;101;114;46;104]].
Definition c_build : str := [98;117;105;108;100].
Definition s_cpp : str := [46;99;112;112].
Definition ends_with (suffix s : str) : bool := prefixb (rev_append suffix []) (rev_append s []).
Definition hidden (c : str) : bool := match c with 46 :: _ => true | _ => false end.
(* glob(root_dir/**/*.cpp, recursive) minus anything below a directory called build *)
Definition is_cpp_source (p : path) : bool :=
  pathprefixb root_dir p
  && ends_with s_cpp (basename p)
  && negb (existsb hidden (skipn 2 p))
  && negb (existsb (seqb c_build) (dirname p)).
Fixpoint path_str (p : path) : str :=
  match p with [] => [] | [c] => c | c :: r => c ++ 47 :: path_str r end.
Fixpoint str_ltb (a b : str) : bool :=
  match a, b with
  | _, [] => false
  | [], _ :: _ => true
  | x :: a', y :: b' => (x <? y) || ((x =? y) && str_ltb a' b')
  end.
Fixpoint insert_path (p : path) (l : list path) : list path :=
  match l with
  | [] => [p]
  | q :: r => if str_ltb (path_str p) (path_str q) then p :: l else q :: insert_path p r
  end.
Definition sort_paths (l : list path) : list path := fold_right insert_path [] l.
Definition sources (t : tree) : list path :=
  root_header :: sort_paths (filter is_cpp_source (map fst t)).
Definition fuel_for (t : tree) : nat := S (S (length t + length (flat_map fst t))).

(* result_code = NL.join([NL // name NL, body NL, ...]) on the reversed accumulator *)
Fixpoint main_loop (t : tree) (srcs : list path) (first : bool) (g : gst) (out : str) : str * gst :=
  match srcs with
  | [] => (out, g)
  | p :: r =>
    let out1 := rev_append (header_of p) (if first then out else 10 :: out) in
    let (out2, g2) := process (fuel_for t) t p g (10 :: out1) in
    main_loop t r false g2 (10 :: out2)
  end.
Definition init_state : gst := {| include_dir := []; included := []; emitted := []; starved := false; met := [] |}.
Definition expand (t : tree) : str * gst := main_loop t (sources t) true init_state [].

(* result_code.replace(pragma once, empty) *)
Definition pragma_once : str := [35;112;114;97;103;109;97;32;111;110;99;101].
Fixpoint remove_all (needle s : str) (skip : nat) (acc : str) : str :=
  match s with
  | [] => rev_append acc []
  | c :: r =>
    match skip with
    | S k => remove_all needle r k acc
    | O => if prefixb needle s then remove_all needle r (pred (length needle)) acc
           else remove_all needle r O (c :: acc)
    end
  end.
(* re.sub: three or more newlines become two; n = newlines of the current run already emitted *)
Fixpoint squeeze (s : str) (n : nat) (acc : str) : str :=
  match s with
  | [] => rev_append acc []
  | c :: r =>
    if c =? 10 then (match n with S (S _) => squeeze r n acc | _ => squeeze r (S n) (c :: acc) end)
    else squeeze r O (c :: acc)
  end.
Definition preamble : str :=
  [47;47;32;67;111;112;121;114;105;103;104;116;32;40;67;41;32;50;48;50;52;32;77;105;107;104;97;105;108;32;89;97;116;115;101;110;107;111;32;60;
   109;105;107;104;97;105;108;46;121;97;116;115;101;110;107;111;64;103;109;97;105;108;46;99;111;109;62;10;47;47;32;83;80;68;88;45;76;105;99;101;
   110;115;101;45;73;100;101;110;116;105;102;105;101;114;58;32;77;73;84;10;10;47;47;32;81;116;76;111;103;103;101;114;32;45;32;65;100;118;97;110;
   99;101;100;32;116;104;114;101;97;100;45;115;97;102;101;32;108;111;103;103;105;110;103;32;108;105;98;114;97;114;121;32;102;111;114;32;81;116;32;53;
   32;38;32;81;116;32;54;46;10;47;47;32;70;101;97;116;117;114;101;115;58;32;65;115;121;110;99;44;32;74;83;79;78;44;32;72;84;84;80;32;
   115;105;110;107;115;44;32;82;111;116;97;116;105;110;103;32;102;105;108;101;115;44;32;97;110;100;32;67;111;108;111;114;101;100;32;99;111;110;115;111;
   108;101;32;111;117;116;112;117;116;46;10;47;47;32;69;97;115;121;32;105;110;116;101;103;114;97;116;105;111;110;32;119;105;116;104;32;101;120;105;115;
   116;105;110;103;32;113;68;101;98;117;103;40;41;44;32;113;73;110;102;111;40;41;44;32;113;87;97;114;110;105;110;103;40;41;44;32;113;67;114;105;
   116;105;99;97;108;40;41;32;99;97;108;108;115;46;10;47;47;10;47;47;32;68;111;99;117;109;101;110;116;97;116;105;111;110;58;32;104;116;116;112;
   115;58;47;47;103;105;116;104;117;98;46;99;111;109;47;121;97;109;105;120;115;116;47;113;116;108;111;103;103;101;114;10;10;47;47;32;84;104;105;115;
   32;102;105;108;101;32;105;115;32;97;117;116;111;109;97;116;105;99;97;108;108;121;32;103;101;110;101;114;97;116;101;100;46;32;80;108;101;97;115;101;
   32;100;111;110;39;116;32;101;100;105;116;32;105;116;46;10;10;35;112;114;97;103;109;97;32;111;110;99;101;10;10;47;47;32;35;100;101;102;105;110;
   101;32;81;84;76;79;71;71;69;82;95;78;79;95;84;72;82;69;65;68;10;47;47;32;35;100;101;102;105;110;101;32;81;84;76;79;71;71;69;82;
   95;78;69;84;87;79;82;75;10;47;47;32;35;100;101;102;105;110;101;32;81;84;76;79;71;71;69;82;95;73;79;83;76;79;71;10;47;47;32;35;
   100;101;102;105;110;101;32;81;84;76;79;71;71;69;82;95;65;78;68;82;79;73;68;76;79;71;10;47;47;32;35;100;101;102;105;110;101;32;81;84;
   76;79;71;71;69;82;95;83;89;83;76;79;71;10;47;47;32;35;100;101;102;105;110;101;32;81;84;76;79;71;71;69;82;95;74;79;85;82;78;65;
   76;10;10;35;100;101;102;105;110;101;32;81;84;76;79;71;71;69;82;95;68;69;67;76;95;83;80;69;67;32;105;110;108;105;110;101;10].
Definition finish (code_rev : str) : str :=
  preamble ++ squeeze (remove_all pragma_once (rev_append code_rev []) O []) O [].
Definition generate (t : tree) : str := finish (fst (expand t)).
(* the files whose bodies were written, in order (roots and includes), and the include set *)
Definition emitted_files (t : tree) : list path := rev_append (emitted (snd (expand t))) [].
Definition included_files (t : tree) : list path := rev_append (included (snd (expand t))) [].
Definition directives_met (t : tree) : list (path * str * option path) := rev_append (met (snd (expand t))) [].
(* every path that exists in the tree: the files and the directories on the way to them *)
Definition proper_prefixes (p : path) : list path := map (fun k => firstn k p) (seq 0 (length p)).
Definition all_paths (t : tree) : list path := map fst t ++ flat_map (fun qc => proper_prefixes (fst qc)) t.
