(* C15 — lemmas about the CategoryFilter model (CategoryDefs.v). *)
From Coq Require Import List NArith Bool Lia Arith.
Import ListNotations.
Require Import QtlVerif.CategoryDefs.
Local Open Scope N_scope.

(* ------------------------------------------------------------------ equality tests *)
Lemma seqb_eq a : forall b, seqb a b = true <-> a = b.
Proof.
  induction a as [|x a IH]; intros [|y b]; cbn; split; intros H; try reflexivity; try discriminate.
  - apply andb_prop in H as [H1 H2]. apply N.eqb_eq in H1. apply IH in H2. congruence.
  - injection H as -> ->. rewrite N.eqb_refl. cbn. apply IH. reflexivity.
Qed.
Lemma seqb_refl a : seqb a a = true.
Proof. apply seqb_eq. reflexivity. Qed.
Lemma mtype_eqb_eq a b : mtype_eqb a b = true <-> a = b.
Proof. destruct a, b; cbn; split; intros H; try reflexivity; discriminate. Qed.
Lemma mtype_eqb_neq a b : a <> b -> mtype_eqb a b = false.
Proof. intros H. destruct (mtype_eqb a b) eqn:E; [apply mtype_eqb_eq in E; contradiction|reflexivity]. Qed.
Lemma list_eqb_eq {A} (eq : A -> A -> bool) :
  (forall x y, eq x y = true -> x = y) -> forall a b, list_eqb eq a b = true -> a = b.
Proof.
  intros Heq. induction a as [|x a IH]; intros [|y b] H; cbn in H; try reflexivity; try discriminate.
  apply andb_prop in H as [H1 H2]. apply Heq in H1. apply IH in H2. congruence.
Qed.

(* a configuration that passes the decidable check IS the property's configuration *)
Lemma cfg_eqb_std c : cfg_eqb c std_cfg = true -> c = std_cfg.
Proof.
  unfold cfg_eqb. intros H.
  repeat match type of H with (_ && _ = true) => apply andb_prop in H; destruct H as [H ?] end.
  destruct c as [a b d sf vs st la dv sh]. cbn [sep_from sep_to split_ch suffixes values star matcher default_verdict shape] in *.
  apply N.eqb_eq in H. subst a.
  repeat match goal with
         | Hx : (_ =? _) = true |- _ => apply N.eqb_eq in Hx
         | Hx : Bool.eqb _ _ = true |- _ => apply Bool.eqb_prop in Hx
         end.
  subst.
  assert (Hsf : sf = suffixes std_cfg).
  { eapply list_eqb_eq; [|eassumption]. intros [x1 x2] [y1 y2] E. cbn in E.
    apply andb_prop in E as [E1 E2]. apply seqb_eq in E1. apply mtype_eqb_eq in E2. congruence. }
  assert (Hvs : vs = values std_cfg).
  { eapply list_eqb_eq; [|eassumption]. intros [x1 x2] [y1 y2] E. cbn in E.
    apply andb_prop in E as [E1 E2]. apply seqb_eq in E1. apply Bool.eqb_prop in E2. congruence. }
  subst sf vs.
  match goal with Hm : matcher_eqb ?m _ = true |- _ => destruct m; try discriminate Hm end.
  destruct sh; [reflexivity|discriminate|discriminate].
Qed.

(* a configuration that passes the decidable check is the property's configuration up to the way the loop lets
   the last matching rule decide *)
Lemma cfg_good_canon c : cfg_goodb c = true -> canon c = std_cfg.
Proof. apply cfg_eqb_std. Qed.

(* ------------------------------------------------------------------ the decision loop *)
Lemma last_match_wins_gen d la st rs c t :
  decide LastWins d la st rs c t =
  match find (fun r => rule_matches la st r c t) (rev rs) with Some r => enabled r | None => d end.
Proof.
  cbn [decide]. revert d.
  induction rs as [|r rs IH] using rev_ind; intros d; [reflexivity|].
  rewrite fold_left_app, rev_app_distr. cbn [fold_left rev app find].
  destruct (rule_matches la st r c t); [reflexivity|apply IH].
Qed.

(* walking the list from its end and leaving at the first hit = the forward loop with override *)
Lemma decide_canon sh d la st rs c t : decide sh d la st rs c t = decide (canon_shape sh) d la st rs c t.
Proof. destruct sh; [reflexivity|reflexivity|]. symmetry. apply last_match_wins_gen. Qed.
Lemma filter_rules_canon cfg rs c t : filter_rules cfg rs c t = filter_rules (canon cfg) rs c t.
Proof. unfold filter_rules. cbn [canon shape default_verdict matcher star]. apply decide_canon. Qed.
Lemma parse_line_canon cfg l : parse_line cfg l = parse_line (canon cfg) l.
Proof. reflexivity. Qed.
Lemma parse_lines_canon cfg ls : parse_lines cfg ls = parse_lines (canon cfg) ls.
Proof. reflexivity. Qed.
Lemma parse_rules_canon cfg s : parse_rules cfg s = parse_rules (canon cfg) s.
Proof. reflexivity. Qed.
Lemma category_filter_canon cfg rules c t : category_filter cfg rules c t = category_filter (canon cfg) rules c t.
Proof. unfold category_filter. rewrite filter_rules_canon. reflexivity. Qed.
(* bring a goal about a good configuration to the property's configuration *)
Ltac to_std cfg good :=
  rewrite ?(filter_rules_canon cfg), ?(category_filter_canon cfg), ?(parse_rules_canon cfg), ?(parse_line_canon cfg);
  change (matcher cfg) with (matcher (canon cfg)); change (star cfg) with (star (canon cfg));
  rewrite (cfg_good_canon cfg good).

Lemma decide_snoc d la st rs r c t :
  decide LastWins d la st (rs ++ [r]) c t =
  if rule_matches la st r c t then enabled r else decide LastWins d la st rs c t.
Proof. cbn [decide]. rewrite fold_left_app. reflexivity. Qed.

Lemma decide_app d la st rs1 rs2 c t :
  decide LastWins d la st (rs1 ++ rs2) c t = decide LastWins (decide LastWins d la st rs1 c t) la st rs2 c t.
Proof. cbn [decide]. apply fold_left_app. Qed.

(* a rule that does not match the message can be removed anywhere in the list *)
Lemma decide_skip d la st rs1 r rs2 c t :
  rule_matches la st r c t = false ->
  decide LastWins d la st (rs1 ++ r :: rs2) c t = decide LastWins d la st (rs1 ++ rs2) c t.
Proof.
  intros H. rewrite !decide_app. cbn [decide fold_left]. rewrite H. reflexivity.
Qed.

Lemma decide_none d la st rs c t :
  (forall r, In r rs -> rule_matches la st r c t = false) -> decide LastWins d la st rs c t = d.
Proof.
  cbn [decide]. revert d. induction rs as [|r rs IH]; intros d H; [reflexivity|].
  cbn [fold_left]. rewrite (H r (or_introl eq_refl)). apply IH. intros r' Hr. apply H. right. exact Hr.
Qed.

(* which rules take part in the decision about a message of type t *)
Definition concerns (t : mtype) (r : rule) : bool :=
  match rtype r with None => true | Some t' => mtype_eqb t' t end.

Lemma typed_other_no_match la st r c t t' :
  rtype r = Some t' -> t' <> t -> rule_matches la st r c t = false.
Proof.
  intros H Hne. unfold rule_matches. rewrite H, (mtype_eqb_neq _ _ Hne). apply andb_false_r.
Qed.

Lemma untyped_same_all_types la st r c t t' :
  rtype r = None -> rule_matches la st r c t = rule_matches la st r c t'.
Proof. intros H. unfold rule_matches. rewrite H. reflexivity. Qed.

Lemma decide_only_concerned d la st rs c t :
  decide LastWins d la st rs c t = decide LastWins d la st (filter (concerns t) rs) c t.
Proof.
  cbn [decide]. revert d. induction rs as [|r rs IH]; intros d; [reflexivity|].
  cbn [fold_left filter]. destruct (concerns t r) eqn:E.
  - cbn [fold_left]. apply IH.
  - assert (rule_matches la st r c t = false) as ->.
    { unfold rule_matches. unfold concerns in E. rewrite E. apply andb_false_r. }
    apply IH.
Qed.

(* ------------------------------------------------------------------ the glob matcher *)
(* declarative meaning of a pattern: every character stands for itself, the wildcard for any string *)
Inductive Glob (st : N) : str -> str -> Prop :=
| GNil : Glob st [] []
| GChar c p s : c <> st -> Glob st p s -> Glob st (c :: p) (c :: s)
| GStar p s1 s2 : Glob st p s2 -> Glob st (st :: p) (s1 ++ s2).

Lemma glob_star_unfold st p' s :
  glob st (st :: p') s = glob st p' s || match s with [] => false | _ :: s' => glob st (st :: p') s' end.
Proof. cbn [glob]. rewrite N.eqb_refl. destruct s; reflexivity. Qed.

Lemma glob_char_unfold st c p' s : c <> st ->
  glob st (c :: p') s = match s with x :: s' => (x =? c) && glob st p' s' | [] => false end.
Proof. intros H. cbn [glob]. destruct (N.eqb_spec c st); [contradiction|reflexivity]. Qed.

Lemma glob_sound st p : forall s, glob st p s = true -> Glob st p s.
Proof.
  induction p as [|c p IH]; intros s H.
  - destruct s; [constructor|discriminate].
  - destruct (N.eq_dec c st) as [->|Hne].
    + induction s as [|x s IHs].
      * rewrite glob_star_unfold, orb_false_r in H. apply (GStar st p [] []). apply IH, H.
      * rewrite glob_star_unfold in H. apply orb_prop in H as [H|H].
        -- apply (GStar st p [] (x :: s)). apply IH, H.
        -- specialize (IHs H). inversion IHs as [| |p0 s1 s2 Hg]; subst; [congruence|].
           apply (GStar st p (x :: s1) s2 Hg).
    + rewrite (glob_char_unfold _ _ _ _ Hne) in H.
      destruct s as [|x s]; [discriminate|]. apply andb_prop in H as [H1 H2]. apply N.eqb_eq in H1. subst x.
      constructor; [exact Hne|apply IH, H2].
Qed.

Lemma glob_complete st p s : Glob st p s -> glob st p s = true.
Proof.
  induction 1 as [|c p s Hc _ IH|p s1 s2 _ IH].
  - reflexivity.
  - rewrite (glob_char_unfold _ _ _ _ Hc), N.eqb_refl, IH. reflexivity.
  - induction s1 as [|x s1 IHs]; cbn [app]; rewrite glob_star_unfold.
    + rewrite IH. reflexivity.
    + rewrite IHs. apply orb_true_r.
Qed.

Lemma glob_iff st p s : glob st p s = true <-> Glob st p s.
Proof. split; [apply glob_sound|apply glob_complete]. Qed.

(* "decomposition of s along the stars of p": the literal segments of p (the parts between
   wildcards) occur in s in order, the first as a prefix, the last as a suffix, with arbitrary
   strings in between *)
Fixpoint Decomp (segs : list str) (s : str) : Prop :=
  match segs with
  | [] => False
  | l :: rest =>
    match rest with
    | [] => s = l
    | _ => exists g s', s = l ++ g ++ s' /\ Decomp rest s'
    end
  end.
Definition segments (st : N) (p : str) : list str := split_on (N.eqb st) p.

Lemma split_on_nonnil sep s : split_on sep s <> [].
Proof. destruct s as [|c r]; cbn; [discriminate|]. destruct (sep c); [discriminate|]. destruct (split_on sep r); discriminate. Qed.

Lemma Decomp_cons_char c segs s l :
  segs <> [] -> (Decomp ((c :: l) :: segs) s <-> exists s0, s = c :: s0 /\ Decomp (l :: segs) s0).
Proof.
  intros Hne. destruct segs as [|l2 segs]; [contradiction|]. cbn [Decomp]. split.
  - intros (g & s' & -> & H). exists (l ++ g ++ s'). split; [reflexivity|]. exists g, s'. auto.
  - intros (s0 & -> & g & s' & -> & H). exists g, s'. auto.
Qed.

Lemma glob_decomp st p : forall s, Glob st p s <-> Decomp (segments st p) s.
Proof.
  unfold segments. induction p as [|c p IH]; intros s.
  - cbn. split; [inversion 1; reflexivity|intros ->; constructor].
  - cbn [split_on]. destruct (N.eqb_spec st c) as [<-|Hne].
    + (* wildcard: first segment is empty *)
      pose proof (split_on_nonnil (N.eqb st) p) as Hnn.
      destruct (split_on (N.eqb st) p) as [|l2 segs] eqn:E; [contradiction|].
      cbn [Decomp]. split.
      * inversion 1 as [| |p0 s1 s2 Hg]; subst; [congruence|]. exists s1, s2. split; [reflexivity|]. apply IH, Hg.
      * intros (g & s' & -> & H). cbn [app]. apply GStar. apply IH, H.
    + pose proof (split_on_nonnil (N.eqb st) p) as Hnn.
      destruct (split_on (N.eqb st) p) as [|l segs] eqn:E; [contradiction|].
      destruct segs as [|l2 segs].
      * cbn [Decomp] in *. split.
        -- inversion 1 as [|c0 p0 s0 Hc Hg|]; subst; [|congruence]. f_equal. apply IH, Hg.
        -- intros ->. constructor; [congruence|]. apply IH. reflexivity.
      * rewrite Decomp_cons_char by discriminate. split.
        -- inversion 1 as [|c0 p0 s0 Hc Hg|]; subst; [|congruence]. exists s0. split; [reflexivity|]. apply IH, Hg.
        -- intros (s0 & -> & H). constructor; [congruence|]. apply IH, H.
Qed.

(* a pattern without wildcard matches exactly itself: every other character is literal *)
Lemma glob_literal st p s : ~ In st p -> (glob st p s = true <-> s = p).
Proof.
  intros Hn. rewrite glob_iff. revert s. induction p as [|c p IH]; intros s.
  - split; [inversion 1; reflexivity|intros ->; constructor].
  - assert (Hc : c <> st) by (intros ->; apply Hn; left; reflexivity).
    assert (Hp : ~ In st p) by (intros H; apply Hn; right; exact H).
    split.
    + inversion 1 as [|c0 p0 s0 _ Hg|]; subst; [|congruence]. f_equal. apply IH; assumption.
    + intros ->. constructor; [exact Hc|]. apply IH; [exact Hp|reflexivity].
Qed.


(* ------------------------------------------------------------------ the iterative matcher
   (wildcardMatch) decides the declarative glob relation *)
Section Iter.
  Variable st : N.
  Definition starfree (l : str) : Prop := ~ In st l.

  Lemma Glob_star_inv q s : Glob st (st :: q) s -> exists s1 s2, s = s1 ++ s2 /\ Glob st q s2.
  Proof. inversion 1 as [| |p0 s1 s2 Hg]; subst; [congruence|]. eauto. Qed.

  Lemma Glob_cancel lits p s : starfree lits -> (Glob st (lits ++ p) (lits ++ s) <-> Glob st p s).
  Proof.
    unfold starfree. induction lits as [|c l IH]; intros Hn; [reflexivity|]. cbn [app].
    assert (Hc : c <> st) by (intros ->; apply Hn; left; reflexivity).
    assert (Hl : ~ In st l) by (intros H; apply Hn; right; exact H).
    split.
    - inversion 1 as [|c0 p0 s0 _ Hg|]; subst; [|congruence]. apply IH; assumption.
    - intros H. constructor; [exact Hc|]. apply IH; assumption.
  Qed.

  Lemma Glob_lits_prefix lits q w : starfree lits -> Glob st (lits ++ q) w -> exists w3, w = lits ++ w3 /\ Glob st q w3.
  Proof.
    unfold starfree. revert w. induction lits as [|c l IH]; intros w Hn H.
    - exists w. split; [reflexivity|exact H].
    - cbn [app] in H. assert (Hc : c <> st) by (intros ->; apply Hn; left; reflexivity).
      inversion H as [|c0 p0 s0 _ Hg|]; subst; [|congruence].
      destruct (IH s0) as (w3 & -> & Hw); [intros Hi; apply Hn; right; exact Hi|exact Hg|].
      exists w3. split; [reflexivity|exact Hw].
  Qed.

  Lemma Glob_star_absorb q z s : Glob st (st :: q) s -> Glob st (st :: q) (z ++ s).
  Proof. intros H. apply Glob_star_inv in H as (s1 & s2 & -> & Hg). rewrite app_assoc. apply GStar, Hg. Qed.

  Lemma Glob_star_cons q y s : Glob st (st :: q) (y :: s) <-> Glob st q (y :: s) \/ Glob st (st :: q) s.
  Proof.
    split.
    - intros H. apply Glob_star_inv in H as (s1 & s2 & E & Hg). destruct s1 as [|a s1]; cbn [app] in E.
      + left. rewrite E. exact Hg.
      + right. injection E as _ ->. apply GStar, Hg.
    - intros [H|H].
      + apply (GStar st q [] (y :: s) H).
      + apply (Glob_star_absorb q [y] s H).
  Qed.

  Lemma app_suffix (a : str) : forall b c d, a ++ b = c ++ d -> (length d <= length b)%nat -> exists z, b = z ++ d.
  Proof.
    induction a as [|x a IH]; intros b c d E Hl; cbn [app] in E.
    - exists c. exact E.
    - destruct c as [|y c]; cbn [app] in E.
      + exfalso. apply (f_equal (@length N)) in E. cbn [length] in E. rewrite app_length in E. lia.
      + injection E as _ E. eapply IH; eassumption.
  Qed.

  (* greedy star: the literal run after the most recent star has been matched at the leftmost place *)
  Lemma greedy lits q tr : starfree lits -> Glob st (st :: lits ++ q) (lits ++ tr) ->
    exists z w3, tr = z ++ w3 /\ Glob st q w3.
  Proof.
    intros Hn H. apply Glob_star_inv in H as (s1 & s2 & E & Hg).
    apply (Glob_lits_prefix _ _ _ Hn) in Hg as (w3 & -> & Hw).
    rewrite app_assoc in E. apply app_suffix in E as [z Ez].
    - exists z, w3. split; [exact Ez|exact Hw].
    - apply (f_equal (@length N)) in E. rewrite !app_length in E. lia.
  Qed.

  Lemma drop_stars_spec p : Glob st p [] <-> drop_stars st p = [].
  Proof.
    induction p as [|c p IH]; cbn [drop_stars].
    - split; [reflexivity|constructor].
    - destruct (N.eqb_spec c st) as [->|Hc].
      + rewrite <- IH. split.
        * intros H. apply Glob_star_inv in H as (s1 & s2 & E & Hg). symmetry in E. apply app_eq_nil in E as [_ ->]. exact Hg.
        * intros H. apply (GStar st p [] [] H).
      + split; [|discriminate]. inversion 1; subst; congruence.
  Qed.

  Definition Inv (P T pr tr : str) (star : option (str * str)) : Prop :=
    match star with
    | None => exists lits, starfree lits /\ P = lits ++ pr /\ T = lits ++ tr
    | Some (sp, mt) =>
      exists lits, starfree lits /\ sp = lits ++ pr /\ mt = lits ++ tr /\
                   (Glob st P T <-> Glob st (st :: sp) mt) /\
                   (length sp <= length P)%nat /\ (length mt <= length T)%nat
    end.
  Definition mu (P T pr : str) (star : option (str * str)) : nat :=
    ((match star with None => length T + 1 | Some (_, mt) => length mt end) * (length P + 1) + length pr)%nat.

  (* from the current attempt: Glob P T reduces to the rest of the attempt or to retrying after the star *)
  Lemma Inv_meaning P T pr tr star : Inv P T pr tr star ->
    (Glob st P T <-> Glob st pr tr \/
       match star with Some (sp, mt) => Glob st (st :: sp) (tl mt) /\ mt <> [] | None => False end).
  Proof.
    destruct star as [[sp mt]|]; cbn [Inv].
    - intros (lits & Hn & -> & -> & Hiff & _ & _). rewrite Hiff.
      destruct (lits ++ tr) as [|y m] eqn:E.
      + split.
        * intros H. left. rewrite <- E in H. destruct (greedy _ _ _ Hn H) as (z & w3 & Ez & Hw).
          assert (tr = []) as -> by (destruct lits; [exact E|discriminate]).
          symmetry in Ez. apply app_eq_nil in Ez as [_ ->]. exact Hw.
        * intros [H|[_ H]]; [|contradiction]. rewrite <- E. apply (GStar st _ [] _). apply Glob_cancel; assumption.
      + rewrite Glob_star_cons. cbn [tl]. rewrite <- E, (Glob_cancel _ _ _ Hn). split.
        * intros [H|H]; [left; exact H|right; split; [exact H|rewrite E; discriminate]].
        * intros [H|[H _]]; [left; exact H|right; exact H].
    - intros (lits & Hn & -> & ->). rewrite (Glob_cancel _ _ _ Hn). tauto.
  Qed.

  Lemma run_correct : forall fuel P T pr tr star, Inv P T pr tr star -> (mu P T pr star < fuel)%nat ->
    exists b, glob_iter_run st fuel pr tr star = Some b /\ (b = true <-> Glob st P T).
  Proof.
    induction fuel as [|f IH]; intros P T pr tr star HI Hmu; [lia|].
    pose proof (Inv_meaning _ _ _ _ _ HI) as Hmean.
    destruct tr as [|x tr'].
    - (* the loop ends; trailing stars; p == size *)
      cbn [glob_iter_run]. eexists. split; [reflexivity|].
      assert (Hend : Glob st P T <-> Glob st pr []).
      { rewrite Hmean. split; [|tauto]. intros [H|H]; [exact H|].
        destruct star as [[sp mt]|]; [|contradiction]. destruct H as [H Hne].
        cbn [Inv] in HI. destruct HI as (lits & Hn & -> & -> & _).
        rewrite app_nil_r in *. destruct lits as [|y l]; [contradiction|]. cbn [tl] in H.
        (* star ++ lits ++ pr against a text shorter than lits: impossible *)
        exfalso. apply Glob_star_inv in H as (s1 & s2 & E & Hg).
        apply (Glob_lits_prefix _ _ _ Hn) in Hg as (w3 & -> & _).
        apply (f_equal (@length N)) in E. rewrite !app_length in E. cbn [length] in E. lia. }
      rewrite Hend, drop_stars_spec. destruct (drop_stars st pr); split; congruence.
    - (* backtracking, shared by the two branches that reach it *)
      assert (Hbt : ~ Glob st pr (x :: tr') ->
                    exists b, match star with
                              | Some (sp, mt) => glob_iter_run st f sp (tl mt) (Some (sp, tl mt))
                              | None => Some false
                              end = Some b /\ (b = true <-> Glob st P T)).
      { intros Hno. destruct star as [[sp mt]|].
        - cbn [Inv] in HI. destruct HI as (lits & Hn & Esp & Emt & Hiff & Hls & Hlm).
          assert (Hne : mt <> []) by (rewrite Emt; destruct lits; discriminate).
          destruct mt as [|y mt1]; [contradiction|]. cbn [tl] in *.
          apply IH.
          + cbn [Inv]. exists []. cbn [app]. repeat split; try assumption.
            * unfold starfree. intros [].
            * rewrite Hmean. intros [H|[H _]]; [contradiction|exact H].
            * intros H. apply Hmean. right. split; [exact H|discriminate].
            * cbn [length] in Hlm. lia.
          + unfold mu in *. cbn [length] in *. nia.
        - exists false. split; [reflexivity|]. rewrite Hmean. split; [discriminate|tauto]. }
      destruct pr as [|c pr'].
      + cbn [glob_iter_run]. apply Hbt. inversion 1.
      + cbn [glob_iter_run]. destruct (N.eqb_spec c st) as [->|Hc].
        * (* a wildcard: star = p++, mark = t *)
          apply IH.
          -- cbn [Inv]. exists []. cbn [app]. split; [intros []|]. split; [reflexivity|]. split; [reflexivity|].
             destruct star as [[sp mt]|]; cbn [Inv] in HI.
             ++ destruct HI as (lits & Hn & -> & -> & Hiff & Hls & Hlm). rewrite Hiff. split; [split|].
                ** intros H. destruct (greedy _ _ _ Hn H) as (z & w3 & -> & Hw). apply Glob_star_absorb, Hw.
                ** intros H. apply (GStar st _ [] _). apply Glob_cancel; assumption.
                ** rewrite !app_length in *. cbn [length] in *. lia.
             ++ destruct HI as (lits & Hn & -> & ->). split; [apply Glob_cancel; exact Hn|].
                rewrite !app_length. cbn [length]. lia.
          -- unfold mu in *. destruct star as [[sp mt]|]; cbn [Inv] in HI.
             ++ destruct HI as (lits & _ & _ & -> & _). rewrite app_length in *. cbn [length] in *. nia.
             ++ destruct HI as (lits & _ & _ & ->). rewrite app_length in *. cbn [length] in *. nia.
        * destruct (N.eqb_spec c x) as [->|Hx].
          -- (* equal characters: ++p, ++t *)
             apply IH.
             ++ destruct star as [[sp mt]|]; cbn [Inv] in *.
                ** destruct HI as (lits & Hn & -> & -> & Hiff & Hls & Hlm). exists (lits ++ [x]).
                   rewrite <- !app_assoc. cbn [app]. repeat split; try assumption; try apply Hiff.
                   unfold starfree in *. rewrite in_app_iff. intros [H|[H|[]]]; [exact (Hn H)|congruence].
                ** destruct HI as (lits & Hn & -> & ->). exists (lits ++ [x]). rewrite <- !app_assoc. cbn [app].
                   repeat split. unfold starfree in *. rewrite in_app_iff. intros [H|[H|[]]]; [exact (Hn H)|congruence].
             ++ unfold mu in *. cbn [length] in *. lia.
          -- apply Hbt. inversion 1; subst; congruence.
  Qed.

  Lemma glob_iter_correct p s : exists b, glob_iter st p s = Some b /\ (b = true <-> Glob st p s).
  Proof.
    unfold glob_iter. apply run_correct.
    - cbn [Inv]. exists []. repeat split. intros [].
    - unfold mu, glob_fuel. nia.
  Qed.
End Iter.

(* totality: the fuel of [glob_iter] is never exhausted *)
Lemma glob_iter_total st p s : exists b, glob_iter st p s = Some b.
Proof. destruct (glob_iter_correct st p s) as (b & H & _). eauto. Qed.
Lemma glob_iter_sound_complete st p s b : glob_iter st p s = Some b -> (b = true <-> Glob st p s).
Proof. intros H. destruct (glob_iter_correct st p s) as (b' & H' & Hb). congruence. Qed.
Lemma iter_match_iff st p s : iter_match st p s = true <-> Glob st p s.
Proof. unfold iter_match. destruct (glob_iter_correct st p s) as (b & -> & Hb). exact Hb. Qed.

(* the iterative matcher computes exactly what the recursive [glob] computes *)
Lemma iter_match_glob st p s : iter_match st p s = glob st p s.
Proof.
  destruct (iter_match st p s) eqn:E1, (glob st p s) eqn:E2; try reflexivity; exfalso.
  - apply iter_match_iff, glob_complete in E1. congruence.
  - apply glob_sound, iter_match_iff in E2. congruence.
Qed.
Lemma glob_iter_agrees st p s : glob_iter st p s = Some (glob st p s).
Proof.
  pose proof (iter_match_glob st p s) as H. unfold iter_match in H.
  destruct (glob_iter_total st p s) as [b Hb]. rewrite Hb in *. congruence.
Qed.

(* ------------------------------------------------------------------ splitting *)
Lemma split_on_app sep a c b : sep c = true ->
  split_on sep (a ++ c :: b) = split_on sep a ++ split_on sep b.
Proof.
  intros Hc. induction a as [|x a IH]; cbn [app split_on].
  - rewrite Hc. reflexivity.
  - destruct (sep x); [rewrite IH; reflexivity|].
    rewrite IH. pose proof (split_on_nonnil sep a) as Hn.
    destruct (split_on sep a) as [|h t]; [contradiction|]. reflexivity.
Qed.

Lemma split_on_nosep sep s : (forall c, In c s -> sep c = false) -> split_on sep s = [s].
Proof.
  induction s as [|x s IH]; intros H; [reflexivity|]. cbn [split_on].
  rewrite (H x (or_introl eq_refl)), IH; [reflexivity|]. intros c Hc. apply H. right. exact Hc.
Qed.

(* the code's "replace ';' by newline, then split at newline" = splitting at either character *)
Lemma split_replace s : split_on (N.eqb 10) (replace_char 59 10 s) = split_on is_sep s.
Proof.
  induction s as [|c s IH]; [reflexivity|]. cbn [replace_char map split_on]. fold (replace_char 59 10 s).
  unfold is_sep at 1. destruct (N.eqb_spec c 59) as [->|H59].
  - cbn. rewrite IH. reflexivity.
  - destruct (N.eqb_spec c 10) as [->|H10].
    + cbn. rewrite IH. reflexivity.
    + destruct (N.eqb_spec 10 c) as [E|_]; [congruence|]. cbn [orb]. rewrite IH. reflexivity.
Qed.

Lemma split_rules_spec s : split_rules std_cfg s = spec_lines s.
Proof. unfold split_rules, spec_lines. cbn [split_ch sep_from sep_to std_cfg]. rewrite split_replace. reflexivity. Qed.

Lemma parse_rules_spec s : parse_rules std_cfg s = spec_rules s.
Proof. unfold parse_rules, spec_rules. rewrite split_rules_spec. reflexivity. Qed.

(* the model's verdict is the specified verdict *)
Lemma model_is_spec_std rules cat t : category_filter std_cfg rules cat t = spec_verdict rules cat t.
Proof.
  unfold category_filter, spec_verdict, filter_rules, spec_decision, spec_matches.
  cbn [shape default_verdict matcher star std_cfg].
  rewrite last_match_wins_gen, parse_rules_spec. reflexivity.
Qed.

Lemma model_is_spec c rules cat t : cfg_goodb c = true -> category_filter c rules cat t = spec_verdict rules cat t.
Proof. intros H. to_std c H. apply model_is_spec_std. Qed.

Lemma oracle_holds c rules cat t : cfg_goodb c = true -> prop_c15_b rules cat t (category_filter c rules cat t) = true.
Proof. intros H. unfold prop_c15_b. rewrite (model_is_spec c _ _ _ H). apply Bool.eqb_reflx. Qed.

(* ------------------------------------------------------------------ one object, a history of messages *)
Lemma obj_run_map cfg st qs :
  obj_run cfg st qs = map (fun q => filter_rules cfg st (q_cat q) (q_type q)) qs.
Proof. induction qs as [|q r IH]; cbn; [reflexivity|]. rewrite IH. reflexivity. Qed.

Lemma object_answers_map cfg rules qs :
  object_answers cfg rules qs = map (fun q => category_filter cfg rules (q_cat q) (q_type q)) qs.
Proof. unfold object_answers, obj_new. rewrite obj_run_map. reflexivity. Qed.

(* the answers to a history are, message by message, the specified verdicts: no address in sight *)
Lemma object_answers_spec c rules qs : cfg_goodb c = true -> object_answers c rules qs = spec_answers rules qs.
Proof.
  intros H. rewrite object_answers_map. unfold spec_answers. apply map_ext. intros q. apply model_is_spec, H.
Qed.

(* histories compose: nothing is carried over from the messages answered before *)
Lemma object_answers_app cfg rules h1 h2 :
  object_answers cfg rules (h1 ++ h2) = object_answers cfg rules h1 ++ object_answers cfg rules h2.
Proof. rewrite !object_answers_map. apply map_app. Qed.

Lemma object_answers_length cfg rules qs : length (object_answers cfg rules qs) = length qs.
Proof. rewrite object_answers_map. apply map_length. Qed.

(* the answer to the k-th message of a history is the verdict of a fresh object asked that message alone *)
Lemma object_answer_nth c rules qs k q d : cfg_goodb c = true -> nth_error qs k = Some q ->
  nth k (object_answers c rules qs) d = spec_verdict rules (q_cat q) (q_type q).
Proof.
  intros H Hk. rewrite (object_answers_spec c _ _ H). unfold spec_answers.
  apply nth_error_split in Hk as (l1 & l2 & -> & <-).
  rewrite map_app. rewrite app_nth2; rewrite map_length; [|lia]. rewrite Nat.sub_diag. reflexivity.
Qed.

(* whatever was asked before, and wherever the names of the earlier messages were stored *)
Lemma object_answer_history_irrelevant c rules h h' q d :
  last (object_answers c rules (h ++ [q])) d = last (object_answers c rules (h' ++ [q])) d.
Proof.
  rewrite !object_answers_map, !map_app. cbn [map]. rewrite !last_last. reflexivity.
Qed.

(* two messages with the same name text and type get the same answer, at whatever addresses the names live *)
Lemma object_answer_address_irrelevant cfg rules h q q' :
  q_cat q = q_cat q' -> q_type q = q_type q' ->
  object_answers cfg rules (h ++ [q]) = object_answers cfg rules (h ++ [q']).
Proof. intros E1 E2. rewrite !object_answers_map, !map_app. cbn. rewrite E1, E2. reflexivity. Qed.

(* the adversarial case spelled out: two consecutive messages whose names sit at the SAME address each get the
   verdict of their own name *)
Lemma object_same_address_own_verdicts c rules h q1 q2 : cfg_goodb c = true -> q_addr q1 = q_addr q2 ->
  object_answers c rules (h ++ [q1; q2]) =
  object_answers c rules h ++ [spec_verdict rules (q_cat q1) (q_type q1); spec_verdict rules (q_cat q2) (q_type q2)].
Proof.
  intros H _. rewrite object_answers_app. f_equal. rewrite (object_answers_spec c _ _ H). reflexivity.
Qed.

Lemma list_eqb_refl {A} (eq : A -> A -> bool) : (forall x, eq x x = true) -> forall a, list_eqb eq a a = true.
Proof. intros R. induction a as [|x a IH]; cbn; [reflexivity|]. rewrite R, IH. reflexivity. Qed.

Lemma seq_oracle_iff rules qs vs : prop_c15_seq_b rules qs vs = true <-> vs = spec_answers rules qs.
Proof.
  unfold prop_c15_seq_b. split.
  - apply list_eqb_eq. intros x y. apply Bool.eqb_prop.
  - intros ->. apply list_eqb_refl. intros []; reflexivity.
Qed.

(* the history oracle is the single-message oracle on every message (and the lengths agree) *)
Lemma seq_oracle_pointwise rules qs vs :
  prop_c15_seq_b rules qs vs = true <-> Forall2 (fun q v => prop_c15_b rules (q_cat q) (q_type q) v = true) qs vs.
Proof.
  rewrite seq_oracle_iff. unfold spec_answers, prop_c15_b. split.
  - intros ->. induction qs as [|q r IH]; cbn; constructor; [apply Bool.eqb_reflx|exact IH].
  - intros F. induction F as [|q v r vs' Hv _ IH]; cbn; [reflexivity|].
    apply Bool.eqb_prop in Hv. rewrite Hv, IH. reflexivity.
Qed.

Lemma seq_oracle_holds c rules qs : cfg_goodb c = true -> prop_c15_seq_b rules qs (object_answers c rules qs) = true.
Proof. intros H. apply seq_oracle_iff. apply object_answers_spec, H. Qed.

(* ------------------------------------------------------------------ rule lists and separators *)
Lemma parse_lines_app cfg a b : parse_lines cfg (a ++ b) = parse_lines cfg a ++ parse_lines cfg b.
Proof. apply flat_map_app. Qed.

Lemma malformed_ignored_lines cfg a bad b : parse_line cfg bad = None ->
  parse_lines cfg (a ++ [bad] ++ b) = parse_lines cfg a ++ parse_lines cfg b.
Proof.
  intros H. rewrite !parse_lines_app. unfold parse_lines at 2. cbn [flat_map]. unfold keep_rule. rewrite H. reflexivity.
Qed.

Lemma spec_lines_app a c b : is_sep c = true -> spec_lines (a ++ c :: b) = spec_lines a ++ spec_lines b.
Proof. intros H. unfold spec_lines. rewrite (split_on_app _ _ _ _ H). apply filter_app. Qed.

(* rule texts joined by a separator give the concatenated rule lists, in order *)
Lemma spec_rules_app a c b : is_sep c = true -> spec_rules (a ++ c :: b) = spec_rules a ++ spec_rules b.
Proof. intros H. unfold spec_rules. rewrite (spec_lines_app _ _ _ H). apply parse_lines_app. Qed.

Lemma spec_rules_single l : (forall c, In c l -> is_sep c = false) ->
  spec_rules l = match parse_line std_cfg l with Some r => [r] | None => [] end.
Proof.
  intros H. unfold spec_rules, spec_lines. rewrite (split_on_nosep _ _ H). cbn [filter].
  destruct l as [|x l]; cbn [nonempty parse_lines flat_map].
  - reflexivity.
  - unfold keep_rule. rewrite app_nil_r. reflexivity.
Qed.

Lemma malformed_ignored_text a bad b c1 c2 :
  is_sep c1 = true -> is_sep c2 = true -> (forall c, In c bad -> is_sep c = false) ->
  parse_line std_cfg bad = None ->
  spec_rules (a ++ c1 :: bad ++ c2 :: b) = spec_rules a ++ spec_rules b.
Proof.
  intros H1 H2 Hb Hp. rewrite (spec_rules_app _ _ _ H1), (spec_rules_app _ _ _ H2), (spec_rules_single _ Hb), Hp. reflexivity.
Qed.

(* ';' and newline are interchangeable *)
Definition sep_equiv (x y : N) : Prop := x = y \/ (is_sep x = true /\ is_sep y = true).
Lemma split_sep_equiv s s' : Forall2 sep_equiv s s' -> split_on is_sep s = split_on is_sep s'.
Proof.
  induction 1 as [|x y s s' Hxy _ IH]; [reflexivity|]. cbn [split_on].
  destruct Hxy as [->|[Hx Hy]].
  - rewrite IH. reflexivity.
  - rewrite Hx, Hy, IH. reflexivity.
Qed.
Lemma separators_equivalent_spec s s' : Forall2 sep_equiv s s' -> spec_rules s = spec_rules s'.
Proof. intros H. unfold spec_rules, spec_lines. rewrite (split_sep_equiv _ _ H). reflexivity. Qed.

(* ------------------------------------------------------------------ line parser: types *)
Lemma find_in {A} (f : A -> bool) l x : find f l = Some x -> In x l.
Proof. intros H. apply find_some in H. tauto. Qed.

Lemma parse_line_rtype_in cfg line r t :
  parse_line cfg line = Some r -> rtype r = Some t -> exists name, In (name, t) (suffixes cfg).
Proof.
  unfold parse_line. intros H Ht.
  destruct (split_last_eq line) as [[l v]|]; [|discriminate].
  destruct (find _ (values cfg)) as [[vn e]|]; [|discriminate].
  destruct (trim l) as [|c0 core] eqn:Ec; [discriminate|].
  destruct (existsb is_ws (c0 :: core)); [discriminate|].
  destruct (find _ (suffixes cfg)) as [[name t']|] eqn:Ef.
  - destruct (strip_suffix (c0 :: core) name); [|discriminate].
    injection H as <-. cbn in Ht. injection Ht as ->. exists name. eapply find_in, Ef.
  - injection H as <-. discriminate.
Qed.

Lemma parse_line_never_fatal line r : parse_line std_cfg line = Some r -> rtype r <> Some Fatal.
Proof.
  intros H Ht. destruct (parse_line_rtype_in _ _ _ _ H Ht) as [name Hin].
  cbn in Hin. repeat (destruct Hin as [Hin|Hin]; [discriminate|]). contradiction.
Qed.

Lemma parse_lines_in cfg ls r : In r (parse_lines cfg ls) -> exists l, In l ls /\ parse_line cfg l = Some r.
Proof.
  unfold parse_lines. rewrite in_flat_map. intros (l & Hl & Hr). exists l. split; [exact Hl|].
  unfold keep_rule in Hr. destruct (parse_line cfg l); [|contradiction]. destruct Hr as [->|[]]. reflexivity.
Qed.

Lemma spec_rules_never_fatal s r : In r (spec_rules s) -> rtype r <> Some Fatal.
Proof. intros H. apply parse_lines_in in H as (l & _ & Hp). eapply parse_line_never_fatal, Hp. Qed.

(* ------------------------------------------------------------------ Fatal: no suffix names it *)
Definition untyped (r : rule) : bool := match rtype r with None => true | Some _ => false end.
Lemma concerns_fatal_untyped rs : (forall r, In r rs -> rtype r <> Some Fatal) ->
  filter (concerns Fatal) rs = filter untyped rs.
Proof.
  intros H. apply filter_ext_in. intros r Hr. specialize (H r Hr). unfold concerns, untyped.
  destruct (rtype r) as [[]|]; try reflexivity. congruence.
Qed.

(* ------------------------------------------------------------------ corollaries for any configuration
   that passes the check (instantiated at the translated one in Properties_C15.v) *)
Section Good.
  Variable cfg : cat_cfg.
  Hypothesis good : cfg_goodb cfg = true.

  Lemma good_parse_rules s : parse_rules cfg s = spec_rules s.
  Proof. to_std cfg good. apply parse_rules_spec. Qed.

  Lemma good_last_match_wins rs c t :
    filter_rules cfg rs c t =
    match find (fun r => rule_matches (matcher cfg) (star cfg) r c t) (rev rs) with
    | Some r => enabled r | None => true end.
  Proof. to_std cfg good. unfold filter_rules. cbn [shape default_verdict matcher star std_cfg]. apply last_match_wins_gen. Qed.

  Lemma good_rule_matches r c t :
    rule_matches (matcher cfg) (star cfg) r c t = glob 42 (pat r) c && concerns t r.
  Proof.
    to_std cfg good. unfold rule_matches, pattern_matches. cbn [matcher star std_cfg].
    rewrite iter_match_glob. reflexivity.
  Qed.

  Lemma good_rule_matches_meaning r c t :
    rule_matches (matcher cfg) (star cfg) r c t = true <->
    Glob 42 (pat r) c /\ (rtype r = None \/ rtype r = Some t).
  Proof.
    rewrite good_rule_matches, andb_true_iff, glob_iff. unfold concerns.
    destruct (rtype r) as [t'|].
    - rewrite mtype_eqb_eq. split; intros [H1 H2]; (split; [exact H1|]).
      + right. congruence.
      + destruct H2 as [H2|H2]; congruence.
    - split; intros [H1 _]; (split; [exact H1|]); [left|]; reflexivity.
  Qed.

  Lemma good_later_rule_overrides rs r c t :
    filter_rules cfg (rs ++ [r]) c t =
    if rule_matches (matcher cfg) (star cfg) r c t then enabled r else filter_rules cfg rs c t.
  Proof. to_std cfg good. unfold filter_rules. cbn [shape default_verdict matcher star std_cfg]. apply decide_snoc. Qed.

  Lemma good_no_match_passes rs c t :
    (forall r, In r rs -> rule_matches (matcher cfg) (star cfg) r c t = false) -> filter_rules cfg rs c t = true.
  Proof. to_std cfg good. unfold filter_rules. cbn [shape default_verdict matcher star std_cfg]. apply decide_none. Qed.

  Lemma good_typed_other_type rs1 r rs2 c t t' :
    rtype r = Some t' -> t' <> t -> filter_rules cfg (rs1 ++ r :: rs2) c t = filter_rules cfg (rs1 ++ rs2) c t.
  Proof.
    intros H Hne. to_std cfg good. unfold filter_rules. cbn [shape default_verdict matcher star std_cfg].
    apply decide_skip. eapply typed_other_no_match; eassumption.
  Qed.

  Lemma good_untyped_all_types rs r c :
    rtype r = None -> glob 42 (pat r) c = true -> forall t, filter_rules cfg (rs ++ [r]) c t = enabled r.
  Proof.
    intros H Hg t. rewrite good_later_rule_overrides, good_rule_matches, Hg. unfold concerns. rewrite H. reflexivity.
  Qed.

  Lemma good_only_concerned rs c t : filter_rules cfg rs c t = filter_rules cfg (filter (concerns t) rs) c t.
  Proof. to_std cfg good. unfold filter_rules. cbn [shape default_verdict matcher star std_cfg]. apply decide_only_concerned. Qed.

  Lemma good_fatal_untyped_only rules c :
    category_filter cfg rules c Fatal = filter_rules cfg (filter untyped (parse_rules cfg rules)) c Fatal.
  Proof.
    unfold category_filter. rewrite good_only_concerned, concerns_fatal_untyped; [reflexivity|].
    intros r Hr. rewrite good_parse_rules in Hr. eapply spec_rules_never_fatal, Hr.
  Qed.

  Lemma good_rules_concatenate a c b : is_sep c = true -> parse_rules cfg (a ++ c :: b) = parse_rules cfg a ++ parse_rules cfg b.
  Proof. intros H. rewrite !good_parse_rules. apply spec_rules_app, H. Qed.

  Lemma good_separators_equivalent s s' : Forall2 sep_equiv s s' -> parse_rules cfg s = parse_rules cfg s'.
  Proof. intros H. rewrite !good_parse_rules. apply separators_equivalent_spec, H. Qed.

  Lemma good_malformed_ignored_text a bad b c1 c2 :
    is_sep c1 = true -> is_sep c2 = true -> (forall c, In c bad -> is_sep c = false) ->
    parse_line cfg bad = None ->
    parse_rules cfg (a ++ c1 :: bad ++ c2 :: b) = parse_rules cfg a ++ parse_rules cfg b.
  Proof.
    intros H1 H2 Hb Hp. rewrite !good_parse_rules. apply malformed_ignored_text; try assumption.
    rewrite <- (cfg_good_canon cfg good), <- parse_line_canon. exact Hp.
  Qed.
  (* only ';' and newline separate: a text without either is ONE line, whatever else it contains
     (colon, comma, bar, hash, slash, backslash, quotes, blanks, non-ASCII) *)
  Lemma good_only_separators_separate l : (forall c, In c l -> is_sep c = false) ->
    parse_rules cfg l = match parse_line cfg l with Some r => [r] | None => [] end.
  Proof.
    intros H. rewrite good_parse_rules, (spec_rules_single _ H), (parse_line_canon cfg), (cfg_good_canon cfg good). reflexivity.
  Qed.

  (* a character that is not a separator never starts a new rule: the lines of a ++ c :: b are those of a and
     of b with the last line of a, c and the first line of b glued into one *)
  Lemma good_non_separator_glues a c b : is_sep c = false ->
    (forall x, In x a -> is_sep x = false) -> (forall x, In x b -> is_sep x = false) ->
    parse_rules cfg (a ++ c :: b) = match parse_line cfg (a ++ c :: b) with Some r => [r] | None => [] end.
  Proof.
    intros Hc Ha Hb. apply good_only_separators_separate. intros x Hx. apply in_app_or in Hx as [Hx|[<-|Hx]]; auto.
  Qed.
End Good.

(* ------------------------------------------------------------------ the line grammar *)
Definition blank (w : str) : Prop := forallb is_ws w = true.
Definition solid (c : str) : Prop := forall x, In x c -> is_ws x = false.

Lemma blank_app a b : blank a -> blank b -> blank (a ++ b).
Proof. unfold blank. intros. rewrite forallb_app. apply andb_true_intro; auto. Qed.
Lemma blank_rev a : blank a -> blank (rev a).
Proof.
  unfold blank. rewrite !forallb_forall. intros H x Hx. apply H. apply in_rev. exact Hx.
Qed.
Lemma solid_rev c : solid c -> solid (rev c).
Proof. intros H x Hx. apply H. apply in_rev. exact Hx. Qed.

Lemma drop_ws_blank w x : blank w -> drop_ws (w ++ x) = drop_ws x.
Proof.
  unfold blank. induction w as [|c w IH]; intros H; [reflexivity|]. cbn in H. apply andb_prop in H as [H1 H2].
  cbn [app drop_ws]. rewrite H1. apply IH, H2.
Qed.
Lemma drop_ws_all w : blank w -> drop_ws w = [].
Proof. intros H. rewrite <- (app_nil_r w). rewrite (drop_ws_blank w [] H). reflexivity. Qed.
Lemma drop_ws_solid c x : solid c -> c <> [] -> drop_ws (c ++ x) = c ++ x.
Proof.
  intros H Hne. destruct c as [|a c]; [contradiction|]. cbn [app drop_ws].
  rewrite (H a (or_introl eq_refl)). reflexivity.
Qed.

Lemma trim_core w1 c w2 : blank w1 -> blank w2 -> solid c -> trim (w1 ++ c ++ w2) = c.
Proof.
  intros H1 H2 Hc. unfold trim. rewrite (drop_ws_blank _ _ H1).
  destruct c as [|a c].
  - cbn [app]. rewrite (drop_ws_all _ H2). reflexivity.
  - rewrite (drop_ws_solid (a :: c) w2 Hc) by discriminate.
    rewrite rev_app_distr, (drop_ws_blank _ _ (blank_rev _ H2)).
    assert (Hr : rev (a :: c) <> []).
    { intros E. apply (f_equal (@length N)) in E. rewrite rev_length in E. discriminate. }
    rewrite <- (app_nil_r (rev (a :: c))) at 1.
    rewrite (drop_ws_solid _ [] (solid_rev _ Hc) Hr), app_nil_r. apply rev_involutive.
Qed.

Lemma drop_ws_decomp l : exists w, l = w ++ drop_ws l /\ blank w /\
  match drop_ws l with c :: _ => is_ws c = false | [] => True end.
Proof.
  induction l as [|c l (w & E & Hw & Hd)].
  - exists []. repeat split.
  - cbn [drop_ws]. destruct (is_ws c) eqn:Ec.
    + exists (c :: w). split; [cbn; congruence|]. split; [|exact Hd]. unfold blank. cbn. rewrite Ec. exact Hw.
    + exists []. repeat split. exact Ec.
Qed.

Lemma trim_decomp l : exists w1 w2, l = w1 ++ trim l ++ w2 /\ blank w1 /\ blank w2.
Proof.
  destruct (drop_ws_decomp l) as (w1 & E1 & H1 & _).
  destruct (drop_ws_decomp (rev (drop_ws l))) as (w2 & E2 & H2 & _).
  exists w1, (rev w2). split; [|split; [exact H1|apply blank_rev, H2]].
  unfold trim. rewrite <- rev_app_distr, <- E2, rev_involutive. exact E1.
Qed.

(* split at the last '=' *)
Lemma split_last_eq_none s : split_last_eq s = None -> ~ In 61 s.
Proof.
  induction s as [|c s IH]; intros H; [intros []|]. cbn in H.
  destruct (split_last_eq s) as [[l r]|]; [discriminate|].
  destruct (N.eqb_spec c 61); [discriminate|]. intros [E|E]; [congruence|]. exact (IH eq_refl E).
Qed.
Lemma split_last_eq_some s l r : split_last_eq s = Some (l, r) -> s = l ++ 61 :: r /\ ~ In 61 r.
Proof.
  revert l r. induction s as [|c s IH]; intros l r H; [discriminate|]. cbn in H.
  destruct (split_last_eq s) as [[l' r']|] eqn:E.
  - injection H as <- <-. destruct (IH _ _ eq_refl) as [-> Hn]. split; [reflexivity|exact Hn].
  - destruct (N.eqb_spec c 61) as [->|]; [|discriminate]. injection H as <- <-.
    split; [reflexivity|]. apply split_last_eq_none, E.
Qed.
Lemma split_last_eq_intro l r : ~ In 61 r -> split_last_eq (l ++ 61 :: r) = Some (l, r).
Proof.
  intros Hn. assert (Hr : split_last_eq r = None).
  { destruct (split_last_eq r) as [[a b]|] eqn:E; [|reflexivity].
    apply split_last_eq_some in E as [-> _]. exfalso. apply Hn, in_elt. }
  induction l as [|c l IH]; cbn [app split_last_eq].
  - rewrite Hr. reflexivity.
  - rewrite IH. reflexivity.
Qed.

(* a typed suffix: '.' ++ name at the end, something before it *)
Lemma strip_suffix_some core name p : strip_suffix core name = Some p -> core = p ++ 46 :: name /\ p <> [].
Proof.
  unfold strip_suffix. set (suf := 46 :: name). set (n := (length core - length suf)%nat).
  destruct (Nat.ltb_spec (length suf) (length core)) as [Hlt|]; [|discriminate]. cbn [andb].
  destruct (seqb (skipn n core) suf) eqn:E; [|discriminate]. intros H. injection H as <-.
  apply seqb_eq in E. split.
  - rewrite <- E. symmetry. apply firstn_skipn.
  - intros E0. apply (f_equal (@length N)) in E0. rewrite firstn_length in E0. cbn in E0. lia.
Qed.
Lemma strip_suffix_intro p name : p <> [] -> strip_suffix (p ++ 46 :: name) name = Some p.
Proof.
  intros Hp. unfold strip_suffix. set (suf := 46 :: name). rewrite app_length.
  assert (Hl : (0 < length p)%nat) by (destruct p; [contradiction|cbn; lia]).
  destruct (Nat.ltb_spec (length suf) (length p + length suf)) as [_|]; [|lia].
  replace (length p + length suf - length suf)%nat with (length p) by lia.
  rewrite skipn_app, skipn_all, Nat.sub_diag, firstn_app, firstn_all, Nat.sub_diag. cbn [skipn firstn app].
  rewrite seqb_refl, app_nil_r. reflexivity.
Qed.

Lemma split_unique (x : N) a : forall a' b b', ~ In x a -> ~ In x a' -> a ++ x :: b = a' ++ x :: b' -> a = a' /\ b = b'.
Proof.
  induction a as [|c a IH]; intros [|c' a'] b b' Ha Ha' E; cbn in E.
  - injection E as <-. auto.
  - injection E as <- _. exfalso. apply Ha'. left. reflexivity.
  - injection E as -> _. exfalso. apply Ha. left. reflexivity.
  - injection E as <- E. destruct (IH a' b b') as [-> ->]; auto.
    + intros H. apply Ha. right. exact H.
    + intros H. apply Ha'. right. exact H.
Qed.
(* the suffix after the last '.' is determined by the string *)
Lemma dot_suffix_unique p n p' n' : ~ In 46 n -> ~ In 46 n' -> p ++ 46 :: n = p' ++ 46 :: n' -> p = p' /\ n = n'.
Proof.
  intros Hn Hn' E. apply (f_equal (@rev N)) in E. rewrite !rev_app_distr in E. cbn [rev] in E.
  rewrite <- !app_assoc in E. cbn [app] in E.
  apply split_unique in E as [E1 E2]; try (rewrite <- in_rev; assumption).
  apply (f_equal (@rev N)) in E1, E2. rewrite !rev_involutive in E1, E2. auto.
Qed.

(* ^\s*(\S+?)(?:\.(suffix))?\s*=\s*(value)\s*$  as a grammar *)
Inductive LineOK (cfg : cat_cfg) : str -> rule -> Prop :=
| LineTyped w1 p name t w2 w3 v e w4 :
    blank w1 -> blank w2 -> blank w3 -> blank w4 ->
    p <> [] -> solid (p ++ 46 :: name) -> In (name, t) (suffixes cfg) -> In (v, e) (values cfg) ->
    LineOK cfg (w1 ++ (p ++ 46 :: name) ++ w2 ++ 61 :: w3 ++ v ++ w4) {| pat := p; rtype := Some t; enabled := e |}
| LineUntyped w1 core w2 w3 v e w4 :
    blank w1 -> blank w2 -> blank w3 -> blank w4 ->
    core <> [] -> solid core ->
    (forall p name t, In (name, t) (suffixes cfg) -> p <> [] -> core <> p ++ 46 :: name) ->
    In (v, e) (values cfg) ->
    LineOK cfg (w1 ++ core ++ w2 ++ 61 :: w3 ++ v ++ w4) {| pat := core; rtype := None; enabled := e |}.

Lemma existsb_solid c : existsb is_ws c = false <-> solid c.
Proof.
  unfold solid. split.
  - intros H x Hx. destruct (is_ws x) eqn:E; [|reflexivity].
    assert (existsb is_ws c = true) by (apply existsb_exists; eauto). congruence.
  - intros H. destruct (existsb is_ws c) eqn:E; [|reflexivity].
    apply existsb_exists in E as (x & Hx & Ex). rewrite (H x Hx) in Ex. discriminate.
Qed.

(* the two tables of the property: facts used below *)
Lemma std_value_facts v e : In (v, e) (values std_cfg) -> solid v /\ ~ In 61 v /\
  find (fun ve => seqb v (fst ve)) (values std_cfg) = Some (v, e).
Proof.
  cbn. intros [E|[E|[]]]; injection E as <- <-; (split; [|split; [|reflexivity]]).
  - intros x Hx. cbn in Hx. repeat (destruct Hx as [<-|Hx]; [reflexivity|]). contradiction.
  - cbn. intros H. repeat (destruct H as [H|H]; [discriminate|]). contradiction.
  - intros x Hx. cbn in Hx. repeat (destruct Hx as [<-|Hx]; [reflexivity|]). contradiction.
  - cbn. intros H. repeat (destruct H as [H|H]; [discriminate|]). contradiction.
Qed.
Lemma std_suffix_nodot name t : In (name, t) (suffixes std_cfg) -> ~ In 46 name.
Proof.
  cbn. intros [E|[E|[E|[E|[]]]]]; injection E as <- <-; cbn; intros H;
    repeat (destruct H as [H|H]; [discriminate|]); contradiction.
Qed.
Lemma std_suffix_fun name t t' : In (name, t) (suffixes std_cfg) -> In (name, t') (suffixes std_cfg) -> t = t'.
Proof.
  cbn. unfold s_debug, s_info, s_warning, s_critical. intros [E|[E|[E|[E|[]]]]] [E'|[E'|[E'|[E'|[]]]]]; congruence.
Qed.
Lemma is_ws_61 : is_ws 61 = false. Proof. reflexivity. Qed.
Lemma blank_no_eq w : blank w -> ~ In 61 w.
Proof. unfold blank. rewrite forallb_forall. intros H Hi. specialize (H _ Hi). discriminate. Qed.

Lemma parse_line_complete l r : LineOK std_cfg l r -> parse_line std_cfg l = Some r.
Proof.
  intros H. destruct H as [w1 p name t w2 w3 v e w4 H1 H2 H3 H4 Hp Hs Hin Hv | w1 core w2 w3 v e w4 H1 H2 H3 H4 Hne Hs Hno Hv];
    destruct (std_value_facts _ _ Hv) as (Hvs & Hv61 & Hfind).
  - unfold parse_line.
    replace (w1 ++ (p ++ 46 :: name) ++ w2 ++ 61 :: w3 ++ v ++ w4) with ((w1 ++ (p ++ 46 :: name) ++ w2) ++ 61 :: (w3 ++ v ++ w4))
      by (rewrite <- !app_assoc; reflexivity).
    rewrite split_last_eq_intro.
    2:{ rewrite !in_app_iff. intros [Hx|[Hx|Hx]]; [exact (blank_no_eq _ H3 Hx)|exact (Hv61 Hx)|exact (blank_no_eq _ H4 Hx)]. }
    rewrite (trim_core w3 v w4 H3 H4 Hvs), Hfind, (trim_core w1 _ w2 H1 H2 Hs).
    remember (p ++ 46 :: name) as core eqn:Ecore.
    destruct core as [|c0 core']; [destruct p; discriminate|].
    rewrite (proj2 (existsb_solid _) Hs). rewrite Ecore.
    destruct (find (fun st => is_some (strip_suffix (p ++ 46 :: name) (fst st))) (suffixes std_cfg)) as [[name' t']|] eqn:Ef.
    + apply find_some in Ef as [Hin' Hst]. cbn [fst] in Hst.
      destruct (strip_suffix (p ++ 46 :: name) name') as [p'|] eqn:Es; [|discriminate].
      apply strip_suffix_some in Es as [Es _].
      apply dot_suffix_unique in Es as [<- <-]; [|eapply std_suffix_nodot; eassumption..].
      rewrite (std_suffix_fun _ _ _ Hin Hin'). reflexivity.
    + exfalso. eapply find_none in Ef; [|exact Hin]. cbn [fst] in Ef. rewrite (strip_suffix_intro _ _ Hp) in Ef. discriminate.
  - unfold parse_line.
    replace (w1 ++ core ++ w2 ++ 61 :: w3 ++ v ++ w4) with ((w1 ++ core ++ w2) ++ 61 :: (w3 ++ v ++ w4))
      by (rewrite <- !app_assoc; reflexivity).
    rewrite split_last_eq_intro.
    2:{ rewrite !in_app_iff. intros [Hx|[Hx|Hx]]; [exact (blank_no_eq _ H3 Hx)|exact (Hv61 Hx)|exact (blank_no_eq _ H4 Hx)]. }
    rewrite (trim_core w3 v w4 H3 H4 Hvs), Hfind, (trim_core w1 _ w2 H1 H2 Hs).
    destruct core as [|c0 core']; [contradiction|].
    rewrite (proj2 (existsb_solid _) Hs).
    destruct (find (fun st => is_some (strip_suffix (c0 :: core') (fst st))) (suffixes std_cfg)) as [[name' t']|] eqn:Ef; [|reflexivity].
    exfalso. apply find_some in Ef as [Hin' Hst]. cbn [fst] in Hst.
    destruct (strip_suffix (c0 :: core') name') as [p'|] eqn:Es; [|discriminate].
    apply strip_suffix_some in Es as [Es Hp']. exact (Hno _ _ _ Hin' Hp' Es).
Qed.

Lemma parse_line_sound l r : parse_line std_cfg l = Some r -> LineOK std_cfg l r.
Proof.
  unfold parse_line. intros H.
  destruct (split_last_eq l) as [[a b]|] eqn:El; [|discriminate].
  apply split_last_eq_some in El as [-> _].
  destruct (find (fun ve => seqb (trim b) (fst ve)) (values std_cfg)) as [[v e]|] eqn:Ev; [|discriminate].
  apply find_some in Ev as [Hv Eb]. cbn [fst] in Eb. apply seqb_eq in Eb.
  destruct (trim_decomp a) as (w1 & w2 & Ea & H1 & H2).
  destruct (trim_decomp b) as (w3 & w4 & Eb' & H3 & H4). rewrite Eb in Eb'.
  destruct (trim a) as [|c0 core'] eqn:Ec; [discriminate|].
  destruct (existsb is_ws (c0 :: core')) eqn:Ex; [discriminate|]. apply existsb_solid in Ex.
  destruct (find (fun st => is_some (strip_suffix (c0 :: core') (fst st))) (suffixes std_cfg)) as [[name t]|] eqn:Ef.
  - apply find_some in Ef as [Hin _].
    destruct (strip_suffix (c0 :: core') name) as [p|] eqn:Es; [|discriminate].
    injection H as <-. apply strip_suffix_some in Es as [Es Hp].
    rewrite Ea, Eb', Es, <- !app_assoc. rewrite Es in Ex.
    replace (w1 ++ p ++ (46 :: name) ++ w2 ++ 61 :: w3 ++ v ++ w4) with (w1 ++ (p ++ 46 :: name) ++ w2 ++ 61 :: w3 ++ v ++ w4)
      by (rewrite <- !app_assoc; reflexivity).
    apply LineTyped; assumption.
  - injection H as <-. rewrite Ea, Eb', <- !app_assoc.
    apply LineUntyped; try assumption; [discriminate|].
    intros p name t Hin Hp E. eapply find_none in Ef; [|exact Hin]. cbn [fst] in Ef.
    rewrite E, (strip_suffix_intro _ _ Hp) in Ef. discriminate.
Qed.

Lemma parse_line_iff l r : parse_line std_cfg l = Some r <-> LineOK std_cfg l r.
Proof. split; [apply parse_line_sound|apply parse_line_complete]. Qed.

(* malformed = no reading of the line by the grammar *)
Lemma parse_line_rejects_iff l : parse_line std_cfg l = None <-> forall r, ~ LineOK std_cfg l r.
Proof.
  split.
  - intros H r Hr. apply parse_line_complete in Hr. congruence.
  - intros H. destruct (parse_line std_cfg l) as [r|] eqn:E; [|reflexivity]. exfalso. exact (H r (parse_line_sound _ _ E)).
Qed.

(* the grammar reads the suffix and value alternatives only *)
Lemma LineOK_canon cfg l r : LineOK cfg l r <-> LineOK (canon cfg) l r.
Proof. split; intros H; destruct H; econstructor; eassumption. Qed.

Lemma good_line_grammar cfg : cfg_goodb cfg = true -> forall l r, parse_line cfg l = Some r <-> LineOK cfg l r.
Proof.
  intros H l r. rewrite (LineOK_canon cfg l r), parse_line_canon, (cfg_good_canon cfg H). apply parse_line_iff.
Qed.
Lemma good_rejects_iff cfg : cfg_goodb cfg = true -> forall l, parse_line cfg l = None <-> forall r, ~ LineOK cfg l r.
Proof.
  intros H l. rewrite parse_line_canon. split.
  - intros Hn r Hr. apply LineOK_canon in Hr. revert r Hr. rewrite (cfg_good_canon cfg H) in *. apply parse_line_rejects_iff, Hn.
  - intros Hn. rewrite (cfg_good_canon cfg H). apply parse_line_rejects_iff. intros r Hr.
    apply (Hn r). apply LineOK_canon. rewrite (cfg_good_canon cfg H). exact Hr.
Qed.

(* ------------------------------------------------------------------ a name with punctuation is one rule *)
Lemma std_value_nosep v e : In (v, e) (values std_cfg) -> forall c, In c v -> is_sep c = false.
Proof.
  cbn. intros [E|[E|[]]]; injection E as <- <-; intros c Hc; cbn in Hc;
    repeat (destruct Hc as [<-|Hc]; [reflexivity|]); contradiction.
Qed.
Lemma std_suffix_solid name t : In (name, t) (suffixes std_cfg) -> solid name /\ ~ In 59 name.
Proof.
  cbn. intros [E|[E|[E|[E|[]]]]]; injection E as <- <-; (split; [intros x Hx|intros Hx]); cbn in Hx;
    repeat (destruct Hx as [Hx|Hx]; [first [subst x; reflexivity|discriminate]|]); contradiction.
Qed.
Lemma solid_nosemi_nosep n : solid n -> ~ In 59 n -> forall c, In c n -> is_sep c = false.
Proof.
  intros Hs H59 c Hc. unfold is_sep. destruct (N.eqb_spec c 59) as [->|_]; [contradiction|].
  destruct (N.eqb_spec c 10) as [->|_]; [|reflexivity]. specialize (Hs _ Hc). discriminate.
Qed.

(* the rule text  <name>=<value>  with a blank-free name without ';' that has no typed reading is exactly the one
   untyped rule for that name: every other character (colon, comma, bar, hash, slash, backslash, both quotes, equals sign, dot,
   non-ASCII) is part of the name *)
Lemma single_rule_text n v e : n <> [] -> solid n -> ~ In 59 n ->
  (forall p sfx t, In (sfx, t) (suffixes std_cfg) -> p <> [] -> n <> p ++ 46 :: sfx) ->
  In (v, e) (values std_cfg) ->
  spec_rules (n ++ 61 :: v) = [{| pat := n; rtype := None; enabled := e |}].
Proof.
  intros Hne Hs H59 Hno Hv. rewrite spec_rules_single.
  - replace (n ++ 61 :: v) with ([] ++ n ++ [] ++ 61 :: [] ++ v ++ []) by (cbn; rewrite app_nil_r; reflexivity).
    rewrite (parse_line_complete _ {| pat := n; rtype := None; enabled := e |}); [reflexivity|].
    apply LineUntyped; try reflexivity; assumption.
  - intros c Hc. apply in_app_or in Hc as [Hc|[<-|Hc]]; [exact (solid_nosemi_nosep _ Hs H59 _ Hc)|reflexivity|exact (std_value_nosep _ _ Hv _ Hc)].
Qed.
(* ... and  <name>.<suffix>=<value>  the one rule for that name typed by the suffix *)
Lemma single_typed_rule_text n sfx t v e : n <> [] -> solid n -> ~ In 59 n ->
  In (sfx, t) (suffixes std_cfg) -> In (v, e) (values std_cfg) ->
  spec_rules (n ++ 46 :: sfx ++ 61 :: v) = [{| pat := n; rtype := Some t; enabled := e |}].
Proof.
  intros Hne Hs H59 Hin Hv. destruct (std_suffix_solid _ _ Hin) as [Hss Hs59]. rewrite spec_rules_single.
  - replace (n ++ 46 :: sfx ++ 61 :: v) with ([] ++ (n ++ 46 :: sfx) ++ [] ++ 61 :: [] ++ v ++ [])
      by (cbn; rewrite app_nil_r, <- app_assoc; reflexivity).
    rewrite (parse_line_complete _ {| pat := n; rtype := Some t; enabled := e |}); [reflexivity|].
    apply LineTyped; try reflexivity; try assumption.
    intros x Hx. apply in_app_or in Hx as [Hx|[<-|Hx]]; [exact (Hs _ Hx)|reflexivity|exact (Hss _ Hx)].
  - intros c Hc. apply in_app_or in Hc as [Hc|[<-|Hc]]; [exact (solid_nosemi_nosep _ Hs H59 _ Hc)|reflexivity|].
    apply in_app_or in Hc as [Hc|[<-|Hc]]; [exact (solid_nosemi_nosep _ Hss Hs59 _ Hc)|reflexivity|exact (std_value_nosep _ _ Hv _ Hc)].
Qed.

Lemma spec_single_rule_decides r c t :
  spec_decision [r] c t = if glob 42 (pat r) c && concerns t r then enabled r else true.
Proof.
  unfold spec_decision, spec_matches, rule_matches, pattern_matches, concerns. cbn [rev app find].
  rewrite iter_match_glob. destruct (glob 42 (pat r) c && _); reflexivity.
Qed.

Section GoodNames.
  Variable cfg : cat_cfg.
  Hypothesis good : cfg_goodb cfg = true.
  Let Ecfg : canon cfg = std_cfg := cfg_good_canon cfg good.
  Lemma good_suffixes : suffixes cfg = suffixes std_cfg.
  Proof. change (suffixes cfg) with (suffixes (canon cfg)). rewrite Ecfg. reflexivity. Qed.
  Lemma good_values : values cfg = values std_cfg.
  Proof. change (values cfg) with (values (canon cfg)). rewrite Ecfg. reflexivity. Qed.

  Lemma good_single_rule_text n v e : n <> [] -> solid n -> ~ In 59 n ->
    (forall p sfx t, In (sfx, t) (suffixes cfg) -> p <> [] -> n <> p ++ 46 :: sfx) ->
    In (v, e) (values cfg) ->
    parse_rules cfg (n ++ 61 :: v) = [{| pat := n; rtype := None; enabled := e |}].
  Proof. rewrite good_suffixes, good_values, (good_parse_rules cfg good). apply single_rule_text. Qed.

  Lemma good_single_typed_rule_text n sfx t v e : n <> [] -> solid n -> ~ In 59 n ->
    In (sfx, t) (suffixes cfg) -> In (v, e) (values cfg) ->
    parse_rules cfg (n ++ 46 :: sfx ++ 61 :: v) = [{| pat := n; rtype := Some t; enabled := e |}].
  Proof. rewrite good_suffixes, good_values, (good_parse_rules cfg good). apply single_typed_rule_text. Qed.

  (* the verdicts of that one-rule filter: the categories the name globs get the rule's value, all others pass *)
  Lemma good_single_rule_decides n v e : n <> [] -> solid n -> ~ In 59 n ->
    (forall p sfx t, In (sfx, t) (suffixes cfg) -> p <> [] -> n <> p ++ 46 :: sfx) ->
    In (v, e) (values cfg) ->
    forall c t, category_filter cfg (n ++ 61 :: v) c t = if glob 42 n c then e else true.
  Proof.
    intros H1 H2 H3 H4 H5 c t. rewrite (model_is_spec cfg _ _ _ good). unfold spec_verdict.
    rewrite <- (good_parse_rules cfg good), (good_single_rule_text n v e H1 H2 H3 H4 H5), spec_single_rule_decides.
    cbn [pat enabled concerns rtype]. rewrite andb_true_r. reflexivity.
  Qed.
  Lemma good_single_typed_rule_decides n sfx t v e : n <> [] -> solid n -> ~ In 59 n ->
    In (sfx, t) (suffixes cfg) -> In (v, e) (values cfg) ->
    forall c t', category_filter cfg (n ++ 46 :: sfx ++ 61 :: v) c t' = if glob 42 n c && mtype_eqb t t' then e else true.
  Proof.
    intros H1 H2 H3 H4 H5 c t'. rewrite (model_is_spec cfg _ _ _ good). unfold spec_verdict.
    rewrite <- (good_parse_rules cfg good), (good_single_typed_rule_text n sfx t v e H1 H2 H3 H4 H5), spec_single_rule_decides.
    reflexivity.
  Qed.
End GoodNames.

(* ------------------------------------------------------------------ front end (round 8) *)
Lemma cat_front_good_inv fr : cat_front_goodb fr = true -> fr_obj fr = FNew /\ fr_arg fr = ArgRules.
Proof. unfold cat_front_goodb. destruct (fr_obj fr), (fr_arg fr); intros H; try discriminate; auto. Qed.

Lemma reaches_trailing_single v : reaches_trailing [v] = v.
Proof. unfold reaches_trailing. cbn. apply andb_true_r. Qed.

(* a good front end hands the caller's rule text to a new object, whatever was requested before *)
Lemma front_rules_good fr : cat_front_goodb fr = true -> forall earlier rules, front_rules fr earlier rules = rules.
Proof.
  intros G earlier rules. destruct (cat_front_good_inv fr G) as [Ho Ha].
  unfold front_rules, front_obtain. rewrite Ho, Ha. reflexivity.
Qed.

Lemma front_reached_is_direct cfg fr : cat_front_goodb fr = true -> forall earlier rules cat t,
  front_reached cfg fr earlier rules cat t = category_filter cfg rules cat t.
Proof. intros G earlier rules cat t. unfold front_reached. rewrite reaches_trailing_single, (front_rules_good fr G). reflexivity. Qed.

Lemma front_answers_is_direct cfg fr : cat_front_goodb fr = true -> forall earlier rules qs,
  front_answers cfg fr earlier rules qs = object_answers cfg rules qs.
Proof.
  intros G earlier rules qs. unfold front_answers. rewrite (front_rules_good fr G).
  rewrite <- (map_id (object_answers cfg rules qs)) at 2. apply map_ext. intros v. apply reaches_trailing_single.
Qed.

Lemma front_reached_spec cfg fr : cfg_goodb cfg = true -> cat_front_goodb fr = true -> forall earlier rules cat t,
  front_reached cfg fr earlier rules cat t = spec_verdict rules cat t.
Proof. intros C G earlier rules cat t. rewrite (front_reached_is_direct cfg fr G). apply model_is_spec, C. Qed.

Lemma front_answers_spec cfg fr : cfg_goodb cfg = true -> cat_front_goodb fr = true -> forall earlier rules qs,
  front_answers cfg fr earlier rules qs = spec_answers rules qs.
Proof. intros C G earlier rules qs. rewrite (front_answers_is_direct cfg fr G). apply object_answers_spec, C. Qed.

Lemma front_oracle_holds cfg fr : cfg_goodb cfg = true -> cat_front_goodb fr = true -> forall earlier rules cat t,
  prop_c15_b rules cat t (front_reached cfg fr earlier rules cat t) = true.
Proof. intros C G earlier rules cat t. rewrite (front_reached_is_direct cfg fr G). apply oracle_holds, C. Qed.

Lemma front_seq_oracle_holds cfg fr : cfg_goodb cfg = true -> cat_front_goodb fr = true -> forall earlier rules qs,
  prop_c15_seq_b rules qs (front_answers cfg fr earlier rules qs) = true.
Proof. intros C G earlier rules qs. rewrite (front_answers_is_direct cfg fr G). apply seq_oracle_holds, C. Qed.

(* broken front ends.  "a=false" asked about the category "a": must be dropped *)
Definition fx_a_false : str := [97;61;102;97;108;115;101].
Definition fx_b_false : str := [98;61;102;97;108;115;101].
Definition dropping_front : cat_front := {| fr_obj := FNew; fr_arg := ArgEmpty |}.
Definition shared_front : cat_front := {| fr_obj := FSharedStatic; fr_arg := ArgRules |}.
(* the rule text is not handed on: every message passes *)
Lemma dropping_front_refuted : exists rules cat t,
  front_reached std_cfg dropping_front [] rules cat t <> spec_verdict rules cat t.
Proof. exists fx_a_false, [97], Debug. vm_compute. discriminate. Qed.
(* one shared static object: right for the first request of a process, wrong for a later one with other rules *)
Lemma shared_front_refuted :
  (forall rules cat t, front_reached std_cfg shared_front [] rules cat t = spec_verdict rules cat t)
  /\ exists earlier rules cat t, front_reached std_cfg shared_front earlier rules cat t <> spec_verdict rules cat t.
Proof.
  split.
  - intros rules cat t. unfold front_reached. rewrite reaches_trailing_single. cbn. apply model_is_spec_std.
  - exists [fx_b_false], fx_a_false, [97], Debug. vm_compute. discriminate.
Qed.
