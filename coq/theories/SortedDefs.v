(* C17 — executable model of SortedPipeline (sortedpipeline.cpp).  Definitions only: this file must
   keep compiling (and extracting) when a proof elsewhere breaks. *)
From Coq Require Import List Arith Bool.
Import ListNotations.

(* Handler::HandlerType, in the order the property prescribes; Gen = plain Handler *)
Inductive cls := Attr | Filt | Fmt | Snk | Pipe | Gen.
Definition rank (c : cls) : nat :=
  match c with Attr => 0 | Filt => 1 | Fmt => 2 | Snk => 3 | Pipe => 4 | Gen => 5 end.
Definition cls_eqb (a b : cls) : bool := Nat.eqb (rank a) (rank b).
(* a handler in the list: its class and the index of the call that inserted it (its identity) *)
Definition hnd := (cls * nat)%type.
Definition mem (c : cls) (s : list cls) : bool := existsb (cls_eqb c) s.

Fixpoint split_at_first (p : hnd -> bool) (l : list hnd) : list hnd * list hnd :=
  match l with
  | [] => ([], [])
  | x :: t => if p x then ([], l) else let (a, b) := split_at_first p t in (x :: a, b)
  end.
(* index+1 of the last element satisfying p, 0 if none *)
Fixpoint after_last (p : hnd -> bool) (pre : list hnd) : nat :=
  match pre with
  | [] => 0
  | x :: t => let k := after_last p t in if (0 <? k) then S k else if p x then 1 else 0
  end.

(* insertBetweenNearLeft: firstRight := first element of a right class; lastLeft := position just
   after the last element of a left class before firstRight (begin() if none); insert there *)
Definition near_left (left right : list cls) (x : hnd) (l : list hnd) : list hnd :=
  let (pre, post) := split_at_first (fun y => mem (fst y) right) l in
  let k := after_last (fun y => mem (fst y) left) pre in
  firstn k pre ++ x :: skipn k pre ++ post.
(* insertBetweenNearRight: lastLeft := position just after the last element of a left class in the
   whole list; firstRight := first element of a right class from there; insert before it *)
Definition near_right (left right : list cls) (x : hnd) (l : list hnd) : list hnd :=
  let k := after_last (fun y => mem (fst y) left) l in
  let pre := firstn k l in let rest := skipn k l in
  let (a, b) := split_at_first (fun y => mem (fst y) right) rest in
  pre ++ a ++ x :: b.
Definition clear (c : cls) (l : list hnd) : list hnd := filter (fun y => negb (cls_eqb (fst y) c)) l.

(* how a typed call places its handler; generated from the source into SrcSorted.v *)
Inductive place :=
| PNearLeft (left right : list cls)
| PNearRight (left right : list cls)
| PAppend.
(* The shape of the two searches, as the translator reads it from the source.  [SBackward] is a
   backward search from the anchor (reverse iterators); [SReversedRange] is std::find_if called
   with (first, last) = (anchor, begin()) — undefined behaviour which libstdc++'s random-access
   loop resolves by returning [last] at once, i.e. begin(). *)
Inductive shape := SBackward | SReversedRange.
Definition near_left_s (s : shape) (left right : list cls) (x : hnd) (l : list hnd) : list hnd :=
  match s with SBackward => near_left left right x l | SReversedRange => x :: l end.
Definition near_right_s (s : shape) (left right : list cls) (x : hnd) (l : list hnd) : list hnd :=
  match s with
  | SBackward => near_right left right x l
  | SReversedRange => let (a, b) := split_at_first (fun y => mem (fst y) right) l in a ++ x :: b
  end.
Record sorted_cfg := { nl_shape : shape; nr_shape : shape;
                       p_attr : place; p_filter : place; p_formatter : place; p_sink : place;
                       p_pipeline : place; fmt_clears_first : bool }.
Definition do_place (cfg : sorted_cfg) (p : place) (x : hnd) (l : list hnd) : list hnd :=
  match p with
  | PNearLeft lt rt => near_left_s (nl_shape cfg) lt rt x l
  | PNearRight lt rt => near_right_s (nr_shape cfg) lt rt x l
  | PAppend => l ++ [x]
  end.

(* [SetFormatterAgain] = setFormatter called with the formatter OBJECT of the most recent
   setFormatter call (re-applying a configuration); it behaves as [SetFormatter] if there was none *)
(* [NullCall c] = the typed call of class c with a NULL pointer: every typed call ignores it *)
(* [AppendAgain c] = the typed append of class c (attr handler, filter, sink, pipeline) called with the
   OBJECT most recently created for that class — the same handler appended a second time; it behaves
   as a fresh append if there was none, and is a no-op for c = Fmt / Gen (use SetFormatterAgain) *)
Inductive op := AppendAttr | AppendFilter | SetFormatter | SetFormatterAgain | AppendSink | AppendPipeline
              | AppendAgain (c : cls) | NullCall (c : cls) | Clear (c : cls) | ClearAll.
(* id = identity of the handler object: the index of the call that created it *)
Definition step_cfg (cfg : sorted_cfg) (l : list hnd) (id : nat) (o : op) : list hnd :=
  match o with
  | AppendAttr => do_place cfg (p_attr cfg) (Attr, id) l
  | AppendFilter => do_place cfg (p_filter cfg) (Filt, id) l
  | SetFormatter | SetFormatterAgain =>
      do_place cfg (p_formatter cfg) (Fmt, id) (if fmt_clears_first cfg then clear Fmt l else l)
  | AppendSink => do_place cfg (p_sink cfg) (Snk, id) l
  | AppendPipeline => do_place cfg (p_pipeline cfg) (Pipe, id) l
  | AppendAgain c =>
      match c with
      | Attr => do_place cfg (p_attr cfg) (Attr, id) l
      | Filt => do_place cfg (p_filter cfg) (Filt, id) l
      | Snk => do_place cfg (p_sink cfg) (Snk, id) l
      | Pipe => do_place cfg (p_pipeline cfg) (Pipe, id) l
      | Fmt | Gen => l
      end
  | NullCall _ => l
  | Clear c => clear c l
  | ClearAll => []
  end.
Definition op_class (o : op) : option cls :=
  match o with AppendAttr => Some Attr | AppendFilter => Some Filt
             | SetFormatter | SetFormatterAgain => Some Fmt
             | AppendAgain c => match c with Fmt | Gen => None | _ => Some c end
             | AppendSink => Some Snk | AppendPipeline => Some Pipe | _ => None end.
(* the identity a call inserts: a fresh one (the call's index), except for the "again" calls, which
   insert the object most recently created for their class; [lastf c] = that object, if any *)
Definition lasts := cls -> option nat.
Definition no_lasts : lasts := fun _ => None.
Definition again_class (o : op) : option cls :=
  match o with
  | SetFormatterAgain => Some Fmt
  | AppendAgain c => match c with Fmt | Gen => None | _ => Some c end
  | _ => None
  end.
Definition hid (lastf : lasts) (id : nat) (o : op) : nat :=
  match again_class o with
  | Some c => match lastf c with Some f => f | None => id end
  | None => id
  end.
Definition next_lastf (lastf : lasts) (id : nat) (o : op) : lasts :=
  match op_class o with
  | Some c => fun c' => if cls_eqb c' c then Some (hid lastf id o) else lastf c'
  | None => lastf
  end.
Fixpoint run_from (cfg : sorted_cfg) (l : list hnd) (lastf : lasts) (id : nat) (ops : list op) : list hnd :=
  match ops with
  | [] => l
  | o :: t => run_from cfg (step_cfg cfg l (hid lastf id o) o) (next_lastf lastf id o) (S id) t
  end.
Definition run_cfg (cfg : sorted_cfg) (ops : list op) : list hnd := run_from cfg [] no_lasts 0 ops.

(* ---- specification: ranked stable insertion ---- *)
Fixpoint insert_sorted (x : hnd) (l : list hnd) : list hnd :=
  match l with
  | [] => [x]
  | y :: t => if Nat.ltb (rank (fst x)) (rank (fst y)) then x :: l else y :: insert_sorted x t
  end.
Definition step_ref (l : list hnd) (id : nat) (o : op) : list hnd :=
  match o with
  | SetFormatter | SetFormatterAgain => insert_sorted (Fmt, id) (clear Fmt l)
  | NullCall _ => l
  | Clear c => clear c l
  | ClearAll => []
  | _ => match op_class o with Some c => insert_sorted (c, id) l | None => l end
  end.
(* the per-class log: what the class-c part of the list must be after a history *)
Definition log_step (c : cls) (lg : list hnd) (id : nat) (o : op) : list hnd :=
  match o with
  | ClearAll => []
  | NullCall _ => lg
  | Clear c' => if cls_eqb c c' then [] else lg
  | SetFormatter | SetFormatterAgain => if cls_eqb c Fmt then [(Fmt, id)] else lg
  | _ => match op_class o with
         | Some c' => if cls_eqb c c' then lg ++ [(c, id)] else lg
         | None => lg end
  end.
Fixpoint log_from (c : cls) (lg : list hnd) (lastf : lasts) (id : nat) (ops : list op) : list hnd :=
  match ops with
  | [] => lg
  | o :: t => log_from c (log_step c lg (hid lastf id o) o) (next_lastf lastf id o) (S id) t
  end.
Definition class_log (c : cls) (ops : list op) : list hnd := log_from c [] no_lasts 0 ops.
Definition spec_list (ops : list op) : list hnd :=
  class_log Attr ops ++ class_log Filt ops ++ class_log Fmt ops ++ class_log Snk ops ++ class_log Pipe ops.

(* ---- boolean oracle, evaluated on what the implementation produced ---- *)
Fixpoint sortedb (l : list hnd) : bool :=
  match l with
  | a :: t => match t with b :: _ => Nat.leb (rank (fst a)) (rank (fst b)) | [] => true end && sortedb t
  | [] => true
  end.
Definition of_class (c : cls) (l : list hnd) := filter (fun y => cls_eqb (fst y) c) l.
(* identities along a class part follow call order; equal neighbours = the same object appended again *)
Fixpoint ids_increasing (l : list hnd) : bool :=
  match l with
  | a :: t => match t with b :: _ => Nat.leb (snd a) (snd b) | [] => true end && ids_increasing t
  | [] => true
  end.
Definition prop_c17_b (l : list hnd) : bool :=
  sortedb l && Nat.leb (length (of_class Fmt l)) 1
  && forallb (fun c => ids_increasing (of_class c l)) [Attr; Filt; Fmt; Snk; Pipe]
  && Nat.eqb (length (of_class Gen l)) 0.
Definition hnd_eqb (a b : hnd) : bool := cls_eqb (fst a) (fst b) && Nat.eqb (snd a) (snd b).
Fixpoint list_eqb (a b : list hnd) : bool :=
  match a, b with [], [] => true | x :: a', y :: b' => hnd_eqb x y && list_eqb a' b' | _, _ => false end.
