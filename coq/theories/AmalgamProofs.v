(* C20 — lemmas about the generator model of AmalgamDefs (for every tree). *)
From Coq Require Import List NArith Bool Lia Arith.
Import ListNotations.
Require Import QtlVerif.AmalgamDefs.
Local Open Scope N_scope.

Lemma seqb_eq a : forall b, seqb a b = true <-> a = b.
Proof.
  induction a as [|x a IH]; intros [|y b]; cbn; try (split; discriminate); [split; reflexivity|].
  rewrite andb_true_iff, N.eqb_eq, IH. split; [intros [-> ->]; reflexivity|intros H; inversion H; split; reflexivity].
Qed.
Lemma patheqb_eq a : forall b, patheqb a b = true <-> a = b.
Proof.
  induction a as [|x a IH]; intros [|y b]; cbn; try (split; discriminate); [split; reflexivity|].
  rewrite andb_true_iff, seqb_eq, IH. split; [intros [-> ->]; reflexivity|intros H; inversion H; split; reflexivity].
Qed.
Lemma mem_path_In p l : mem_path p l = true <-> In p l.
Proof.
  unfold mem_path. rewrite existsb_exists. split.
  - intros (x & Hx & E). apply patheqb_eq in E. subst. exact Hx.
  - intros H. exists p. split; [exact H|apply patheqb_eq; reflexivity].
Qed.
Lemma mem_path_false p l : mem_path p l = false -> ~ In p l.
Proof. intros H Hin. apply mem_path_In in Hin. congruence. Qed.
Lemma mem_path_dec (p : path) (l : list path) : {In p l} + {~ In p l}.
Proof. destruct (mem_path p l) eqn:E; [left; apply mem_path_In; exact E|right; apply mem_path_false; exact E]. Qed.

(* ------------------------------------------------------------------------------------------------
   0. one generic invariant lemma for the scan: a predicate on the generator state that survives
      logging a directive and survives the expansion of a newly included file survives the scan *)
Section ScanInv.
  Variable t : tree.
  Variable rec_process : path -> gst -> str -> str * gst.
  Variable P : gst -> Prop.
  (* a directive that is logged but not expanded: unresolved, or its target is already included *)
  Hypothesis Hmet : forall g inc, P g ->
    match resolve t (include_dir g) inc with Some q => mem_path q (included g) = true | None => True end ->
    P (with_met g (include_dir g, inc, resolve t (include_dir g) inc)).
  Hypothesis Hrec : forall g inc q out, P g ->
    resolve t (include_dir g) inc = Some q -> mem_path q (included g) = false ->
    P (snd (rec_process q (add_inc (with_met g (include_dir g, inc, Some q)) q) out)).
  Lemma scan_inv : forall s skip keep g out, P g -> P (snd (scan t rec_process s skip keep g out)).
  Proof.
    induction s as [|c r IH]; intros skip keep g out H; cbn [scan]; [exact H|].
    destruct skip as [|k]; [|apply IH; exact H].
    destruct (match_include (c :: r)) as [[inc mlen]|]; [|apply IH; exact H].
    pose proof (Hmet g inc H) as HM.
    destruct (resolve t (include_dir g) inc) as [q|] eqn:Hq; [|apply IH, HM; exact I].
    destruct (mem_path q (included g)) eqn:Hm; [apply IH, HM; reflexivity|].
    pose proof (Hrec g inc q (rev_append (header_of q) out) H Hq Hm) as E.
    destruct (rec_process q (add_inc (with_met g (include_dir g, inc, Some q)) q) (rev_append (header_of q) out)) as [out2 g2].
    apply IH. exact E.
  Qed.
End ScanInv.

(* ------------------------------------------------------------------------------------------------
   1. the include set never shrinks and never holds a path twice *)
Definition Mono (g g' : gst) : Prop :=
  incl (included g) (included g') /\ (NoDup (included g) -> NoDup (included g')).
Lemma Mono_refl g : Mono g g. Proof. split; [apply incl_refl|auto]. Qed.
Lemma Mono_trans a b c : Mono a b -> Mono b c -> Mono a c.
Proof. intros [I1 N1] [I2 N2]. split; [eapply incl_tran; eassumption|auto]. Qed.
Lemma Mono_with_met g e : Mono g (with_met g e). Proof. split; cbn; [apply incl_refl|auto]. Qed.
Lemma Mono_enter g p : Mono g (enter g p). Proof. split; cbn; [apply incl_refl|auto]. Qed.
Lemma Mono_starve g : Mono g (starve g). Proof. split; cbn; [apply incl_refl|auto]. Qed.
Lemma Mono_add_inc g q : mem_path q (included g) = false -> Mono g (add_inc g q).
Proof. intros Hm. split; cbn; [intros x Hx; right; exact Hx|intros Hn; constructor; [apply mem_path_false; exact Hm|exact Hn]]. Qed.

Lemma scan_mono t rec_process :
  (forall q g out, Mono g (snd (rec_process q g out))) ->
  forall s skip keep g out, Mono g (snd (scan t rec_process s skip keep g out)).
Proof.
  intros Hr s skip keep g out.
  apply (scan_inv t rec_process (Mono g)); [| |apply Mono_refl].
  - intros g1 inc H _. eapply Mono_trans; [exact H|apply Mono_with_met].
  - intros g1 inc q o H Hq Hm. eapply Mono_trans; [exact H|].
    eapply Mono_trans; [apply Mono_with_met|]. eapply Mono_trans; [apply Mono_add_inc; exact Hm|apply Hr].
Qed.
Lemma process_mono t : forall fuel p g out, Mono g (snd (process fuel t p g out)).
Proof.
  induction fuel as [|f IH]; intros p g out; cbn [process]; [apply Mono_starve|].
  destruct (lookup t p) as [content|]; [|apply Mono_refl].
  eapply Mono_trans; [apply (Mono_enter g p)|apply scan_mono; exact IH].
Qed.
Lemma main_loop_mono t : forall srcs first g out, Mono g (snd (main_loop t srcs first g out)).
Proof.
  induction srcs as [|p r IH]; intros first g out; cbn [main_loop]; [apply Mono_refl|].
  match goal with |- context [process ?f t p g ?o] => pose proof (process_mono t f p g o) as M; destruct (process f t p g o) as [out2 g2] end.
  eapply Mono_trans; [exact M|apply IH].
Qed.

(* a directive the scan stands on and can resolve ends up in the include set *)
Lemma scan_closure_step t rec_process :
  (forall q g out, Mono g (snd (rec_process q g out))) ->
  forall c r keep g out inc mlen q,
  match_include (c :: r) = Some (inc, mlen) -> resolve t (include_dir g) inc = Some q ->
  In q (included (snd (scan t rec_process (c :: r) O keep g out))).
Proof.
  intros Hr c r keep g out inc mlen q Hm Hq. cbn [scan]. rewrite Hm, Hq.
  destruct (mem_path q (included g)) eqn:Hin.
  - apply (proj1 (scan_mono t rec_process Hr r (pred mlen) false _ out)). cbn. apply mem_path_In. exact Hin.
  - pose proof (Hr q (add_inc (with_met g (include_dir g, inc, Some q)) q) (rev_append (header_of q) out)) as M.
    destruct (rec_process q (add_inc (with_met g (include_dir g, inc, Some q)) q) (rev_append (header_of q) out)) as [out2 g2].
    apply (proj1 (scan_mono t rec_process Hr r (pred mlen) false g2 (rev_append (footer_of q) out2))).
    apply (proj1 M). left. reflexivity.
Qed.

Lemma rev_append_NoDup {A} (l : list A) : NoDup l -> NoDup (rev_append l []).
Proof. intros H. rewrite rev_append_rev, app_nil_r. apply NoDup_rev. exact H. Qed.
Lemma In_rev_append_nil {A} (x : A) l : In x (rev_append l []) <-> In x l.
Proof. rewrite rev_append_rev, app_nil_r. symmetry. apply in_rev. Qed.

Theorem included_once_set t : NoDup (included_files t).
Proof.
  unfold included_files, expand. apply rev_append_NoDup.
  apply (proj2 (main_loop_mono t (sources t) true init_state [])). constructor.
Qed.

(* ------------------------------------------------------------------------------------------------
   2. what is emitted is a root source or an included file *)
Definition EmSub (roots : list path) (g : gst) : Prop :=
  forall p, In p (emitted g) -> In p roots \/ In p (included g).
Lemma process_em t roots : forall fuel p g out,
  (In p roots \/ In p (included g)) -> EmSub roots g -> EmSub roots (snd (process fuel t p g out)).
Proof.
  induction fuel as [|f IH]; intros p g out Hp H; cbn [process]; [exact H|].
  destruct (lookup t p) as [content|]; [|exact H].
  apply (scan_inv t (process f t) (EmSub roots)).
  - intros g1 inc H1 _. exact H1.
  - intros g1 inc q o H1 _ _. apply IH; [right; left; reflexivity|].
    intros x Hx. cbn in Hx. destruct (H1 x Hx) as [A|A]; [left; exact A|right; right; exact A].
  - intros x Hx. cbn in Hx. cbn [included enter]. destruct Hx as [<-|Hx]; [exact Hp|apply H; exact Hx].
Qed.
Lemma main_loop_em t roots : forall srcs first g out,
  incl srcs roots -> EmSub roots g -> EmSub roots (snd (main_loop t srcs first g out)).
Proof.
  induction srcs as [|p r IH]; intros first g out Hi H; cbn [main_loop]; [exact H|].
  match goal with |- context [process ?f t p g ?o] => pose proof (process_em t roots f p g o) as M; destruct (process f t p g o) as [out2 g2] end.
  apply IH; [intros x Hx; apply Hi; right; exact Hx|].
  apply M; [left; apply Hi; left; reflexivity|exact H].
Qed.
Theorem emitted_are_sources_or_included t p :
  In p (emitted_files t) -> In p (sources t) \/ In p (included_files t).
Proof.
  unfold emitted_files, included_files, expand. rewrite !In_rev_append_nil.
  apply (main_loop_em t (sources t) (sources t) true init_state []); [apply incl_refl|intros x []].
Qed.

(* ------------------------------------------------------------------------------------------------
   3. unless the fuel ran out, every included path that is a file has been scanned *)
Definition J (t : tree) (g : gst) : Prop :=
  starved g = false -> forall q, In q (included g) -> is_file t q = true -> In q (emitted g).
Lemma process_J t : forall fuel q g out,
  (* J for everything but q, which has just been put into the include set *)
  (starved g = false -> forall x, In x (included g) -> x <> q -> is_file t x = true -> In x (emitted g)) ->
  J t (snd (process fuel t q g out)).
Proof.
  induction fuel as [|f IH]; intros q g out H; cbn [process].
  - intros Hst. cbn in Hst. discriminate.
  - destruct (lookup t q) as [content|] eqn:Hl.
    + apply (scan_inv t (process f t) (J t)).
      * intros g1 inc H1 _. exact H1.
      * intros g1 inc q1 o H1 _ _. apply IH. intros Hst x Hx Hne Hf. cbn in *.
        destruct Hx as [->|Hx]; [congruence|]. apply H1; assumption.
      * intros Hst x Hx Hf. cbn in *. destruct (patheqb x q) eqn:E.
        -- apply patheqb_eq in E. left. symmetry. exact E.
        -- right. apply H; try assumption. intros ->. rewrite (proj2 (patheqb_eq q q) eq_refl) in E. discriminate.
    + cbn [snd]. intros Hst x Hx Hf. apply H; try assumption. intros ->. unfold is_file in Hf. rewrite Hl in Hf. discriminate.
Qed.
Lemma process_root_J t : forall fuel p g out, J t g -> J t (snd (process fuel t p g out)).
Proof.
  intros [|f] p g out H; cbn [process]; [intros Hst; cbn in Hst; discriminate|].
  destruct (lookup t p) as [content|]; [|exact H].
  apply (scan_inv t (process f t) (J t)).
  - intros g1 inc H1 _. exact H1.
  - intros g1 inc q1 o H1 _ _. apply process_J. intros Hst x Hx Hne Hf. cbn in *.
    destruct Hx as [->|Hx]; [congruence|]. apply H1; assumption.
  - intros Hst x Hx Hf. cbn in *. right. apply H; assumption.
Qed.
Lemma main_loop_J t : forall srcs first g out, J t g -> J t (snd (main_loop t srcs first g out)).
Proof.
  induction srcs as [|p r IH]; intros first g out H; cbn [main_loop]; [exact H|].
  match goal with |- context [process ?f t p g ?o] => pose proof (process_root_J t f p g o H) as M; destruct (process f t p g o) as [out2 g2] end.
  apply IH. exact M.
Qed.

(* ------------------------------------------------------------------------------------------------
   4. fuel: the nesting depth is bounded by the number of paths that exist in the tree, because every
      nested expansion is entered with one more (distinct, existing) path in the include set *)
Lemma pathprefixb_firstn p : forall q, pathprefixb p q = true -> exists k, (k < length q)%nat /\ p = firstn k q.
Proof.
  induction p as [|x p IH]; intros [|y q] H; cbn in H; try discriminate.
  - exists O. split; [cbn; lia|reflexivity].
  - apply andb_true_iff in H. destruct H as [Hx Hp]. apply seqb_eq in Hx. subst y.
    destruct (IH q Hp) as (k & Hk & ->). exists (S k). split; [cbn; lia|reflexivity].
Qed.
Lemma lookup_In t p c : lookup t p = Some c -> In p (map fst t).
Proof.
  induction t as [|[q d] t IH]; cbn; [discriminate|].
  destruct (patheqb p q) eqn:E; [intros _; left; symmetry; apply patheqb_eq; exact E|intros H; right; apply IH; exact H].
Qed.
Lemma exists_path_all t p : exists_path t p = true -> In p (all_paths t).
Proof.
  unfold exists_path, all_paths. intros H. apply orb_true_iff in H. apply in_or_app. destruct H as [H|H].
  - left. unfold is_file in H. destruct (lookup t p) eqn:E; [|discriminate]. eapply lookup_In; exact E.
  - right. unfold is_dir in H. apply existsb_exists in H. destruct H as ([q c] & Hin & Hp). cbn in Hp.
    apply in_flat_map. exists (q, c). split; [exact Hin|]. cbn.
    destruct (pathprefixb_firstn p q Hp) as (k & Hk & ->).
    unfold proper_prefixes. apply in_map_iff. exists k. split; [reflexivity|]. apply in_seq. lia.
Qed.
Lemma resolve_exists t dir inc q : resolve t dir inc = Some q -> exists_path t q = true.
Proof.
  unfold resolve. intros H.
  assert (S2 : forall r, match join dir true inc with
                         | Some p2 => if exists_path t p2 then Some p2 else None | None => None end = Some r -> exists_path t r = true).
  { intros r. destruct (join dir true inc) as [p2|]; [|discriminate]. destruct (exists_path t p2) eqn:E; [|discriminate].
    intros X; inversion X; subst; exact E. }
  destruct (join dir false inc) as [p1|]; [|apply S2; exact H].
  destruct (exists_path t p1) eqn:E; [inversion H; subst; exact E|apply S2; exact H].
Qed.
Lemma length_all_paths t : length (all_paths t) = (length t + length (flat_map fst t))%nat.
Proof.
  unfold all_paths. rewrite app_length, map_length. f_equal.
  induction t as [|[q c] t IH]; [reflexivity|]. cbn [flat_map fst]. rewrite !app_length, IH. f_equal.
  unfold proper_prefixes. rewrite map_length, seq_length. reflexivity.
Qed.

(* Inv: the include set is duplicate-free and consists of existing paths (so it has at most
   |all_paths| elements) *)
Definition Inv (t : tree) (g : gst) : Prop := NoDup (included g) /\ incl (included g) (all_paths t).
Lemma Inv_bound t g : Inv t g -> (length (included g) <= length (all_paths t))%nat.
Proof. intros [Hn Hi]. apply NoDup_incl_length; assumption. Qed.
(* NS g0: same starvation flag as g0, invariant kept, include set not smaller *)
Definition NS (t : tree) (g0 g : gst) : Prop :=
  Inv t g /\ starved g = starved g0 /\ (length (included g0) <= length (included g))%nat.
Lemma process_ns t : forall fuel p g out,
  Inv t g -> (length (all_paths t) < fuel + length (included g))%nat ->
  NS t g (snd (process fuel t p g out)).
Proof.
  induction fuel as [|f IH]; intros p g out HI Hf.
  - exfalso. pose proof (Inv_bound t g HI). lia.
  - cbn [process]. destruct (lookup t p) as [content|]; [|cbn [snd]; split; [exact HI|split; [reflexivity|lia]]].
    apply (scan_inv t (process f t) (NS t g)).
    + intros g1 inc H1 _. exact H1.
    + intros g1 inc q o (HI1 & Hs1 & Hl1) Hq Hm.
      set (g2 := add_inc (with_met g1 (include_dir g1, inc, Some q)) q).
      assert (HI2 : Inv t g2).
      { destruct HI1 as [Hn Hi]. split; cbn.
        - constructor; [apply mem_path_false; exact Hm|exact Hn].
        - intros x [<-|Hx]; [apply exists_path_all; eapply resolve_exists; exact Hq|apply Hi; exact Hx]. }
      assert (Hf2 : (length (all_paths t) < f + length (included g2))%nat) by (cbn; lia).
      destruct (IH q g2 o HI2 Hf2) as (HI3 & Hs3 & Hl3).
      split; [exact HI3|split; [rewrite Hs3; exact Hs1|cbn in Hl3; lia]].
    + split; [exact HI|split; [reflexivity|cbn; lia]].
Qed.
Lemma main_loop_ns t : forall srcs first g out,
  Inv t g -> Inv t (snd (main_loop t srcs first g out)) /\ starved (snd (main_loop t srcs first g out)) = starved g.
Proof.
  induction srcs as [|p r IH]; intros first g out HI; cbn [main_loop]; [split; [exact HI|reflexivity]|].
  match goal with |- context [process ?f t p g ?o] =>
    assert (Hf : (length (all_paths t) < f + length (included g))%nat) by (unfold fuel_for; rewrite length_all_paths; lia);
    pose proof (process_ns t f p g o HI Hf) as (HI2 & Hs2 & _); destruct (process f t p g o) as [out2 g2] end.
  cbn [snd] in *. destruct (IH false g2 (10 :: out2) HI2) as [A B]. split; [exact A|rewrite B; exact Hs2].
Qed.
Theorem never_starved t : starved (snd (expand t)) = false.
Proof.
  unfold expand. apply (main_loop_ns t (sources t) true init_state []).
  split; cbn; [constructor|intros x []].
Qed.
Theorem included_file_is_emitted t q :
  In q (included_files t) -> is_file t q = true -> In q (emitted_files t).
Proof.
  unfold emitted_files, included_files. rewrite !In_rev_append_nil.
  apply (main_loop_J t (sources t) true init_state []); [intros _ x []|apply never_starved].
Qed.

(* ------------------------------------------------------------------------------------------------
   5. no body twice, unless a root source gets into the include set *)
Section Once.
  Variable t : tree.
  Variable roots : list path.
  (* either some root source has been included, or the scanned files are pairwise distinct and each is
     a root already started ([done]) or a member of the include set *)
  Definition Dinv (done : list path) (g : gst) : Prop :=
    (exists r, In r roots /\ In r (included g)) \/
    (NoDup (emitted g) /\ forall p, In p (emitted g) -> In p done \/ In p (included g)).
  Lemma Dinv_mono done g g' : Mono g g' -> emitted g' = emitted g -> Dinv done g -> Dinv done g'.
  Proof.
    intros [Hi _] He [(r & Hr & Hin)|[Hn Hs]]; [left; exists r; split; [exact Hr|apply Hi; exact Hin]|].
    right. rewrite He. split; [exact Hn|]. intros p Hp. destruct (Hs p Hp) as [A|A]; [left; exact A|right; apply Hi; exact A].
  Qed.
  Lemma Dinv_left_mono done g g' : Mono g g' -> (exists r, In r roots /\ In r (included g)) -> Dinv done g'.
  Proof. intros [Hi _] (r & Hr & Hin). left. exists r. split; [exact Hr|apply Hi; exact Hin]. Qed.

  Lemma process_D done : incl done roots -> forall fuel q g out,
    In q (included g) \/ In q done ->
    Dinv done g -> (exists r, In r roots /\ In r (included g)) \/ ~ In q (emitted g) ->
    Dinv done (snd (process fuel t q g out)).
  Proof.
    intros Hd. induction fuel as [|f IH]; intros q g out Hq H Hfresh; cbn [process].
    - eapply Dinv_mono; [apply Mono_starve|reflexivity|exact H].
    - destruct (lookup t q) as [content|]; [|exact H].
      apply (scan_inv t (process f t) (Dinv done)).
      + intros g1 inc0 H1 _. eapply Dinv_mono; [apply Mono_with_met|reflexivity|exact H1].
      + intros g1 inc q1 o H1 _ Hm.
        set (g2 := add_inc (with_met g1 (include_dir g1, inc, Some q1)) q1).
        assert (M12 : Mono g1 g2) by (eapply Mono_trans; [apply Mono_with_met|apply Mono_add_inc; exact Hm]).
        assert (H2 : Dinv done g2) by (eapply Dinv_mono; [exact M12|reflexivity|exact H1]).
        apply IH; [left; left; reflexivity|exact H2|].
        destruct H1 as [(r & Hrr & Hin)|[Hn Hs]]; [left; exists r; split; [exact Hrr|apply (proj1 M12); exact Hin]|].
        destruct (mem_path_dec q1 roots) as [Hr|Hr]; [left; exists q1; split; [exact Hr|left; reflexivity]|].
        right. cbn. intros Hem. destruct (Hs q1 Hem) as [A|A]; [apply Hr, Hd, A|apply (mem_path_false _ _ Hm), A].
      + (* entering q *)
        destruct Hfresh as [L|Hne]; [left; exact L|].
        destruct H as [L|[Hn Hs]]; [left; exact L|].
        right. cbn. split; [constructor; assumption|].
        intros p [<-|Hp]; [destruct Hq as [A|A]; [right; exact A|left; exact A]|apply Hs; exact Hp].
  Qed.

  Lemma Dinv_done_cons done p g : Dinv done g -> Dinv (p :: done) g.
  Proof.
    intros [L|[Hn Hs]]; [left; exact L|right; split; [exact Hn|]].
    intros x Hx. destruct (Hs x Hx) as [A|A]; [left; right; exact A|right; exact A].
  Qed.
  Lemma main_loop_D : forall srcs done first g out,
    NoDup srcs -> incl srcs roots -> incl done roots -> (forall x, In x srcs -> ~ In x done) ->
    Dinv done g -> exists done', Dinv done' (snd (main_loop t srcs first g out)).
  Proof.
    induction srcs as [|p r IH]; intros done first g out Hn Hi Hd Hfresh H; cbn [main_loop]; [exists done; exact H|].
    inversion Hn as [|? ? Hp Hn']; subst.
    assert (Hd' : incl (p :: done) roots) by (intros x [<-|Hx]; [apply Hi; left; reflexivity|apply Hd; exact Hx]).
    assert (HP : Dinv (p :: done) (snd (process (fuel_for t) t p g (10 :: rev_append (header_of p) (if first then out else 10 :: out))))).
    { apply process_D; [exact Hd'|right; left; reflexivity|apply Dinv_done_cons; exact H|].
      destruct H as [L|[_ Hs]]; [left; exact L|].
      destruct (mem_path_dec p (included g)) as [A|A]; [left; exists p; split; [apply Hi; left; reflexivity|exact A]|].
      right. intros Hem. destruct (Hs p Hem) as [B|B]; [apply (Hfresh p); [left; reflexivity|exact B]|apply A, B]. }
    destruct (process (fuel_for t) t p g (10 :: rev_append (header_of p) (if first then out else 10 :: out))) as [out2 g2].
    apply (IH (p :: done) false g2 (10 :: out2) Hn'); [intros x Hx; apply Hi; right; exact Hx|exact Hd'| |exact HP].
    intros x Hx [<-|Hin]; [apply Hp; exact Hx|apply (Hfresh x); [right; exact Hx|exact Hin]].
  Qed.
End Once.

(* sources t has no duplicates when the tree has none *)
Lemma In_insert_path x p l : In x (insert_path p l) <-> x = p \/ In x l.
Proof.
  induction l as [|q l IH]; cbn; [intuition|].
  destruct (str_ltb (path_str p) (path_str q)); cbn; [intuition|]. rewrite IH. intuition.
Qed.
Lemma NoDup_insert_path p l : ~ In p l -> NoDup l -> NoDup (insert_path p l).
Proof.
  induction l as [|q l IH]; intros Hp Hn; cbn; [constructor; [intros []|constructor]|].
  destruct (str_ltb (path_str p) (path_str q)); [constructor; assumption|].
  inversion Hn; subst. constructor.
  - rewrite In_insert_path. intros [->|A]; [apply Hp; left; reflexivity|contradiction].
  - apply IH; [intros A; apply Hp; right; exact A|assumption].
Qed.
Lemma In_sort_paths x l : In x (sort_paths l) <-> In x l.
Proof. induction l as [|p l IH]; cbn; [tauto|]. rewrite In_insert_path, IH. intuition. Qed.
Lemma NoDup_sort_paths l : NoDup l -> NoDup (sort_paths l).
Proof.
  induction 1 as [|p l Hp Hn IH]; cbn; [constructor|].
  apply NoDup_insert_path; [rewrite In_sort_paths; exact Hp|exact IH].
Qed.
Lemma root_header_not_cpp : is_cpp_source root_header = false.
Proof. vm_compute. reflexivity. Qed.
Lemma NoDup_sources t : NoDup (map fst t) -> NoDup (sources t).
Proof.
  intros H. unfold sources. constructor.
  - rewrite In_sort_paths, filter_In. intros [_ A]. rewrite root_header_not_cpp in A. discriminate.
  - apply NoDup_sort_paths, NoDup_filter, H.
Qed.

(* no body twice — in full, under the hypothesis that holds of the real tree and that the check
   evaluates on every run: no root source is in the include set *)
Theorem included_once t :
  NoDup (map fst t) ->
  (forall p, In p (sources t) -> ~ In p (included_files t)) ->
  NoDup (emitted_files t).
Proof.
  intros Ht Hroot. unfold emitted_files. apply rev_append_NoDup.
  destruct (main_loop_D t (sources t) (sources t) [] true init_state [] (NoDup_sources t Ht)) as (done' & [(r & Hr & Hin)|[Hn _]]).
  - apply incl_refl.
  - intros x [].
  - intros x _ [].
  - right. cbn. split; [constructor|intros p []].
  - exfalso. apply (Hroot r Hr). unfold included_files. rewrite In_rev_append_nil. exact Hin.
  - exact Hn.
Qed.

(* ------------------------------------------------------------------------------------------------
   6. the dynamic trace: every directive the expansion stood on is logged with the directory it was
      resolved against; whatever it resolved to is in the include set *)
Definition MetOk (g : gst) : Prop :=
  forall dir inc q, In (dir, inc, Some q) (met g) -> In q (included g).
Lemma MetOk_mono g g' : Mono g g' -> met g' = met g -> MetOk g -> MetOk g'.
Proof. intros [Hi _] He H dir inc q Hin. rewrite He in Hin. apply Hi. eapply H; exact Hin. Qed.
Lemma process_met t : forall fuel p g out, MetOk g -> MetOk (snd (process fuel t p g out)).
Proof.
  induction fuel as [|f IH]; intros p g out H; cbn [process]; [exact H|].
  destruct (lookup t p) as [content|]; [|exact H].
  apply (scan_inv t (process f t) MetOk).
  - intros g1 inc H1 Hres dir inc' q [E|Hin]; [|eapply H1; exact Hin]. cbn.
    injection E as E1 E2 E3. rewrite E3 in Hres. apply mem_path_In. exact Hres.
  - intros g1 inc q o H1 _ Hm. apply IH.
    intros dir inc' q' [E|Hin]; cbn; [inversion E; subst; left; reflexivity|right; eapply H1; exact Hin].
  - exact H.
Qed.
Lemma main_loop_met t : forall srcs first g out, MetOk g -> MetOk (snd (main_loop t srcs first g out)).
Proof.
  induction srcs as [|p r IH]; intros first g out H; cbn [main_loop]; [exact H|].
  match goal with |- context [process ?f t p g ?o] => pose proof (process_met t f p g o H) as M; destruct (process f t p g o) as [out2 g2] end.
  apply IH. exact M.
Qed.
(* completeness with respect to the trace the expansion itself produces: whatever a directive it stood on
   resolved to is in the include set, and — when that is a file — its body has been emitted *)
Theorem closure_complete_dynamic t dir inc q :
  In (dir, inc, Some q) (directives_met t) ->
  In q (included_files t) /\ (is_file t q = true -> In q (emitted_files t)).
Proof.
  unfold directives_met. rewrite In_rev_append_nil. intros H.
  assert (A : In q (included_files t)).
  { unfold included_files. rewrite In_rev_append_nil.
    apply (main_loop_met t (sources t) true init_state [] (fun _ _ _ X => match X with end) dir inc q H). }
  split; [exact A|apply included_file_is_emitted; exact A].
Qed.

(* ------------------------------------------------------------------------------------------------
   7. the expansion only pushes text on the output, and carries over every character outside
      include directives, in order *)
Inductive Subseq : str -> str -> Prop :=
| sub_nil l : Subseq [] l
| sub_keep x a b : Subseq a b -> Subseq (x :: a) (x :: b)
| sub_skip x a b : Subseq a b -> Subseq a (x :: b).
Lemma Subseq_app_l p : forall a b, Subseq a b -> Subseq a (p ++ b).
Proof. induction p as [|x p IH]; intros a b H; cbn; [exact H|apply sub_skip, IH, H]. Qed.

Definition Pushes (res out : str) (X : str) : Prop := res = rev X ++ out.

Section ScanLemmas3.
  Variable t : tree.
  Variable rec_process : path -> gst -> str -> str * gst.
  Hypothesis rec_push : forall q g out, exists Y, Pushes (fst (rec_process q g out)) out Y.

  Lemma scan_preserves : forall s skip keep g out,
    exists X, Pushes (fst (scan t rec_process s skip keep g out)) out X /\ Subseq (noninc s skip) X.
  Proof.
    induction s as [|c r IH]; intros skip keep g out; cbn [scan noninc].
    - exists []. split; [reflexivity|constructor].
    - destruct skip as [|k].
      + destruct (match_include (c :: r)) as [[inc mlen]|].
        * destruct (resolve t (include_dir g) inc) as [q|].
          -- destruct (mem_path q (included g)); [apply IH|].
             set (g1 := add_inc (with_met g (include_dir g, inc, Some q)) q).
             destruct (rec_push q g1 (rev_append (header_of q) out)) as [Y HY].
             destruct (rec_process q g1 (rev_append (header_of q) out)) as [out2 g2]. cbn [fst] in HY.
             destruct (IH (pred mlen) false g2 (rev_append (footer_of q) out2)) as (X & HX & HS).
             exists (header_of q ++ Y ++ footer_of q ++ X). split.
             ++ unfold Pushes in *. rewrite HX, HY, !rev_append_rev, !rev_app_distr, <- !app_assoc. reflexivity.
             ++ apply Subseq_app_l, Subseq_app_l, Subseq_app_l. exact HS.
          -- destruct (IH (pred mlen) true (with_met g (include_dir g, inc, None)) (c :: out)) as (X & HX & HS).
             exists (c :: X). split; [unfold Pushes in *; rewrite HX; cbn [rev]; rewrite <- app_assoc; reflexivity|apply sub_skip, HS].
        * destruct (IH O false g (c :: out)) as (X & HX & HS).
          exists (c :: X). split; [unfold Pushes in *; rewrite HX; cbn [rev]; rewrite <- app_assoc; reflexivity|apply sub_keep, HS].
      + destruct keep.
        * destruct (IH k true g (c :: out)) as (X & HX & HS).
          exists (c :: X). split; [unfold Pushes in *; rewrite HX; cbn [rev]; rewrite <- app_assoc; reflexivity|apply sub_skip, HS].
        * apply IH.
  Qed.
End ScanLemmas3.

Lemma process_pushes t : forall fuel p g out, exists Y, Pushes (fst (process fuel t p g out)) out Y.
Proof.
  induction fuel as [|f IH]; intros p g out; cbn [process]; [exists []; reflexivity|].
  destruct (lookup t p) as [content|]; [|exists []; reflexivity].
  match goal with |- context [scan t ?r ?s ?k ?b ?g' out] => destruct (scan_preserves t r IH s k b g' out) as (X & HX & _) end.
  exists X. exact HX.
Qed.
Theorem body_preserved_by_expansion t fuel p g out content :
  lookup t p = Some content ->
  exists X, fst (process (S fuel) t p g out) = rev X ++ out /\ Subseq (noninc (stripped content) O) X.
Proof.
  intros Hl. cbn [process]. rewrite Hl.
  match goal with |- context [scan t ?r ?s ?k ?b ?g' out] => destruct (scan_preserves t r (process_pushes t fuel) s k b g' out) as (X & HX & HS) end.
  exists X. split; assumption.
Qed.

(* the last pass only removes newlines *)
Lemma squeeze_keeps_non_newlines : forall s n acc,
  filter (fun c => negb (c =? 10)) (squeeze s n acc)
  = filter (fun c => negb (c =? 10)) (rev acc) ++ filter (fun c => negb (c =? 10)) s.
Proof.
  induction s as [|c r IH]; intros n acc; cbn [squeeze].
  - rewrite rev_append_rev, !app_nil_r. reflexivity.
  - destruct (c =? 10) eqn:E.
    + cbn [filter]. rewrite E. cbn [negb]. destruct n as [|[|n]]; rewrite IH; try reflexivity;
        cbn [rev]; rewrite filter_app; cbn [filter]; rewrite E; cbn [negb]; rewrite app_nil_r; reflexivity.
    + rewrite IH. cbn [rev filter]. rewrite filter_app. cbn [filter]. rewrite E. cbn [negb]. rewrite <- app_assoc. reflexivity.
Qed.

(* ------------------------------------------------------------------------------------------------
   witnesses *)
Definition A (l : list N) : str := l.
(* a source that includes the root header: the body of qtlogger.h is emitted twice *)
Definition tiny_tree : tree :=
  [ (root_dir ++ [A [113;116;108;111;103;103;101;114;46;104]], A [105;110;116;32;120;59;10]);            (* qtlogger.h: int x; *)
    (root_dir ++ [A [97;46;99;112;112]],
     A [35;105;110;99;108;117;100;101;32;34;113;116;108;111;103;103;101;114;46;104;34;10]) ].              (* a.cpp: includes it *)
