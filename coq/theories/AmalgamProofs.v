(* C20 — lemmas about the generator model of AmalgamDefs (for every tree). *)
From Coq Require Import List NArith Bool Lia.
Import ListNotations.
Require Import QtlVerif.AmalgamDefs.
Local Open Scope N_scope.

Lemma seqb_eq a : forall b, seqb a b = true <-> a = b.
Proof.
  induction a as [|x a IH]; intros [|y b]; cbn; try (split; discriminate); [split; reflexivity|].
  rewrite andb_true_iff, N.eqb_eq, IH. split; [intros [-> ->]; reflexivity|intros H; inversion H; split; reflexivity].
Qed.
Lemma patheqb_eq a : forall b, patheqb a b = true <-> a = b.
Proof.
  induction a as [|x a IH]; intros [|y b]; cbn; try (split; discriminate); [split; reflexivity|].
  rewrite andb_true_iff, seqb_eq, IH. split; [intros [-> ->]; reflexivity|intros H; inversion H; split; reflexivity].
Qed.
Lemma mem_path_In p l : mem_path p l = true <-> In p l.
Proof.
  unfold mem_path. rewrite existsb_exists. split.
  - intros (x & Hx & E). apply patheqb_eq in E. subst. exact Hx.
  - intros H. exists p. split; [exact H|apply patheqb_eq; reflexivity].
Qed.
Lemma mem_path_false p l : mem_path p l = false -> ~ In p l.
Proof. intros H Hin. apply mem_path_In in Hin. congruence. Qed.

(* ------------------------------------------------------------------------------------------------
   1. the include set never shrinks and never holds a path twice *)
Definition Mono (g g' : gst) : Prop :=
  incl (included g) (included g') /\ (NoDup (included g) -> NoDup (included g')).
Lemma Mono_refl g : Mono g g. Proof. split; [apply incl_refl|auto]. Qed.
Lemma Mono_trans a b c : Mono a b -> Mono b c -> Mono a c.
Proof. intros [I1 N1] [I2 N2]. split; [eapply incl_tran; eassumption|auto]. Qed.

Section ScanLemmas.
  Variable t : tree.
  Variable rec_process : path -> gst -> str -> str * gst.

  Hypothesis rec_mono : forall q g out, Mono g (snd (rec_process q g out)).
  Lemma scan_mono : forall s skip keep g out, Mono g (snd (scan t rec_process s skip keep g out)).
  Proof.
    induction s as [|c r IH]; intros skip keep g out; cbn [scan]; [apply Mono_refl|].
    destruct skip as [|k]; [|apply IH].
    destruct (match_include (c :: r)) as [[inc mlen]|]; [|apply IH].
    destruct (resolve t (include_dir g) inc) as [q|]; [|apply IH].
    destruct (mem_path q (included g)) eqn:Hm; [apply IH|].
    set (g1 := {| include_dir := include_dir g; included := q :: included g; emitted := emitted g; starved := starved g |}).
    destruct (rec_process q g1 (rev_append (header_of q) out)) as [out2 g2] eqn:Hr.
    assert (M1 : Mono g g1).
    { split; cbn; [intros x Hx; right; exact Hx|intros Hn; constructor; [apply mem_path_false; exact Hm|exact Hn]]. }
    assert (M2 : Mono g1 g2) by (specialize (rec_mono q g1 (rev_append (header_of q) out)); rewrite Hr in rec_mono; exact rec_mono).
    eapply Mono_trans; [exact M1|]. eapply Mono_trans; [exact M2|apply IH].
  Qed.

  (* a directive the scan stands on and can resolve ends up in the include set *)
  Lemma scan_closure_step : forall c r keep g out inc mlen q,
    match_include (c :: r) = Some (inc, mlen) -> resolve t (include_dir g) inc = Some q ->
    In q (included (snd (scan t rec_process (c :: r) O keep g out))).
  Proof.
    intros c r keep g out inc mlen q Hm Hq. cbn [scan]. rewrite Hm, Hq.
    destruct (mem_path q (included g)) eqn:Hin.
    - apply (proj1 (scan_mono r (pred mlen) false g out)). apply mem_path_In. exact Hin.
    - set (g1 := {| include_dir := include_dir g; included := q :: included g; emitted := emitted g; starved := starved g |}).
      destruct (rec_process q g1 (rev_append (header_of q) out)) as [out2 g2] eqn:Hr.
      apply (proj1 (scan_mono r (pred mlen) false g2 (rev_append (footer_of q) out2))).
      pose proof (rec_mono q g1 (rev_append (header_of q) out)) as M. rewrite Hr in M. apply (proj1 M). left. reflexivity.
  Qed.
End ScanLemmas.

Lemma process_mono t : forall fuel p g out, Mono g (snd (process fuel t p g out)).
Proof.
  induction fuel as [|f IH]; intros p g out; cbn [process]; [split; cbn; [apply incl_refl|auto]|].
  destruct (lookup t p) as [content|]; [|apply Mono_refl].
  eapply Mono_trans; [|apply scan_mono; exact IH]. split; cbn; [apply incl_refl|auto].
Qed.
Lemma main_loop_mono t : forall srcs first g out, Mono g (snd (main_loop t srcs first g out)).
Proof.
  induction srcs as [|p r IH]; intros first g out; cbn [main_loop]; [apply Mono_refl|].
  match goal with |- context [process ?f t p g ?o] => destruct (process f t p g o) as [out2 g2] eqn:Hp end.
  eapply Mono_trans; [|apply IH].
  match type of Hp with process ?f t p g ?o = _ => pose proof (process_mono t f p g o) as M end. rewrite Hp in M. exact M.
Qed.

Lemma rev_append_NoDup {A} (l : list A) : NoDup l -> NoDup (rev_append l []).
Proof. intros H. rewrite rev_append_rev, app_nil_r. apply NoDup_rev. exact H. Qed.

Theorem included_once t : NoDup (included_files t).
Proof.
  unfold included_files, expand. apply rev_append_NoDup.
  apply (proj2 (main_loop_mono t (sources t) true init_state [])). constructor.
Qed.

(* ------------------------------------------------------------------------------------------------
   2. what is emitted is a root source or an included file; an included file IS emitted *)
Definition EmSub (roots : list path) (g : gst) : Prop :=
  forall p, In p (emitted g) -> In p roots \/ In p (included g).
(* J: unless the fuel ran out, every included path that is a file has been scanned *)
Definition J (t : tree) (g : gst) : Prop :=
  starved g = false -> forall q, In q (included g) -> is_file t q = true -> In q (emitted g).

Section ScanLemmas2.
  Variable t : tree.
  Variable roots : list path.
  Variable rec_process : path -> gst -> str -> str * gst.
  Hypothesis rec_em : forall q g out, In q (included g) -> EmSub roots g -> EmSub roots (snd (rec_process q g out)).
  Hypothesis rec_J : forall q g0 g1 out,
    included g1 = q :: included g0 -> emitted g1 = emitted g0 -> starved g1 = starved g0 ->
    J t g0 -> J t (snd (rec_process q g1 out)).

  Lemma scan_em : forall s skip keep g out, EmSub roots g -> EmSub roots (snd (scan t rec_process s skip keep g out)).
  Proof.
    induction s as [|c r IH]; intros skip keep g out H; cbn [scan]; [exact H|].
    destruct skip as [|k]; [|apply IH; exact H].
    destruct (match_include (c :: r)) as [[inc mlen]|]; [|apply IH; exact H].
    destruct (resolve t (include_dir g) inc) as [q|]; [|apply IH; exact H].
    destruct (mem_path q (included g)) eqn:Hm; [apply IH; exact H|].
    set (g1 := {| include_dir := include_dir g; included := q :: included g; emitted := emitted g; starved := starved g |}).
    destruct (rec_process q g1 (rev_append (header_of q) out)) as [out2 g2] eqn:Hr.
    apply IH. pose proof (rec_em q g1 (rev_append (header_of q) out)) as E. rewrite Hr in E. apply E.
    - left. reflexivity.
    - intros p Hp. cbn in Hp. destruct (H p Hp) as [A|A]; [left; exact A|right; right; exact A].
  Qed.
  Lemma scan_J : forall s skip keep g out, J t g -> J t (snd (scan t rec_process s skip keep g out)).
  Proof.
    induction s as [|c r IH]; intros skip keep g out H; cbn [scan]; [exact H|].
    destruct skip as [|k]; [|apply IH; exact H].
    destruct (match_include (c :: r)) as [[inc mlen]|]; [|apply IH; exact H].
    destruct (resolve t (include_dir g) inc) as [q|]; [|apply IH; exact H].
    destruct (mem_path q (included g)) eqn:Hm; [apply IH; exact H|].
    set (g1 := {| include_dir := include_dir g; included := q :: included g; emitted := emitted g; starved := starved g |}).
    destruct (rec_process q g1 (rev_append (header_of q) out)) as [out2 g2] eqn:Hr.
    apply IH. pose proof (rec_J q g g1 (rev_append (header_of q) out) eq_refl eq_refl eq_refl H) as E. rewrite Hr in E. exact E.
  Qed.
End ScanLemmas2.

Lemma process_em t roots : forall fuel p g out,
  (In p roots \/ In p (included g)) -> EmSub roots g -> EmSub roots (snd (process fuel t p g out)).
Proof.
  induction fuel as [|f IH]; intros p g out Hp H; cbn [process]; [exact H|].
  destruct (lookup t p) as [content|]; [|exact H].
  apply scan_em.
  - intros q g' out' Hq H'. apply IH; [right; exact Hq|exact H'].
  - intros x Hx. cbn in Hx. cbn [included]. destruct Hx as [<-|Hx]; [exact Hp|apply H; exact Hx].
Qed.
Lemma process_J t : forall fuel q g0 g1 out,
  included g1 = q :: included g0 -> emitted g1 = emitted g0 -> starved g1 = starved g0 ->
  J t g0 -> J t (snd (process fuel t q g1 out)).
Proof.
  induction fuel as [|f IH]; intros q g0 g1 out Hi He Hs H; cbn [process].
  - intros Hst. cbn in Hst. discriminate.
  - destruct (lookup t q) as [content|] eqn:Hl.
    + apply scan_J; [exact IH|].
      intros Hst x Hx Hf. cbn in *. rewrite Hi in Hx. destruct Hx as [<-|Hx]; [left; reflexivity|].
      right. rewrite He. apply H; [rewrite <- Hs; exact Hst|exact Hx|exact Hf].
    + cbn [snd]. intros Hst x Hx Hf. rewrite Hi in Hx. destruct Hx as [<-|Hx].
      * unfold is_file in Hf. rewrite Hl in Hf. discriminate.
      * rewrite He. apply H; [rewrite <- Hs; exact Hst|exact Hx|exact Hf].
Qed.
(* a root source is scanned without being put into the include set: J is kept *)
Lemma process_root_J t : forall fuel p g out, J t g -> J t (snd (process fuel t p g out)).
Proof.
  intros [|f] p g out H; cbn [process]; [intros Hst; cbn in Hst; discriminate|].
  destruct (lookup t p) as [content|]; [|exact H].
  apply scan_J; [apply process_J|].
  intros Hst x Hx Hf. cbn in *. right. apply H; assumption.
Qed.

Lemma main_loop_em t roots : forall srcs first g out,
  incl srcs roots -> EmSub roots g -> EmSub roots (snd (main_loop t srcs first g out)).
Proof.
  induction srcs as [|p r IH]; intros first g out Hi H; cbn [main_loop]; [exact H|].
  match goal with |- context [process ?f t p g ?o] => destruct (process f t p g o) as [out2 g2] eqn:Hp end.
  apply IH; [intros x Hx; apply Hi; right; exact Hx|].
  match type of Hp with process ?f t p g ?o = _ => pose proof (process_em t roots f p g o) as M end. rewrite Hp in M.
  apply M; [left; apply Hi; left; reflexivity|exact H].
Qed.
Lemma main_loop_J t : forall srcs first g out, J t g -> J t (snd (main_loop t srcs first g out)).
Proof.
  induction srcs as [|p r IH]; intros first g out H; cbn [main_loop]; [exact H|].
  match goal with |- context [process ?f t p g ?o] => destruct (process f t p g o) as [out2 g2] eqn:Hp end.
  apply IH. match type of Hp with process ?f t p g ?o = _ => pose proof (process_root_J t f p g o H) as M end.
  rewrite Hp in M. exact M.
Qed.

Lemma In_rev_append_nil {A} (x : A) l : In x (rev_append l []) <-> In x l.
Proof. rewrite rev_append_rev, app_nil_r. symmetry. apply in_rev. Qed.

Theorem emitted_are_sources_or_included t p :
  In p (emitted_files t) -> In p (sources t) \/ In p (included_files t).
Proof.
  unfold emitted_files, included_files, expand. rewrite !In_rev_append_nil.
  apply (main_loop_em t (sources t) (sources t) true init_state []); [apply incl_refl|intros x []].
Qed.
Theorem included_file_is_emitted t q :
  starved (snd (expand t)) = false ->
  In q (included_files t) -> is_file t q = true -> In q (emitted_files t).
Proof.
  unfold emitted_files, included_files, expand. rewrite !In_rev_append_nil. intros Hs.
  apply (main_loop_J t (sources t) true init_state []); [intros _ x []|exact Hs].
Qed.

(* ------------------------------------------------------------------------------------------------
   3. the expansion only pushes text on the output, and carries over every character outside
      include directives, in order *)
Inductive Subseq : str -> str -> Prop :=
| sub_nil l : Subseq [] l
| sub_keep x a b : Subseq a b -> Subseq (x :: a) (x :: b)
| sub_skip x a b : Subseq a b -> Subseq a (x :: b).
Lemma Subseq_app_l p : forall a b, Subseq a b -> Subseq a (p ++ b).
Proof. induction p as [|x p IH]; intros a b H; cbn; [exact H|apply sub_skip, IH, H]. Qed.
Lemma Subseq_refl a : Subseq a a.
Proof. induction a; constructor; assumption. Qed.

Definition Pushes (res out : str) (X : str) : Prop := res = rev X ++ out.

Section ScanLemmas3.
  Variable t : tree.
  Variable rec_process : path -> gst -> str -> str * gst.
  Hypothesis rec_push : forall q g out, exists Y, Pushes (fst (rec_process q g out)) out Y.

  Lemma scan_preserves : forall s skip keep g out,
    exists X, Pushes (fst (scan t rec_process s skip keep g out)) out X /\ Subseq (noninc s skip) X.
  Proof.
    induction s as [|c r IH]; intros skip keep g out; cbn [scan noninc].
    - exists []. split; [reflexivity|constructor].
    - destruct skip as [|k].
      + destruct (match_include (c :: r)) as [[inc mlen]|].
        * destruct (resolve t (include_dir g) inc) as [q|].
          -- destruct (mem_path q (included g)); [apply IH|].
             set (g1 := {| include_dir := include_dir g; included := q :: included g; emitted := emitted g; starved := starved g |}).
             destruct (rec_push q g1 (rev_append (header_of q) out)) as [Y HY].
             destruct (rec_process q g1 (rev_append (header_of q) out)) as [out2 g2]. cbn [fst] in HY.
             destruct (IH (pred mlen) false g2 (rev_append (footer_of q) out2)) as (X & HX & HS).
             exists (header_of q ++ Y ++ footer_of q ++ X). split.
             ++ unfold Pushes in *. rewrite HX, HY, !rev_append_rev, !rev_app_distr, <- !app_assoc. reflexivity.
             ++ apply Subseq_app_l, Subseq_app_l, Subseq_app_l. exact HS.
          -- destruct (IH (pred mlen) true g (c :: out)) as (X & HX & HS).
             exists (c :: X). split; [unfold Pushes in *; rewrite HX; cbn [rev]; rewrite <- app_assoc; reflexivity|apply sub_skip, HS].
        * destruct (IH O false g (c :: out)) as (X & HX & HS).
          exists (c :: X). split; [unfold Pushes in *; rewrite HX; cbn [rev]; rewrite <- app_assoc; reflexivity|apply sub_keep, HS].
      + destruct keep.
        * destruct (IH k true g (c :: out)) as (X & HX & HS).
          exists (c :: X). split; [unfold Pushes in *; rewrite HX; cbn [rev]; rewrite <- app_assoc; reflexivity|apply sub_skip, HS].
        * apply IH.
  Qed.
End ScanLemmas3.

Lemma process_pushes t : forall fuel p g out, exists Y, Pushes (fst (process fuel t p g out)) out Y.
Proof.
  induction fuel as [|f IH]; intros p g out; cbn [process]; [exists []; reflexivity|].
  destruct (lookup t p) as [content|]; [|exists []; reflexivity].
  match goal with |- context [scan t ?r ?s ?k ?b ?g' out] => destruct (scan_preserves t r IH s k b g' out) as (X & HX & _) end.
  exists X. exact HX.
Qed.
Theorem body_preserved_by_expansion t fuel p g out content :
  lookup t p = Some content ->
  exists X, fst (process (S fuel) t p g out) = rev X ++ out /\ Subseq (noninc (stripped content) O) X.
Proof.
  intros Hl. cbn [process]. rewrite Hl.
  match goal with |- context [scan t ?r ?s ?k ?b ?g' out] => destruct (scan_preserves t r (process_pushes t fuel) s k b g' out) as (X & HX & HS) end.
  exists X. split; assumption.
Qed.

(* the last pass only removes newlines *)
Lemma squeeze_keeps_non_newlines : forall s n acc,
  filter (fun c => negb (c =? 10)) (squeeze s n acc)
  = filter (fun c => negb (c =? 10)) (rev acc) ++ filter (fun c => negb (c =? 10)) s.
Proof.
  induction s as [|c r IH]; intros n acc; cbn [squeeze].
  - rewrite rev_append_rev, !app_nil_r. reflexivity.
  - destruct (c =? 10) eqn:E.
    + cbn [filter]. rewrite E. cbn [negb]. destruct n as [|[|n]]; rewrite IH; try reflexivity;
        cbn [rev]; rewrite filter_app; cbn [filter]; rewrite E; cbn [negb]; rewrite app_nil_r; reflexivity.
    + rewrite IH. cbn [rev filter]. rewrite filter_app. cbn [filter]. rewrite E. cbn [negb]. rewrite <- app_assoc. reflexivity.
Qed.

(* ------------------------------------------------------------------------------------------------
   the full "no body twice" is FALSE of the generator for arbitrary trees: the root sources are not
   in the include set, so a source that includes the root header gets its body a second time *)
Definition A (l : list N) : str := l.
Definition tiny_tree : tree :=
  [ (root_dir ++ [A [113;116;108;111;103;103;101;114;46;104]], A [105;110;116;32;120;59;10]);            (* qtlogger.h: int x; *)
    (root_dir ++ [A [97;46;99;112;112]],
     A [35;105;110;99;108;117;100;101;32;34;113;116;108;111;103;103;101;114;46;104;34;10]) ].              (* a.cpp: includes it *)
