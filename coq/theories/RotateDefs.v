(* C05 C06 C07 C09 — executable model of RotatingFileSink (rotatingfilesink.cpp, filesink.cpp,
   iodevicesink.cpp) on a model directory under a virtual wall clock.  Definitions only: this file
   must keep compiling (and extracting) when a proof elsewhere breaks.
   The SAME definitions are extracted (coq/extract/Ex_rotate.v) and reasoned about (RotateProofs.v). *)
From Coq Require Import List ZArith Bool Arith.
Import ListNotations.
Local Open Scope Z_scope.

(* ------------------------------------------------------------------ time *)
Definition day := Z.
Definition time := Z.                       (* milliseconds since 1970-01-01T00:00 UTC *)
Definition DAYMS : Z := 86400000.
(* calendar day of an instant in a zone [off] milliseconds east of UTC (QDate::currentDate(),
   QDateTime::date() and QFileInfo::lastModified().date() are LOCAL dates) *)
Definition day_at (off : Z) (t : time) : day := (t + off) / DAYMS.
(* the model's clock saturates at 9999-12-30T23:59:59.999 UTC, so that the LOCAL date (zone offset
   within +-24 h) stays within year 9999: beyond it QDate::toString("yyyy") has five digits and the
   sink's own name patterns (\d{4}) no longer recognise its files *)
Definition MAXDAY : Z := 2932896.                  (* 9999-12-31 *)
Definition TMAX : time := MAXDAY * DAYMS - 1.
Definition clamp (t : time) : time := Z.max 0 (Z.min t TMAX).
(* file-system timestamp granularity: every content-changing step stamps [stamp g now] *)
Inductive gran := G1ms | G1s | G2s.
Definition gran_ms (g : gran) : Z := match g with G1ms => 1 | G1s => 1000 | G2s => 2000 end.
Definition stamp (g : gran) (t : time) : time := t - t mod gran_ms g.

(* civil date of a day number (proleptic Gregorian; the algorithm QDate uses is equivalent) *)
Definition ymd := (Z * Z * Z)%type.
Definition ymd_of_doe (doe : Z) : ymd :=
  let yoe := (doe - doe / 1460 + doe / 36524 - doe / 146096) / 365 in
  let doy := doe - (365 * yoe + yoe / 4 - yoe / 100) in
  let mp := (5 * doy + 2) / 153 in
  let d := doy - (153 * mp + 2) / 5 + 1 in
  let m := if mp <? 10 then mp + 3 else mp - 9 in
  ((if m <=? 2 then yoe + 1 else yoe), m, d).
Definition civil (days : Z) : ymd :=
  let z := days + 719468 in
  let era := z / 146097 in
  let doe := z mod 146097 in
  let '(y, m, d) := ymd_of_doe doe in (y + era * 400, m, d).
Definition ymd_ltb (a b : ymd) : bool :=
  let '(y1, m1, d1) := a in let '(y2, m2, d2) := b in
  (y1 <? y2) || ((y1 =? y2) && ((m1 <? m2) || ((m1 =? m2) && (d1 <? d2)))).
Definition ymd_eqb (a b : ymd) : bool :=
  let '(y1, m1, d1) := a in let '(y2, m2, d2) := b in (y1 =? y2) && (m1 =? m2) && (d1 =? d2).

(* ------------------------------------------------------------------ strings (bytes, list N) *)
Definition str := list N.
Fixpoint str_eqb (a b : str) : bool :=
  match a, b with
  | [], [] => true
  | x :: a', y :: b' => N.eqb x y && str_eqb a' b'
  | _, _ => false
  end.
(* QString::operator< on ASCII names: code unit order, a proper prefix is smaller *)
Fixpoint str_ltb (a b : str) : bool :=
  match a, b with
  | _, [] => false
  | [], _ :: _ => true
  | x :: a', y :: b' => N.ltb x y || (N.eqb x y && str_ltb a' b')
  end.
Fixpoint strip_prefix (p l : str) : option str :=
  match p, l with
  | [], _ => Some l
  | x :: p', y :: l' => if N.eqb x y then strip_prefix p' l' else None
  | _ :: _, [] => None
  end.
Definition is_digit (c : N) : bool := N.leb 48 c && N.leb c 57.
Fixpoint span_digits (l : str) : str * str :=
  match l with
  | c :: t => if is_digit c then let (a, b) := span_digits t in (c :: a, b) else ([], l)
  | [] => ([], [])
  end.
Fixpoint take_digits (k : nat) (l : str) : option (str * str) :=
  match k with
  | O => Some ([], l)
  | S k' => match l with
            | c :: t => if is_digit c then
                          match take_digits k' t with Some (a, b) => Some (c :: a, b) | None => None end
                        else None
            | [] => None
            end
  end.
Definition digits_val (ds : str) : Z := fold_left (fun a c => a * 10 + (Z.of_N c - 48)) ds 0.
(* QString::toInt(): 0 when the value does not fit a 32-bit int *)
Definition to_int (ds : str) : Z := let v := digits_val ds in if v <=? 2147483647 then v else 0.
(* decimal digits of a non-negative number, least significant first; [fuel] bounds the digit count *)
Fixpoint dec_rev (fuel : nat) (n : Z) : str :=
  match fuel with
  | O => []
  | S f => if n <? 10 then [Z.to_N (48 + n)] else Z.to_N (48 + n mod 10) :: dec_rev f (n / 10)
  end.
(* QString::number / arg(int): no sign, no leading zeros ("0" for 0) *)
Definition dec (n : Z) : str := let m := Z.max 0 n in rev (dec_rev (S (Z.to_nat (Z.log2 m))) m).
Definition pad (k : nat) (ds : str) : str := repeat 48%N (k - length ds) ++ ds.
Definition DOT : str := [46%N].
Definition DASH : str := [45%N].
Definition GZ : str := [46%N; 103%N; 122%N].
Definition ymd_str (d : ymd) : str :=
  let '(y, m, dd) := d in pad 4 (dec y) ++ DASH ++ pad 2 (dec m) ++ DASH ++ pad 2 (dec dd).

(* ------------------------------------------------------------------ what the translator reads
   from rotatingfilesink.cpp / filesink.cpp (tools/s2c/rotate.py -> SrcRotate.v) *)
Inductive vkey := VKName | VKMtime.
Record shape := {
  s_victim : vkey;            (* ordering key of findRotatedFiles(): (date, index, path) from the name, or lastModified *)
  s_keep_off : Z;             (* the 1 of `rotatedFiles.size() > m_maxFileCount - 1` *)
  s_size_strict : bool;       (* `(currentSize + additionalSize) > m_maxFileSize` (true) vs >= *)
  s_size_nonempty : bool;     (* `currentSize > 0 &&` *)
  s_newline : Z;              (* the `+ 1` of additionalSize *)
  s_one_disables : bool;      (* `if (m_maxFileCount == 1) return;` in rotate() *)
  s_le0_keeps : bool;         (* `if (m_maxFileCount <= 0) return;` in removeOldFiles() *)
  s_index_max1 : bool;        (* findNextIndexForDate: maxIndex + 1 over the matching entries *)
  s_name_by_cur : bool;       (* rotate(): the name carries m_currentLogDate (not today) *)
  s_anchored : bool;          (* both name patterns are ^...\z (anchored at the very end: `$` would also accept a final line feed) *)
  s_escaped : bool;           (* base name, date and suffix go through QRegularExpression::escape *)
  s_gz_optional : bool;       (* both patterns end in (\.gz)? *)
  s_append : bool;            (* FileSink and rotate() open with QIODevice::Append *)
  s_lists_hidden : bool;      (* both directory scans pass QDir::Files | QDir::Hidden (a log file named .app.log has hidden rotated files) *)
  s_name_onepass : bool;      (* generateRotatedFileName substitutes base, date, index, suffix in ONE arg() call
                                 (chained .arg() calls would re-substitute a place marker such as %3 inside the base name) *)
  s_date_ascii : bool         (* the date in names and patterns is date.toString(Qt::ISODate): ASCII digits in every locale
                                 (toString("yyyy-MM-dd") uses the system locale's native digits, which \d{4} rejects) *)
}.
Definition std_shape : shape := {|
  s_victim := VKName; s_keep_off := 1; s_size_strict := true; s_size_nonempty := true; s_newline := 1;
  s_one_disables := true; s_le0_keeps := true; s_index_max1 := true; s_name_by_cur := true;
  s_anchored := true; s_escaped := true; s_gz_optional := true; s_append := true;
  s_lists_hidden := true; s_name_onepass := true; s_date_ascii := true |}.
Definition vkey_eqb (a b : vkey) : bool :=
  match a, b with VKName, VKName => true | VKMtime, VKMtime => true | _, _ => false end.
Definition shape_eqb (a b : shape) : bool :=
  vkey_eqb (s_victim a) (s_victim b) && (s_keep_off a =? s_keep_off b) && eqb (s_size_strict a) (s_size_strict b)
  && eqb (s_size_nonempty a) (s_size_nonempty b) && (s_newline a =? s_newline b)
  && eqb (s_one_disables a) (s_one_disables b) && eqb (s_le0_keeps a) (s_le0_keeps b)
  && eqb (s_index_max1 a) (s_index_max1 b) && eqb (s_name_by_cur a) (s_name_by_cur b)
  && eqb (s_anchored a) (s_anchored b) && eqb (s_escaped a) (s_escaped b)
  && eqb (s_gz_optional a) (s_gz_optional b) && eqb (s_append a) (s_append b)
  && eqb (s_lists_hidden a) (s_lists_hidden b) && eqb (s_name_onepass a) (s_name_onepass b)
  && eqb (s_date_ascii a) (s_date_ascii b).

(* ------------------------------------------------------------------ directory *)
(* a record: the bytes written (payload ++ "\n") and, as ghost data, its global sequence number and
   the calendar day of the wall clock when it was written *)
Record rec := { rbytes : str; rid : nat; rday : day }.
Definition rlen (r : rec) : Z := Z.of_nat (length (rbytes r)).
Fixpoint size (l : list rec) : Z := match l with [] => 0 | r :: t => rlen r + size t end.
(* a file whose name follows the sink's rotated-name scheme  <base>.<yyyy-MM-dd>.<digits>[.<suffix>][.gz] *)
Record rfile := {
  fday : day;        (* ghost: day number the sink named the file after (0 for seeded files) *)
  fymd : ymd;        (* the date in the name *)
  fidx : Z;          (* toInt() of the index digits *)
  fdig : str;        (* the index digits as they stand in the name *)
  fgz : bool;        (* compressed: name ends in .gz; content is kept decompressed (C08's business) *)
  fcont : list rec;
  fmt : time;        (* modification time *)
  fseeded : bool     (* ghost: created by PutForeign, not by the sink *)
}.
Record ffile := { xname : str; xbytes : str; xmt : time }.   (* any other file *)

Record cfg := { cL : Z; cN : Z; startup : bool; daily : bool; compress : bool; cgran : gran;
                cbase : str; csuffix : str;
                ctz : Z  (* the process's time zone: minutes east of UTC, taken within +-24 h *) }.

Record world := {
  gone : list rfile;      (* ghost: files removed by retention, in removal order *)
  rot : list rfile;       (* scheme-named files present *)
  act : list rec; act_mt : time;      (* the active file *)
  now : time;
  inited : bool; cur : day;           (* m_initialized, m_currentLogDate *)
  hist : list rec;        (* ghost: every record ever written *)
  foreign : list ffile
}.

Section Model.
Variable sh : shape.
Variable c : cfg.

Definition tz_ms : Z := 60000 * Z.max (-1440) (Z.min 1440 (ctz c)).
Definition day_of (t : time) : day := day_at tz_ms t.
Definition sfx : str := match csuffix c with [] => [] | _ => DOT ++ csuffix c end.
Definition active_name : str := cbase c ++ sfx.
Definition render (f : rfile) : str :=
  cbase c ++ DOT ++ ymd_str (fymd f) ++ DOT ++ fdig f ++ sfx ++ (if fgz f then GZ else []).

(* the recogniser of findRotatedFiles():  ^base\.(\d{4}-\d{2}-\d{2})\.(\d+)[\.suffix](\.gz)?$  *)
Definition parse_name (raw : str) : option (ymd * str * bool) :=
  match strip_prefix (cbase c) raw with None => None | Some r1 =>
  match strip_prefix DOT r1 with None => None | Some r2 =>
  match take_digits 4 r2 with None => None | Some (y, r3) =>
  match strip_prefix DASH r3 with None => None | Some r4 =>
  match take_digits 2 r4 with None => None | Some (m, r5) =>
  match strip_prefix DASH r5 with None => None | Some r6 =>
  match take_digits 2 r6 with None => None | Some (d, r7) =>
  match strip_prefix DOT r7 with None => None | Some r8 =>
  let (ds, r9) := span_digits r8 in
  match ds with [] => None | _ =>
    if str_eqb r9 sfx then Some ((digits_val y, digits_val m, digits_val d), ds, false)
    else if str_eqb r9 (sfx ++ GZ) then Some ((digits_val y, digits_val m, digits_val d), ds, true)
    else None
  end end end end end end end end end.

(* findNextIndexForDate(): the pattern with the date spelled out matches exactly the scheme names
   with that date *)
Definition next_idx (d : ymd) (rs : list rfile) : Z :=
  1 + fold_right (fun f m => if ymd_eqb (fymd f) d then Z.max (fidx f) m else m) 0 rs.

(* findRotatedFiles(): candidates ordered by the key the source uses *)
Definition key_ltb (a b : rfile) : bool :=
  match s_victim sh with
  | VKName => ymd_ltb (fymd a) (fymd b)
              || (ymd_eqb (fymd a) (fymd b)
                  && ((fidx a <? fidx b) || ((fidx a =? fidx b) && str_ltb (render a) (render b))))
  | VKMtime => (fmt a <? fmt b) || ((fmt a =? fmt b) && str_ltb (render a) (render b))
  end.
Fixpoint insert (x : rfile) (l : list rfile) : list rfile :=
  match l with
  | [] => [x]
  | y :: t => if key_ltb y x then y :: insert x t else x :: l
  end.
Definition isort (l : list rfile) : list rfile := fold_right insert [] l.

Fixpoint drop_oldest (k : nat) (g rs : list rfile) : list rfile * list rfile :=
  match k, rs with
  | S k', f :: t => drop_oldest k' (g ++ [f]) t
  | _, _ => (g, rs)
  end.
(* removeOldFiles(): while (count > N - 1) remove the first *)
Definition remove_old (g rs : list rfile) : list rfile * list rfile :=
  if s_le0_keeps sh && (cN c <=? 0) then (g, rs)
  else let s := isort rs in drop_oldest (length s - Z.to_nat (cN c - s_keep_off sh)) g s.

Definition rot_disabled : bool := s_one_disables sh && (cN c =? 1).

Definition rotate (w : world) : world :=
  if rot_disabled then w else
  let nd := if s_name_by_cur sh then cur w else day_of (now w) in
  let i := next_idx (civil nd) (rot w) in
  let f := {| fday := nd; fymd := civil nd; fidx := i; fdig := dec i; fgz := compress c;
              fcont := act w; fmt := if compress c then stamp (cgran c) (now w) else act_mt w;
              fseeded := false |} in
  let (g', r') := remove_old (gone w) (rot w ++ [f]) in
  {| gone := g'; rot := r'; act := []; act_mt := stamp (cgran c) (now w); now := now w;
     inited := inited w; cur := day_of (now w); hist := hist w; foreign := foreign w |}.

Definition init (w : world) : world :=
  if inited w then w else
  let w1 := {| gone := gone w; rot := rot w; act := act w; act_mt := act_mt w; now := now w;
               inited := true; cur := if 0 <? size (act w) then day_of (act_mt w) else day_of (now w);
               hist := hist w; foreign := foreign w |} in
  if startup c && (0 <? size (act w1)) then rotate w1 else w1.

Definition set_cur (w : world) (d : day) : world :=
  {| gone := gone w; rot := rot w; act := act w; act_mt := act_mt w; now := now w;
     inited := inited w; cur := d; hist := hist w; foreign := foreign w |}.

Definition check_daily (w : world) (d : day) : world :=
  if daily c && negb (d =? cur w) && (0 <? size (act w)) then set_cur (rotate w) d else w.

Definition size_exceeds (sz add : Z) : bool :=
  (if s_size_nonempty sh then 0 <? sz else true)
  && (if s_size_strict sh then cL c <? sz + add else cL c <=? sz + add).
Definition check_size (w : world) (add : Z) : world :=
  if (0 <? cL c) && size_exceeds (size (act w)) add then rotate w else w.

Definition append (w : world) (r : rec) : world :=
  {| gone := gone w; rot := rot w; act := act w ++ [r]; act_mt := stamp (cgran c) (now w); now := now w;
     inited := inited w; cur := cur w; hist := hist w ++ [r]; foreign := foreign w |}.

(* RotatingFileSink::send: init(); rotateIfNeeded(msg); FileSink::send(msg) *)
Definition write (w : world) (payload : str) : world :=
  let r := {| rbytes := payload ++ [10%N]; rid := length (hist w); rday := day_of (now w) |} in
  append (check_size (check_daily (init w) (rday r)) (Z.of_nat (length payload) + s_newline sh)) r.

(* the QtMsgType of a message (qtlogger: LogMessage::type()).  The sink's decisions do not look at it:
   [step] discards it, and [retype] / Properties_C07.C07_message_type_irrelevant say so explicitly *)
Inductive mtype := TDebug | TWarning | TCritical | TFatal | TInfo.
Inductive op :=
| Write (ty : mtype) (payload : str)   (* one message of type [ty] at the current wall clock *)
| Advance (dt : Z)               (* the wall clock moves forward (never backwards) *)
| Restart                        (* the sink object is destroyed and a new one created on the same path *)
| PutForeign (name : str) (bytes : str).   (* somebody else creates / overwrites a file in the directory *)

Definition put_foreign (w : world) (name bytes : str) : world :=
  match parse_name name with
  | Some (d, ds, gz) =>
      let f := {| fday := 0; fymd := d; fidx := to_int ds; fdig := ds; fgz := gz;
                  fcont := [{| rbytes := bytes; rid := length (hist w); rday := day_of (now w) |}];
                  fmt := stamp (cgran c) (now w); fseeded := true |} in
      {| gone := gone w; rot := filter (fun g => negb (str_eqb (render g) name)) (rot w) ++ [f];
         act := act w; act_mt := act_mt w; now := now w; inited := inited w; cur := cur w;
         hist := hist w; foreign := foreign w |}
  | None =>
      if str_eqb name active_name then w else
      {| gone := gone w; rot := rot w; act := act w; act_mt := act_mt w; now := now w;
         inited := inited w; cur := cur w; hist := hist w;
         foreign := filter (fun x => negb (str_eqb (xname x) name)) (foreign w)
                    ++ [{| xname := name; xbytes := bytes; xmt := stamp (cgran c) (now w) |}] |}
  end.

Definition step (w : world) (o : op) : world :=
  match o with
  | Write _ p => write w p          (* rotateIfNeeded() and FileSink::send() never look at the type *)
  | Advance dt => {| gone := gone w; rot := rot w; act := act w; act_mt := act_mt w;
                     now := clamp (now w + Z.max 0 dt);
                     inited := inited w; cur := cur w; hist := hist w; foreign := foreign w |}
  | Restart => {| gone := gone w; rot := rot w; act := act w; act_mt := act_mt w; now := now w;
                  inited := false; cur := cur w; hist := hist w; foreign := foreign w |}
  | PutForeign n b => put_foreign w n b
  end.

(* the same history with other message types *)
Definition retype (f : mtype -> mtype) (o : op) : op :=
  match o with Write ty p => Write (f ty) p | _ => o end.

(* What a message shows (LogMessage::formattedMessage()): the formatted text once one has been set - isFormatted() is
   !isNull(), so the EMPTY string counts as set - else the raw message text.  It is the shown text that IODeviceSink::send()
   writes and that rotateIfNeeded() measures; the raw text of a formatted message plays no part. *)
Definition shown_text (raw : str) (fmt : option str) : str := match fmt with Some f => f | None => raw end.
Definition WriteMsg (ty : mtype) (raw : str) (fmt : option str) : op := Write ty (shown_text raw fmt).

(* the directory right after the first sink object was constructed at time t0: an empty active file *)
Definition w0 (t0 : time) : world :=
  {| gone := []; rot := []; act := []; act_mt := stamp (cgran c) (clamp t0); now := clamp t0;
     inited := false; cur := 0; hist := []; foreign := [] |}.
Definition run (t0 : time) (ops : list op) : world := fold_left step ops (w0 t0).

(* what a directory listing shows: name, bytes (decompressed), mtime *)
Definition bytes_of (l : list rec) : str := concat (map rbytes l).
Definition listing (w : world) : list (str * str * time) :=
  map (fun f => (render f, bytes_of (fcont f), fmt f)) (rot w)
  ++ [(active_name, bytes_of (act w), act_mt w)]
  ++ map (fun x => (xname x, xbytes x, xmt x)) (foreign w).

(* ------------------------------------------------------------------ observations and oracles
   A [snap] is what the check reconstructs from the IMPLEMENTATION's directory listings (ghost data
   from the record payloads and from the sequence of listings) — and what [snap_of] reads off a
   model world. *)
Record snap := {
  s_hist : list rec;            (* the records written so far, in order *)
  s_gone : list rfile;          (* scheme-named files that disappeared, in order of disappearance *)
  s_rot : list rfile;           (* scheme-named files present (any order) *)
  s_act : list rec;             (* the active file *)
  s_act_mt : time;
  s_act_lost : bool;            (* the active file's content disappeared other than by a rename *)
  s_count_chk : bool;           (* the count bound is due (no seeded file since the last rotation) *)
  s_fexp : list (str * str);    (* foreign files put so far (name, bytes), sorted by name *)
  s_fobs : list (str * str)     (* foreign files present, sorted by name *)
}.
Definition snap_of (w : world) : snap :=
  {| s_hist := hist w; s_gone := gone w; s_rot := rot w; s_act := act w; s_act_mt := act_mt w;
     s_act_lost := false; s_count_chk := true;
     s_fexp := map (fun x => (xname x, xbytes x)) (foreign w);
     s_fobs := map (fun x => (xname x, xbytes x)) (foreign w) |}.

Definition rec_eqb (a b : rec) : bool :=
  str_eqb (rbytes a) (rbytes b) && Nat.eqb (rid a) (rid b) && (rday a =? rday b).
Fixpoint recs_eqb (a b : list rec) : bool :=
  match a, b with
  | [], [] => true
  | x :: a', y :: b' => rec_eqb x y && recs_eqb a' b'
  | _, _ => false
  end.
Definition contents (l : list rfile) : list rec := concat (map fcont l).
Definition survivors (s : snap) : list rec := contents (isort (s_rot s)) ++ s_act s.
(* exactly one newline terminates a record and belongs to it *)
Fixpoint ends_nl (l : str) : bool :=
  match l with
  | [] => false
  | c :: t => match t with [] => N.eqb c 10 | _ :: _ => ends_nl t end
  end.
Definition terminated (r : rec) : bool := ends_nl (rbytes r).
Fixpoint ids_from (k : nat) (l : list rec) : bool :=
  match l with [] => true | r :: t => Nat.eqb (rid r) k && ids_from (S k) t end.

(* C05: removed files ++ rotated files in rotation order ++ active file = everything written *)
Definition conserved_b (s : snap) : bool :=
  recs_eqb (s_hist s) (contents (s_gone s) ++ survivors s).
Definition prop_c05_b (s : snap) : bool :=
  negb (s_act_lost s) && conserved_b s && forallb terminated (s_hist s) && ids_from 0 (s_hist s).

(* C06 *)
Definition pairs_eqb (a b : list (str * str)) : bool :=
  (fix go a b := match a, b with
                 | [], [] => true
                 | (n1, b1) :: a', (n2, b2) :: b' => str_eqb n1 n2 && str_eqb b1 b2 && go a' b'
                 | _, _ => false
                 end) a b.
Definition prop_c06_b (s : snap) : bool :=
  conserved_b s && negb (s_act_lost s)
  && (if (2 <=? cN c) && s_count_chk s then Z.of_nat (length (s_rot s)) <=? cN c - 1 else true)
  && (if cN c <=? 0 then match s_gone s with [] => true | _ => false end else true)
  && (if cN c =? 1 then forallb fseeded (s_rot s) && match s_gone s with [] => true | _ => false end else true)
  && pairs_eqb (s_fexp s) (s_fobs s).

(* C07 *)
Definition small_b (l : list rec) : bool := (size l <=? cL c) || Nat.leb (length l) 1.
Definition prop_c07_b (s : snap) : bool :=
  if (0 <? cL c) && negb (cN c =? 1) then
    small_b (s_act s)
    && forallb (fun f => fseeded f || small_b (fcont f)) (s_rot s)
    && forallb (fun f => fseeded f || small_b (fcont f)) (s_gone s)
    && conserved_b s
  else true.

(* C09 *)
Definition one_day_b (d : day) (l : list rec) : bool := forallb (fun r => rday r =? d) l.
Definition named_day_b (f : rfile) : bool :=
  match fcont f with
  | [] => false                                   (* the sink never rotates an empty file *)
  | r :: _ => one_day_b (rday r) (fcont f) && ymd_eqb (fymd f) (civil (rday r))
  end.
Definition idx_ltb (a b : rfile) : bool :=
  ymd_ltb (fymd a) (fymd b) || (ymd_eqb (fymd a) (fymd b) && (fidx a <? fidx b)).
Fixpoint chain_b (lt : rfile -> rfile -> bool) (l : list rfile) : bool :=
  match l with
  | a :: t => match t with b :: _ => lt a b | [] => true end && chain_b lt t
  | [] => true
  end.
Definition first_id (f : rfile) : Z := match fcont f with r :: _ => Z.of_nat (rid r) | [] => -1 end.
Definition prop_c09_b (s : snap) : bool :=
  let files := s_gone s ++ isort (s_rot s) in
  (* the active file's content only ever moves to a name of the scheme; names are never reused; per
     date the indices strictly increase in rotation order (= the order of the records the files hold) *)
  negb (s_act_lost s) && chain_b idx_ltb files && chain_b (fun a b => first_id a <? first_id b) files
  && (if daily c && negb (cN c =? 1) then
        match s_act s with [] => true | r :: _ => one_day_b (rday r) (s_act s) end
        && forallb (fun f => fseeded f || named_day_b f) files
      else true).
End Model.
