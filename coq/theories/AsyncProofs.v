(* C03 — lemmas.  Part 1: the copy constructor model.  Part 2: accepted traces (FIFO, per-producer order,
   real-time order).  Part 3: every run of the protocol model, for any action list (= any schedule of any
   number of producers and the worker), is simulated by the acceptor; queue/pending invariants; equality
   with the synchronous run. *)
From Coq Require Import List Arith Bool Lia.
Import ListNotations.
Require Import QtlVerif.AsyncDefs.

Lemma upd_same {A} (f : nat -> A) t v : upd f t v t = v.
Proof. unfold upd; rewrite Nat.eqb_refl; reflexivity. Qed.
Lemma upd_other {A} (f : nat -> A) t v t' : t' <> t -> upd f t v t' = f t'.
Proof. intros H; unfold upd. destruct (Nat.eqb_spec t' t); [contradiction|reflexivity]. Qed.

(* ------------------------------------------------------------------ Part 1: copy *)
Lemma cstr_idem s : cstr (Some (cstr s)) = cstr s. Proof. reflexivity. Qed.
Lemma copy_faithful cfg amb m : copy_ok cfg = true -> obs (copy_msg_with cfg amb m) = obs m.
Proof.
  intros H.
  assert (Hf : forall f, match cfg f with Rehome => is_ptr f | CopyVal => negb (is_ptr f) | _ => false end = true).
  { intros f. unfold copy_ok in H. rewrite forallb_forall in H. apply H. destruct f; cbn; tauto. }
  unfold obs, copy_msg_with. cbn [m_type m_text m_file m_line m_func m_cat m_time m_steady m_tid m_fmt m_attrs].
  pose proof (Hf FType) as H1. pose proof (Hf FText) as H2. pose proof (Hf FFile) as H3. pose proof (Hf FLine) as H4.
  pose proof (Hf FFunc) as H5. pose proof (Hf FCat) as H6. pose proof (Hf FTime) as H7. pose proof (Hf FSteady) as H8.
  pose proof (Hf FTid) as H9. pose proof (Hf FFmt) as H10. pose proof (Hf FAttrs) as H11.
  destruct (cfg FType); try discriminate H1. destruct (cfg FText); try discriminate H2.
  destruct (cfg FFile); try discriminate H3. destruct (cfg FLine); try discriminate H4.
  destruct (cfg FFunc); try discriminate H5. destruct (cfg FCat); try discriminate H6.
  destruct (cfg FTime); try discriminate H7. destruct (cfg FSteady); try discriminate H8.
  destruct (cfg FTid); try discriminate H9. destruct (cfg FFmt); try discriminate H10.
  destruct (cfg FAttrs); try discriminate H11. reflexivity.
Qed.

(* every field matters: re-running the default initialiser of any single member is observable *)
Definition good_cfg : copy_cfg := fun f => if is_ptr f then Rehome else CopyVal.
Definition with_kind (cfg : copy_cfg) (f0 : field) (k : ckind) : copy_cfg := fun f => if field_eqb f f0 then k else cfg f.
Definition wit_m : msg := {| m_type := 1; m_text := [1]; m_file := Some [1]; m_line := [1]; m_func := Some [1]; m_cat := Some [1];
                             m_time := [1]; m_steady := [1]; m_tid := [1]; m_fmt := Some [1]; m_attrs := [([1], [1])] |}.
Definition wit_amb : msg := {| m_type := 0; m_text := []; m_file := Some [2]; m_line := []; m_func := Some [2]; m_cat := Some [2];
                               m_time := []; m_steady := []; m_tid := []; m_fmt := None; m_attrs := [] |}.
Lemma dropped_field_refuted f : obs (copy_msg_with (with_kind good_cfg f Fresh) wit_amb wit_m) <> obs wit_m.
Proof. destruct f; cbn; intros E; discriminate E. Qed.
Lemma aliased_pointer_refuted f : is_ptr f = true -> obs (copy_msg_with (with_kind good_cfg f Alias) wit_amb wit_m) <> obs wit_m.
Proof. destruct f; cbn; intros H E; try discriminate H; discriminate E. Qed.
Lemma good_cfg_ok : copy_ok good_cfg = true. Proof. reflexivity. Qed.

(* ------------------------------------------------------------------ Part 2: accepted traces *)
Lemma posts_app a b : posts (a ++ b) = posts a ++ posts b.
Proof. induction a as [|[p i|p i|p i|p i|p i] a IH]; cbn; try exact IH; [reflexivity|rewrite IH; reflexivity]. Qed.
Lemma delivs_app a b : delivs (a ++ b) = delivs a ++ delivs b.
Proof. induction a as [|[p i|p i|p i|p i|p i] a IH]; cbn; try exact IH; [reflexivity|rewrite IH; reflexivity]. Qed.
Lemma of_prod_app p a b : of_prod p (a ++ b) = of_prod p a ++ of_prod p b.
Proof. apply filter_app. Qed.
Lemma seq0_S k : seq 0 (S k) = seq 0 k ++ [k].
Proof. rewrite seq_S. reflexivity. Qed.

Definition flag (ph : xphase) : nat := match ph with XPosted | XReleased => 1 | _ => 0 end.
Record XInv (t : list aevent) (x : xstate) : Prop := {
  xi_fifo : posts t = delivs t ++ x_q x;
  xi_pp : forall p, map snd (of_prod p (posts t)) = seq 0 (x_next x p + flag (x_ph x p));
  xi_in : forall p, flag (x_ph x p) = 1 -> In (p, x_next x p) (posts t)
}.
Lemma x0_xinv : XInv [] x0.
Proof. constructor; cbn; intros; try reflexivity; discriminate. Qed.

Lemma xphase_eqb_spec a b : reflect (a = b) (xphase_eqb a b).
Proof. destruct a, b; cbn; constructor; congruence. Qed.

Lemma xstep_xinv t x e x' : XInv t x -> xstep x e = Some x' -> XInv (t ++ [e]) x'.
Proof.
  intros [Hf Hp Hi] H. destruct e as [p i|p i|p i|p i|p i]; cbn [xstep] in H.
  - destruct (xphase_eqb_spec (x_ph x p) XIdle) as [Ep|]; cbn [andb] in H; [|discriminate].
    destruct (Nat.eqb_spec i (x_next x p)); [|discriminate]. injection H as <-.
    constructor; cbn [x_ph x_next x_q x_lock]; rewrite ?posts_app, ?delivs_app; cbn [posts delivs]; rewrite ?app_nil_r; auto.
    + intros p'. destruct (Nat.eq_dec p' p) as [->|Hne]; [rewrite upd_same, Hp, Ep; reflexivity|rewrite upd_other by exact Hne; apply Hp].
    + intros p'. destruct (Nat.eq_dec p' p) as [->|Hne]; [rewrite upd_same; discriminate|rewrite upd_other by exact Hne; apply Hi].
  - destruct (x_lock x); [discriminate|].
    destruct (xphase_eqb_spec (x_ph x p) XCalled) as [Ep|]; cbn [andb] in H; [|discriminate].
    destruct (Nat.eqb_spec i (x_next x p)); [|discriminate]. injection H as <-. subst i.
    constructor; cbn [x_ph x_next x_q x_lock]; rewrite ?posts_app, ?delivs_app; cbn [posts delivs]; rewrite ?app_nil_r.
    + rewrite Hf, app_assoc. reflexivity.
    + intros p'. rewrite of_prod_app, map_app, Hp. cbn [of_prod filter fst].
      destruct (Nat.eq_dec p' p) as [->|Hne].
      * rewrite upd_same, Nat.eqb_refl, Ep. cbn [flag map snd]. rewrite Nat.add_0_r, Nat.add_1_r, seq0_S. reflexivity.
      * rewrite upd_other by exact Hne. destruct (Nat.eqb_spec p p'); [congruence|]. cbn. apply app_nil_r.
    + intros p'. destruct (Nat.eq_dec p' p) as [->|Hne].
      * intros _. apply in_or_app. right. left. reflexivity.
      * rewrite upd_other by exact Hne. intros E. apply in_or_app. left. apply Hi. exact E.
  - destruct (xphase_eqb_spec (x_ph x p) XPosted) as [Ep|]; cbn [andb] in H; [|discriminate].
    destruct (Nat.eqb_spec i (x_next x p)); [|discriminate]. injection H as <-.
    constructor; cbn [x_ph x_next x_q x_lock]; rewrite ?posts_app, ?delivs_app; cbn [posts delivs]; rewrite ?app_nil_r; auto.
    + intros p'. destruct (Nat.eq_dec p' p) as [->|Hne]; [rewrite upd_same, Hp, Ep; reflexivity|rewrite upd_other by exact Hne; apply Hp].
    + intros p'. destruct (Nat.eq_dec p' p) as [->|Hne]; [intros _; apply Hi; rewrite Ep; reflexivity|rewrite upd_other by exact Hne; apply Hi].
  - destruct (xphase_eqb_spec (x_ph x p) XReleased) as [Ep|]; cbn [andb] in H; [|discriminate].
    destruct (Nat.eqb_spec i (x_next x p)); [|discriminate]. injection H as <-. subst i.
    constructor; cbn [x_ph x_next x_q x_lock]; rewrite ?posts_app, ?delivs_app; cbn [posts delivs]; rewrite ?app_nil_r; auto.
    + intros p'. destruct (Nat.eq_dec p' p) as [->|Hne]; [rewrite !upd_same, Hp, Ep; cbn [flag]; f_equal; lia|rewrite !upd_other by exact Hne; apply Hp].
    + intros p'. destruct (Nat.eq_dec p' p) as [->|Hne]; [rewrite upd_same; discriminate|rewrite !upd_other by exact Hne; apply Hi].
  - destruct (x_q x) as [|[p' i'] r] eqn:Eq; [discriminate|].
    destruct (Nat.eqb_spec p p'); cbn [andb] in H; [|discriminate].
    destruct (Nat.eqb_spec i i'); [|discriminate]. injection H as <-. subst p' i'.
    constructor; cbn [x_ph x_next x_q x_lock]; rewrite ?posts_app, ?delivs_app; cbn [posts delivs]; rewrite ?app_nil_r; auto.
    rewrite Hf, <- app_assoc. reflexivity.
Qed.

Lemma xrun_xinv : forall t2 t1 x x', XInv t1 x -> xrun x t2 = Some x' -> XInv (t1 ++ t2) x'.
Proof.
  induction t2 as [|e r IH]; intros t1 x x' I H; cbn [xrun] in H.
  - injection H as <-. rewrite app_nil_r. exact I.
  - destruct (xstep x e) as [x1|] eqn:E; [|discriminate].
    replace (t1 ++ e :: r) with ((t1 ++ [e]) ++ r) by (rewrite <- app_assoc; reflexivity).
    eapply IH; [eapply xstep_xinv; eassumption|exact H].
Qed.
Lemma xrun_app : forall t1 t2 x, xrun x (t1 ++ t2) = match xrun x t1 with Some x' => xrun x' t2 | None => None end.
Proof.
  induction t1 as [|e r IH]; intros t2 x; cbn [xrun app]; [reflexivity|].
  destruct (xstep x e); [apply IH|reflexivity].
Qed.

(* delivery order is a prefix of post order — for every trace the acceptor takes *)
Theorem taken_fifo t x : xrun x0 t = Some x -> posts t = delivs t ++ x_q x.
Proof. intros H. exact (xi_fifo _ _ (xrun_xinv t [] x0 x x0_xinv H)). Qed.
(* each producer's messages are posted in program order *)
Theorem taken_per_producer t x p : xrun x0 t = Some x -> map snd (of_prod p (posts t)) = seq 0 (x_next x p + flag (x_ph x p)).
Proof. intros H. exact (xi_pp _ _ (xrun_xinv t [] x0 x x0_xinv H) p). Qed.

Lemma x_final_spec quota n x : x_final quota n x = true ->
  x_q x = [] /\ forall p, p < n -> x_ph x p = XIdle /\ x_next x p = quota p.
Proof.
  unfold x_final. destruct (x_q x); [|discriminate]. intros H. split; [reflexivity|]. intros p Hp.
  rewrite forallb_forall in H. specialize (H p). rewrite in_seq in H. specialize (H ltac:(lia)).
  apply andb_prop in H as [H1 H2]. split; [destruct (xphase_eqb_spec (x_ph x p) XIdle); [assumption|discriminate]|apply Nat.eqb_eq; exact H2].
Qed.
Theorem accept_fifo quota n t : accept_async quota n t = true -> delivs t = posts t.
Proof.
  unfold accept_async. destruct (xrun x0 t) as [x|] eqn:E; [|discriminate]. intros F.
  destruct (x_final_spec quota n x F) as [Eq _]. rewrite (taken_fifo t x E), Eq, app_nil_r. reflexivity.
Qed.
Theorem accept_per_producer quota n t : accept_async quota n t = true ->
  forall p, p < n -> map snd (of_prod p (delivs t)) = seq 0 (quota p).
Proof.
  intros A p Hp. rewrite (accept_fifo quota n t A). revert A. unfold accept_async.
  destruct (xrun x0 t) as [x|] eqn:E; [|discriminate]. intros F.
  destruct (x_final_spec quota n x F) as [_ Hq]. destruct (Hq p Hp) as [E1 E2].
  rewrite (taken_per_producer t x p E), E1, E2. cbn. rewrite Nat.add_0_r. reflexivity.
Qed.

(* real-time order *)
Lemma pair_eq_dec (a b : nat * nat) : {a = b} + {a <> b}.
Proof. decide equality; apply Nat.eq_dec. Qed.
Lemma in_split_first (b : nat * nat) l : In b l -> exists l1 l2, l = l1 ++ b :: l2 /\ ~ In b l1.
Proof.
  induction l as [|y l IH]; [intros []|]. intros H. destruct (pair_eq_dec y b) as [->|Hne].
  - exists [], l. split; [reflexivity|intros []].
  - destruct H as [H|H]; [contradiction|]. destruct (IH H) as (l1 & l2 & -> & Hn).
    exists (y :: l1), l2. split; [reflexivity|]. intros [E|E]; [contradiction|exact (Hn E)].
Qed.
Lemma prefix_upto (b : nat * nat) : forall l d q r, d ++ q = l ++ b :: r -> In b d -> ~ In b l -> exists r', d = l ++ b :: r'.
Proof.
  induction l as [|y l IH]; intros d q r E Hin Hn.
  - destruct d as [|z d]; [destruct Hin|]. cbn in E. injection E as -> _. exists d. reflexivity.
  - destruct d as [|z d]; [destruct Hin|]. cbn in E. injection E as -> E.
    destruct Hin as [->|Hin]; [exfalso; apply Hn; left; reflexivity|].
    destruct (IH d q r E Hin) as [r' ->]; [intros X; apply Hn; right; exact X|]. exists r'. reflexivity.
Qed.

Theorem taken_real_time t1 t2 t3 pa ia pb ib x :
  let t := t1 ++ VRet pa ia :: t2 ++ VCall pb ib :: t3 in
  xrun x0 t = Some x -> In (pb, ib) (delivs t) ->
  exists l1 l2 l3, delivs t = l1 ++ (pa, ia) :: l2 ++ (pb, ib) :: l3.
Proof.
  intros t H Hb. subst t.
  replace (t1 ++ VRet pa ia :: t2 ++ VCall pb ib :: t3) with ((t1 ++ [VRet pa ia]) ++ t2 ++ (VCall pb ib :: t3)) in *
    by (rewrite <- app_assoc; reflexivity).
  set (A := t1 ++ [VRet pa ia]) in *. set (C := VCall pb ib :: t3) in *.
  pose proof (taken_fifo _ _ H) as Hfifo.
  rewrite xrun_app in H. destruct (xrun x0 A) as [xa|] eqn:EA; [|discriminate].
  rewrite xrun_app in H. destruct (xrun xa t2) as [xb|] eqn:EB; [|discriminate].
  (* a is among the posts of A *)
  assert (Ha : In (pa, ia) (posts A)).
  { unfold A in EA. rewrite xrun_app in EA. destruct (xrun x0 t1) as [x1|] eqn:E1; [|discriminate].
    cbn [xrun xstep] in EA. destruct (xphase_eqb_spec (x_ph x1 pa) XReleased) as [Ep|]; cbn [andb] in EA; [|discriminate].
    destruct (Nat.eqb_spec ia (x_next x1 pa)) as [->|]; [|discriminate].
    unfold A. rewrite posts_app. cbn. rewrite app_nil_r.
    apply (xi_in _ _ (xrun_xinv t1 [] x0 x1 x0_xinv E1)). rewrite Ep. reflexivity. }
  (* b is not among the posts of A ++ t2 *)
  assert (Hab : ~ In (pb, ib) (posts (A ++ t2))).
  { assert (EAB : xrun x0 (A ++ t2) = Some xb) by (rewrite xrun_app, EA; exact EB).
    unfold C in H. cbn [xrun xstep] in H.
    destruct (xphase_eqb_spec (x_ph xb pb) XIdle) as [Ep|]; cbn [andb] in H; [|discriminate].
    destruct (Nat.eqb_spec ib (x_next xb pb)) as [->|]; [|discriminate].
    intros Hin. pose proof (taken_per_producer _ _ pb EAB) as Hpp. rewrite Ep in Hpp. cbn in Hpp. rewrite Nat.add_0_r in Hpp.
    assert (In (x_next xb pb) (map snd (of_prod pb (posts (A ++ t2))))) as Hx.
    { apply in_map_iff. exists (pb, x_next xb pb). split; [reflexivity|]. apply filter_In. split; [exact Hin|apply Nat.eqb_refl]. }
    rewrite Hpp in Hx. apply in_seq in Hx. lia. }
  rewrite app_assoc in Hfifo, Hb. rewrite posts_app in Hfifo.
  assert (Hbp : In (pb, ib) (posts (A ++ t2) ++ posts C)) by (rewrite Hfifo; apply in_or_app; left; exact Hb).
  apply in_app_or in Hbp as [Hbp|Hbp]; [contradiction|].
  destruct (in_split_first _ _ Hbp) as (v1 & v2 & Ev & Hv1).
  rewrite posts_app in Hab, Hfifo. apply in_split in Ha as (u1 & u2 & Eu).
  rewrite Eu, Ev in Hfifo.
  assert (Hnot : ~ In (pb, ib) (u1 ++ (pa, ia) :: u2 ++ posts t2 ++ v1)).
  { intros X. apply in_app_or in X as [X|X]; [apply Hab; rewrite Eu; apply in_or_app; left; apply in_or_app; left; exact X|].
    destruct X as [X|X]; [apply Hab; rewrite Eu, <- X; apply in_or_app; left; apply in_or_app; right; left; reflexivity|].
    apply in_app_or in X as [X|X]; [apply Hab; rewrite Eu; apply in_or_app; left; apply in_or_app; right; right; exact X|].
    apply in_app_or in X as [X|X]; [apply Hab; apply in_or_app; right; exact X|exact (Hv1 X)]. }
  assert (Eq2 : delivs ((A ++ t2) ++ C) ++ x_q x = (u1 ++ (pa, ia) :: u2 ++ posts t2 ++ v1) ++ (pb, ib) :: v2).
  { rewrite <- Hfifo. repeat (rewrite <- app_assoc; cbn [app]). reflexivity. }
  destruct (prefix_upto (pb, ib) _ _ (x_q x) v2 Eq2 Hb Hnot) as [r' Er].
  exists u1, (u2 ++ posts t2 ++ v1), r'. rewrite app_assoc, Er. repeat (rewrite <- app_assoc; cbn [app]). reflexivity.
Qed.

(* ------------------------------------------------------------------ Part 3: the protocol model *)
Definition abs_ph (ph : pphase) : xphase :=
  match ph with PIdle => XIdle | PCalled _ => XCalled | PPosted => XPosted | PReleased => XReleased end.
Definition olist {A} (o : option A) : list A := match o with Some x => [x] | None => [] end.

Section Proto.
Variable cp : msg -> msg.
Definition cpi (y : item) : item := (fst y, cp (snd y)).

Record Inv (s : state) (x : xstate) : Prop := {
  r_tr : xrun x0 (tr s) = Some x;
  r_ph : forall p, x_ph x p = abs_ph (pph (prod s p));
  r_next : forall p, x_next x p = pnext (prod s p);
  r_q : x_q x = map it_id (olist (inflight s) ++ queue s);
  r_lock : x_lock x = mtx s;
  r_mtx : forall p, mtx s = Some p <-> pph (prod s p) = PPosted;
  r_posted : map cpi (posted s) = slog s ++ olist (inflight s) ++ queue s;
  r_pending : pending s = length (olist (inflight s) ++ queue s);
  r_slog : map it_id (slog s) = delivs (tr s);
  r_posts : map it_id (posted s) = posts (tr s)
}.
Lemma s0_inv : Inv s0 x0.
Proof. constructor; cbn; intros; try reflexivity. split; discriminate. Qed.

Ltac sp p' p := destruct (Nat.eq_dec p' p) as [->|?Hne];
  [rewrite ?upd_same in *|rewrite ?upd_other in * by assumption]; cbn [pph pnext mk_p abs_ph] in *.

Lemma step_inv s x a s' : Inv s x -> step cp s a = Some s' -> exists x', Inv s' x'.
Proof.
  intros [I1 I2 I3 I4 I5 I6 I7 I8 I9 I10] H. destruct a as [p m|p|p|p| |]; cbn [step] in H.
  - (* call *)
    destruct (pph (prod s p)) eqn:Ep; try discriminate. injection H as <-.
    exists {| x_ph := upd (x_ph x) p XCalled; x_next := x_next x; x_q := x_q x; x_lock := x_lock x |}.
    constructor; cbn [prod mtx queue pending inflight slog posted tr x_ph x_next x_q x_lock]; try assumption.
    + rewrite xrun_app, I1. cbn [xrun xstep]. rewrite I2, Ep, I3, Nat.eqb_refl. reflexivity.
    + intros p'. sp p' p; [reflexivity|apply I2].
    + intros p'. sp p' p; [apply I3|apply I3].
    + intros p'. sp p' p; [|apply I6]. rewrite I6, Ep. split; discriminate.
    + rewrite delivs_app. cbn. rewrite app_nil_r. exact I9.
    + rewrite posts_app. cbn. rewrite app_nil_r. exact I10.
  - (* post *)
    destruct (pph (prod s p)) as [|m| |] eqn:Ep; try discriminate. destruct (mtx s) eqn:Em; [discriminate|]. injection H as <-.
    exists {| x_ph := upd (x_ph x) p XPosted; x_next := x_next x; x_q := x_q x ++ [(p, pnext (prod s p))]; x_lock := Some p |}.
    constructor; cbn [prod mtx queue pending inflight slog posted tr x_ph x_next x_q x_lock]; try assumption.
    + rewrite xrun_app, I1. cbn [xrun xstep]. rewrite I5, I2, Ep, I3, Nat.eqb_refl. reflexivity.
    + intros p'. sp p' p; [reflexivity|apply I2].
    + intros p'. sp p' p; apply I3.
    + rewrite I4, app_assoc, (map_app it_id (olist (inflight s) ++ queue s)). reflexivity.
    + reflexivity.
    + intros p'. sp p' p; [tauto|]. split; [intros E; injection E as <-; contradiction|].
      intros E. apply I6 in E. discriminate.
    + rewrite map_app, I7. cbn. rewrite <- !app_assoc. reflexivity.
    + rewrite app_assoc, app_length, <- I8. cbn. lia.
    + rewrite delivs_app. cbn. rewrite app_nil_r. exact I9.
    + rewrite posts_app, map_app, I10. reflexivity.
  - (* release M *)
    destruct (pph (prod s p)) eqn:Ep; try discriminate. injection H as <-.
    exists {| x_ph := upd (x_ph x) p XReleased; x_next := x_next x; x_q := x_q x; x_lock := None |}.
    constructor; cbn [prod mtx queue pending inflight slog posted tr x_ph x_next x_q x_lock]; try assumption.
    + rewrite xrun_app, I1. cbn [xrun xstep]. rewrite I2, Ep, I3, Nat.eqb_refl. reflexivity.
    + intros p'. sp p' p; [reflexivity|apply I2].
    + intros p'. sp p' p; apply I3.
    + reflexivity.
    + intros p'. sp p' p; [split; discriminate|]. split; [discriminate|].
      intros E. exfalso. apply Hne. apply I6 in E. apply I6 in Ep. congruence.
    + rewrite delivs_app. cbn. rewrite app_nil_r. exact I9.
    + rewrite posts_app. cbn. rewrite app_nil_r. exact I10.
  - (* return *)
    destruct (pph (prod s p)) eqn:Ep; try discriminate. injection H as <-.
    exists {| x_ph := upd (x_ph x) p XIdle; x_next := upd (x_next x) p (S (pnext (prod s p))); x_q := x_q x; x_lock := x_lock x |}.
    constructor; cbn [prod mtx queue pending inflight slog posted tr x_ph x_next x_q x_lock]; try assumption.
    + rewrite xrun_app, I1. cbn [xrun xstep]. rewrite I2, Ep, I3, Nat.eqb_refl. reflexivity.
    + intros p'. sp p' p; [reflexivity|apply I2].
    + intros p'. sp p' p; [reflexivity|apply I3].
    + intros p'. sp p' p; [|apply I6]. rewrite I6, Ep. split; discriminate.
    + rewrite delivs_app. cbn. rewrite app_nil_r. exact I9.
    + rewrite posts_app. cbn. rewrite app_nil_r. exact I10.
  - (* take *)
    destruct (inflight s) eqn:Ei; [discriminate|]. destruct (queue s) as [|y q] eqn:Eq; [discriminate|]. injection H as <-.
    exists x. constructor; cbn [prod mtx queue pending inflight slog posted tr olist app] in *; assumption.
  - (* done *)
    destruct (inflight s) as [y|] eqn:Ei; [|discriminate]. injection H as <-.
    exists {| x_ph := x_ph x; x_next := x_next x; x_q := map it_id (queue s); x_lock := x_lock x |}.
    cbn [olist app] in *.
    constructor; cbn [prod mtx queue pending inflight slog posted tr x_ph x_next x_q x_lock olist app]; try assumption.
    + rewrite xrun_app, I1. cbn [xrun xstep]. rewrite I4. cbn [map]. destruct y as [[py iy] my]. cbn [it_id fst snd].
      rewrite !Nat.eqb_refl. reflexivity.
    + reflexivity.
    + rewrite I7, <- app_assoc. reflexivity.
    + rewrite I8. cbn. reflexivity.
    + rewrite delivs_app, map_app, I9. destruct y as [[py iy] my]. reflexivity.
    + rewrite posts_app. cbn. rewrite app_nil_r. exact I10.
Qed.

Theorem run_inv acts : forall s x, Inv s x -> exists x', Inv (run cp s acts) x'.
Proof.
  induction acts as [|a r IH]; intros s x I; cbn [run]; [exists x; exact I|].
  destruct (step cp s a) as [s'|] eqn:E; [|eapply IH; exact I].
  destruct (step_inv s x a s' I E) as [x' I']. eapply IH; exact I'.
Qed.
Definition reach (s : state) : Prop := exists acts, s = run cp s0 acts.
Lemma reach_inv s : reach s -> exists x, Inv s x.
Proof. intros [acts ->]. apply (run_inv acts s0 x0 s0_inv). Qed.

(* 2. queue invariant *)
Theorem queue_inv s : reach s ->
  pending s = length (queue s) + length (olist (inflight s)) /\
  map cpi (posted s) = slog s ++ olist (inflight s) ++ queue s.
Proof.
  intros R. destruct (reach_inv s R) as [x I]. split; [|apply (r_posted _ _ I)].
  rewrite (r_pending _ _ I), app_length. lia.
Qed.

(* 5. the producer never runs the sink, the mutex is held by producers only and only for the post, and the
   post is enabled whenever M is free — whatever the queue, the worker and the sink are doing *)
Theorem producer_never_runs_sink s a s' : is_producer_action a = true -> step cp s a = Some s' -> slog s' = slog s.
Proof.
  intros Ha H. destruct a as [p m|p|p|p| |]; try discriminate Ha; cbn [step] in H.
  - destruct (pph (prod s p)); try discriminate. injection H as <-. reflexivity.
  - destruct (pph (prod s p)); try discriminate. destruct (mtx s); [discriminate|]. injection H as <-. reflexivity.
  - destruct (pph (prod s p)); try discriminate. injection H as <-. reflexivity.
  - destruct (pph (prod s p)); try discriminate. injection H as <-. reflexivity.
Qed.
Theorem mutex_only_around_post s p : reach s -> (mtx s = Some p <-> pph (prod s p) = PPosted).
Proof. intros R. destruct (reach_inv s R) as [x I]. apply (r_mtx _ _ I). Qed.
Theorem post_never_waits_for_sink s p m : pph (prod s p) = PCalled m -> mtx s = None -> exists s', step cp s (APost p) = Some s'.
Proof. intros E1 E2. cbn [step]. rewrite E1, E2. eexists. reflexivity. Qed.

(* tie: the event trace of every reachable state is taken by the acceptor *)
Theorem trace_taken s : reach s -> exists x, xrun x0 (tr s) = Some x /\ map it_id (slog s) = delivs (tr s) /\ map it_id (posted s) = posts (tr s).
Proof. intros R. destruct (reach_inv s R) as [x I]. exists x. repeat split; [apply (r_tr _ _ I)|apply (r_slog _ _ I)|apply (r_posts _ _ I)]. Qed.
Definition finished (quota : nat -> nat) (n : nat) (s : state) : Prop :=
  queue s = [] /\ inflight s = None /\ forall p, p < n -> pph (prod s p) = PIdle /\ pnext (prod s p) = quota p.
Theorem complete_trace_accepted quota n s : reach s -> finished quota n s -> accept_async quota n (tr s) = true.
Proof.
  intros R (Eq & Ei & Hp). destruct (reach_inv s R) as [x I]. unfold accept_async. rewrite (r_tr _ _ I).
  unfold x_final. rewrite (r_q _ _ I), Eq, Ei. cbn. apply forallb_forall. intros p Hin. apply in_seq in Hin.
  destruct (Hp p ltac:(lia)) as [E1 E2]. rewrite (r_ph _ _ I), E1, (r_next _ _ I), E2, Nat.eqb_refl. reflexivity.
Qed.
End Proto.

(* 3. at quiescence the sink has seen exactly what a synchronous logger would have shown it for the same messages in
   post order: same observations, same positions *)
Theorem async_equals_sync cfg amb s : copy_ok cfg = true -> reach (copy_msg_with cfg amb) s -> quiescent s ->
  sink_view (slog s) = sink_view (posted s).
Proof.
  intros Hc R [Eq Ei]. destruct (queue_inv _ s R) as [_ Hp]. rewrite Eq, Ei in Hp. cbn in Hp. rewrite app_nil_r in Hp.
  unfold sink_view. rewrite <- Hp, !map_length, map_map. f_equal. apply map_ext. intros [[p i] m]. cbn.
  rewrite (copy_faithful cfg amb m Hc). reflexivity.
Qed.

(* 6. handlers that render the message's time stamp on the logger thread (PatternFormatter %{time process} / %{time boot}) *)
Lemma render_rel_obs fmt now now' m m' : obs m = obs m' -> render_rel TSMessage fmt now m = render_rel TSMessage fmt now' m'.
Proof. intros H. unfold render_rel. f_equal. exact (f_equal o_steady H). Qed.
Lemma rendered_from_message fmt clk clk' l l' : map obs l = map obs l' -> forall k k',
  rendered_from TSMessage fmt clk k l = rendered_from TSMessage fmt clk' k' l'.
Proof.
  revert l'. induction l as [|m r IH]; intros [|m' r'] H k k'; try discriminate H; [reflexivity|].
  cbn [map] in H. assert (H1 : obs m = obs m') by congruence. assert (H2 : map obs r = map obs r') by congruence.
  cbn [rendered_from]. f_equal; [apply render_rel_obs; exact H1|apply IH; exact H2].
Qed.
(* the text a sink behind such a formatter receives at quiescence does not depend on WHEN the logger thread ran the
   formatter ([clk_worker], arbitrary) : it is the text the synchronous run (formatter run inside the logging call, at
   [clk_caller]) produces for the same messages in post order *)
Theorem rendered_time_async_equals_sync cfg amb fmt clk_worker clk_caller s :
  copy_ok cfg = true -> reach (copy_msg_with cfg amb) s -> quiescent s ->
  rendered_from TSMessage fmt clk_worker 0 (map snd (slog s)) = rendered_from TSMessage fmt clk_caller 0 (map snd (posted s)).
Proof.
  intros Hc R [Eq Ei]. destruct (queue_inv _ s R) as [_ Hp]. rewrite Eq, Ei in Hp. cbn in Hp. rewrite app_nil_r in Hp.
  apply rendered_from_message. rewrite <- Hp, !map_map. apply map_ext. intros [[p i] m]. cbn.
  apply (copy_faithful cfg amb m Hc).
Qed.
(* ... and a formatter that reads the clock when it runs is refuted: one message, rendered on the worker at a later
   clock value than the call *)
Theorem rendered_time_from_clock_refuted cfg amb m :
  exists fmt clk_worker clk_caller,
    rendered_from TSClock fmt clk_worker 0 [copy_msg_with cfg amb m] <> rendered_from TSClock fmt clk_caller 0 [m].
Proof. exists (fun b => b), (fun _ => [1]), (fun _ => [0]). cbn. discriminate. Qed.

(* 7. the thread that executes a step: with an unconditional move of the worker, every step that appends to the sink log
   (every handler/sink invocation) is executed by the logger thread, whether or not the application object existed when
   moveToOwnThread() was called; a producer step never is.  A move that is conditional on the application object is refuted. *)
Lemma sink_step_is_worker_step cp s a s' : step cp s a = Some s' -> slog s' <> slog s -> is_producer_action a = false.
Proof.
  intros H N. destruct (is_producer_action a) eqn:E; [|reflexivity].
  exfalso. apply N. eapply producer_never_runs_sink; eauto.
Qed.
Theorem sink_steps_on_logger_thread cp s a s' app :
  step cp s a = Some s' -> slog s' <> slog s -> exec_thread WMAlways app a = TOwn.
Proof. intros H N. unfold exec_thread. rewrite (sink_step_is_worker_step cp s a s' H N). reflexivity. Qed.
Theorem producer_steps_on_caller_thread w app a : is_producer_action a = true -> exec_thread w app a = TCaller.
Proof. intros H. unfold exec_thread. rewrite H. reflexivity. Qed.
Theorem conditional_move_refuted : exists cp s s', step cp s ADone = Some s' /\ slog s' <> slog s /\ exec_thread WMIfApp false ADone = TCaller.
Proof.
  exists (fun m => m).
  pose (x := (0, 0, {| m_type := 0; m_text := []; m_file := None; m_line := []; m_func := None; m_cat := None; m_time := [];
                        m_steady := []; m_tid := []; m_fmt := None; m_attrs := [] |}) : item).
  exists {| prod := prod s0; mtx := None; queue := []; pending := 1; inflight := Some x; slog := []; posted := [x]; tr := [] |}.
  eexists. split; [reflexivity|]. split; [discriminate|reflexivity].
Qed.
