(* C18 — executable model of SentryFormatter::format on top of the JSON model of JsonDefs.v: the event
   object field by field (level switch, routed attribute names, skip list, fingerprint cut and the
   sdk constants come from SrcSentry.v), the ISO-8601 UTC rendering of the time (civil-from-days),
   the rendering of a 128-bit id, and the boolean oracle evaluated on the implementation's output.
   Definitions only. *)
From Coq Require Import List NArith ZArith Bool.
Require Import QtlVerif.JsonDefs.
Import ListNotations.
Local Open Scope N_scope.

(* ------------------------------------------------------------------ time: epoch ms -> "YYYY-MM-DDThh:mm:ssZ" *)
Local Open Scope Z_scope.
(* civil date of a day number (days since 1970-01-01), proleptic Gregorian *)
Definition civil (days : Z) : Z * Z * Z :=
  let z := days + 719468 in let era := z / 146097 in let doe := z - era * 146097 in
  let yoe := (doe - doe / 1460 + doe / 36524 - doe / 146096) / 365 in let y := yoe + era * 400 in
  let doy := doe - (365 * yoe + yoe / 4 - yoe / 100) in let mp := (5 * doy + 2) / 153 in
  let d := doy - (153 * mp + 2) / 5 + 1 in let m := if mp <? 10 then mp + 3 else mp - 9 in
  ((if m <=? 2 then y + 1 else y), m, d).
(* the inverse: day number of a civil date *)
Definition days_from_civil (y m d : Z) : Z :=
  let y' := if m <=? 2 then y - 1 else y in
  let era := y' / 400 in let yoe := y' - era * 400 in
  let doy := (153 * (if m >? 2 then m - 3 else m + 9) + 2) / 5 + d - 1 in
  let doe := yoe * 365 + yoe / 4 - yoe / 100 + doy in
  era * 146097 + doe - 719468.
Definition two (z : Z) : str := [Z.to_N (48 + z / 10); Z.to_N (48 + z mod 10)].
Definition four (z : Z) : str :=
  [Z.to_N (48 + z / 1000); Z.to_N (48 + (z / 100) mod 10); Z.to_N (48 + (z / 10) mod 10); Z.to_N (48 + z mod 10)].
Definition iso_secs (secs : Z) : str :=
  let days := secs / 86400 in let sod := secs mod 86400 in
  let '(y, m, d) := civil days in
  (four y ++ [45%N] ++ two m ++ [45%N] ++ two d ++ [84%N] ++ two (sod / 3600) ++ [58%N] ++ two ((sod / 60) mod 60)
   ++ [58%N] ++ two (sod mod 60) ++ [90%N])%list.
Definition iso_utc (epoch_ms : Z) : str := iso_secs (epoch_ms / 1000).
(* reading the 20 characters back *)
Definition dig (c : N) : Z := Z.of_N c - 48.
Definition iso_decode (s : str) : option Z :=
  match s with
  | [y1; y2; y3; y4; 45%N; m1; m2; 45%N; d1; d2; 84%N; h1; h2; 58%N; i1; i2; 58%N; s1; s2; 90%N] =>
      let y := dig y1 * 1000 + dig y2 * 100 + dig y3 * 10 + dig y4 in
      Some (days_from_civil y (dig m1 * 10 + dig m2) (dig d1 * 10 + dig d2) * 86400
            + (dig h1 * 10 + dig h2) * 3600 + (dig i1 * 10 + dig i2) * 60 + (dig s1 * 10 + dig s2))
  | _ => None
  end.
Local Close Scope Z_scope.

(* ------------------------------------------------------------------ event id: 128 bits -> 32 hex digits *)
Fixpoint hexn (n : nat) (x : N) : str := match n with O => [] | S n' => hexn n' (x / 16) ++ [hexd (x mod 16)] end.
Definition id128_hex (x : N) : str := hexn 32 x.
Definition is_hexdigit (c : N) : bool := ((48 <=? c) && (c <=? 57)) || ((97 <=? c) && (c <=? 102)).
Definition is_hex32 (s : str) : bool := Nat.eqb (length s) 32 && forallb is_hexdigit s.

(* ids of a whole run.  The k-th format() call of the process - whichever SentryFormatter object it is made on
   ([objs] names the object of each call) - draws the k-th value of the process-wide source (QUuid::createUuid):
   the id is a function of the draw only, never of the formatter object or of a per-object count. *)
Definition run_ids (draw : nat -> N) (objs : list nat) : list str := map (fun k => id128_hex (draw k)) (seq 0 (length objs)).
Fixpoint strs_distinctb (l : list str) : bool :=
  match l with [] => true | x :: r => negb (existsb (seqb x) r) && strs_distinctb r end.
(* the oracle for the ids of a run: each is 32 lower-case hex digits and they are pairwise distinct *)
Definition ids_ok_b (ids : list str) : bool := forallb is_hex32 ids && strs_distinctb ids.
(* for contrast (refuted in SentryProofs.v): one base per process plus a count kept by each formatter object *)
Fixpoint count_eq (o : nat) (l : list nat) : N := match l with [] => 0 | x :: r => (if Nat.eqb x o then 1 else 0) + count_eq o r end.
Fixpoint counter_ids_from (base : N) (before objs : list nat) : list str :=
  match objs with [] => [] | o :: r => id128_hex (base + count_eq o before) :: counter_ids_from base (o :: before) r end.
Definition counter_ids (base : N) (objs : list nat) : list str := counter_ids_from base [] objs.

(* ------------------------------------------------------------------ configuration read from the source *)
Inductive slot := STag | SOs | SDevice.
Definition slot_code (s : slot) : N := match s with STag => 0 | SOs => 1 | SDevice => 2 end.
Definition slot_eqb (a b : slot) : bool := slot_code a =? slot_code b.
Record sentry_cfg := {
  level_names : list (N * str); level_default : str;   (* qtMsgTypeToSentryLevel *)
  routes : list (slot * (str * str));     (* (slot object, field name in it, attribute name), source order *)
  skipped : list str;                     (* names not copied into extra *)
  fp_cut : nat; fp_formatted : bool;      (* fingerprint: lmsg.message().left(100) *)
  msg_formatted : bool;                   (* message.formatted = lmsg.message() *)
  logger_unless_empty : bool; logger_unless_default : bool;
  sdk_name : str; sdk_version : str }.

Definition level_name (cfg : sentry_cfg) (t : N) : str := assoc_n t (level_names cfg) (level_default cfg).
(* QVariant::toString() for the value kinds of the model (list / map / null give the empty string) *)
Definition to_qstring (v : json) : str :=
  match v with JStr s => s | JNum z => num_chars z | JBool true => [116;114;117;101] | JBool false => [102;97;108;115;101] | _ => [] end.
(* For the numeric QVariant types of JsonDefs.v: QVariant::toString() gives the plain decimal digits for the four
   integer types (int, uint, qlonglong, qulonglong); for double / float it gives the shortest 'g' form (1e+06),
   which [to_qstring] does not render: a double under a routed name is outside the model (not generated). *)
Definition int_typed (t : numty) : bool := match t with TDouble | TFloat => false | _ => true end.
(* QVariantHash::value after the setAttribute calls: the last setting *)
Definition look_last (k : str) (attrs : list (str * json)) : option json := look k (rev attrs).
Definition slot_fields (cfg : sentry_cfg) (sl : slot) (attrs : list (str * json)) : list (str * json) :=
  flat_map (fun r => if slot_eqb sl (fst r)
                     then match look_last (snd (snd r)) attrs with Some v => [(fst (snd r), JStr (to_qstring v))] | None => [] end
                     else []) (routes cfg).
Definition is_skipped (cfg : sentry_cfg) (k : str) : bool := existsb (seqb k) (skipped cfg).

(* ------------------------------------------------------------------ how the attributes get onto the message *)
(* The attribute store of a message is a QVariantHash; the handlers of a pipeline change it before the
   formatter runs.  [mattrs] is the list of settings in order (a later one overrides); the operations:
     OSet k v    LogMessage::setAttribute(k, v)
     OUpdate l   LogMessage::updateAttributes(l) - what AttrHandler::process does with the hash an attribute
                 handler returns (FunctionAttrHandler, AppInfoAttrs, ...): QHash::insert(hash) REPLACES the value
                 of a name that is already there
     OSetAll l   LogMessage::setAttributes(l)    - also what a scoped Pipeline does when it restores the attributes
     ORemove k   LogMessage::removeAttribute(k)
   [look_last k] of the resulting list is QHash::value(k) / LogMessage::attribute(k). *)
Inductive attr_op := OSet (k : str) (v : json) | OUpdate (l : list (str * json)) | OSetAll (l : list (str * json)) | ORemove (k : str).
Definition apply_op (a : list (str * json)) (o : attr_op) : list (str * json) :=
  match o with
  | OSet k v => a ++ [(k, v)]
  | OUpdate l => a ++ l
  | OSetAll l => l
  | ORemove k => filter (fun kv => negb (seqb k (fst kv))) a
  end.
Definition apply_ops (a : list (str * json)) (ops : list attr_op) : list (str * json) := fold_left apply_op ops a.
Definition set_mattrs (m : lmsg) (a : list (str * json)) : lmsg :=
  {| mtype := mtype m; mtext := mtext m; mfmt := mfmt m; mfile := mfile m; mfunc := mfunc m; mcat := mcat m;
     mline := mline m; mtime := mtime m; mtid := mtid m; mattrs := a |}.

(* key names *)
Definition k_event_id : str := [101;118;101;110;116;95;105;100].
Definition k_timestamp : str := [116;105;109;101;115;116;97;109;112].
Definition k_platform : str := [112;108;97;116;102;111;114;109].
Definition k_native : str := [110;97;116;105;118;101].
Definition k_level : str := [108;101;118;101;108].
Definition k_logger : str := [108;111;103;103;101;114].
Definition k_formatted : str := [102;111;114;109;97;116;116;101;100].
Definition k_culprit : str := [99;117;108;112;114;105;116].
Definition k_tags : str := [116;97;103;115].
Definition k_extra : str := [101;120;116;114;97].
Definition k_contexts : str := [99;111;110;116;101;120;116;115].
Definition k_sdk : str := [115;100;107].
Definition k_fingerprint : str := [102;105;110;103;101;114;112;114;105;110;116].
Definition k_qt_version : str := [113;116;95;118;101;114;115;105;111;110].
Definition k_thread_id : str := [116;104;114;101;97;100;95;105;100].
Definition k_os : str := [111;115].
Definition k_device : str := [100;101;118;105;99;101].
Definition k_runtime : str := [114;117;110;116;105;109;101].
Definition k_name : str := [110;97;109;101].
Definition k_version : str := [118;101;114;115;105;111;110].
Definition k_Qt : str := [81;116].
Definition s_default : str := [100;101;102;97;117;108;116].
Definition is_nil (s : str) : bool := match s with [] => true | _ => false end.

(* the message: the JSON model's message plus the time as milliseconds since the epoch *)
Record smsg := { s_msg : lmsg; s_time_ms : Z }.
Definition s_attrs (m : smsg) := mattrs (s_msg m).
(* the message after the handlers that run before the formatter *)
Definition with_ops (m : smsg) (ops : list attr_op) : smsg :=
  {| s_msg := set_mattrs (s_msg m) (apply_ops (mattrs (s_msg m)) ops); s_time_ms := s_time_ms m |}.
Definition s_cat (m : smsg) : str := cstr (mcat (s_msg m)).
Definition s_text (m : smsg) : str := mtext (s_msg m).

Definition ev_tags (cfg : sentry_cfg) (qtver : str) (m : smsg) : list (str * json) :=
  (k_qt_version, JStr qtver) :: slot_fields cfg STag (s_attrs m).
Definition ev_extra (cfg : sentry_cfg) (m : smsg) : list (str * json) :=
  [(k_line, JNum (mline (s_msg m)))]
  ++ (if is_nil (cstr (mfile (s_msg m))) then [] else [(k_file, JStr (cstr (mfile (s_msg m))))])
  ++ [(k_thread_id, JStr (num_chars (mtid (s_msg m))))]
  ++ filter (fun kv => negb (is_skipped cfg (fst kv))) (s_attrs m).
Definition is_nil_members (l : list (str * json)) : bool := match l with [] => true | _ => false end.
Definition opt_obj (k : str) (l : list (str * json)) : list (str * json) := if is_nil_members l then [] else [(k, JObj l)].
Definition ev_contexts (cfg : sentry_cfg) (qtver : str) (m : smsg) : list (str * json) :=
  opt_obj k_os (slot_fields cfg SOs (s_attrs m)) ++ opt_obj k_device (slot_fields cfg SDevice (s_attrs m))
  ++ [(k_runtime, JObj [(k_name, JStr k_Qt); (k_version, JStr qtver)])].
Definition ev_logger (cfg : sentry_cfg) (m : smsg) : list (str * json) :=
  if (logger_unless_empty cfg && is_nil (s_cat m)) || (logger_unless_default cfg && seqb (s_cat m) s_default)
  then [] else [(k_logger, JStr (s_cat m))].
Definition ev_culprit (m : smsg) : list (str * json) :=
  if is_nil (cstr (mfunc (s_msg m))) then [] else [(k_culprit, JStr (cstr (mfunc (s_msg m))))].
Definition fp_category (m : smsg) : str := if is_nil (s_cat m) then s_default else s_cat m.
Definition ev_fingerprint (cfg : sentry_cfg) (m : smsg) : json :=
  JArr [JStr (level_name cfg (mtype (s_msg m))); JStr (fp_category m);
        JStr (firstn (fp_cut cfg) (if fp_formatted cfg then shown (s_msg m) else s_text m))].
(* SentryFormatter(sdk).format(m), with the Qt version string and the fresh id as given inputs *)
Definition sentry_members (cfg : sentry_cfg) (qtver event_id : str) (m : smsg) : list (str * json) :=
  [(k_event_id, JStr event_id); (k_timestamp, JStr (iso_utc (s_time_ms m))); (k_platform, JStr k_native);
   (k_level, JStr (level_name cfg (mtype (s_msg m))))]
  ++ ev_logger cfg m
  ++ [(k_message, JObj [(k_formatted, JStr (if msg_formatted cfg then shown (s_msg m) else s_text m))])]
  ++ ev_culprit m
  ++ [(k_tags, JObj (ev_tags cfg qtver m)); (k_extra, JObj (ev_extra cfg m)); (k_contexts, JObj (ev_contexts cfg qtver m));
      (k_sdk, JObj [(k_name, JStr (sdk_name cfg)); (k_version, JStr (sdk_version cfg))]);
      (k_fingerprint, ev_fingerprint cfg m)].
Definition sentry_event (cfg : sentry_cfg) (qtver event_id : str) (m : smsg) : json := JObj (sentry_members cfg qtver event_id m).
Definition sentry_format (cfg : sentry_cfg) (qtver event_id : str) (m : smsg) : str :=
  write_doc true (sort_keys (sentry_event cfg qtver event_id m)).

(* ------------------------------------------------------------------ the specification side *)
(* severity names by QtMsgType value: 0 debug, 1 warning, 2 critical -> "error", 3 fatal, 4 info *)
Definition spec_level (t : N) : str :=
  if t =? 0 then [100;101;98;117;103] else if t =? 1 then [119;97;114;110;105;110;103]
  else if t =? 2 then [101;114;114;111;114] else if t =? 3 then [102;97;116;97;108] else [105;110;102;111].
Definition k_appname : str := [97;112;112;110;97;109;101].
Definition k_appversion : str := [97;112;112;118;101;114;115;105;111;110].
Definition k_os_name : str := [111;115;95;110;97;109;101].
Definition k_os_version : str := [111;115;95;118;101;114;115;105;111;110].
Definition k_kernel_version : str := [107;101;114;110;101;108;95;118;101;114;115;105;111;110].
Definition k_build_abi : str := [98;117;105;108;100;95;97;98;105].
Definition k_cpu_arch : str := [99;112;117;95;97;114;99;104].
Definition k_host_name : str := [104;111;115;116;95;110;97;109;101].
Definition k_app_name : str := [97;112;112;95;110;97;109;101].
Definition k_app_version : str := [97;112;112;95;118;101;114;115;105;111;110].
Definition k_build : str := [98;117;105;108;100].
Definition k_arch : str := [97;114;99;104].
(* the dedicated slots (documented output format): slot object, field name, attribute name *)
Definition spec_routes : list (slot * (str * str)) :=
  [(STag, (k_app_name, k_appname)); (STag, (k_app_version, k_appversion));
   (SOs, (k_name, k_os_name)); (SOs, (k_version, k_os_version)); (SOs, (k_kernel_version, k_kernel_version));
   (SOs, (k_build, k_build_abi)); (SDevice, (k_arch, k_cpu_arch)); (SDevice, (k_name, k_host_name))].
Definition spec_routed : list str := map (fun r => snd (snd r)) spec_routes.
Definition is_routed (k : str) : bool := existsb (seqb k) spec_routed.
Definition spec_cfg (sdkn sdkv : str) : sentry_cfg := {|
  level_names := [(0, spec_level 0); (4, spec_level 4); (1, spec_level 1); (2, spec_level 2); (3, spec_level 3)];
  level_default := spec_level 4;
  routes := spec_routes; skipped := spec_routed; fp_cut := 100; fp_formatted := false; msg_formatted := false;
  logger_unless_empty := true; logger_unless_default := true; sdk_name := sdkn; sdk_version := sdkv |}.

(* decidable equality of configurations (field by field) *)
Fixpoint list_eqb {A} (eqb : A -> A -> bool) (a b : list A) : bool :=
  match a, b with [], [] => true | x :: a', y :: b' => eqb x y && list_eqb eqb a' b' | _, _ => false end.
Definition route_eqb (a b : slot * (str * str)) : bool :=
  slot_eqb (fst a) (fst b) && seqb (fst (snd a)) (fst (snd b)) && seqb (snd (snd a)) (snd (snd b)).
Definition sentry_cfg_goodb (cfg : sentry_cfg) : bool :=
  list_eqb (fun a b => (fst a =? fst b) && seqb (snd a) (snd b)) (level_names cfg) (level_names (spec_cfg [] []))
  && seqb (level_default cfg) (spec_level 4)
  && list_eqb route_eqb (routes cfg) spec_routes && list_eqb seqb (skipped cfg) spec_routed
  && Nat.eqb (fp_cut cfg) 100 && negb (fp_formatted cfg) && negb (msg_formatted cfg)
  && logger_unless_empty cfg && logger_unless_default cfg
  && unitsb (sdk_name cfg) && unitsb (sdk_version cfg).

(* navigation in a parsed event *)
Definition get2 (ev : list (str * json)) (a b : str) : option json :=
  match look a ev with Some (JObj o) => look b o | _ => None end.
Definition get3 (ev : list (str * json)) (a b c : str) : option json :=
  match look a ev with Some (JObj o) => get2 o b c | _ => None end.
Definition slot_get (ev : list (str * json)) (sl : slot) (name : str) : option json :=
  match sl with STag => get2 ev k_tags name | SOs => get3 ev k_contexts k_os name | SDevice => get3 ev k_contexts k_device name end.
Fixpoint route_of (k : str) (l : list (slot * (str * str))) : option (slot * str) :=
  match l with [] => None | r :: t => if seqb k (snd (snd r)) then Some (fst r, fst (snd r)) else route_of k t end.

(* every custom attribute, at its last setting, sits in exactly one place with its value: a routed
   name in its dedicated slot (as a string) and not under extra, any other name under extra *)
(* values a string-valued slot can carry: strings, and numbers / booleans as their text.  A list, a
   map or null cannot be rendered into a tag/context string without loss. *)
Definition scalarb (v : json) : bool := match v with JStr _ | JNum _ | JBool _ => true | _ => false end.
Definition absent (o : option json) : bool := match o with None => true | Some _ => false end.
Fixpoint attrs_conserved (ev : list (str * json)) (l : list (str * json)) : bool :=
  match l with
  | [] => true
  | (k, v) :: r =>
      (if has_key k r then true
       else match route_of k spec_routes with
            | Some (sl, name) =>
                if scalarb v
                then opt_json_eqb (slot_get ev sl name) (JStr (to_qstring v)) && absent (get2 ev k_extra k)
                else (* intact means: the value itself, in the slot or under extra, once *)
                     (opt_json_eqb (slot_get ev sl name) (sort_keys v) && absent (get2 ev k_extra k))
                     || (opt_json_eqb (get2 ev k_extra k) (sort_keys v) && absent (slot_get ev sl name))
            | None => opt_json_eqb (get2 ev k_extra k) (sort_keys v)
            end)
      && attrs_conserved ev r
  end.
(* the attribute lists for which the faithful model conserves every value: routed names carry scalars *)
Definition routed_scalar (l : list (str * json)) : bool :=
  forallb (fun kv => negb (is_routed (fst kv)) || scalarb (snd kv)) l.
Definition id_ok (ev : list (str * json)) : bool :=
  match look k_event_id ev with Some (JStr s) => is_hex32 s | _ => false end.
(* The boolean oracle, evaluated on what the implementation printed for message m *)
Definition prop_c18_b (m : smsg) (out : str) : bool :=
  match parse_doc out with
  | Some (JObj ev) =>
      id_ok ev
      && opt_json_eqb (look k_timestamp ev) (JStr (iso_utc (s_time_ms m)))
      && opt_json_eqb (look k_level ev) (JStr (spec_level (mtype (s_msg m))))
      && opt_json_eqb (get2 ev k_message k_formatted) (JStr (s_text m))
      && (if is_nil (s_cat m) || seqb (s_cat m) s_default
          then match look k_logger ev with None => true | Some _ => false end
          else opt_json_eqb (look k_logger ev) (JStr (s_cat m)))
      && opt_json_eqb (look k_fingerprint ev)
           (JArr [JStr (spec_level (mtype (s_msg m))); JStr (fp_category m); JStr (firstn 100 (s_text m))])
      && attrs_conserved ev (s_attrs m)
  | _ => false
  end.

(* ------------------------------------------------------------------ front end (round 8)
   How an application obtains the SentryFormatter OBJECT: SimplePipeline::formatToSentry(sdkName, sdkVersion), both
   parameters with default arguments.  The SentryFormatter constructor has the same two parameters; its defaults are
   the sdk strings of the translated configuration, so [with_sdk cfg n v] is the behaviour of SentryFormatter(n, v). *)
Definition with_sdk (cfg : sentry_cfg) (n v : str) : sentry_cfg := {|
  level_names := level_names cfg; level_default := level_default cfg; routes := routes cfg; skipped := skipped cfg;
  fp_cut := fp_cut cfg; fp_formatted := fp_formatted cfg; msg_formatted := msg_formatted cfg;
  logger_unless_empty := logger_unless_empty cfg; logger_unless_default := logger_unless_default cfg;
  sdk_name := n; sdk_version := v |}.
(* the arguments the caller writes: (), (n) or (n, v) *)
Inductive sdk_call := SdkNone | SdkName (n : str) | SdkBoth (n v : str).
(* SentryFormatter(args) constructed directly: omitted positions take the constructor's defaults *)
Definition direct_args (cfg : sentry_cfg) (c : sdk_call) : str * str :=
  match c with SdkNone => (sdk_name cfg, sdk_version cfg) | SdkName n => (n, sdk_version cfg) | SdkBoth n v => (n, v) end.
Definition direct_cfg (cfg : sentry_cfg) (c : sdk_call) : sentry_cfg := with_sdk cfg (fst (direct_args cfg c)) (snd (direct_args cfg c)).
(* the front end, as read from simplepipeline.cpp / simplepipeline.h *)
Inductive front_arg := FAName | FAVersion.      (* which parameter of formatToSentry stands at a constructor-argument position *)
Inductive front_obj :=
| FOFresh (args : list front_arg)               (* append(SentryFormatterPtr::create(args...)) *)
| FOInstance.                                   (* append(SentryFormatter::instance()): the shared default-constructed object *)
Record sentry_front := {
  front_object : front_obj;
  front_default_name : str; front_default_version : str }.   (* default arguments in the declaration of formatToSentry *)
(* the values of the two parameters inside formatToSentry for a call *)
Definition front_params (fr : sentry_front) (c : sdk_call) : str * str :=
  match c with
  | SdkNone => (front_default_name fr, front_default_version fr)
  | SdkName n => (n, front_default_version fr)
  | SdkBoth n v => (n, v)
  end.
Definition front_pick (a : front_arg) (p : str * str) : str := match a with FAName => fst p | FAVersion => snd p end.
(* the constructor arguments (after the constructor's own defaults) of the object formatToSentry(c) appends *)
Definition front_args (cfg : sentry_cfg) (fr : sentry_front) (c : sdk_call) : str * str :=
  let p := front_params fr c in
  match front_object fr with
  | FOFresh [] => (sdk_name cfg, sdk_version cfg)
  | FOFresh [a] => (front_pick a p, sdk_version cfg)
  | FOFresh (a :: b :: _) => (front_pick a p, front_pick b p)
  | FOInstance => (sdk_name cfg, sdk_version cfg)
  end.
Definition front_cfg (cfg : sentry_cfg) (fr : sentry_front) (c : sdk_call) : sentry_cfg :=
  with_sdk cfg (fst (front_args cfg fr c)) (snd (front_args cfg fr c)).
(* the event text produced by the formatter object obtained through SimplePipeline().formatToSentry(c) *)
Definition front_format (cfg : sentry_cfg) (fr : sentry_front) (c : sdk_call) (qtver event_id : str) (m : smsg) : str :=
  sentry_format (front_cfg cfg fr c) qtver event_id m.
(* what the translated front end must be: a new object from (sdkName, sdkVersion) in this order, and the declaration's
   default arguments are the constructor's *)
Definition front_goodb (cfg : sentry_cfg) (fr : sentry_front) : bool :=
  match front_object fr with FOFresh [FAName; FAVersion] => true | _ => false end
  && seqb (front_default_name fr) (sdk_name cfg) && seqb (front_default_version fr) (sdk_version cfg).
Definition call_unitsb (c : sdk_call) : bool :=
  match c with SdkNone => true | SdkName n => unitsb n | SdkBoth n v => unitsb n && unitsb v end.
