(* C19 — Configuration front-ends build the documented pipeline, end to end.
   Property theorems only.  [src_ini], [src_oneline], [src_inst] are what tools/s2c/config.py reads
   from /repo/src/qtlogger (configure.cpp, logger.cpp, prettyformatter.h, stderrsink.h,
   platformstdsink.h, rotatingfilesink.h) on every run; the first three theorems check them against
   the documented configuration, every other theorem is stated about the translated source and the
   same definitions that are extracted and run against the library. *)
From Coq Require Import List NArith ZArith Bool String.
Import ListNotations.
Require Import QtlVerif.ConfigDefs QtlVerif.ConfigProofs QtlVerif.SrcConfig.
Local Open Scope N_scope.

(* ---- the translated source is the documented configuration (closed terms, by computation) ---- *)
Theorem C19_source_ini_is_documented : src_ini = doc_ini.
Proof. exact (eq_refl doc_ini). Qed.
Print Assumptions C19_source_ini_is_documented.
Theorem C19_source_oneline_is_documented : src_oneline = doc_oneline.
Proof. exact (eq_refl doc_oneline). Qed.
Print Assumptions C19_source_oneline_is_documented.
Theorem C19_source_install_is_documented : src_inst = doc_inst.
Proof. exact (eq_refl doc_inst). Qed.
Print Assumptions C19_source_install_is_documented.

(* ---- INI front-end ---- *)
(* ini_shape: for every settings object the handler list is filters ++ [formatter] ++ sinks *)
Theorem C19_ini_shape : forall s,
  build_ini src_ini s = filters_of s ++ [formatter_of s] ++ sinks_of s
  /\ forallb is_filter (filters_of s) = true /\ is_formatter (formatter_of s) = true
  /\ forallb is_sink (sinks_of s) = true.
Proof.
  exact (eq_ind_r (fun src => forall s, build_ini src s = filters_of s ++ [formatter_of s] ++ sinks_of s
                     /\ forallb is_filter (filters_of s) = true /\ is_formatter (formatter_of s) = true
                     /\ forallb is_sink (sinks_of s) = true)
           (fun s => conj (ini_shape s) (conj (filters_of_ok s) (conj (formatter_of_ok s) (sinks_of_ok s))))
           C19_source_ini_is_documented).
Qed.
Print Assumptions C19_ini_shape.
(* the pipeline-evaluation lemma over that shape: ANY list filters ++ [formatter] ++ sinks sends every
   message passing all filters to every sink once, with the formatter's text, and nothing else *)
Theorem C19_shape_evaluation : forall e fs f ss,
  forallb is_filter fs = true -> is_formatter f = true -> forallb is_sink ss = true ->
  forall ms st, run_all e (with_st fs ++ (f, st) :: with_st ss) ms = shape_events e fs f ss st ms.
Proof. exact shape_eval. Qed.
Print Assumptions C19_shape_evaluation.
(* full strength: for ALL settings, terminals and message streams, what the built pipeline emits is
   exactly what the keys say: the passing messages, each to the configured outputs in order, formatted
   by the selected formatter *)
Theorem C19_ini_outputs_are_what_the_keys_say : forall s e ms,
  run e (build_ini src_ini s) ms = spec_events s e ms.
Proof.
  exact (eq_ind_r (fun src => forall s e ms, run e (build_ini src s) ms = spec_events s e ms)
           ini_run_is_spec C19_source_ini_is_documented).
Qed.
Print Assumptions C19_ini_outputs_are_what_the_keys_say.
(* exactly once per configured output: the records of output o are the renderings of the formatted
   passing messages, one each, in order *)
Theorem C19_ini_configured_output_exactly_once : forall s e ms o, configured s o = true ->
  project o (run e (build_ini src_ini s) ms)
  = map (fun mf => render s e o (fst mf) (snd mf)) (formatted s ms)
  /\ map fst (formatted s ms) = filter (passes s) ms.
Proof.
  exact (eq_ind_r (fun src => forall s e ms o, configured s o = true ->
                     project o (run e (build_ini src s) ms)
                     = map (fun mf => render s e o (fst mf) (snd mf)) (formatted s ms)
                     /\ map fst (formatted s ms) = filter (passes s) ms)
           (fun s e ms o H => conj (ini_configured_output_exactly_once s e ms o H) (formatted_are_passing s ms p0))
           C19_source_ini_is_documented).
Qed.
Print Assumptions C19_ini_configured_output_exactly_once.
(* ... and at no other *)
Theorem C19_ini_no_other_output : forall s e ms o, configured s o = false ->
  project o (run e (build_ini src_ini s) ms) = [].
Proof.
  exact (eq_ind_r (fun src => forall s e ms o, configured s o = false -> project o (run e (build_ini src s) ms) = [])
           ini_no_other_output C19_source_ini_is_documented).
Qed.
Print Assumptions C19_ini_no_other_output.
(* the oracle the check evaluates on the child processes' streams holds of the model *)
Theorem C19_ini_oracle_holds : forall s e ms,
  let evs := run e (build_ini src_ini s) ms in
  prop_ini_b s e ms (stream_text (project OStdout evs)) (stream_text (stderr_records evs))
             (stream_text (project OFile evs)) = true.
Proof.
  exact (eq_ind_r (fun src => forall s e ms, let evs := run e (build_ini src s) ms in
                     prop_ini_b s e ms (stream_text (project OStdout evs)) (stream_text (stderr_records evs))
                                (stream_text (project OFile evs)) = true)
           ini_oracle_holds C19_source_ini_is_documented).
Qed.
Print Assumptions C19_ini_oracle_holds.

(* ---- one-line front-end ---- *)
Theorem C19_oneline_shape : forall a,
  build_oneline src_oneline a = [HPretty true 15; HPlatform CNever] ++ ol_tail a.
Proof.
  exact (eq_ind_r (fun src => forall a, build_oneline src a = [HPretty true 15; HPlatform CNever] ++ ol_tail a)
           oneline_shape C19_source_oneline_is_documented).
Qed.
Print Assumptions C19_oneline_shape.
(* oneline_file_is_console_minus_sgr: record by record and as whole texts; no other output *)
Theorem C19_oneline_file_is_console_minus_sgr : forall e a ms, emptyb (o_path a) = false ->
  let evs := run e (build_oneline src_oneline a) ms in
  project OFile evs = map strip_sgr (stderr_records evs)
  /\ stream_text (project OFile evs) = strip_sgr (stream_text (stderr_records evs))
  /\ project OStdout evs = [] /\ project OStderr evs = [] /\ project OSyslog evs = [].
Proof.
  exact (eq_ind_r (fun src => forall e a ms, emptyb (o_path a) = false ->
                     let evs := run e (build_oneline src a) ms in
                     project OFile evs = map strip_sgr (stderr_records evs)
                     /\ stream_text (project OFile evs) = strip_sgr (stream_text (stderr_records evs))
                     /\ project OStdout evs = [] /\ project OStderr evs = [] /\ project OSyslog evs = [])
           oneline_file_is_console_minus_sgr C19_source_oneline_is_documented).
Qed.
Print Assumptions C19_oneline_file_is_console_minus_sgr.
Theorem C19_oneline_without_path_console_only : forall e a ms, emptyb (o_path a) = true ->
  forall o, o <> OPlatform -> project o (run e (build_oneline src_oneline a) ms) = [].
Proof.
  exact (eq_ind_r (fun src => forall e a ms, emptyb (o_path a) = true ->
                     forall o, o <> OPlatform -> project o (run e (build_oneline src a) ms) = [])
           oneline_no_path_console_only C19_source_oneline_is_documented).
Qed.
Print Assumptions C19_oneline_without_path_console_only.
(* when time, category and text carry no ESC, the file holds exactly the uncoloured records *)
Theorem C19_oneline_file_is_plain_pretty : forall e a ms, emptyb (o_path a) = false -> Forall no_esc_msg ms ->
  project OFile (run e (build_oneline src_oneline a) ms) = plain_records p0 ms.
Proof.
  exact (eq_ind_r (fun src => forall e a ms, emptyb (o_path a) = false -> Forall no_esc_msg ms ->
                     project OFile (run e (build_oneline src a) ms) = plain_records p0 ms)
           oneline_file_is_plain_pretty C19_source_oneline_is_documented).
Qed.
Print Assumptions C19_oneline_file_is_plain_pretty.
Theorem C19_oneline_oracle_holds : forall e a ms, emptyb (o_path a) = false ->
  let evs := run e (build_oneline src_oneline a) ms in
  prop_oneline_b (stream_text (stderr_records evs)) (stream_text (project OFile evs)) = true.
Proof.
  exact (eq_ind_r (fun src => forall e a ms, emptyb (o_path a) = false ->
                     let evs := run e (build_oneline src a) ms in
                     prop_oneline_b (stream_text (stderr_records evs)) (stream_text (project OFile evs)) = true)
           oneline_oracle_holds C19_source_oneline_is_documented).
Qed.
Print Assumptions C19_oneline_oracle_holds.

(* ---- strip_sgr removes exactly the SGR sequences ESC [ [0-9;]* m ---- *)
(* the scanner the source's regular expression denotes is the SGR scanner *)
Theorem C19_source_strip_is_strip_sgr : forall s, strip (ol_strip_class src_oneline) s = strip_sgr s.
Proof.
  exact (eq_ind_r (fun src => forall s, strip (ol_strip_class src) s = strip_sgr s)
           (fun s => (eq_refl : strip (ol_strip_class doc_oneline) s = strip_sgr s)) C19_source_oneline_is_documented).
Qed.
Print Assumptions C19_source_strip_is_strip_sgr.
(* strip_sgr_spec: the result is THE text obtained by scanning from the left, dropping every complete
   sequence met (its parameter run is maximal) and keeping every other character *)
Theorem C19_strip_sgr_spec : forall s,
  Strip sgr_class s (strip_sgr s) /\ (forall a, Strip sgr_class s a -> a = strip_sgr s).
Proof. exact (fun s => conj (strip_spec sgr_class sgr_m s) (fun a H => strip_unique sgr_class sgr_m s a H)). Qed.
Print Assumptions C19_strip_sgr_spec.
(* characters outside the removed sequences are preserved in order *)
Theorem C19_strip_sgr_keeps_order : forall s, Subseq (strip_sgr s) s.
Proof. exact (strip_subseq sgr_class sgr_m). Qed.
Print Assumptions C19_strip_sgr_keeps_order.
(* text without ESC is untouched; a complete sequence in front of any text disappears *)
Theorem C19_strip_sgr_plain_and_sequences : forall t r ps,
  ~ In ESC t -> forallb (in_class sgr_class) ps = true ->
  strip_sgr (t ++ ESC :: LBR :: ps ++ LM :: r) = t ++ strip_sgr r.
Proof.
  exact (fun t r ps Ht Hp => eq_trans (strip_plain_app sgr_class t _ Ht)
                               (f_equal (app t) (strip_seq_app sgr_class sgr_m ps r Hp))).
Qed.
Print Assumptions C19_strip_sgr_plain_and_sequences.
(* The assignment also asked for idempotence.  FULL STATEMENT (false of the faithful model):
     forall s, strip_sgr (strip_sgr s) = strip_sgr s.
   Removing an inner sequence can join the two halves of an outer one, exactly as
   QString::remove(QRegularExpression) does: *)
Theorem C19_strip_sgr_idempotent_refuted : exists s, strip_sgr (strip_sgr s) <> strip_sgr s.
Proof. exact strip_idempotent_refuted. Qed.
Print Assumptions C19_strip_sgr_idempotent_refuted.
(* what does hold: once the result carries no ESC, stripping again changes nothing *)
Theorem C19_strip_sgr_idempotent_partial : forall s, ~ In ESC (strip_sgr s) -> strip_sgr (strip_sgr s) = strip_sgr s.
Proof. exact (strip_idempotent_partial sgr_class). Qed.
Print Assumptions C19_strip_sgr_idempotent_partial.
(* stripping a coloured PrettyFormatter record gives the uncoloured record (same formatter state) *)
Theorem C19_strip_of_coloured_pretty_is_plain_pretty : forall w st m, no_esc_msg m ->
  fst (pretty true w st m) = fst (pretty false w st m)
  /\ strip_sgr (snd (pretty true w st m)) = snd (pretty false w st m).
Proof. exact strip_pretty. Qed.
Print Assumptions C19_strip_of_coloured_pretty_is_plain_pretty.

(* ---- several PrettyFormatter objects in one process (two sub-pipelines each with formatPretty(), a
   second Logger, a re-configuration): the thread numbering and the category column belong to the
   OBJECT.  [multi cfgs ops] runs the deliveries ops = (object number, message) in order ---- *)
(* the records of one object are those of one fresh formatter run over the messages delivered to IT *)
Theorem C19_pretty_object_output_is_function_of_own_sequence : forall cfgs ops k c w,
  nth_error cfgs k = Some (c, w) ->
  out_of k (multi cfgs ops) = pretty_seq c w p0 (seen_by k ops).
Proof. exact multi_object_own_sequence. Qed.
Print Assumptions C19_pretty_object_output_is_function_of_own_sequence.
(* what the other objects were given, and in which interleaving, does not matter *)
Theorem C19_pretty_objects_independent : forall cfgs ops ops' k,
  (k < List.length cfgs)%nat -> seen_by k ops = seen_by k ops' ->
  out_of k (multi cfgs ops) = out_of k (multi cfgs ops').
Proof. exact multi_object_independent. Qed.
Print Assumptions C19_pretty_objects_independent.
(* the extracted oracle evaluated on the library's records says exactly that, and the model passes it *)
Theorem C19_pretty_objects_oracle_sound : forall cfgs ops outs, prop_multi_b cfgs ops outs = true ->
  forall k c w, nth_error cfgs k = Some (c, w) -> out_of k outs = pretty_seq c w p0 (seen_by k ops).
Proof. exact multi_oracle_sound. Qed.
Print Assumptions C19_pretty_objects_oracle_sound.
Theorem C19_pretty_objects_model_satisfies_oracle : forall cfgs ops, prop_multi_b cfgs ops (multi cfgs ops) = true.
Proof. exact multi_satisfies_oracle. Qed.
Print Assumptions C19_pretty_objects_model_satisfies_oracle.

(* ---- install / restore, for ALL histories of Install k | Restore | foreign calls | Create k |
   Destroy k: several Logger objects (0 = the singleton, others made with the public constructor)
   that come and go; Logger = the one static Logger::messageHandler all of them install ---- *)
(* (a) when the logger's handler is current, Restore leaves the handler that was current just before
   the logger's handler last took over from a non-logger handler (read off the observable trace) -
   whichever logger objects installed it and whether or not they still exist - and that handler
   receives the messages emitted afterwards *)
Theorem C19_restore_reinstates : forall ops, cur (irun src_inst ops) = Logger ->
  exists p, last_takeover Default (map fst (itrace src_inst ops)) None = Some p /\ p <> Logger
            /\ cur (istep src_inst (irun src_inst ops) Restore) = p
            /\ receiver (istep src_inst (irun src_inst ops) Restore) = recv_of p.
Proof.
  exact (eq_ind_r (fun src => forall ops, cur (irun src ops) = Logger ->
                     exists p, last_takeover Default (map fst (itrace src ops)) None = Some p /\ p <> Logger
                               /\ cur (istep src (irun src ops) Restore) = p
                               /\ receiver (istep src (irun src ops) Restore) = recv_of p)
           restore_reinstates C19_source_install_is_documented).
Qed.
Print Assumptions C19_restore_reinstates.
(* (b) otherwise (a newer foreign handler, or Qt's default) the current handler stays *)
Theorem C19_restore_leaves_newer_foreign_handler : forall ops, cur (irun src_inst ops) <> Logger ->
  cur (istep src_inst (irun src_inst ops) Restore) = cur (irun src_inst ops).
Proof.
  exact (eq_ind_r (fun src => forall ops, cur (irun src ops) <> Logger ->
                     cur (istep src (irun src ops) Restore) = cur (irun src ops))
           restore_leaves_other C19_source_install_is_documented).
Qed.
Print Assumptions C19_restore_leaves_newer_foreign_handler.
(* object lifetime, stated directly: from ANY state in which a non-logger handler h is current, let
   Logger objects be created, installed (any of them, any number of times) and destroyed in any
   order; if the logger's handler is current afterwards, Restore reinstates h and h receives the
   messages - in particular after the installing logger is gone *)
Theorem C19_restore_reinstates_whatever_the_logger_lifetimes : forall s mid,
  cur s <> Logger -> forallb logger_op mid = true ->
  cur (fold_left (istep src_inst) mid s) = Logger ->
  cur (istep src_inst (fold_left (istep src_inst) mid s) Restore) = cur s
  /\ receiver (istep src_inst (fold_left (istep src_inst) mid s) Restore) = recv_of (cur s).
Proof.
  exact (eq_ind_r (fun src => forall s mid, cur s <> Logger -> forallb logger_op mid = true ->
                     cur (fold_left (istep src) mid s) = Logger ->
                     cur (istep src (fold_left (istep src) mid s) Restore) = cur s
                     /\ receiver (istep src (fold_left (istep src) mid s) Restore) = recv_of (cur s))
           lifetime_restore C19_source_install_is_documented).
Qed.
Print Assumptions C19_restore_reinstates_whatever_the_logger_lifetimes.
(* a Logger object going away changes neither Qt's current handler nor the handler to reinstate *)
Theorem C19_destroying_a_logger_keeps_both_handlers : forall s k,
  cur (istep src_inst s (Destroy k)) = cur s /\ saved (istep src_inst s (Destroy k)) = saved s.
Proof.
  exact (eq_ind_r (fun src => forall s k, cur (istep src s (Destroy k)) = cur s /\ saved (istep src s (Destroy k)) = saved s)
           destroy_keeps_handlers C19_source_install_is_documented).
Qed.
Print Assumptions C19_destroying_a_logger_keeps_both_handlers.
(* repeated Install never saves the logger's own handler; whenever the logger's handler is current
   there is a handler to reinstate; the logger the static handler forwards to always exists *)
Theorem C19_install_never_saves_own_handler : forall ops,
  saved (irun src_inst ops) <> Some Logger /\ (cur (irun src_inst ops) = Logger -> saved (irun src_inst ops) <> None)
  /\ (forall k, active (irun src_inst ops) = Some k -> memb k (alive (irun src_inst ops)) = true).
Proof.
  exact (eq_ind_r (fun src => forall ops, saved (irun src ops) <> Some Logger
                                           /\ (cur (irun src ops) = Logger -> saved (irun src ops) <> None)
                                           /\ (forall k, active (irun src ops) = Some k -> memb k (alive (irun src ops)) = true))
           run_inv C19_source_install_is_documented).
Qed.
Print Assumptions C19_install_never_saves_own_handler.
Theorem C19_install_twice_is_install_once : forall s k,
  istep src_inst (istep src_inst s (Install k)) (Install k) = istep src_inst s (Install k).
Proof.
  exact (eq_ind_r (fun src => forall s k, istep src (istep src s (Install k)) (Install k) = istep src s (Install k))
           (install_twice : forall s k, istep doc_inst (istep doc_inst s (Install k)) (Install k) = istep doc_inst s (Install k))
           C19_source_install_is_documented).
Qed.
Print Assumptions C19_install_twice_is_install_once.
(* an install by ANOTHER logger object keeps the handler to reinstate, and makes that logger the receiver *)
Theorem C19_install_by_another_logger : forall s j k, memb j (alive s) = true ->
  saved (istep src_inst (istep src_inst s (Install j)) (Install k)) = saved (istep src_inst s (Install j))
  /\ receiver (istep src_inst s (Install j)) = RLogger j.
Proof.
  exact (eq_ind_r (fun src => forall s j k, memb j (alive s) = true ->
                     saved (istep src (istep src s (Install j)) (Install k)) = saved (istep src s (Install j))
                     /\ receiver (istep src s (Install j)) = RLogger j)
           (fun s j k H => conj (install_other_keeps_saved s j k H) (install_receives s j H))
           C19_source_install_is_documented).
Qed.
Print Assumptions C19_install_by_another_logger.
Theorem C19_restore_idempotent : forall s,
  istep src_inst (istep src_inst s Restore) Restore = istep src_inst s Restore.
Proof.
  exact (eq_ind_r (fun src => forall s, istep src (istep src s Restore) Restore = istep src s Restore)
           (restore_idempotent : forall s, istep doc_inst (istep doc_inst s Restore) Restore = istep doc_inst s Restore)
           C19_source_install_is_documented).
Qed.
Print Assumptions C19_restore_idempotent.
(* "however often install was called": after any history, n+1 installs by an existing logger and one
   restore give back the handler that was active before the logger was installed *)
Theorem C19_install_n_restore : forall ops k n, cur (irun src_inst ops) <> Logger ->
  memb k (alive (irun src_inst ops)) = true ->
  cur (irun src_inst (ops ++ repeat (Install k) (S n) ++ [Restore])) = cur (irun src_inst ops).
Proof.
  exact (eq_ind_r (fun src => forall ops k n, cur (irun src ops) <> Logger -> memb k (alive (irun src ops)) = true ->
                     cur (irun src (ops ++ repeat (Install k) (S n) ++ [Restore])) = cur (irun src ops))
           install_n_restore C19_source_install_is_documented).
Qed.
Print Assumptions C19_install_n_restore.
(* what today's code does BETWEEN the destruction of the active logger and the next restore / install
   (the property is silent here; recorded so that the model's prediction is explicit): the logger's
   handler stays current and the messages reach nobody *)
Theorem C19_destroyed_active_logger_swallows_until_restore : forall s k, memb k (alive s) = true ->
  receiver (istep src_inst (istep src_inst s (Install k)) (Destroy k)) = RNone.
Proof.
  exact (eq_ind_r (fun src => forall s k, memb k (alive s) = true ->
                     receiver (istep src (istep src s (Install k)) (Destroy k)) = RNone)
           destroy_active_swallows C19_source_install_is_documented).
Qed.
Print Assumptions C19_destroyed_active_logger_swallows_until_restore.
Theorem C19_install_oracle_holds : forall ops, prop_install_b ops (itrace src_inst ops) = true.
Proof.
  exact (eq_ind_r (fun src => forall ops, prop_install_b ops (itrace src ops) = true)
           install_oracle_holds C19_source_install_is_documented).
Qed.
Print Assumptions C19_install_oracle_holds.

(* ---- the file options (startup / daily / count) speak about FILES: which file holds which line.
   npre lines last modified on day d0 are found at start; days = the days of the records that reach
   the file (C19_ini_configured_output_exactly_once: one per passing message, in order) ---- *)
(* each front-end builds exactly one file sink, with these parameters *)
Theorem C19_file_sink_built : forall a s,
  (emptyb (o_path a) = false -> filter is_file (build_oneline src_oneline a) = [HFile (ol_fparams src_oneline a)])
  /\ (emptyb (k_path s) = false -> filter is_file (build_ini src_ini s) = [HFile (ini_fparams src_ini s)]).
Proof.
  exact (eq_ind_r (fun src1 => forall a s,
            (emptyb (o_path a) = false -> filter is_file (build_oneline src1 a) = [HFile (ol_fparams src1 a)])
            /\ (emptyb (k_path s) = false -> filter is_file (build_ini src_ini s) = [HFile (ini_fparams src_ini s)]))
          (eq_ind_r (fun src2 => forall a s,
            (emptyb (o_path a) = false -> filter is_file (build_oneline doc_oneline a) = [HFile (ol_fparams doc_oneline a)])
            /\ (emptyb (k_path s) = false -> filter is_file (build_ini src2 s) = [HFile (ini_fparams src2 s)]))
            (fun a s => conj (oneline_file_sink a) (ini_file_sink s)) C19_source_ini_is_documented)
          C19_source_oneline_is_documented).
Qed.
Print Assumptions C19_file_sink_built.
(* and its file layout is what the ARGUMENTS / KEYS say, for every old content and every stream *)
Theorem C19_oneline_files_are_what_the_arguments_say : forall a npre d0 days,
  prop_layout_b (ol_want a) npre d0 days (lay_obs (layout (ol_fparams src_oneline a) npre d0 days)) = true.
Proof.
  exact (eq_ind_r (fun src => forall a npre d0 days,
                     prop_layout_b (ol_want a) npre d0 days (lay_obs (layout (ol_fparams src a) npre d0 days)) = true)
           oneline_layout_ok C19_source_oneline_is_documented).
Qed.
Print Assumptions C19_oneline_files_are_what_the_arguments_say.
Theorem C19_ini_files_are_what_the_keys_say : forall s npre d0 days,
  prop_layout_b (ini_want s) npre d0 days (lay_obs (layout (ini_fparams src_ini s) npre d0 days)) = true.
Proof.
  exact (eq_ind_r (fun src => forall s npre d0 days,
                     prop_layout_b (ini_want s) npre d0 days (lay_obs (layout (ini_fparams src s) npre d0 days)) = true)
           ini_layout_ok C19_source_ini_is_documented).
Qed.
Print Assumptions C19_ini_files_are_what_the_keys_say.
(* in the property's own words, for the one-line front-end: with RotationDaily (and nothing else),
   lines written on an earlier day are moved out to <base>.<that day>.1.<suffix> as soon as a message
   of another day is logged *)
Theorem C19_oneline_daily_rotates_old_lines_out : forall a npre d0 d r,
  o_daily a = true -> o_count a <> 1%Z -> (0 < npre)%nat -> d <> d0 ->
  hd_error (fl_rot (layout (ol_fparams src_oneline a) npre d0 (d :: r))) = Some (d0, 1%nat, repeat d0 npre).
Proof.
  exact (eq_ind_r (fun src => forall a npre d0 d r, o_daily a = true -> o_count a <> 1%Z -> (0 < npre)%nat -> d <> d0 ->
                     hd_error (fl_rot (layout (ol_fparams src a) npre d0 (d :: r))) = Some (d0, 1%nat, repeat d0 npre))
           (fun a npre d0 d r Hd Hc Hn Hne =>
              old_lines_rotated_out (ol_fparams doc_oneline a) npre d0 d r
                (eq_trans (f_equal (fun b => (0 <? o_size a)%Z || o_startup a || b) Hd) (orb_true_r _))
                Hc Hn (or_intror (conj Hd Hne)))
           C19_source_oneline_is_documented).
Qed.
Print Assumptions C19_oneline_daily_rotates_old_lines_out.
(* every file holds the lines of one day, rotated files are named after it; nothing is lost *)
Theorem C19_daily_files_hold_one_day_each : forall f npre d0 days,
  f_rotating f = true -> f_daily f = true -> f_count f <> 1%Z ->
  let s := layout f npre d0 days in
  forallb (fun r : rfile => single_day (fst (fst r)) (snd r)) (fl_rot s) = true
  /\ forallb (N.eqb (fl_date s)) (fl_active s) = true
  /\ List.concat (map snd (fl_rot s)) ++ fl_active s = repeat d0 npre ++ days.
Proof.
  exact (fun f npre d0 days Hr Hd Hc =>
           conj (proj1 (layout_D f npre d0 days Hr Hd Hc))
                (conj (proj2 (layout_D f npre d0 days Hr Hd Hc)) (layout_L f npre d0 days))).
Qed.
Print Assumptions C19_daily_files_hold_one_day_each.

(* ---- the rule forms of the category-filter key: "*seg*" rejects exactly the categories that CONTAIN seg
   (wherever, also right behind a proper prefix of seg), "name*" exactly those that START with name ---- *)
Theorem C19_contains_rule_decides_exactly_for_containing_categories : forall seg en cat t,
  cat_pass [{| r_name := seg; r_kind := KContains; r_type := None; r_enabled := en |}] cat t = false
  <-> en = false /\ exists a b, cat = a ++ seg ++ b.
Proof. exact contains_rule_rejects_iff. Qed.
Print Assumptions C19_contains_rule_decides_exactly_for_containing_categories.
Theorem C19_prefix_rule_decides_exactly_for_starting_categories : forall nm en cat t,
  cat_pass [{| r_name := nm; r_kind := KPrefix; r_type := None; r_enabled := en |}] cat t = false
  <-> en = false /\ exists b, cat = nm ++ b.
Proof. exact prefix_rule_rejects_iff. Qed.
Print Assumptions C19_prefix_rule_decides_exactly_for_starting_categories.

(* ---- non-vacuity ---- *)
Definition ex_contains_rule : crule := {| r_name := qs ".ui."; r_kind := KContains; r_type := None; r_enabled := false |}.
Example C19_nonvacuous_contains_rule :
  rules_text [ex_contains_rule] = qs "*.ui.*=false"
  /\ cat_pass [ex_contains_rule] (qs "app.u.ui.list") Debug = false
  /\ cat_pass [ex_contains_rule] (qs "app.u.list") Debug = true
  /\ cat_pass [{| r_name := qs "a"; r_kind := KContains; r_type := None; r_enabled := false |}] (qs "aa") Info = false.
Proof. vm_compute. repeat split. Qed.
Definition ex_msg (t : mtype) (cat text : string) : msg :=
  {| m_type := t; m_cat := qs cat; m_text := qs text; m_tid := 0; m_time := qs "14.11.2023 22:13:20"; m_day := 19675 |}.
Definition ex_ini : ini := {|
  k_rules := [{| r_name := qs "net"; r_kind := KExact; r_type := Some Debug; r_enabled := false |}];
  k_regexp := None; k_pattern := [PLit (qs "["); PCategory; PLit (qs "] "); PMessage];
  k_stdout := Some true; k_stdout_color := None; k_stderr := None; k_stderr_color := Some true;
  k_platform := None; k_syslog := []; k_path := qs "app.log"; k_max_size := None; k_max_count := None;
  k_startup := None; k_daily := None; k_compress := None; k_async := None |}.
(* a category filter, the pattern formatter, stdout, the stderr key, the platform log (stderr too)
   and the file: the dropped message reaches nothing, the other one every output exactly once *)
Example C19_nonvacuous_ini :
  run {| tty_out := false; tty_err := true |} (build_ini src_ini ex_ini)
      [ex_msg Debug "net" "dropped"; ex_msg Info "net" "kept"]
  = [(OStdout, qs "[net] kept"); (OStderr, esc_seq "32" ++ qs "[net] kept" ++ esc_seq "0");
     (OPlatform, qs "[net] kept"); (OFile, qs "[net] kept")].
Proof. vm_compute. reflexivity. Qed.
Example C19_nonvacuous_oneline :
  run {| tty_out := false; tty_err := false |}
      (build_oneline src_oneline {| o_path := qs "app.log"; o_size := 0; o_count := 0; o_startup := false;
                                    o_daily := false; o_compress := false; o_async := true |})
      [ex_msg Warning "default" "disk full"]
  = [(OPlatform, qs "14.11.2023 22:13:20 " ++ esc_seq "38;5;208" ++ qs "W" ++ esc_seq "0" ++ qs " "
                 ++ esc_seq "38;5;172" ++ qs "disk full" ++ esc_seq "0");
     (OFile, qs "14.11.2023 22:13:20 W disk full")].
Proof. vm_compute. reflexivity. Qed.
Example C19_nonvacuous_strip :
  strip_sgr (qs "a" ++ esc_seq "1;31" ++ qs "b" ++ [ESC; LBR; 51] ++ qs "c" ++ esc_seq "" ++ [ESC])
  = qs "ab" ++ [ESC; LBR; 51] ++ qs "c" ++ [ESC].
Proof. vm_compute. reflexivity. Qed.
(* F1 I F2 I R yields F2; F1 I I R yields F1; F1 I F2 R leaves F2 (I = the singleton, logger 0) *)
Example C19_nonvacuous_install :
  map fst (itrace src_inst [ForeignInstall 1; Install 0; ForeignInstall 2; Install 0; Restore; Restore;
                            ForeignInstall 1; Install 0; Install 0; Restore; Install 0; ForeignInstall 2; Restore])
  = [Foreign 1; Logger; Foreign 2; Logger; Foreign 2; Foreign 2;
     Foreign 1; Logger; Logger; Foreign 1; Logger; Foreign 2; Foreign 2].
Proof. vm_compute. reflexivity. Qed.
(* F1; a stack logger 1 is created, installed twice and destroyed: the messages reach nobody; the
   static restore reinstates F1, which receives again.  Then two loggers: the second install moves the
   messages to logger 2; destroying logger 2 silences them although logger 1 exists; restore -> F1 *)
Example C19_nonvacuous_lifetime :
  itrace src_inst [ForeignInstall 1; Create 1; Install 1; Install 1; Destroy 1; Restore;
                   Create 1; Create 2; Install 1; Install 2; Destroy 2; Install 0; Destroy 1; Restore]
  = [(Foreign 1, RForeign 1); (Foreign 1, RForeign 1); (Logger, RLogger 1); (Logger, RLogger 1);
     (Logger, RNone); (Foreign 1, RForeign 1);
     (Foreign 1, RForeign 1); (Foreign 1, RForeign 1); (Logger, RLogger 1); (Logger, RLogger 2);
     (Logger, RNone); (Logger, RLogger 0); (Logger, RLogger 0); (Foreign 1, RForeign 1)].
Proof. vm_compute. reflexivity. Qed.
(* the oracle rejects the trace of a destructor that also forgets the handler to reinstate *)
Example C19_nonvacuous_lifetime_oracle :
  prop_install_b [Create 1; Install 1; Destroy 1; Restore]
                 [(Default, RDefault); (Logger, RLogger 1); (Logger, RNone); (Logger, RNone)] = false
  /\ prop_install_b [Create 1; Install 1; Destroy 1; Restore]
                 [(Default, RDefault); (Logger, RLogger 1); (Logger, RNone); (Default, RDefault)] = true.
Proof. vm_compute. split; reflexivity. Qed.
(* two old lines of day 100, RotationDaily only, messages on days 103 103 104: the old lines go to
   <base>.<day 100>.1, day 103 to <base>.<day 103>.1, day 104 stays in the active file; the plain
   FileSink (all five lines in one file) is rejected by the oracle *)
Example C19_nonvacuous_daily :
  let a := {| o_path := qs "app.log"; o_size := 0; o_count := 0; o_startup := false; o_daily := true;
              o_compress := false; o_async := false |} in
  lay_obs (layout (ol_fparams src_oneline a) 2 100 [103; 103; 104]) = ([(100, 1%nat, 2%nat); (103, 1%nat, 2%nat)], 1%nat)
  /\ prop_layout_b (ol_want a) 2 100 [103; 103; 104] ([], 5%nat) = false
  /\ prop_layout_b (ol_want a) 2 100 [103; 103; 104] ([(100, 1%nat, 2%nat); (103, 1%nat, 2%nat)], 1%nat) = true.
Proof. vm_compute. repeat split; reflexivity. Qed.
(* two PrettyFormatter objects, two threads (7 and 9).  Object 0 sees 7 then 9 then 7, object 1 sees 9 then 7:
   each numbers the threads in ITS order of first appearance (object 0: 7 -> T0 = blank column, 9 -> T1;
   object 1: 9 -> blank, 7 -> T1); the first record of each object carries no thread column at all.
   Records in which object 1 shows no thread column for thread 7 (a registration remembered per thread
   instead of per object) are rejected by the oracle *)
Example C19_nonvacuous_two_pretty_objects :
  let mk tid := {| m_type := Info; m_cat := s_default; m_text := qs "x"; m_tid := tid; m_time := qs "t"; m_day := 0 |} in
  let cfgs := [(false, 0%nat); (false, 0%nat)] in
  let ops := [(0%nat, mk 7); (1%nat, mk 9); (0%nat, mk 9); (1%nat, mk 7); (0%nat, mk 7)] in
  multi cfgs ops = [(0%nat, qs "t I x"); (1%nat, qs "t I x"); (0%nat, qs "t I T1 x"); (1%nat, qs "t I T1 x"); (0%nat, qs "t I    x")]
  /\ prop_multi_b cfgs ops (multi cfgs ops) = true
  /\ prop_multi_b cfgs ops [(0%nat, qs "t I x"); (1%nat, qs "t I x"); (0%nat, qs "t I T1 x"); (1%nat, qs "t I x"); (0%nat, qs "t I    x")] = false
  /\ prop_multi_b cfgs ops [(0%nat, qs "t I x"); (1%nat, qs "t I x"); (0%nat, qs "t I T1 x"); (0%nat, qs "t I    x")] = false.
Proof. vm_compute. repeat split; reflexivity. Qed.

(* ---- round 8: the fluent front-end methods of SimplePipeline, the building blocks of every configuration.
   [src_fluent] / [src_fluent_special] are translated from simplepipeline.cpp on every run (tools/s2c/fluent.py). *)
Require Import Coq.Strings.String.
Require Import QtlVerif.FluentDefs QtlVerif.SrcFluent.
Theorem C19_fluent_methods_are_the_documented_table :
  list_eqb fentry_eqb src_fluent spec_fluent = true /\ list_eqb special_eqb src_fluent_special spec_special = true.
Proof. split; vm_compute; reflexivity. Qed.
Print Assumptions C19_fluent_methods_are_the_documented_table.

(* no front-end method drops one of its parameters, and only parameterless ones hand out a shared object *)
Theorem C19_fluent_methods_hand_on_every_parameter :
  forallb hands_on_every_parameter src_fluent = true /\ forallb shared_only_without_parameters src_fluent = true.
Proof. split; vm_compute; reflexivity. Qed.
Print Assumptions C19_fluent_methods_hand_on_every_parameter.

(* the methods whose handler classes C12-C18 reason about construct a NEW object of that class from exactly their
   parameters, in order: what is proved of Class(args) holds of the handler the fluent call appends *)
Theorem C19_fluent_methods_of_the_modelled_handlers_are_transparent :
  forall n k, In (n, k) [("addSeqNumber", 1); ("filter", 1); ("filterLevel", 1); ("filterCategory", 1); ("filterDuplicate", 0);
                         ("formatPretty", 2); ("formatToJson", 1); ("formatToSentry", 2); ("sendToIODevice", 1)]%string%nat ->
  exists e, lookup (filter (fun e => negb (String.eqb (fe_class e) "FunctionFilter")) src_fluent) n k = Some e
            /\ transparent e = true /\ fe_shared e = false /\ fe_guard e = ""%string.
Proof.
  intros n k H. cbn [In] in H.
  repeat (destruct H as [H | H]; [inversion H; subst; eexists; split; [vm_compute; reflexivity | repeat split] |]).
  contradiction.
Qed.
Print Assumptions C19_fluent_methods_of_the_modelled_handlers_are_transparent.

Local Open Scope string_scope.
Example C19_fluent_nonvacuous :
  List.length src_fluent = 28%nat
  /\ hands_on_every_parameter (mk "formatToJson" ["compact"] "" "JsonFormatter" false []) = false
  /\ shared_only_without_parameters (mk "formatToJson" ["compact"] "" "JsonFormatter" true ["compact"]) = false
  /\ containsb "url" "QUrl(url)" = true.
Proof. vm_compute. repeat split. Qed.
