(* C12 (round 8) — lemmas about the front-end model of PatternFrontDefs.v.  No axioms. *)
From Coq Require Import List NArith Bool.
Require Import QtlVerif.SrcPattern QtlVerif.PatternDefs QtlVerif.PatternProofs QtlVerif.PatternFrontDefs.
Import ListNotations.
Local Open Scope N_scope.

Lemma front_good_inv fr : front_goodb fr = true ->
  otherwise fr = TPattern ACaller /\ by_qt fr = TQt /\
  (forall e, In e (named fr) -> In (fst e) reserved_names /\ target_okb (snd e) = true).
Proof.
  unfold front_goodb. intros H. apply andb_true_iff in H as [H H3]. apply andb_true_iff in H as [H1 H2].
  split; [|split].
  - destruct (otherwise fr) as [[ | | | | ]| | |]; try discriminate; reflexivity.
  - destruct (by_qt fr); try discriminate; reflexivity.
  - intros e He. rewrite forallb_forall in H3. specialize (H3 e He). apply andb_true_iff in H3 as [Ha Hb].
    split; [|exact Hb]. apply existsb_exists in Ha as [n [Hn Hq]]. apply qeqb_eq in Hq. rewrite Hq. exact Hn.
Qed.

Lemma select_cases fr p :
  (exists e, In e (named fr) /\ fst e = p /\ select fr p = snd e) \/ select fr p = otherwise fr.
Proof.
  unfold select. destruct (find (fun e => qeqb (fst e) p) (named fr)) as [e|] eqn:F; [left|right; reflexivity].
  apply find_some in F as [Hi Hq]. apply qeqb_eq in Hq. exists e. auto.
Qed.

Lemma good_select_unreserved fr p : front_goodb fr = true -> ~ In p reserved_names -> select fr p = TPattern ACaller.
Proof.
  intros G N. destruct (front_good_inv fr G) as [Ho [_ Hn]].
  destruct (select_cases fr p) as [[e [Hi [Hf _]]] | ->]; [|exact Ho].
  exfalso. apply N. rewrite <- Hf. exact (proj1 (Hn e Hi)).
Qed.

(* a good front end keeps nothing between calls *)
Lemma good_state_unchanged fr : front_goodb fr = true -> forall st p, fst (obtain fr st p) = st.
Proof.
  intros G st p. destruct (front_good_inv fr G) as [Ho [_ Hn]]. unfold obtain.
  destruct (select_cases fr p) as [[e [Hi [_ ->]]] | ->].
  - destruct (Hn e Hi) as [_ Hk]. destruct (snd e) as [[ | | | | ]| | |]; try discriminate; reflexivity.
  - rewrite Ho. reflexivity.
Qed.
Lemma good_obtain_all fr : front_goodb fr = true -> forall hs st, obtain_all fr st hs = st.
Proof.
  intros G. induction hs as [|h hs IH]; intros st; [reflexivity|].
  unfold obtain_all in *. cbn [fold_left]. rewrite (good_state_unchanged fr G). apply IH.
Qed.

Lemma good_obtain_unreserved fr : front_goodb fr = true -> forall hs p, ~ In p reserved_names ->
  snd (obtain fr (obtain_all fr None hs) p) = Some p.
Proof. intros G hs p N. unfold obtain. rewrite (good_select_unreserved fr p G N). reflexivity. Qed.

Lemma front_transparent fr : front_goodb fr = true -> forall hs p m, ~ In p reserved_names ->
  front_format fr hs p m = Some (format_pattern p m).
Proof. intros G hs p m N. unfold front_format. rewrite (good_obtain_unreserved fr G hs p N). reflexivity. Qed.

Lemma front_seq_transparent fr : front_goodb fr = true -> forall hs p leftover ms, ~ In p reserved_names ->
  front_format_seq fr hs p leftover ms = Some (map (format_pattern p) ms).
Proof.
  intros G hs p l ms N. unfold front_format_seq. rewrite (good_obtain_unreserved fr G hs p N). cbn [option_map].
  rewrite seq_stateless. reflexivity.
Qed.

Lemma front_seq_is_direct_seq fr : front_goodb fr = true -> forall hs p leftover ms, ~ In p reserved_names ->
  front_format_seq fr hs p leftover ms = Some (format_seq p leftover ms).
Proof. intros G hs p l ms N. unfold front_format_seq. rewrite (good_obtain_unreserved fr G hs p N). reflexivity. Qed.

Lemma percent_not_reserved p : In c_pct p -> ~ In p reserved_names.
Proof.
  intros Hp Hr. unfold reserved_names in Hr. cbn [In] in Hr.
  destruct Hr as [<-|[<-|[<-|[]]]]; cbn in Hp; repeat (destruct Hp as [Hp|Hp]; [discriminate Hp|]); exact Hp.
Qed.

Lemma front_named_const fr p q : select fr p = TPattern (AConst q) -> front_goodb fr = true -> forall hs m,
  front_format fr hs p m = Some (format_pattern q m).
Proof.
  intros S G hs m. unfold front_format, obtain. rewrite S. reflexivity.
Qed.

(* ---- broken front ends ---- *)
Definition x_pat_m : qstr := [37;123;109;101;115;115;97;103;101;125].        (* "%{message}" *)
Definition x_pat_t : qstr := [37;123;116;121;112;101;125].                   (* "%{type}" *)
Definition x_pat_sp : qstr := [32;37;123;109;101;115;115;97;103;101;125].    (* " %{message}" *)
Definition x_msg_cat : msg := msg0 Info x_hello [].

Lemma dropped_front_refuted : exists p m, In c_pct p /\ front_format dropped_front [] p m <> Some (format_pattern p m).
Proof. exists x_pat_t, x_msg_cat. split; [left; reflexivity|]. vm_compute. discriminate. Qed.
Lemma shared_front_refuted : exists hs p m, In c_pct p /\ front_format shared_front hs p m <> Some (format_pattern p m)
  /\ front_format shared_front [] p m = Some (format_pattern p m).
Proof. exists [x_pat_m], x_pat_t, x_msg_cat. split; [left; reflexivity|]. split; [vm_compute; discriminate | vm_compute; reflexivity]. Qed.
Lemma trimmed_front_refuted : exists p m, In c_pct p /\ front_format trimmed_front [] p m <> Some (format_pattern p m).
Proof. exists x_pat_sp, x_msg_cat. split; [right; left; reflexivity|]. vm_compute. discriminate. Qed.
