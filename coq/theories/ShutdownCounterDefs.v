(* C04 — the width of the pending counter (definitions only).

   The model (ShutdownDefs.v) keeps [pending : nat]; the loop test of resetOwnThread() is there [0 <? pending].  The
   code keeps m_pendingCount in a machine integer of [bits] bits (tools/s2c/shutdown.py reads the declared type:
   QAtomicInt = 32) and tests `m_pendingCount.loadAcquire() > 0` on its SIGNED reading.  "All backlog sizes" in the
   property therefore means: all backlogs the counter can represent, and that range has to cover every backlog a
   process can actually queue. *)
From Coq Require Import ZArith.

(* what loadAcquire() returns after [n] net increments of a [bits]-bit two's-complement counter *)
Definition counter_reads (bits n : nat) : Z :=
  let m := Z.pow 2 (Z.of_nat bits) in
  let r := Z.modulo (Z.of_nat n) m in
  if Z.ltb r (Z.div m 2) then r else Z.sub r m.
(* the loop test of the drain loop as the code evaluates it *)
Definition drain_test (bits n : nat) : bool := Z.ltb 0 (counter_reads bits n).
(* the largest backlog for which that test is the model's test *)
Definition counter_capacity (bits : nat) : Z := Z.sub (Z.div (Z.pow 2 (Z.of_nat bits)) 2) 1.
(* the drain loop is entered for every non-empty backlog up to [n] messages *)
Definition counter_covers (bits : nat) (n : Z) : bool := Z.leb n (counter_capacity bits).
