(* C04 — lemmas about the stop protocol model of ShutdownDefs.v *)
From Coq Require Import List Arith Lia Bool.
Import ListNotations.
Require Import QtlVerif.ShutdownDefs.

(* ------------------------------------------------------------------ the invariant ----------- *)
Record Inv (s : st) : Prop := {
  i_acc : accepted s = log s ++ opt_list (inflight s) ++ queue s;
  i_pend : pending s = length (queue s) + length (opt_list (inflight s));
  i_now : worker s = false -> queue s = [] /\ inflight s = None;
  i_mtx : mtx s = true <-> rpc s = RCheck;
  i_rw : rpc s = RCheck \/ rpc s = RSleep -> worker s = true;
  i_done : rpc s = RDone -> worker s = false
}.

Lemma step_inv s a s' : Inv s -> step s a = Some s' -> Inv s'.
Proof.
  intros [Ha Hp Hn Hm Hrw Hd] H. destruct a; cbn [step] in H.
  - (* post *)
    destruct (mtx s) eqn:Em; [discriminate|]. destruct (worker s) eqn:Ew; injection H as <-; constructor; cbn.
    + rewrite Ha, <- !app_assoc. reflexivity.
    + rewrite app_length. cbn. lia.
    + intros Hx; discriminate Hx.
    + rewrite <- Hm. tauto.
    + reflexivity.
    + intros Hx. specialize (Hd Hx). discriminate.
    + destruct (Hn eq_refl) as [Hq Hi]. rewrite Ha, Hq, Hi. cbn. rewrite !app_nil_r. reflexivity.
    + exact Hp.
    + intros _. apply Hn; reflexivity.
    + rewrite <- Hm. tauto.
    + exact Hrw.
    + reflexivity.
  - (* take *)
    destruct (app s) eqn:Eapp; [|discriminate]. destruct (worker s) eqn:Ew; [|discriminate].
    destruct (inflight s) eqn:Ei; [discriminate|]. destruct (queue s) as [|m q] eqn:Eq; [discriminate|].
    injection H as <-. constructor; cbn.
    + rewrite Ha. cbn. reflexivity.
    + rewrite Hp. cbn. lia.
    + intros Hx; discriminate Hx.
    + exact Hm.
    + reflexivity.
    + intros Hx. specialize (Hd Hx). discriminate.
  - (* done *)
    destruct (inflight s) as [m|] eqn:Ei; [|discriminate]. injection H as <-. constructor; cbn.
    + rewrite Ha. cbn. rewrite <- app_assoc. reflexivity.
    + rewrite Hp. cbn. lia.
    + intros Hw. destruct (Hn Hw) as [_ Hc]. discriminate.
    + exact Hm.
    + exact Hrw.
    + exact Hd.
  - (* reset start *)
    assert (Hr : (rpc s = RIdle \/ rpc s = RDone) /\ mtx s = false).
    { destruct (rpc s), (mtx s); try discriminate; auto. }
    destruct Hr as [Hr Em].
    assert (H' : (if worker s
                  then Some (mk_st (app s) true (queue s) (inflight s) (pending s) true RCheck (log s) (accepted s))
                  else Some (mk_st (app s) false (queue s) (inflight s) (pending s) false RDone (log s) (accepted s)))
                 = Some s').
    { destruct Hr as [Hr|Hr]; rewrite Hr, Em in H; exact H. }
    clear H. destruct (worker s) eqn:Ew; injection H' as <-; constructor; cbn; try assumption;
      try tauto; try (split; discriminate); try (intros _; apply Hn; reflexivity); try discriminate;
      try reflexivity; try (intros [Hx|Hx]; discriminate).
  - (* reset check *)
    destruct (rpc s) eqn:Er; try discriminate.
    destruct (Nat.ltb_spec 0 (pending s)) as [Hgt|Hle]; injection H as <-; constructor; cbn;
      try assumption; try (split; discriminate); try discriminate; try reflexivity.
    + intros _. apply Hrw. left; reflexivity.
    + intros _. rewrite Hp in Hle. destruct (queue s); [|cbn in Hle; lia].
      destruct (inflight s); [cbn in Hle; lia|]. tauto.
    + intros [Hx|Hx]; discriminate.
  - (* wake *)
    destruct (rpc s) eqn:Er; try discriminate. destruct (mtx s) eqn:Em; [discriminate|].
    assert (Ew : worker s = true) by (apply Hrw; right; reflexivity). rewrite Ew in H.
    injection H as <-. constructor; cbn; try assumption; try tauto; try discriminate; try reflexivity.
  - (* app dies *)
    injection H as <-. constructor; cbn; assumption.
  - (* move *)
    assert (Hr : (rpc s = RIdle \/ rpc s = RDone) /\ mtx s = false /\ worker s = false).
    { destruct (rpc s), (mtx s), (worker s); try discriminate; auto. }
    destruct Hr as [Hr [Em Ew]].
    assert (H' : Some (mk_st (app s) true (queue s) (inflight s) (pending s) false RIdle (log s) (accepted s)) = Some s').
    { destruct Hr as [Hr|Hr]; rewrite Hr, Em, Ew in H; exact H. }
    clear H. injection H' as <-. constructor; cbn; try assumption; try discriminate;
      try (intros Hx; discriminate Hx); try (split; discriminate).
Qed.

Lemma init_inv a w : Inv (init a w).
Proof.
  constructor; cbn; try reflexivity; try tauto; try discriminate.
  - split; discriminate.
  - intros [H|H]; discriminate.
Qed.

Lemma run_inv_from tr : forall s, Inv s -> Inv (run s tr).
Proof.
  induction tr as [|a r IH]; intros s I; cbn [run]; [exact I|].
  destruct (step s a) eqn:E; [apply IH; eapply step_inv; eassumption|apply IH; exact I].
Qed.

Theorem run_inv a w tr : Inv (run (init a w) tr).
Proof. apply run_inv_from, init_inv. Qed.

(* whenever no worker exists (in particular after a completed stop) everything accepted so far
   has been delivered, in order *)
Lemma inv_drained s : Inv s -> worker s = false -> log s = accepted s.
Proof.
  intros I Hw. destruct (i_now s I Hw) as [Hq Hi]. rewrite (i_acc s I), Hq, Hi. cbn.
  rewrite app_nil_r. reflexivity.
Qed.

Theorem drained_when_stopped a w tr :
  let s := run (init a w) tr in worker s = false -> log s = accepted s.
Proof. intros s. apply inv_drained, run_inv. Qed.

(* a destroyed worker is never touched: once no worker exists no worker step is enabled, nothing
   is queued for it and nothing is counted as pending (so a later post is synchronous and a later
   stop returns at once) *)
Theorem no_worker_activity_after_stop a w tr :
  let s := run (init a w) tr in worker s = false ->
  step s ATake = None /\ step s ADone = None /\ queue s = [] /\ inflight s = None /\ pending s = 0.
Proof.
  intros s Hw. pose proof (run_inv a w tr) as I. fold s in I.
  destruct (i_now s I Hw) as [Hq Hi]. pose proof (i_pend s I) as Hp. rewrite Hq, Hi in Hp.
  repeat split; try assumption; cbn [step].
  - rewrite Hw. destruct (app s); reflexivity.
  - rewrite Hi. reflexivity.
Qed.

Theorem drained_when_reset_done a w tr :
  let s := run (init a w) tr in rpc s = RDone -> worker s = false /\ log s = accepted s.
Proof.
  intros s Hr. pose proof (run_inv a w tr) as I. fold s in I.
  split; [apply (i_done s I Hr)|apply inv_drained; [exact I|apply (i_done s I Hr)]].
Qed.

Theorem log_prefix a w tr : let s := run (init a w) tr in exists rest, accepted s = log s ++ rest.
Proof. intros s. pose proof (run_inv a w tr) as I. fold s in I. eexists. apply (i_acc s I). Qed.

Lemma NoDup_app_l (A : Type) (l r : list A) : NoDup (l ++ r) -> NoDup l.
Proof.
  induction l as [|x l IH]; cbn; intros H; [constructor|].
  inversion H as [|y t Hn Ht]; subst. constructor; [|apply IH; exact Ht].
  intros Hi. apply Hn. apply in_or_app. left; exact Hi.
Qed.

Theorem never_twice a w tr :
  let s := run (init a w) tr in NoDup (accepted s) -> NoDup (log s).
Proof.
  intros s H. destruct (log_prefix a w tr) as [rest E]. fold s in E. rewrite E in H.
  eapply NoDup_app_l; exact H.
Qed.

(* ------------------------------------------------------------------ monotonicity ------------- *)
Lemma step_accepted_mono s a s' : step s a = Some s' -> exists rest, accepted s' = accepted s ++ rest.
Proof.
  intros H. destruct a; cbn [step] in H.
  - destruct (mtx s); [discriminate|]. destruct (worker s); injection H as <-; cbn; eexists; reflexivity.
  - destruct (app s), (worker s), (inflight s), (queue s); try discriminate. injection H as <-. exists []. cbn. rewrite app_nil_r. reflexivity.
  - destruct (inflight s); [|discriminate]. injection H as <-. exists []. cbn. rewrite app_nil_r. reflexivity.
  - destruct (rpc s), (mtx s); try discriminate; destruct (worker s); injection H as <-; exists []; cbn; rewrite app_nil_r; reflexivity.
  - destruct (rpc s); try discriminate. destruct (0 <? pending s); injection H as <-; exists []; cbn; rewrite app_nil_r; reflexivity.
  - destruct (rpc s), (mtx s); try discriminate. destruct (worker s); injection H as <-; exists []; cbn; rewrite app_nil_r; reflexivity.
  - injection H as <-. exists []. cbn. rewrite app_nil_r. reflexivity.
  - destruct (rpc s), (mtx s), (worker s); try discriminate; injection H as <-; exists []; cbn; rewrite app_nil_r; reflexivity.
Qed.

Lemma run_accepted_mono tr : forall s, exists rest, accepted (run s tr) = accepted s ++ rest.
Proof.
  induction tr as [|a r IH]; intros s; cbn [run]; [exists []; rewrite app_nil_r; reflexivity|].
  destruct (step s a) eqn:E; [|apply IH].
  destruct (step_accepted_mono _ _ _ E) as [r1 E1]. destruct (IH s0) as [r2 E2].
  exists (r1 ++ r2). rewrite E2, E1, app_assoc. reflexivity.
Qed.

(* a message logged while no worker exists is delivered by the caller, at once *)
Theorem post_without_worker_is_synchronous s m s' :
  worker s = false -> step s (APost m) = Some s' ->
  log s' = log s ++ [m] /\ queue s' = queue s /\ pending s' = pending s.
Proof.
  intros Hw H. cbn [step] in H. destruct (mtx s); [discriminate|]. rewrite Hw in H.
  injection H as <-. cbn. auto.
Qed.

(* a message logged while a worker exists (in particular during the wait loop of a stop) is
   queued and counted *)
Theorem post_with_worker_is_queued s m s' :
  worker s = true -> step s (APost m) = Some s' ->
  queue s' = queue s ++ [m] /\ pending s' = S (pending s) /\ log s' = log s /\ rpc s' = rpc s.
Proof.
  intros Hw H. cbn [step] in H. destruct (mtx s); [discriminate|]. rewrite Hw in H.
  injection H as <-. cbn. auto.
Qed.

(* ... and never dropped: whatever happens afterwards, once no worker exists (a stop has completed)
   the message is in the log *)
Theorem accepted_is_never_dropped s m s' tr :
  Inv s -> step s (APost m) = Some s' -> worker (run s' tr) = false -> In m (log (run s' tr)).
Proof.
  intros I H Hw. assert (I' : Inv s') by (eapply step_inv; eassumption).
  pose proof (run_inv_from tr s' I') as I2. rewrite (inv_drained _ I2 Hw).
  destruct (run_accepted_mono tr s') as [rest E]. rewrite E. apply in_or_app. left.
  cbn [step] in H. destruct (mtx s); [discriminate|]. destruct (worker s); injection H as <-; cbn;
    apply in_or_app; right; left; reflexivity.
Qed.

(* a stop that wakes up from its sleep and finds no thread (another stop completed meanwhile)
   returns at once: it takes no mutex, touches neither queue nor log nor counters.  Stated for an
   ARBITRARY state: in the runs of this one-stop model the situation does not arise (i_rw). *)
Theorem wake_without_thread_returns s s' :
  worker s = false -> step s AResetWake = Some s' ->
  rpc s' = RDone /\ mtx s' = false /\ worker s' = false /\ queue s' = queue s /\ inflight s' = inflight s /\
  pending s' = pending s /\ log s' = log s /\ accepted s' = accepted s /\ app s' = app s.
Proof.
  intros Hw H. cbn [step] in H. destruct (rpc s); try discriminate. destruct (mtx s); [discriminate|].
  rewrite Hw in H. injection H as <-. cbn. repeat split; reflexivity.
Qed.

(* ------------------------------------------------------------------ F5: the hang ------------- *)
Lemma stuck_b_spec s : stuck_b s = true <->
  app s = false /\ worker s = true /\ inflight s = None /\ queue s <> [].
Proof.
  unfold stuck_b. destruct (app s), (worker s), (inflight s), (queue s); cbn; split; intros H;
    try discriminate; try reflexivity; try (destruct H as (? & ? & ? & ?); try discriminate; try contradiction).
  repeat split; discriminate.
Qed.

Lemma stuck_step s a s' : Inv s -> stuck_b s = true -> step s a = Some s' -> stuck_b s' = true.
Proof.
  intros I S H. apply stuck_b_spec in S. destruct S as (Ha & Hw & Hi & Hq). apply stuck_b_spec.
  destruct a; cbn [step] in H.
  - destruct (mtx s); [discriminate|]. rewrite Hw in H. injection H as <-. repeat split; cbn; try assumption.
    destruct (queue s); [contradiction|discriminate].
  - rewrite Ha in H. discriminate.
  - rewrite Hi in H. discriminate.
  - destruct (rpc s), (mtx s); try discriminate; rewrite Hw in H; injection H as <-; repeat split; cbn; assumption.
  - destruct (rpc s); try discriminate.
    assert (0 < pending s) by (rewrite (i_pend s I); destruct (queue s); [contradiction|cbn; lia]).
    destruct (Nat.ltb_spec 0 (pending s)); [|lia]. injection H as <-. repeat split; cbn; assumption.
  - destruct (rpc s), (mtx s); try discriminate. rewrite Hw in H. injection H as <-. repeat split; cbn; assumption.
  - injection H as <-. repeat split; cbn; assumption.
  - rewrite Hw in H. destruct (rpc s), (mtx s); discriminate.
Qed.

Theorem stuck_forever tr : forall s, Inv s -> stuck_b s = true ->
  stuck_b (run s tr) = true /\ worker (run s tr) = true /\ rpc (run s tr) <> RDone.
Proof.
  induction tr as [|a r IH]; intros s I S; cbn [run].
  - split; [exact S|]. apply stuck_b_spec in S. destruct S as (_ & Hw & _). split; [exact Hw|].
    intros Hr. rewrite (i_done s I Hr) in Hw. discriminate.
  - destruct (step s a) eqn:E; [apply IH; [eapply step_inv; eassumption|eapply stuck_step; eassumption]|apply IH; assumption].
Qed.

(* the full-strength claim "a stop returns with or without a live application object" is false of
   the model: one post, the application object goes away, the destructor's stop starts — and no
   continuation whatsoever completes it *)
Theorem reset_hangs_without_app :
  exists s, (exists tr, s = run (init true true) tr) /\ rpc s = RCheck /\
            forall tr, rpc (run s tr) <> RDone /\ log (run s tr) <> accepted (run s tr).
Proof.
  exists (run (init true true) [APost 0; AAppDie; AResetStart]). split; [eexists; reflexivity|].
  split; [reflexivity|]. intros tr.
  assert (I0 : Inv (run (init true true) [APost 0; AAppDie; AResetStart])) by apply run_inv.
  assert (S0 : stuck_b (run (init true true) [APost 0; AAppDie; AResetStart]) = true) by reflexivity.
  destruct (stuck_forever tr _ I0 S0) as (S & Hw & Hr). split; [exact Hr|].
  pose proof (run_inv_from tr _ I0) as I. apply stuck_b_spec in S. destruct S as (_ & _ & Hi & Hq).
  intros E. rewrite (i_acc _ I), Hi in E. cbn in E.
  rewrite <- (app_nil_r (log _)) in E at 1. apply app_inv_head in E. symmetry in E. contradiction.
Qed.

(* the same without any application object ever *)
Theorem reset_hangs_with_no_app_ever :
  forall tr, rpc (run (run (init false true) [APost 0; AResetStart]) tr) <> RDone.
Proof.
  intros tr.
  assert (I0 : Inv (run (init false true) [APost 0; AResetStart])) by apply run_inv.
  assert (S0 : stuck_b (run (init false true) [APost 0; AResetStart]) = true) by reflexivity.
  apply (stuck_forever tr _ I0 S0).
Qed.

(* ------------------------------------------------------------------ termination, app alive --- *)
Lemma worker_step_decreases s a s' : (a = ATake \/ a = ADone) -> step s a = Some s' -> mu s' < mu s.
Proof.
  intros [->| ->] H; cbn [step] in H; unfold mu.
  - destruct (app s), (worker s), (inflight s), (queue s); try discriminate. injection H as <-. cbn. lia.
  - destruct (inflight s) eqn:E; [|discriminate]. injection H as <-. cbn. lia.
Qed.

(* a worker step is enabled whenever there is work and the application lives *)
Lemma worker_step_enabled s : Inv s -> app s = true -> worker s = true -> 0 < mu s ->
  exists a s', (a = ATake \/ a = ADone) /\ step s a = Some s'.
Proof.
  intros I Ha Hw Hm. unfold mu in Hm. destruct (inflight s) as [m|] eqn:Ei.
  - exists ADone. eexists. split; [right; reflexivity|]. cbn [step]. rewrite Ei. reflexivity.
  - destruct (queue s) as [|m q] eqn:Eq; [cbn in Hm; lia|]. exists ATake. eexists.
    split; [left; reflexivity|]. cbn [step]. rewrite Ha, Hw, Ei, Eq. reflexivity.
Qed.

Lemma check_finishes s : Inv s -> rpc s = RCheck -> mu s = 0 ->
  exists s', step s AResetCheck = Some s' /\ rpc s' = RDone /\ worker s' = false /\ log s' = accepted s'.
Proof.
  intros I Hr Hm. cbn [step]. rewrite Hr.
  assert (Hq : queue s = []) by (unfold mu in Hm; destruct (queue s); [reflexivity|cbn in Hm; lia]).
  assert (Hi : inflight s = None) by (unfold mu in Hm; destruct (inflight s); [cbn in Hm; lia|reflexivity]).
  assert (Hp : pending s = 0) by (rewrite (i_pend s I), Hq, Hi; reflexivity).
  rewrite Hp. cbn. eexists. split; [reflexivity|]. split; [reflexivity|]. split; [reflexivity|]. cbn.
  rewrite (i_acc s I), Hq, Hi. cbn. rewrite app_nil_r. reflexivity.
Qed.

(* the check with a non-empty backlog goes to sleep and the stop is not completed *)
Lemma check_waits s : Inv s -> rpc s = RCheck -> 0 < mu s ->
  exists s', step s AResetCheck = Some s' /\ rpc s' = RSleep /\ worker s' = worker s.
Proof.
  intros I Hr Hm. cbn [step]. rewrite Hr.
  assert (0 < pending s).
  { rewrite (i_pend s I). unfold mu in Hm. lia. }
  destruct (Nat.ltb_spec 0 (pending s)); [|lia]. eexists. split; [reflexivity|]. cbn. auto.
Qed.

Lemma drain_run q : forall p m r l acc,
  run_strict (mk_st true true q None p m r l acc) (drain_schedule (length q))
  = Some (mk_st true true [] None (p - length q) m r (l ++ q) acc).
Proof.
  induction q as [|x q IH]; intros p m r l acc; cbn [length drain_schedule run_strict].
  - rewrite Nat.sub_0_r, app_nil_r. reflexivity.
  - cbn [step app worker inflight queue pending mtx rpc log accepted].
    rewrite IH. f_equal. f_equal; [destruct p; cbn; lia|rewrite <- app_assoc; reflexivity].
Qed.

Lemma run_strict_app t1 : forall s t2 s1, run_strict s t1 = Some s1 ->
  run_strict s (t1 ++ t2) = run_strict s1 t2.
Proof.
  induction t1 as [|a r IH]; intros s t2 s1 H; cbn in *.
  - injection H as <-. reflexivity.
  - destruct (step s a); [apply IH; exact H|discriminate].
Qed.

Lemma run_strict_run tr : forall s s', run_strict s tr = Some s' -> run s tr = s'.
Proof.
  induction tr as [|a r IH]; intros s s' H; cbn in *.
  - injection H as <-. reflexivity.
  - destruct (step s a); [apply IH; exact H|discriminate].
Qed.

Lemma drain_length q : length (drain_schedule q) = 2 * q.
Proof. induction q; cbn; [reflexivity|rewrite IHq; lia]. Qed.

(* With the application alive, from any point of the wait loop, the schedule "worker finishes the
   message in hand, takes and finishes every queued one, the stop wakes up and tests again" is
   enabled step by step, has at most mu+2 steps and completes the stop with everything delivered.
   (That the real scheduler eventually runs these steps, the 10 ms sleeps and the 3 s wait are
   real-time matters outside the model: hence _partial.) *)
Theorem reset_terminates_partial s :
  Inv s -> app s = true -> rpc s = RCheck \/ rpc s = RSleep ->
  exists s', run_strict s (finish_schedule s) = Some s' /\ rpc s' = RDone /\ worker s' = false /\
             log s' = accepted s /\ accepted s' = accepted s /\ length (finish_schedule s) <= mu s + 2.
Proof.
  intros I Ha Hr. pose proof (i_rw s I Hr) as Hw. pose proof (i_acc s I) as Hacc.
  pose proof (i_pend s I) as Hp. pose proof (i_mtx s I) as Hm.
  destruct s as [a w q i p m r l acc]. cbn in *. subst a w.
  unfold finish_schedule, mu. cbn [inflight queue rpc].
  assert (Hdone : exists p' l', run_strict (mk_st true true q i p m r l acc)
                                   (match i with Some _ => [ADone] | None => [] end)
                                = Some (mk_st true true q None p' m r l' acc)
                                /\ p' = length q /\ l' ++ q = acc).
  { destruct i as [x|]; cbn.
    - exists (pred p), (l ++ [x]). split; [reflexivity|]. split; [cbn in Hp; lia|].
      rewrite Hacc. cbn. rewrite <- app_assoc. reflexivity.
    - exists p, l. split; [reflexivity|]. split; [cbn in Hp; lia|]. rewrite Hacc. reflexivity. }
  destruct Hdone as (p' & l' & H1 & Hp' & Hl').
  rewrite (run_strict_app _ _ _ _ H1). rewrite (run_strict_app _ _ _ _ (drain_run q p' m r l' acc)).
  rewrite Hp', Nat.sub_diag, Hl'.
  destruct Hr as [Hr|Hr]; subst r.
  - cbn. eexists. split; [reflexivity|]. cbn. repeat split; try reflexivity.
    rewrite !app_length, drain_length. destruct i; cbn; lia.
  - assert (m = false) by (destruct m; [destruct Hm as [Hm _]; specialize (Hm eq_refl); discriminate|reflexivity]).
    subst m. cbn. eexists. split; [reflexivity|]. cbn. repeat split; try reflexivity.
    rewrite !app_length, drain_length. destruct i; cbn; lia.
Qed.

(* ------------------------------------------------------------------ the trace acceptor ------- *)
Lemma list_eqb_eq a : forall b, list_eqb a b = true <-> a = b.
Proof.
  induction a as [|x a IH]; intros [|y b]; cbn; split; intros H; try discriminate; try reflexivity.
  - apply andb_prop in H. destruct H as [H1 H2]. apply Nat.eqb_eq in H1. apply IH in H2. subst. reflexivity.
  - injection H as -> ->. rewrite Nat.eqb_refl. cbn. apply IH. reflexivity.
Qed.

Lemma astep_sound a e a' : astep a e = Some a' -> exists tr, run_strict (ms a) tr = Some (ms a').
Proof.
  unfold astep. intros H. destruct e.
  - destruct (mem m (accepted (ms a))); [discriminate|].
    destruct (negb (worker (ms a)) && negb (list_eqb (log (ms a)) (obs a))); [discriminate|].
    destruct (step (ms a) (APost m)) eqn:E; [|discriminate]. injection H as <-.
    exists [APost m]. cbn [run_strict]. rewrite E. reflexivity.
  - destruct (step (ms a) ATake) eqn:E; [|discriminate]. injection H as <-.
    exists [ATake]. cbn [run_strict]. rewrite E. reflexivity.
  - destruct sync.
    + destruct (negb (worker (ms a)) && list_eqb (log (ms a)) (obs a ++ [m])); [|discriminate].
      injection H as <-. exists []. reflexivity.
    + destruct (inflight (ms a)); [|discriminate].
      destruct (Nat.eqb m n && list_eqb (log (ms a)) (obs a)); [|discriminate].
      injection H as <-. exists []. reflexivity.
  - destruct (step (ms a) ADone) eqn:E; [|discriminate].
    destruct (list_eqb (log s) (obs a)); [|discriminate]. injection H as <-.
    exists [ADone]. cbn [run_strict]. rewrite E. reflexivity.
  - destruct (worker (ms a)); [|discriminate].
    destruct (step (ms a) AResetStart) eqn:E; [|discriminate]. injection H as <-.
    exists [AResetStart]. cbn [run_strict]. rewrite E. reflexivity.
  - destruct (run_strict (ms a) (wake_if_asleep (ms a) ++ [AResetCheck])) eqn:E; [|discriminate].
    destruct (rpc s); try discriminate. injection H as <-. eexists. exact E.
  - destruct (run_strict (ms a) (wake_if_asleep (ms a) ++ [AResetCheck])) eqn:E; [|discriminate].
    destruct (rpc s); try discriminate. destruct (list_eqb (obs a) (accepted s)); [|discriminate].
    injection H as <-. eexists. exact E.
  - destruct (rpc (ms a)), (worker (ms a)); try discriminate.
    + destruct (step (ms a) AResetStart) eqn:E; [|discriminate]. injection H as <-.
      exists [AResetStart]. cbn [run_strict]. rewrite E. reflexivity.
    + injection H as <-. exists []. reflexivity.
  - destruct (step (ms a) AAppDie) eqn:E; [|discriminate]. injection H as <-.
    exists [AAppDie]. cbn [run_strict]. rewrite E. reflexivity.
  - destruct (worker (ms a)).
    + injection H as <-. exists []. reflexivity.
    + destruct (list_eqb (log (ms a)) (obs a)); [|discriminate].
      destruct (step (ms a) AMove) eqn:E; [|discriminate]. injection H as <-.
      exists [AMove]. cbn [run_strict]. rewrite E. reflexivity.
  - destruct (mem m (accepted (ms a))); [|discriminate]. injection H as <-. exists []. reflexivity.
  - destruct (negb (worker (ms a)) && list_eqb (obs a) (accepted (ms a))); [|discriminate].
    injection H as <-. exists []. reflexivity.
Qed.

Lemma accept_from_sound evs : forall k a a', accept_from k a evs = Accepted a' ->
  exists tr, run_strict (ms a) tr = Some (ms a').
Proof.
  induction evs as [|e r IH]; intros k a a' H; cbn [accept_from] in H.
  - injection H as <-. exists []. reflexivity.
  - destruct (astep a e) eqn:E; [|discriminate].
    destruct (astep_sound _ _ _ E) as [t1 H1]. destruct (IH _ _ _ H) as [t2 H2].
    exists (t1 ++ t2). rewrite (run_strict_app _ _ _ _ H1). exact H2.
Qed.

(* an accepted recording is a run of the model in which every action was enabled; the state the
   acceptor ends in is therefore reachable and satisfies the invariant *)
Theorem accept_sound app0 w0 evs a :
  accept_shutdown app0 w0 evs = Accepted a ->
  (exists tr, run_strict (init app0 w0) tr = Some (ms a) /\ ms a = run (init app0 w0) tr) /\ Inv (ms a).
Proof.
  intros H. destruct (accept_from_sound _ _ _ _ H) as [tr Htr]. cbn [ms] in Htr.
  pose proof (run_strict_run _ _ _ Htr) as Hr. split.
  - exists tr. split; [exact Htr|symmetry; exact Hr].
  - rewrite <- Hr. apply run_inv.
Qed.

(* what the recording sink saw, relative to the model's log *)
Definition AInv (a : acc) : Prop :=
  obs a = log (ms a)
  \/ (exists m, inflight (ms a) = Some m /\ obs a = log (ms a) ++ [m])
  \/ (exists m, worker (ms a) = false /\ log (ms a) = obs a ++ [m]).

Ltac step_cases H :=
  cbn [step] in H;
  repeat match type of H with
         | context [match ?x with _ => _ end] => let E := fresh "E" in destruct x eqn:E; try discriminate
         | context [if ?x then _ else _] => let E := fresh "E" in destruct x eqn:E; try discriminate
         end.

Lemma reset_steps_keep s tr s' :
  (forall a, In a tr -> a = AResetWake \/ a = AResetCheck \/ a = AResetStart \/ a = AAppDie) ->
  run_strict s tr = Some s' ->
  log s' = log s /\ inflight s' = inflight s /\ (worker s = false -> worker s' = false) /\ accepted s' = accepted s.
Proof.
  revert s. induction tr as [|a r IH]; intros s Hin H; cbn [run_strict] in H.
  - injection H as <-. auto.
  - destruct (step s a) eqn:E; [|discriminate].
    assert (K : log s0 = log s /\ inflight s0 = inflight s /\ (worker s = false -> worker s0 = false) /\ accepted s0 = accepted s).
    { destruct (Hin a (or_introl eq_refl)) as [->|[->|[->| ->]]]; step_cases E; injection E as <-; cbn; auto. }
    destruct K as (K1 & K2 & K3 & K4).
    destruct (IH s0 (fun x Hx => Hin x (or_intror Hx)) H) as (J1 & J2 & J3 & J4).
    repeat split; try congruence. auto.
Qed.

Lemma wake_check_only s a : In a (wake_if_asleep s ++ [AResetCheck]) ->
  a = AResetWake \/ a = AResetCheck \/ a = AResetStart \/ a = AAppDie.
Proof.
  unfold wake_if_asleep. destruct (rpc s); cbn; intros H; intuition (subst; auto).
Qed.

Lemma astep_ainv a e a' : Inv (ms a) -> AInv a -> astep a e = Some a' -> AInv a'.
Proof.
  unfold astep, AInv. intros I A H. destruct e.
  - (* post *)
    destruct (mem m (accepted (ms a))); [discriminate|].
    destruct (worker (ms a)) eqn:Ew; cbn [negb andb] in H.
    + destruct (step (ms a) (APost m)) eqn:E; [|discriminate]. injection H as <-. cbn [ms obs].
      cbn [step] in E. destruct (mtx (ms a)); [discriminate|]. rewrite Ew in E. injection E as <-. cbn.
      destruct A as [A|[A|[x [A _]]]]; [left; exact A|right; left; exact A|discriminate].
    + destruct (list_eqb (log (ms a)) (obs a)) eqn:El; cbn [negb] in H; [|discriminate].
      apply list_eqb_eq in El.
      destruct (step (ms a) (APost m)) eqn:E; [|discriminate]. injection H as <-. cbn [ms obs].
      cbn [step] in E. destruct (mtx (ms a)); [discriminate|]. rewrite Ew in E. injection E as <-. cbn.
      right; right. exists m. split; [reflexivity|]. rewrite El. reflexivity.
  - (* take *)
    destruct (step (ms a) ATake) eqn:E; [|discriminate]. injection H as <-. cbn [ms obs].
    cbn [step] in E. destruct (app (ms a)); [|discriminate]. destruct (worker (ms a)) eqn:Ew; [|discriminate].
    destruct (inflight (ms a)) eqn:Ei; [discriminate|]. destruct (queue (ms a)); [discriminate|].
    injection E as <-. cbn.
    destruct A as [A|[[x [A _]]|[x [A _]]]]; [left; exact A|discriminate|discriminate].
  - (* deliver *)
    destruct sync.
    + destruct (worker (ms a)) eqn:Ew; cbn [negb andb] in H; [discriminate|].
      destruct (list_eqb (log (ms a)) (obs a ++ [m])) eqn:El; [|discriminate].
      apply list_eqb_eq in El. injection H as <-. cbn [ms obs]. left. symmetry. exact El.
    + destruct (inflight (ms a)) eqn:Ei; [|discriminate].
      destruct (Nat.eqb m n) eqn:En; cbn [andb] in H; [|discriminate]. apply Nat.eqb_eq in En. subst n.
      destruct (list_eqb (log (ms a)) (obs a)) eqn:El; [|discriminate].
      apply list_eqb_eq in El. injection H as <-. cbn [ms obs]. right; left. exists m.
      split; [exact Ei|]. rewrite El. reflexivity.
  - (* done *)
    destruct (step (ms a) ADone) eqn:E; [|discriminate].
    destruct (list_eqb (log s) (obs a)) eqn:El; [|discriminate]. apply list_eqb_eq in El.
    injection H as <-. cbn [ms obs]. left. symmetry. exact El.
  - (* reset locked *)
    destruct (worker (ms a)) eqn:Ew; [|discriminate].
    destruct (step (ms a) AResetStart) eqn:E; [|discriminate]. injection H as <-. cbn [ms obs].
    assert (K : run_strict (ms a) [AResetStart] = Some s) by (cbn [run_strict]; rewrite E; reflexivity).
    apply reset_steps_keep in K; [|cbn; intros x [<-|[]]; auto]. destruct K as (K1 & K2 & K3 & K4).
    rewrite K1, K2. destruct A as [A|[A|[x [A _]]]]; [left; exact A|right; left; exact A|discriminate].
  - (* waiting *)
    destruct (run_strict (ms a) (wake_if_asleep (ms a) ++ [AResetCheck])) eqn:E; [|discriminate].
    destruct (rpc s); try discriminate. injection H as <-. cbn [ms obs].
    apply reset_steps_keep in E; [|apply wake_check_only]. destruct E as (K1 & K2 & K3 & K4).
    rewrite K1, K2. destruct A as [A|[A|[x [A1 A2]]]]; [left; exact A|right; left; exact A|].
    right; right. exists x. split; [apply K3; assumption|exact A2].
  - (* quit *)
    destruct (run_strict (ms a) (wake_if_asleep (ms a) ++ [AResetCheck])) eqn:E; [|discriminate].
    destruct (rpc s); try discriminate. destruct (list_eqb (obs a) (accepted s)); [|discriminate].
    injection H as <-. cbn [ms obs].
    apply reset_steps_keep in E; [|apply wake_check_only]. destruct E as (K1 & K2 & K3 & K4).
    rewrite K1, K2. destruct A as [A|[A|[x [A1 A2]]]]; [left; exact A|right; left; exact A|].
    right; right. exists x. split; [apply K3; assumption|exact A2].
  - (* stop end *)
    destruct (rpc (ms a)), (worker (ms a)) eqn:Ew; try discriminate.
    + destruct (step (ms a) AResetStart) eqn:E; [|discriminate]. injection H as <-. cbn [ms obs].
      assert (K : run_strict (ms a) [AResetStart] = Some s) by (cbn [run_strict]; rewrite E; reflexivity).
      apply reset_steps_keep in K; [|cbn; intros x [<-|[]]; auto]. destruct K as (K1 & K2 & K3 & K4).
      rewrite K1, K2. destruct A as [A|[A|[x [A1 A2]]]]; [left; exact A|right; left; exact A|].
      right; right. exists x. split; [apply K3; assumption|exact A2].
    + injection H as <-. rewrite Ew. exact A.
  - (* app gone *)
    destruct (step (ms a) AAppDie) eqn:E; [|discriminate]. injection H as <-. cbn [ms obs].
    assert (K : run_strict (ms a) [AAppDie] = Some s) by (cbn [run_strict]; rewrite E; reflexivity).
    apply reset_steps_keep in K; [|cbn; intros x [<-|[]]; auto]. destruct K as (K1 & K2 & K3 & K4).
    rewrite K1, K2. destruct A as [A|[A|[x [A1 A2]]]]; [left; exact A|right; left; exact A|].
    right; right. exists x. split; [apply K3; assumption|exact A2].
  - (* move *)
    destruct (worker (ms a)) eqn:Ew.
    + injection H as <-. rewrite Ew. exact A.
    + destruct (list_eqb (log (ms a)) (obs a)) eqn:El; [|discriminate]. apply list_eqb_eq in El.
      destruct (step (ms a) AMove) eqn:E; [|discriminate]. injection H as <-. cbn [ms obs].
      left. step_cases E; injection E as <-; cbn; symmetry; exact El.
  - destruct (mem m (accepted (ms a))); [|discriminate]. injection H as <-. exact A.
  - destruct (negb (worker (ms a)) && list_eqb (obs a) (accepted (ms a))); [|discriminate].
    injection H as <-. exact A.
Qed.

Lemma accept_from_ainv evs : forall k a a', Inv (ms a) -> AInv a -> accept_from k a evs = Accepted a' ->
  Inv (ms a') /\ AInv a'.
Proof.
  induction evs as [|e r IH]; intros k a a' I A H; cbn [accept_from] in H.
  - injection H as <-. auto.
  - destruct (astep a e) eqn:E; [|discriminate].
    destruct (astep_sound _ _ _ E) as [t Ht]. apply run_strict_run in Ht.
    apply (IH (S k) a0 a'); [rewrite <- Ht; apply run_inv_from; exact I|eapply astep_ainv; eassumption|exact H].
Qed.

(* For every recording the acceptor accepts: what the sinks were seen to receive is a prefix of
   what was posted — nothing twice, nothing reordered, nothing skipped — although the acceptor
   compares the two lists only at the points where the model says they must be equal. *)
Theorem accept_obs_prefix app0 w0 evs a :
  accept_shutdown app0 w0 evs = Accepted a -> exists rest, accepted (ms a) = obs a ++ rest.
Proof.
  intros H. unfold accept_shutdown in H.
  destruct (accept_from_ainv evs 0 (mk_acc (init app0 w0) []) a (init_inv app0 w0) (or_introl eq_refl) H) as [I A].
  pose proof (i_acc _ I) as Hacc. destruct A as [A|[[m [A1 A2]]|[m [A1 A2]]]].
  - rewrite A. eexists. exact Hacc.
  - rewrite A2, A1 in *. cbn in Hacc. exists (queue (ms a)). rewrite Hacc, <- app_assoc. reflexivity.
  - destruct (i_now _ I A1) as [Hq Hi]. rewrite Hq, Hi in Hacc. cbn in Hacc. rewrite app_nil_r in Hacc.
    exists [m]. rewrite Hacc. exact A2.
Qed.

(* and a recording that ends with the process having left static destruction (EExit), or that has
   just passed the point where a stop quits the thread, has delivered exactly what was posted *)
Theorem accept_exit_complete app0 w0 evs a :
  accept_shutdown app0 w0 (evs ++ [EExit]) = Accepted a -> obs a = accepted (ms a) /\ worker (ms a) = false.
Proof.
  unfold accept_shutdown. generalize (mk_acc (init app0 w0) []) as a0. generalize 0 as k.
  induction evs as [|e r IH]; intros k a0 H; cbn [List.app accept_from] in H.
  - unfold astep in H.
    destruct (worker (ms a0)) eqn:Ew; cbn [negb andb] in H; [discriminate|].
    destruct (list_eqb (obs a0) (accepted (ms a0))) eqn:El; [|discriminate].
    injection H as <-. apply list_eqb_eq in El. auto.
  - destruct (astep a0 e); [|discriminate]. eapply IH. exact H.
Qed.

Lemma prefix_b_spec a : forall b, prefix_b a b = true <-> exists rest, b = a ++ rest.
Proof.
  induction a as [|x a IH]; intros b; cbn.
  - split; [intros _; exists b; reflexivity|reflexivity].
  - destruct b as [|y b]; [split; [discriminate|intros [r Hr]; discriminate]|].
    split.
    + intros H. apply andb_prop in H. destruct H as [H1 H2]. apply Nat.eqb_eq in H1. subst y.
      apply IH in H2. destruct H2 as [r ->]. exists r. reflexivity.
    + intros [r Hr]. injection Hr as -> ->. rewrite Nat.eqb_refl. cbn. apply IH. exists r. reflexivity.
Qed.

(* the boolean oracle evaluated on (posted, delivered) pairs holds in every reachable state *)
Theorem oracle_holds a w tr :
  let s := run (init a w) tr in prop_c04_b (accepted s) (log s) (negb (worker s)) = true.
Proof.
  intros s. unfold prop_c04_b. destruct (worker s) eqn:Ew; cbn [negb].
  - apply prefix_b_spec. apply log_prefix.
  - apply list_eqb_eq. apply drained_when_stopped. exact Ew.
Qed.
