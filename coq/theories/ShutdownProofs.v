(* C04 — lemmas about the stop protocol model of ShutdownDefs.v (several concurrent stoppers) *)
From Coq Require Import List Arith Lia Bool.
Import ListNotations.
Require Import QtlVerif.ShutdownDefs.

(* ------------------------------------------------------------------ stopper lists ----------- *)
Definition is_check (r : rstate) : nat := match r with RCheck => 1 | _ => 0 end.
Fixpoint cc (l : list rstate) : nat := match l with [] => 0 | r :: t => is_check r + cc t end.

Lemma cc_upd l : forall i o v, nth_error l i = Some o -> cc (upd l i v) + is_check o = cc l + is_check v.
Proof.
  induction l as [|x l IH]; intros [|i] o v H; cbn in *; try discriminate.
  - injection H as ->. lia.
  - specialize (IH i o v H). lia.
Qed.
Lemma sm_upd l : forall i o v, nth_error l i = Some o -> sm (upd l i v) + sw o = sm l + sw v.
Proof.
  induction l as [|x l IH]; intros [|i] o v H; cbn in *; try discriminate.
  - injection H as ->. lia.
  - specialize (IH i o v H). lia.
Qed.
Lemma in_upd l : forall i v x, In x (upd l i v) -> x = v \/ In x l.
Proof.
  induction l as [|y l IH]; intros [|i] v x H; cbn in *; auto.
  - destruct H; auto.
  - destruct H as [H|H]; auto. destruct (IH _ _ _ H); auto.
Qed.
Lemma nth_upd_same l : forall i o v, nth_error l i = Some o -> nth_error (upd l i v) i = Some v.
Proof.
  induction l as [|y l IH]; intros [|i] o v H; cbn in *; try discriminate; [reflexivity|eapply IH; eassumption].
Qed.
Lemma upd_length l : forall i v, length (upd l i v) = length l.
Proof. induction l as [|y l IH]; intros [|i] v; cbn; auto. Qed.
Lemma cc_pos l : In RCheck l <-> 0 < cc l.
Proof.
  induction l as [|x l IH]; cbn; [split; [tauto|lia]|]. split.
  - intros [->|H]; cbn; [lia|]. apply IH in H. lia.
  - intros H. destruct x; cbn in H; try (right; apply IH; lia). left; reflexivity.
Qed.
Lemma cc_map_undone l : cc (map undone l) = cc l.
Proof. induction l as [|x l IH]; cbn; [reflexivity|]. rewrite IH. destruct x; reflexivity. Qed.
Lemma in_map_undone l x : In x (map undone l) -> x <> RDone /\ (x = RIdle \/ In x l).
Proof.
  intros H. apply in_map_iff in H. destruct H as [y [<- Hy]]. destruct y; cbn; split; try discriminate; auto.
Qed.
Lemma sleeper_exists l : cc l = 0 -> 0 < sm l -> exists i, nth_error l i = Some RSleep.
Proof.
  induction l as [|x l IH]; cbn; intros Hc Hs; [lia|].
  destruct x; cbn in *; try (destruct (IH ltac:(lia) ltac:(lia)) as [i Hi]; exists (S i); exact Hi); try lia.
  exists 0. reflexivity.
Qed.
Lemma errorb_false s : errorb s = false <-> ~ In RError (stops s).
Proof.
  unfold errorb. induction (stops s) as [|x l IH]; cbn; [split; [tauto|reflexivity]|].
  destruct x; cbn; try (rewrite IH; split; [intros H [K|K]; [discriminate|auto]|intros H K; apply H; right; exact K]).
  split; [discriminate|intros H; exfalso; apply H; left; reflexivity].
Qed.

(* ------------------------------------------------------------------ the invariant ----------- *)
Record Inv (s : st) : Prop := {
  i_acc : accepted s = log s ++ opt_list (inflight s) ++ queue s;
  i_pend : pending s = length (queue s) + length (opt_list (inflight s));
  i_now : worker s = false -> queue s = [] /\ inflight s = None;
  (* mutex discipline: it is held exactly when one stopper is between lock and unlock, and at most
     one is; the sleeping ones hold nothing *)
  i_mtx : cc (stops s) = if mtx s then 1 else 0;
  i_rw : In RCheck (stops s) -> worker s = true;
  i_done : In RDone (stops s) -> worker s = false;
  i_noerr : ~ In RError (stops s)
}.

Lemma nth_in (l : list rstate) i r : nth_error l i = Some r -> In r l.
Proof. apply nth_error_In. Qed.

Ltac fin := try assumption; try reflexivity; try discriminate;
            try (let Hx := fresh in intros Hx; discriminate Hx); try (intros; reflexivity).

Lemma step_inv s a s' : Inv s -> step true true s a = Some s' -> Inv s'.
Proof.
  intros [Ha Hp Hn Hm Hrw Hd He] H. destruct a; cbn [step] in H.
  - (* post *)
    destruct (mtx s) eqn:Em; [discriminate|]. destruct (worker s) eqn:Ew; injection H as <-; constructor; cbn; fin.
    + rewrite Ha, <- !app_assoc. reflexivity.
    + rewrite app_length. cbn. lia.
    + destruct (Hn eq_refl) as [Hq Hi]. rewrite Ha, Hq, Hi. cbn. rewrite !app_nil_r. reflexivity.
  - (* take *)
    destruct (app s) eqn:Eapp; [|discriminate]. destruct (worker s) eqn:Ew; [|discriminate].
    destruct (inflight s) eqn:Ei; [discriminate|]. destruct (queue s) as [|m q] eqn:Eq; [discriminate|].
    injection H as <-. constructor; cbn; fin. rewrite Hp. cbn. lia.
  - (* done *)
    destruct (inflight s) as [m|] eqn:Ei; [|discriminate]. injection H as <-. constructor; cbn; try assumption.
    + rewrite Ha. cbn. rewrite <- app_assoc. reflexivity.
    + rewrite Hp. cbn. lia.
    + intros Hw. destruct (Hn Hw) as [_ Hc]. discriminate.
  - (* reset start *)
    destruct (nth_error (stops s) i) as [r|] eqn:En; [|discriminate].
    destruct (startable r) eqn:Es; [|discriminate]. destruct (mtx s) eqn:Em; [discriminate|]. cbn [negb andb] in H.
    pose proof (cc_upd _ _ _ RCheck En) as C1. pose proof (cc_upd _ _ _ RDone En) as C2.
    assert (is_check r = 0) by (destruct r; try discriminate; reflexivity).
    destruct (worker s) eqn:Ew; injection H as <-; constructor; cbn; fin.
    + cbn in C1. lia.
    + intros Hx. apply in_upd in Hx. destruct Hx as [Hx|Hx]; [discriminate|]. specialize (Hd Hx). discriminate.
    + intros Hx. apply in_upd in Hx. destruct Hx as [Hx|Hx]; [discriminate|]. auto.
    + cbn in C2. lia.
    + intros Hx. apply in_upd in Hx. destruct Hx as [Hx|Hx]; [discriminate|]. apply cc_pos in Hx. lia.
    + intros Hx. apply in_upd in Hx. destruct Hx as [Hx|Hx]; [discriminate|]. auto.
  - (* reset check *)
    destruct (nth_error (stops s) i) as [r|] eqn:En; [|discriminate]. destruct r; try discriminate.
    pose proof (Hrw (nth_in _ _ _ En)) as Ew. rewrite Ew in H.
    assert (Em : mtx s = true).
    { destruct (mtx s); [reflexivity|]. pose proof (proj1 (cc_pos _) (nth_in _ _ _ En)). lia. }
    rewrite Em in Hm.
    pose proof (cc_upd _ _ _ RSleep En) as C1. pose proof (cc_upd _ _ _ RDone En) as C2. cbn in C1, C2.
    destruct (Nat.ltb_spec 0 (pending s)) as [Hgt|Hle]; injection H as <-; constructor; cbn;
      fin; try lia.
    + intros Hx. apply in_upd in Hx. destruct Hx as [Hx|Hx]; [discriminate|]. specialize (Hd Hx). rewrite Ew in Hd. discriminate.
    + intros Hx. apply in_upd in Hx. destruct Hx as [Hx|Hx]; [discriminate|]. auto.
    + intros _. rewrite Hp in Hle. destruct (queue s); [|cbn in Hle; lia].
      destruct (inflight s); [cbn in Hle; lia|]. tauto.
    + intros Hx. apply cc_pos in Hx. lia.
    + intros Hx. apply in_upd in Hx. destruct Hx as [Hx|Hx]; [discriminate|]. auto.
  - (* wake *)
    destruct (nth_error (stops s) i) as [r|] eqn:En; [|discriminate]. destruct r; try discriminate.
    destruct (mtx s) eqn:Em; [discriminate|].
    pose proof (cc_upd _ _ _ RCheck En) as C1. pose proof (cc_upd _ _ _ RDone En) as C2. cbn in C1, C2.
    destruct (worker s) eqn:Ew; cbn [orb negb] in H; injection H as <-; constructor; cbn;
      fin; try lia.
    + intros Hx. apply in_upd in Hx. destruct Hx as [Hx|Hx]; [discriminate|]. specialize (Hd Hx). discriminate.
    + intros Hx. apply in_upd in Hx. destruct Hx as [Hx|Hx]; [discriminate|]. auto.
    + intros Hx. apply cc_pos in Hx. lia.
    + intros Hx. apply in_upd in Hx. destruct Hx as [Hx|Hx]; [discriminate|]. auto.
  - (* app dies *)
    injection H as <-. constructor; cbn; assumption.
  - (* move *)
    destruct (mtx s) eqn:Em; [discriminate|]. destruct (worker s) eqn:Ew.
    { injection H as <-. constructor; rewrite ?Em, ?Ew; assumption. }
    injection H as <-. constructor; cbn; fin.
    + rewrite cc_map_undone. exact Hm.
    + intros Hx. apply in_map_undone in Hx. destruct Hx as [Hx _]. contradiction.
    + intros Hx. apply in_map_undone in Hx. destruct Hx as [_ [Hx|Hx]]; [discriminate|auto].
Qed.

Lemma init_inv a w k : Inv (init a w k).
Proof.
  assert (R : forall x, In x (repeat RIdle k) -> x = RIdle) by (intros x Hx; apply repeat_spec in Hx; exact Hx).
  constructor; cbn; try reflexivity; try tauto; try discriminate.
  - induction k; cbn; [reflexivity|]. apply IHk. intros x Hx. reflexivity || (apply repeat_spec in Hx; exact Hx).
  - intros Hx. apply R in Hx. discriminate.
  - intros Hx. apply R in Hx. discriminate.
  - intros Hx. apply R in Hx. discriminate.
Qed.

Lemma run_inv_from tr : forall s, Inv s -> Inv (run true true s tr).
Proof.
  induction tr as [|a r IH]; intros s I; cbn [run]; [exact I|].
  destruct (step true true s a) eqn:E; [apply IH; eapply step_inv; eassumption|apply IH; exact I].
Qed.

Theorem run_inv a w k tr : Inv (run true true (init a w k) tr).
Proof. apply run_inv_from, init_inv. Qed.

Lemma run_strict_app rc du t1 : forall s t2 s1, run_strict rc du s t1 = Some s1 ->
  run_strict rc du s (t1 ++ t2) = run_strict rc du s1 t2.
Proof.
  induction t1 as [|a r IH]; intros s t2 s1 H; cbn in *.
  - injection H as <-. reflexivity.
  - destruct (step rc du s a); [apply IH; exact H|discriminate].
Qed.
Lemma run_strict_run rc du tr : forall s s', run_strict rc du s tr = Some s' -> run rc du s tr = s'.
Proof.
  induction tr as [|a r IH]; intros s s' H; cbn in *.
  - injection H as <-. reflexivity.
  - destruct (step rc du s a); [apply IH; exact H|discriminate].
Qed.
Lemma strict_inv tr s s' : Inv s -> run_strict true true s tr = Some s' -> Inv s'.
Proof. intros I H. rewrite <- (run_strict_run _ _ _ _ _ H). apply run_inv_from. exact I. Qed.

(* mutual exclusion of the stoppers, in every reachable state *)
Theorem stops_mutually_exclusive a w k tr :
  let s := run true true (init a w k) tr in
  cc (stops s) <= 1 /\ (mtx s = true <-> In RCheck (stops s)).
Proof.
  intros s. pose proof (run_inv a w k tr) as I. fold s in I. pose proof (i_mtx s I) as Hm.
  split; [destruct (mtx s); lia|]. rewrite cc_pos. destruct (mtx s); split; intros H; try reflexivity; try discriminate; lia.
Qed.

(* whenever no worker exists (in particular after a completed stop) everything accepted so far
   has been delivered, in order *)
Lemma inv_drained s : Inv s -> worker s = false -> log s = accepted s.
Proof.
  intros I Hw. destruct (i_now s I Hw) as [Hq Hi]. rewrite (i_acc s I), Hq, Hi. cbn.
  rewrite app_nil_r. reflexivity.
Qed.
Lemma inv_pending0 s : Inv s -> pending s = 0 -> log s = accepted s /\ queue s = [] /\ inflight s = None.
Proof.
  intros I Hp. pose proof (i_pend s I) as P. rewrite Hp in P.
  assert (Hq : queue s = []) by (destruct (queue s); [reflexivity|cbn in P; lia]).
  assert (Hi : inflight s = None) by (destruct (inflight s); [cbn in P; lia|reflexivity]).
  rewrite (i_acc s I), Hq, Hi. cbn. rewrite app_nil_r. auto.
Qed.

Theorem drained_when_stopped a w k tr :
  let s := run true true (init a w k) tr in worker s = false -> log s = accepted s.
Proof. intros s. apply inv_drained, run_inv. Qed.

(* whenever the stop call of ANY stopper has returned (and async mode was not switched on again) *)
Theorem drained_when_reset_done a w k tr :
  let s := run true true (init a w k) tr in In RDone (stops s) -> worker s = false /\ log s = accepted s.
Proof.
  intros s Hr. pose proof (run_inv a w k tr) as I. fold s in I.
  split; [apply (i_done s I Hr)|apply inv_drained; [exact I|apply (i_done s I Hr)]].
Qed.

(* a destroyed worker is never touched *)
Theorem no_worker_activity_after_stop a w k tr :
  let s := run true true (init a w k) tr in worker s = false ->
  step true true s ATake = None /\ (forall ok, step true true s (ADone ok) = None) /\ queue s = [] /\ inflight s = None /\ pending s = 0.
Proof.
  intros s Hw. pose proof (run_inv a w k tr) as I. fold s in I.
  destruct (i_now s I Hw) as [Hq Hi]. pose proof (i_pend s I) as Hp. rewrite Hq, Hi in Hp.
  repeat split; try assumption; cbn [step].
  - rewrite Hw. destruct (app s); reflexivity.
  - intros ok. rewrite Hi. reflexivity.
Qed.

Theorem log_prefix a w k tr : let s := run true true (init a w k) tr in exists rest, accepted s = log s ++ rest.
Proof. intros s. pose proof (run_inv a w k tr) as I. fold s in I. eexists. apply (i_acc s I). Qed.

Lemma NoDup_app_l (A : Type) (l r : list A) : NoDup (l ++ r) -> NoDup l.
Proof.
  induction l as [|x l IH]; cbn; intros H; [constructor|].
  inversion H as [|y t Hn Ht]; subst. constructor; [|apply IH; exact Ht].
  intros Hi. apply Hn. apply in_or_app. left; exact Hi.
Qed.

Theorem never_twice a w k tr :
  let s := run true true (init a w k) tr in NoDup (accepted s) -> NoDup (log s).
Proof.
  intros s H. destruct (log_prefix a w k tr) as [rest E]. fold s in E. rewrite E in H.
  eapply NoDup_app_l; exact H.
Qed.

(* ------------------------------------------------------------------ generic case analysis ---- *)
Ltac step_cases H :=
  cbn [step] in H;
  repeat match type of H with
         | context [match ?x with _ => _ end] => let E := fresh "E" in destruct x eqn:E; try discriminate
         | context [if ?x then _ else _] => let E := fresh "E" in destruct x eqn:E; try discriminate
         end.

(* ------------------------------------------------------------------ monotonicity ------------- *)
Lemma step_accepted_mono rc du s a s' : step rc du s a = Some s' -> exists rest, accepted s' = accepted s ++ rest.
Proof.
  intros H. destruct a; step_cases H; injection H as <-; cbn;
    try (eexists; reflexivity); exists []; rewrite app_nil_r; reflexivity.
Qed.

Lemma run_accepted_mono rc du tr : forall s, exists rest, accepted (run rc du s tr) = accepted s ++ rest.
Proof.
  induction tr as [|a r IH]; intros s; cbn [run]; [exists []; rewrite app_nil_r; reflexivity|].
  destruct (step rc du s a) eqn:E; [|apply IH].
  destruct (step_accepted_mono _ _ _ _ _ E) as [r1 E1]. destruct (IH s0) as [r2 E2].
  exists (r1 ++ r2). rewrite E2, E1, app_assoc. reflexivity.
Qed.

Theorem post_without_worker_is_synchronous rc du s m s' :
  worker s = false -> step rc du s (APost m) = Some s' ->
  log s' = log s ++ [m] /\ queue s' = queue s /\ pending s' = pending s.
Proof.
  intros Hw H. cbn [step] in H. destruct (mtx s); [discriminate|]. rewrite Hw in H.
  injection H as <-. cbn. auto.
Qed.

Theorem post_with_worker_is_queued rc du s m s' :
  worker s = true -> step rc du s (APost m) = Some s' ->
  queue s' = queue s ++ [m] /\ pending s' = S (pending s) /\ log s' = log s /\ stops s' = stops s.
Proof.
  intros Hw H. cbn [step] in H. destruct (mtx s); [discriminate|]. rewrite Hw in H.
  injection H as <-. cbn. auto.
Qed.

Theorem accepted_is_never_dropped s m s' tr :
  Inv s -> step true true s (APost m) = Some s' -> worker (run true true s' tr) = false -> In m (log (run true true s' tr)).
Proof.
  intros I H Hw. assert (I' : Inv s') by (eapply step_inv; eassumption).
  pose proof (run_inv_from tr s' I') as I2. rewrite (inv_drained _ I2 Hw).
  destruct (run_accepted_mono true true tr s') as [rest E]. rewrite E. apply in_or_app. left.
  cbn [step] in H. destruct (mtx s); [discriminate|]. destruct (worker s); injection H as <-; cbn;
    apply in_or_app; right; left; reflexivity.
Qed.

(* moveToOwnThread on a handler that is already asynchronous (a second configure(async=true)) is
   idempotent: the step, when enabled, returns the very same state — backlog, pending count, stoppers
   untouched — and inserting it anywhere in a history changes nothing *)
Theorem move_again_is_idempotent rc du s :
  worker s = true -> (mtx s = false -> step rc du s AMove = Some s) /\ (forall s', step rc du s AMove = Some s' -> s' = s).
Proof.
  intros Hw. cbn [step]. rewrite Hw. destruct (mtx s); split.
  - intros H; discriminate.
  - intros s' E; discriminate.
  - reflexivity.
  - intros s' E. injection E as <-. reflexivity.
Qed.
Theorem move_again_changes_nothing rc du s tr : worker s = true -> run rc du s (AMove :: tr) = run rc du s tr.
Proof. intros Hw. cbn [run step]. rewrite Hw. destruct (mtx s); reflexivity. Qed.

(* ------------------------------------------------------------------ concurrent stops --------- *)
(* With the re-test after the relock: in every reachable state, whatever the number of stoppers and
   the interleaving, no stopper is in the error state, and the step that quits/waits/clears is only
   ever enabled with a live thread *)
Theorem concurrent_stops_safe a w k tr :
  let s := run true true (init a w k) tr in
  errorb s = false /\
  (forall i s', step true true s (AResetCheck i) = Some s' -> worker s = true /\ errorb s' = false).
Proof.
  intros s. pose proof (run_inv a w k tr) as I. fold s in I. split.
  - apply errorb_false. apply (i_noerr s I).
  - intros i s' H. assert (I' : Inv s') by (eapply step_inv; eassumption). split.
    + cbn [step] in H. destruct (nth_error (stops s) i) as [r|] eqn:En; [|discriminate].
      destruct r; try discriminate. apply (i_rw s I). eapply nth_in; eassumption.
    + apply errorb_false. apply (i_noerr s' I').
Qed.

(* the repaired wake-up, for an arbitrary state: a stopper that finds no thread after its sleep
   returns at once: it takes no mutex and touches neither queue nor log nor counters *)
Theorem wake_without_thread_returns s i s' :
  worker s = false -> step true true s (AResetWake i) = Some s' ->
  nth_error (stops s') i = Some RDone /\ mtx s' = false /\ worker s' = false /\ queue s' = queue s /\
  inflight s' = inflight s /\ pending s' = pending s /\ log s' = log s /\ accepted s' = accepted s /\ app s' = app s.
Proof.
  intros Hw H. cbn [step] in H. destruct (nth_error (stops s) i) as [r|] eqn:En; [|discriminate].
  destruct r; try discriminate. destruct (mtx s); [discriminate|]. rewrite Hw in H. cbn in H.
  injection H as <-. cbn. repeat split; try reflexivity. eapply nth_upd_same; eassumption.
Qed.

(* before the repair (no re-test): two stoppers reach the error step *)
Definition two_stops_schedule : list act :=
  [APost 0; AResetStart 0; AResetCheck 0; AResetStart 1; AResetCheck 1; ATake; ADone true;
   AResetWake 0; AResetCheck 0; AResetWake 1; AResetCheck 1].
Theorem concurrent_stops_refuted_before_repair :
  rechecks_after_relock pre_repair_skeleton = false /\
  exists s, run_strict (rechecks_after_relock pre_repair_skeleton) true (init true true 2) two_stops_schedule = Some s
            /\ errorb s = true /\ worker s = false.
Proof. split; [reflexivity|]. eexists. split; [vm_compute; reflexivity|]. split; reflexivity. Qed.

(* ------------------------------------------------------------------ F5: the hang ------------- *)
Lemma stuck_b_spec s : stuck_b s = true <->
  app s = false /\ worker s = true /\ inflight s = None /\ queue s <> [].
Proof.
  unfold stuck_b. destruct (app s), (worker s), (inflight s), (queue s); cbn; split; intros H;
    try discriminate; try reflexivity; try (destruct H as (? & ? & ? & ?); try discriminate; try contradiction).
  repeat split; discriminate.
Qed.

Lemma stuck_step s a s' : Inv s -> stuck_b s = true -> step true true s a = Some s' -> stuck_b s' = true.
Proof.
  intros I S H. apply stuck_b_spec in S. destruct S as (Ha & Hw & Hi & Hq). apply stuck_b_spec.
  assert (Hp : 0 < pending s) by (rewrite (i_pend s I); destruct (queue s); [contradiction|cbn; lia]).
  destruct a; cbn [step] in H.
  - destruct (mtx s); [discriminate|]. rewrite Hw in H. injection H as <-. repeat split; cbn; try assumption.
    destruct (queue s); [contradiction|discriminate].
  - rewrite Ha in H. discriminate.
  - rewrite Hi in H. discriminate.
  - rewrite Hw in H. step_cases H. injection H as <-. repeat split; cbn; assumption.
  - rewrite Hw in H. destruct (Nat.ltb_spec 0 (pending s)); [|lia]. step_cases H.
    injection H as <-. repeat split; cbn; assumption.
  - rewrite Hw in H. cbn [orb] in H. step_cases H. injection H as <-. repeat split; cbn; assumption.
  - injection H as <-. repeat split; cbn; assumption.
  - rewrite Hw in H. destruct (mtx s); [discriminate|]. injection H as <-. repeat split; assumption.
Qed.

(* from a state with a backlog, an idle worker and no application object: the worker can never be
   stopped, no stop call of any stopper ever returns *)
Theorem stuck_forever tr : forall s, Inv s -> stuck_b s = true ->
  stuck_b (run true true s tr) = true /\ worker (run true true s tr) = true /\ ~ In RDone (stops (run true true s tr)).
Proof.
  induction tr as [|a r IH]; intros s I S; cbn [run].
  - split; [exact S|]. apply stuck_b_spec in S. destruct S as (_ & Hw & _). split; [exact Hw|].
    intros Hr. rewrite (i_done s I Hr) in Hw. discriminate.
  - destruct (step true true s a) eqn:E; [apply IH; [eapply step_inv; eassumption|eapply stuck_step; eassumption]|apply IH; assumption].
Qed.

Theorem reset_hangs_without_app :
  exists s, (exists tr, s = run true true (init true true 1) tr) /\ In RCheck (stops s) /\
            forall tr, ~ In RDone (stops (run true true s tr)) /\ log (run true true s tr) <> accepted (run true true s tr).
Proof.
  exists (run true true (init true true 1) [APost 0; AAppDie; AResetStart 0]). split; [eexists; reflexivity|].
  split; [left; reflexivity|]. intros tr.
  assert (I0 : Inv (run true true (init true true 1) [APost 0; AAppDie; AResetStart 0])) by apply run_inv.
  assert (S0 : stuck_b (run true true (init true true 1) [APost 0; AAppDie; AResetStart 0]) = true) by reflexivity.
  destruct (stuck_forever tr _ I0 S0) as (S & Hw & Hr). split; [exact Hr|].
  pose proof (run_inv_from tr _ I0) as I. apply stuck_b_spec in S. destruct S as (_ & _ & Hi & Hq).
  intros E. rewrite (i_acc _ I), Hi in E. cbn in E.
  rewrite <- (app_nil_r (log _)) in E at 1. apply app_inv_head in E. symmetry in E. contradiction.
Qed.

Theorem reset_hangs_with_no_app_ever :
  forall tr, ~ In RDone (stops (run true true (run true true (init false true 1) [APost 0; AResetStart 0]) tr)).
Proof.
  intros tr.
  assert (I0 : Inv (run true true (init false true 1) [APost 0; AResetStart 0])) by apply run_inv.
  assert (S0 : stuck_b (run true true (init false true 1) [APost 0; AResetStart 0]) = true) by reflexivity.
  apply (stuck_forever tr _ I0 S0).
Qed.

(* ------------------------------------------------------------------ termination, app alive --- *)
Lemma worker_step_decreases rc du s a s' : (a = ATake \/ exists ok, a = ADone ok) -> step rc du s a = Some s' -> mu s' < mu s.
Proof.
  intros [->| [ok ->]] H; cbn [step] in H; unfold mu.
  - destruct (app s), (worker s), (inflight s), (queue s); try discriminate. injection H as <-. cbn. lia.
  - destruct (inflight s) eqn:E; [|discriminate]. injection H as <-. cbn. lia.
Qed.

Lemma worker_step_enabled s : Inv s -> app s = true -> 0 < mu s ->
  exists a s', (a = ATake \/ exists ok, a = ADone ok) /\ step true true s a = Some s'.
Proof.
  intros I Ha Hm. unfold mu in Hm. destruct (inflight s) as [m|] eqn:Ei.
  - exists (ADone true). eexists. split; [right; exists true; reflexivity|]. cbn [step]. rewrite Ei. reflexivity.
  - destruct (queue s) as [|m q] eqn:Eq; [cbn in Hm; lia|].
    assert (Hw : worker s = true).
    { destruct (worker s) eqn:Ew; [reflexivity|]. destruct (i_now s I Ew) as [Hq _]. rewrite Eq in Hq. discriminate. }
    exists ATake. eexists. split; [left; reflexivity|]. cbn [step]. rewrite Ha, Hw, Ei, Eq. reflexivity.
Qed.

Lemma check_finishes s i : Inv s -> nth_error (stops s) i = Some RCheck -> mu s = 0 ->
  exists s', step true true s (AResetCheck i) = Some s' /\ nth_error (stops s') i = Some RDone /\ worker s' = false /\
             mtx s' = false /\ log s' = accepted s'.
Proof.
  intros I Hr Hm. cbn [step]. rewrite Hr. rewrite (i_rw s I (nth_in _ _ _ Hr)).
  assert (Hq : queue s = []) by (unfold mu in Hm; destruct (queue s); [reflexivity|cbn in Hm; lia]).
  assert (Hi : inflight s = None) by (unfold mu in Hm; destruct (inflight s); [cbn in Hm; lia|reflexivity]).
  assert (Hp : pending s = 0) by (rewrite (i_pend s I), Hq, Hi; reflexivity).
  rewrite Hp. cbn. eexists. split; [reflexivity|]. cbn. split; [eapply nth_upd_same; eassumption|].
  repeat split. rewrite (i_acc s I), Hq, Hi. cbn. rewrite app_nil_r. reflexivity.
Qed.

Lemma check_waits s i : Inv s -> nth_error (stops s) i = Some RCheck -> 0 < mu s ->
  exists s', step true true s (AResetCheck i) = Some s' /\ nth_error (stops s') i = Some RSleep /\ worker s' = true /\ mtx s' = false.
Proof.
  intros I Hr Hm. cbn [step]. rewrite Hr. rewrite (i_rw s I (nth_in _ _ _ Hr)).
  assert (0 < pending s) by (rewrite (i_pend s I); unfold mu in Hm; lia).
  destruct (Nat.ltb_spec 0 (pending s)); [|lia]. eexists. split; [reflexivity|]. cbn.
  split; [eapply nth_upd_same; eassumption|auto].
Qed.

Lemma drain_run rc du q : forall p m r l acc,
  run_strict rc du (mk_st true true q None p m r l acc) (drain_schedule (length q))
  = Some (mk_st true true [] None (p - length q) m r (l ++ q) acc).
Proof.
  induction q as [|x q IH]; intros p m r l acc; cbn [length drain_schedule run_strict].
  - rewrite Nat.sub_0_r, app_nil_r. reflexivity.
  - cbn [step app worker inflight queue pending mtx stops log accepted].
    rewrite Bool.orb_true_r. rewrite IH. f_equal. f_equal; [destruct p; cbn; lia|rewrite <- app_assoc; reflexivity].
Qed.
Lemma drain_length q : length (drain_schedule q) = 2 * q.
Proof. induction q; cbn; [reflexivity|rewrite IHq; lia]. Qed.

(* phase 1: with the application alive the worker empties the backlog in mu steps *)
Lemma backlog_drains s : Inv s -> app s = true ->
  exists tr s', run_strict true true s tr = Some s' /\ pending s' = 0 /\ stops s' = stops s /\
                accepted s' = accepted s /\ length tr = mu s.
Proof.
  intros I Ha. pose proof (i_acc s I) as Hacc. pose proof (i_pend s I) as Hp. pose proof (i_now s I) as Hn.
  destruct s as [a w q i p m r l acc]. cbn in *. subst a. unfold mu. cbn [queue inflight].
  destruct w.
  - assert (Hdone : exists p' l', run_strict true true (mk_st true true q i p m r l acc)
                                     (match i with Some _ => [ADone true] | None => [] end)
                                  = Some (mk_st true true q None p' m r l' acc) /\ p' = length q).
    { destruct i as [x|]; cbn.
      - exists (pred p), (l ++ [x]). split; [reflexivity|cbn in Hp; lia].
      - exists p, l. split; [reflexivity|cbn in Hp; lia]. }
    destruct Hdone as (p' & l' & H1 & Hp').
    exists ((match i with Some _ => [ADone true] | None => [] end) ++ drain_schedule (length q)). eexists.
    split; [rewrite (run_strict_app _ _ _ _ _ _ H1); apply drain_run|]. cbn.
    repeat split; [lia|]. rewrite app_length, drain_length. destruct i; cbn; lia.
  - destruct (Hn eq_refl) as [-> ->]. cbn in Hp. exists []. eexists. split; [reflexivity|]. cbn. auto.
Qed.

(* phase 2: with an empty backlog every active stopper leaves resetOwnThread: the one holding the
   mutex quits/clears, the sleepers wake up and either do the same (a thread exists again) or find
   no thread and return.  sm = 2*sleepers + checkers bounds the number of steps *)
Lemma stoppers_finish n : forall s, Inv s -> pending s = 0 -> sm (stops s) <= n ->
  exists tr s', run_strict true true s tr = Some s' /\ sm (stops s') = 0 /\ pending s' = 0 /\
                accepted s' = accepted s /\ length tr <= sm (stops s).
Proof.
  induction n as [|n IH]; intros s I Hp Hs.
  - exists []. exists s. cbn. repeat split; try assumption; lia.
  - destruct (Nat.eq_dec (sm (stops s)) 0) as [Hz|Hz].
    { exists []. exists s. cbn. repeat split; try assumption; lia. }
    pose proof (i_mtx s I) as Hm. destruct (mtx s) eqn:Em.
    + (* the mutex holder finishes *)
      assert (Hin : In RCheck (stops s)) by (apply cc_pos; lia).
      destruct (In_nth_error _ _ Hin) as [i Hi].
      assert (E : step true true s (AResetCheck i)
                  = Some (mk_st (app s) false (queue s) (inflight s) (pending s) false (upd (stops s) i RDone) (log s) (accepted s))).
      { cbn [step]. rewrite Hi, (i_rw s I Hin), Hp. reflexivity. }
      pose proof (sm_upd _ _ _ RDone Hi) as Su. cbn in Su.
      destruct (IH _ (step_inv _ _ _ I E) Hp ltac:(cbn; lia)) as (tr & s' & Hr & Hs' & Hp' & Ha' & Hl).
      exists (AResetCheck i :: tr). exists s'. cbn [run_strict]. rewrite E. cbn in *.
      repeat split; try assumption. lia.
    + (* a sleeper wakes up *)
      destruct (sleeper_exists _ Hm ltac:(lia)) as [i Hi].
      pose proof (sm_upd _ _ _ RCheck Hi) as S1. pose proof (sm_upd _ _ _ RDone Hi) as S2. cbn in S1, S2.
      destruct (worker s) eqn:Ew.
      * assert (E : step true true s (AResetWake i)
                    = Some (mk_st (app s) true (queue s) (inflight s) (pending s) true (upd (stops s) i RCheck) (log s) (accepted s))).
        { cbn [step]. rewrite Hi, Em, Ew. reflexivity. }
        destruct (IH _ (step_inv _ _ _ I E) Hp ltac:(cbn; lia)) as (tr & s' & Hr & Hs' & Hp' & Ha' & Hl).
        exists (AResetWake i :: tr). exists s'. cbn [run_strict]. rewrite E. cbn in *.
        repeat split; try assumption. lia.
      * assert (E : step true true s (AResetWake i)
                    = Some (mk_st (app s) false (queue s) (inflight s) (pending s) false (upd (stops s) i RDone) (log s) (accepted s))).
        { cbn [step]. rewrite Hi, Em, Ew. reflexivity. }
        destruct (IH _ (step_inv _ _ _ I E) Hp ltac:(cbn; lia)) as (tr & s' & Hr & Hs' & Hp' & Ha' & Hl).
        exists (AResetWake i :: tr). exists s'. cbn [run_strict]. rewrite E. cbn in *.
        repeat split; try assumption. lia.
Qed.

Lemma sm_zero_inactive l : sm l = 0 -> forall r, In r l -> is_active r = false.
Proof.
  induction l as [|x l IH]; cbn; intros H r Hr; [contradiction|].
  destruct Hr as [->|Hr]; [destruct r; cbn in *; try reflexivity; lia|].
  apply IH; [lia|exact Hr].
Qed.

(* With the application alive and the producers pausing, from ANY reachable situation — any number
   of stoppers anywhere in resetOwnThread — there is a schedule of at most mu + sm enabled steps
   after which every stopper has left resetOwnThread and everything accepted is delivered.
   (That the real scheduler runs these steps, the 10 ms sleeps and the 3 s wait are real-time
   matters outside the model: hence _partial.) *)
Theorem all_stops_terminate_partial s :
  Inv s -> app s = true ->
  exists tr s', run_strict true true s tr = Some s' /\ (forall r, In r (stops s') -> is_active r = false) /\
                log s' = accepted s' /\ accepted s' = accepted s /\ errorb s' = false /\
                length tr <= mu s + sm (stops s).
Proof.
  intros I Ha. destruct (backlog_drains s I Ha) as (t1 & s1 & H1 & Hp1 & Hs1 & Ha1 & Hl1).
  pose proof (strict_inv _ _ _ I H1) as I1.
  destruct (stoppers_finish _ s1 I1 Hp1 (le_n _)) as (t2 & s2 & H2 & Hs2 & Hp2 & Ha2 & Hl2).
  pose proof (strict_inv _ _ _ I1 H2) as I2.
  exists (t1 ++ t2). exists s2. split; [rewrite (run_strict_app _ _ _ _ _ _ H1); exact H2|].
  split; [apply sm_zero_inactive; exact Hs2|]. split; [apply (inv_pending0 _ I2 Hp2)|].
  split; [congruence|]. split; [apply errorb_false; apply (i_noerr _ I2)|].
  rewrite app_length. rewrite Hs1 in Hl2. lia.
Qed.

(* ------------------------------------------------------------------ the trace acceptor ------- *)
Lemma list_eqb_eq a : forall b, list_eqb a b = true <-> a = b.
Proof.
  induction a as [|x a IH]; intros [|y b]; cbn; split; intros H; try discriminate; try reflexivity.
  - apply andb_prop in H. destruct H as [H1 H2]. apply Nat.eqb_eq in H1. apply IH in H2. subst. reflexivity.
  - injection H as -> ->. rewrite Nat.eqb_refl. cbn. apply IH. reflexivity.
Qed.

Ltac one_step E act :=
  match goal with H : _ = Some _ |- _ => idtac end;
  exists [act]; cbn [run_strict]; rewrite E; reflexivity.

Lemma astep_sound rc du a e a' : astep rc du a e = Some a' -> exists tr, run_strict rc du (ms a) tr = Some (ms a').
Proof.
  unfold astep. intros H. destruct e.
  - destruct (mem m (accepted (ms a))); [discriminate|].
    destruct (negb (worker (ms a)) && negb (list_eqb (log (ms a)) (obs a))); [discriminate|].
    destruct (step rc du (ms a) (APost m)) eqn:E; [|discriminate]. injection H as <-. one_step E (APost m).
  - destruct (step rc du (ms a) ATake) eqn:E; [|discriminate]. injection H as <-. one_step E ATake.
  - destruct sync.
    + destruct (negb (worker (ms a)) && list_eqb (log (ms a)) (obs a ++ [m])); [|discriminate].
      injection H as <-. exists []. reflexivity.
    + destruct (inflight (ms a)); [|discriminate].
      destruct (Nat.eqb m n && list_eqb (log (ms a)) (obs a)); [|discriminate].
      injection H as <-. exists []. reflexivity.
  - destruct (step rc du (ms a) (ADone ok)) eqn:E; [|discriminate].
    destruct (list_eqb (log s) (obs a)); [|discriminate]. injection H as <-. one_step E (ADone ok).
  - destruct (worker (ms a)); [|discriminate].
    destruct (step rc du (ms a) (AResetStart i)) eqn:E; [|discriminate]. injection H as <-. one_step E (AResetStart i).
  - destruct (run_strict rc du (ms a) (wake_if_asleep (ms a) i ++ [AResetCheck i])) eqn:E; [|discriminate].
    destruct (nth_error (stops s) i) as [r|]; [|discriminate]. destruct r; try discriminate.
    injection H as <-. eexists. exact E.
  - destruct (run_strict rc du (ms a) (wake_if_asleep (ms a) i ++ [AResetCheck i])) eqn:E; [|discriminate].
    destruct (nth_error (stops s) i) as [r|]; [|discriminate]. destruct r; try discriminate.
    destruct (list_eqb (obs a) (accepted s)); [|discriminate]. injection H as <-. eexists. exact E.
  - destruct (nth_error (stops (ms a)) i) as [r|]; [|discriminate]. destruct r; try discriminate.
    + destruct (worker (ms a)); [discriminate|].
      destruct (step rc du (ms a) (AResetStart i)) eqn:E; [|discriminate]. injection H as <-. one_step E (AResetStart i).
    + destruct (worker (ms a)); [discriminate|].
      destruct (step rc du (ms a) (AResetWake i)) eqn:E; [|discriminate].
      destruct (nth_error (stops s) i) as [r|]; [|discriminate]. destruct r; try discriminate.
      injection H as <-. one_step E (AResetWake i).
    + injection H as <-. exists []. reflexivity.
  - destruct (step rc du (ms a) AAppDie) eqn:E; [|discriminate]. injection H as <-. one_step E AAppDie.
  - destruct (worker (ms a)).
    + injection H as <-. exists []. reflexivity.
    + destruct (list_eqb (log (ms a)) (obs a)); [|discriminate].
      destruct (step rc du (ms a) AMove) eqn:E; [|discriminate]. injection H as <-. one_step E AMove.
  - destruct (mem m (accepted (ms a))); [|discriminate]. injection H as <-. exists []. reflexivity.
  - destruct (negb (worker (ms a)) && list_eqb (obs a) (accepted (ms a))); [|discriminate].
    injection H as <-. exists []. reflexivity.
Qed.

Lemma accept_from_sound rc du evs : forall k a a', accept_from rc du k a evs = Accepted a' ->
  exists tr, run_strict rc du (ms a) tr = Some (ms a').
Proof.
  induction evs as [|e r IH]; intros k a a' H; cbn [accept_from] in H.
  - injection H as <-. exists []. reflexivity.
  - destruct (astep rc du a e) eqn:E; [|discriminate].
    destruct (astep_sound _ _ _ _ _ E) as [t1 H1]. destruct (IH _ _ _ H) as [t2 H2].
    exists (t1 ++ t2). rewrite (run_strict_app _ _ _ _ _ _ H1). exact H2.
Qed.

(* an accepted recording is a run of the model in which every action was enabled; the state the
   acceptor ends in is therefore reachable, satisfies the invariant, has no stopper in the error
   state *)
Theorem accept_sound app0 w0 k evs a :
  accept_shutdown true true app0 w0 k evs = Accepted a ->
  (exists tr, run_strict true true (init app0 w0 k) tr = Some (ms a) /\ ms a = run true true (init app0 w0 k) tr)
  /\ Inv (ms a) /\ errorb (ms a) = false.
Proof.
  intros H. destruct (accept_from_sound _ _ _ _ _ _ H) as [tr Htr]. cbn [ms] in Htr.
  pose proof (run_strict_run _ _ _ _ _ Htr) as Hr.
  assert (I : Inv (ms a)) by (rewrite <- Hr; apply run_inv). split; [|split; [exact I|]].
  - exists tr. split; [exact Htr|symmetry; exact Hr].
  - apply errorb_false. apply (i_noerr _ I).
Qed.

(* what the recording sink saw, relative to the model's log *)
Definition AInv (a : acc) : Prop :=
  obs a = log (ms a)
  \/ (exists m, inflight (ms a) = Some m /\ obs a = log (ms a) ++ [m])
  \/ (exists m, worker (ms a) = false /\ log (ms a) = obs a ++ [m]).

Definition reset_act (a : act) : Prop :=
  match a with AResetStart _ | AResetCheck _ | AResetWake _ | AAppDie => True | _ => False end.

Lemma reset_step_keeps rc du s a s' : reset_act a -> step rc du s a = Some s' ->
  log s' = log s /\ inflight s' = inflight s /\ (worker s = false -> worker s' = false) /\ accepted s' = accepted s.
Proof.
  intros Hr E. destruct a; cbn in Hr; try contradiction; step_cases E; injection E as <-; cbn; auto.
Qed.

Lemma reset_steps_keep rc du tr : forall s s',
  (forall a, In a tr -> reset_act a) -> run_strict rc du s tr = Some s' ->
  log s' = log s /\ inflight s' = inflight s /\ (worker s = false -> worker s' = false) /\ accepted s' = accepted s.
Proof.
  induction tr as [|a r IH]; intros s s' Hin H; cbn [run_strict] in H.
  - injection H as <-. auto.
  - destruct (step rc du s a) eqn:E; [|discriminate].
    destruct (reset_step_keeps _ _ _ _ _ (Hin a (or_introl eq_refl)) E) as (K1 & K2 & K3 & K4).
    destruct (IH s0 s' (fun x Hx => Hin x (or_intror Hx)) H) as (J1 & J2 & J3 & J4).
    repeat split; try congruence. auto.
Qed.

Lemma wake_check_only s i a : In a (wake_if_asleep s i ++ [AResetCheck i]) -> reset_act a.
Proof.
  unfold wake_if_asleep. destruct (nth_error (stops s) i) as [r|]; [destruct r|]; cbn; intros H;
    repeat (destruct H as [<-|H]; [exact I|]); contradiction.
Qed.

Lemma ainv_keep a s' : AInv a ->
  log s' = log (ms a) -> inflight s' = inflight (ms a) -> (worker (ms a) = false -> worker s' = false) ->
  AInv (mk_acc s' (obs a)).
Proof.
  unfold AInv. cbn [ms obs]. intros A K1 K2 K3. rewrite K1, K2.
  destruct A as [A|[A|[x [A1 A2]]]]; [left; exact A|right; left; exact A|].
  right; right. exists x. split; [apply K3; exact A1|exact A2].
Qed.

Lemma one_reset_step rc du s act s' : step rc du s act = Some s' -> run_strict rc du s [act] = Some s'.
Proof. intros E. cbn [run_strict]. rewrite E. reflexivity. Qed.

Ltac keep E :=
  let K := fresh "K" in
  pose proof (fun R => reset_step_keeps _ _ _ _ _ R E) as K; cbn [reset_act] in K;
  destruct (K Logic.I) as (K1 & K2 & K3 & K4).

Lemma astep_ainv a e a' : Inv (ms a) -> AInv a -> astep true true a e = Some a' -> AInv a'.
Proof.
  unfold astep. intros I A H. destruct e.
  - (* post *)
    unfold AInv in *. destruct (mem m (accepted (ms a))); [discriminate|].
    destruct (worker (ms a)) eqn:Ew; cbn [negb andb] in H.
    + destruct (step true true (ms a) (APost m)) eqn:E; [|discriminate]. injection H as <-. cbn [ms obs].
      cbn [step] in E. destruct (mtx (ms a)); [discriminate|]. rewrite Ew in E. injection E as <-. cbn.
      destruct A as [A|[A|[x [A _]]]]; [left; exact A|right; left; exact A|discriminate].
    + destruct (list_eqb (log (ms a)) (obs a)) eqn:El; cbn [negb] in H; [|discriminate].
      apply list_eqb_eq in El.
      destruct (step true true (ms a) (APost m)) eqn:E; [|discriminate]. injection H as <-. cbn [ms obs].
      cbn [step] in E. destruct (mtx (ms a)); [discriminate|]. rewrite Ew in E. injection E as <-. cbn.
      right; right. exists m. split; [reflexivity|]. rewrite El. reflexivity.
  - (* take *)
    unfold AInv in *. destruct (step true true (ms a) ATake) eqn:E; [|discriminate]. injection H as <-. cbn [ms obs].
    cbn [step] in E. destruct (app (ms a)); [|discriminate]. destruct (worker (ms a)) eqn:Ew; [|discriminate].
    destruct (inflight (ms a)) eqn:Ei; [discriminate|]. destruct (queue (ms a)); [discriminate|].
    injection E as <-. cbn.
    destruct A as [A|[[x [A _]]|[x [A _]]]]; [left; exact A|discriminate|discriminate].
  - (* deliver *)
    unfold AInv in *. destruct sync.
    + destruct (worker (ms a)) eqn:Ew; cbn [negb andb] in H; [discriminate|].
      destruct (list_eqb (log (ms a)) (obs a ++ [m])) eqn:El; [|discriminate].
      apply list_eqb_eq in El. injection H as <-. cbn [ms obs]. left. symmetry. exact El.
    + destruct (inflight (ms a)) eqn:Ei; [|discriminate].
      destruct (Nat.eqb m n) eqn:En; cbn [andb] in H; [|discriminate]. apply Nat.eqb_eq in En. subst n.
      destruct (list_eqb (log (ms a)) (obs a)) eqn:El; [|discriminate].
      apply list_eqb_eq in El. injection H as <-. cbn [ms obs]. right; left. exists m.
      split; [exact Ei|]. rewrite El. reflexivity.
  - (* done *)
    unfold AInv. destruct (step true true (ms a) (ADone ok)) eqn:E; [|discriminate].
    destruct (list_eqb (log s) (obs a)) eqn:El; [|discriminate]. apply list_eqb_eq in El.
    injection H as <-. cbn [ms obs]. left. symmetry. exact El.
  - (* reset locked *)
    destruct (worker (ms a)) eqn:Ew; [|discriminate].
    destruct (step true true (ms a) (AResetStart i)) eqn:E; [|discriminate]. injection H as <-.
    keep E. apply ainv_keep; assumption.
  - (* waiting *)
    destruct (run_strict true true (ms a) (wake_if_asleep (ms a) i ++ [AResetCheck i])) eqn:E; [|discriminate].
    destruct (nth_error (stops s) i) as [r|]; [|discriminate]. destruct r; try discriminate. injection H as <-.
    apply reset_steps_keep in E; [|apply wake_check_only]. destruct E as (K1 & K2 & K3 & K4).
    apply ainv_keep; assumption.
  - (* quit *)
    destruct (run_strict true true (ms a) (wake_if_asleep (ms a) i ++ [AResetCheck i])) eqn:E; [|discriminate].
    destruct (nth_error (stops s) i) as [r|]; [|discriminate]. destruct r; try discriminate.
    destruct (list_eqb (obs a) (accepted s)); [|discriminate]. injection H as <-.
    apply reset_steps_keep in E; [|apply wake_check_only]. destruct E as (K1 & K2 & K3 & K4).
    apply ainv_keep; assumption.
  - (* stop end *)
    destruct (nth_error (stops (ms a)) i) as [r|]; [|discriminate]. destruct r; try discriminate.
    + destruct (worker (ms a)) eqn:Ew; [discriminate|].
      destruct (step true true (ms a) (AResetStart i)) eqn:E; [|discriminate]. injection H as <-.
      keep E. apply ainv_keep; assumption.
    + destruct (worker (ms a)) eqn:Ew; [discriminate|].
      destruct (step true true (ms a) (AResetWake i)) eqn:E; [|discriminate].
      destruct (nth_error (stops s) i) as [r|]; [|discriminate]. destruct r; try discriminate.
      injection H as <-.
      keep E. apply ainv_keep; assumption.
    + injection H as <-. exact A.
  - (* app gone *)
    destruct (step true true (ms a) AAppDie) eqn:E; [|discriminate]. injection H as <-.
    keep E. apply ainv_keep; assumption.
  - (* move *)
    destruct (worker (ms a)) eqn:Ew.
    + injection H as <-. exact A.
    + destruct (list_eqb (log (ms a)) (obs a)) eqn:El; [|discriminate]. apply list_eqb_eq in El.
      destruct (step true true (ms a) AMove) eqn:E; [|discriminate]. injection H as <-. unfold AInv. cbn [ms obs].
      left. step_cases E. injection E as <-. cbn. symmetry. exact El.
  - destruct (mem m (accepted (ms a))); [|discriminate]. injection H as <-. exact A.
  - destruct (negb (worker (ms a)) && list_eqb (obs a) (accepted (ms a))); [|discriminate].
    injection H as <-. exact A.
Qed.

Lemma accept_from_ainv evs : forall k a a', Inv (ms a) -> AInv a -> accept_from true true k a evs = Accepted a' ->
  Inv (ms a') /\ AInv a'.
Proof.
  induction evs as [|e r IH]; intros k a a' I A H; cbn [accept_from] in H.
  - injection H as <-. auto.
  - destruct (astep true true a e) eqn:E; [|discriminate].
    destruct (astep_sound _ _ _ _ _ E) as [t Ht]. apply run_strict_run in Ht.
    apply (IH (S k) a0 a'); [rewrite <- Ht; apply run_inv_from; exact I|eapply astep_ainv; eassumption|exact H].
Qed.

Theorem accept_obs_prefix app0 w0 k evs a :
  accept_shutdown true true app0 w0 k evs = Accepted a -> exists rest, accepted (ms a) = obs a ++ rest.
Proof.
  intros H. unfold accept_shutdown in H.
  destruct (accept_from_ainv evs 0 (mk_acc (init app0 w0 k) []) a (init_inv app0 w0 k) (or_introl eq_refl) H) as [I A].
  pose proof (i_acc _ I) as Hacc. destruct A as [A|[[m [A1 A2]]|[m [A1 A2]]]].
  - rewrite A. eexists. exact Hacc.
  - rewrite A2, A1 in *. cbn in Hacc. exists (queue (ms a)). rewrite Hacc, <- app_assoc. reflexivity.
  - destruct (i_now _ I A1) as [Hq Hi]. rewrite Hq, Hi in Hacc. cbn in Hacc. rewrite app_nil_r in Hacc.
    exists [m]. rewrite Hacc. exact A2.
Qed.

Theorem accept_exit_complete rc du app0 w0 k evs a :
  accept_shutdown rc du app0 w0 k (evs ++ [EExit]) = Accepted a -> obs a = accepted (ms a) /\ worker (ms a) = false.
Proof.
  unfold accept_shutdown. generalize (mk_acc (init app0 w0 k) []) as a0. generalize 0 as n.
  induction evs as [|e r IH]; intros n a0 H; cbn [List.app accept_from] in H.
  - unfold astep in H.
    destruct (worker (ms a0)) eqn:Ew; cbn [negb andb] in H; [discriminate|].
    destruct (list_eqb (obs a0) (accepted (ms a0))) eqn:El; [|discriminate].
    injection H as <-. apply list_eqb_eq in El. auto.
  - destruct (astep rc du a0 e); [|discriminate]. eapply IH. exact H.
Qed.

Lemma prefix_b_spec a : forall b, prefix_b a b = true <-> exists rest, b = a ++ rest.
Proof.
  induction a as [|x a IH]; intros b; cbn.
  - split; [intros _; exists b; reflexivity|reflexivity].
  - destruct b as [|y b]; [split; [discriminate|intros [r Hr]; discriminate]|].
    split.
    + intros H. apply andb_prop in H. destruct H as [H1 H2]. apply Nat.eqb_eq in H1. subst y.
      apply IH in H2. destruct H2 as [r ->]. exists r. reflexivity.
    + intros [r Hr]. injection Hr as -> ->. rewrite Nat.eqb_refl. cbn. apply IH. exists r. reflexivity.
Qed.

Theorem oracle_holds a w k tr :
  let s := run true true (init a w k) tr in prop_c04_b (accepted s) (log s) (negb (worker s)) = true.
Proof.
  intros s. unfold prop_c04_b. destruct (worker s) eqn:Ew; cbn [negb].
  - apply prefix_b_spec. apply log_prefix.
  - apply list_eqb_eq. apply drained_when_stopped. exact Ew.
Qed.

(* ------------------------------------------------------------------ rejecting handlers -------- *)
(* OwnThreadHandler<> may wrap any Handler; process() of a filter-like handler returns false for a
   message it rejects.  The worker discards that result (du = true): *)
Theorem done_ignores_verdict rc s ok : step rc true s (ADone ok) = step rc true s (ADone true).
Proof. reflexivity. Qed.

Theorem rejected_is_counted_down rc s ok s' : step rc true s (ADone ok) = Some s' ->
  exists m, inflight s = Some m /\ inflight s' = None /\ pending s' = pred (pending s) /\
            log s' = log s ++ [m] /\ queue s' = queue s /\ accepted s' = accepted s /\ stops s' = stops s.
Proof.
  cbn [step]. destruct (inflight s) as [m|]; [|discriminate]. intros H. injection H as <-.
  exists m. cbn. repeat split.
Qed.

Lemma run_done_verdicts_irrelevant rc tr : forall s,
  run rc true s (map (fun a => match a with ADone _ => ADone true | x => x end) tr) = run rc true s tr.
Proof.
  induction tr as [|a r IH]; intros s; cbn [map run]; [reflexivity|].
  destruct a; try (destruct (step rc true s _); apply IH).
Qed.

Lemma leaked_b_spec s : leaked_b s = true <->
  worker s = true /\ length (queue s) + length (opt_list (inflight s)) < pending s.
Proof.
  unfold leaked_b. rewrite andb_true_iff, Nat.ltb_lt. tauto.
Qed.

(* with du = true no count ever leaks *)
Theorem never_leaks a w k tr : leaked_b (run true true (init a w k) tr) = false.
Proof.
  pose proof (run_inv a w k tr) as I. destruct (leaked_b _) eqn:E; [|reflexivity].
  apply leaked_b_spec in E. destruct E as [_ E]. rewrite (i_pend _ I) in E. lia.
Qed.

(* a leaked count stays leaked, whatever happens next and whatever the switches are: the loop test
   of a stop never sees zero, the worker is never stopped, no stop call returns *)
Definition Leak (s : st) : Prop := leaked_b s = true /\ ~ In RDone (stops s).

Lemma leak_step rc du s a s' : Leak s -> step rc du s a = Some s' -> Leak s'.
Proof.
  intros [L Hd] H. apply leaked_b_spec in L. destruct L as [Hw Hl]. unfold Leak. rewrite leaked_b_spec.
  destruct a; cbn [step] in H.
  - destruct (mtx s); [discriminate|]. rewrite Hw in H. injection H as <-. cbn. rewrite app_length. cbn.
    repeat split; [lia|exact Hd].
  - destruct (app s); [|discriminate]. rewrite Hw in H. destruct (inflight s) eqn:Ei; [discriminate|].
    destruct (queue s) eqn:Eq; [discriminate|]. injection H as <-. cbn in *. repeat split; [lia|exact Hd].
  - destruct (inflight s) eqn:Ei; [|discriminate]. injection H as <-. cbn in *.
    repeat split; [exact Hw|destruct (du || ok); lia|exact Hd].
  - destruct (nth_error (stops s) i) as [r|] eqn:En; [|discriminate].
    destruct (startable r && negb (mtx s)); [|discriminate]. rewrite Hw in H. injection H as <-. cbn.
    repeat split; [exact Hl|]. intros Hx. apply in_upd in Hx. destruct Hx as [Hx|Hx]; [discriminate|auto].
  - destruct (nth_error (stops s) i) as [r|] eqn:En; [|discriminate]. destruct r; try discriminate.
    rewrite Hw in H. destruct (Nat.ltb_spec 0 (pending s)); [|lia]. injection H as <-. cbn.
    repeat split; [exact Hl|]. intros Hx. apply in_upd in Hx. destruct Hx as [Hx|Hx]; [discriminate|auto].
  - destruct (nth_error (stops s) i) as [r|] eqn:En; [|discriminate]. destruct r; try discriminate.
    destruct (mtx s); [discriminate|]. rewrite Hw in H. cbn [orb] in H. injection H as <-. cbn.
    repeat split; [exact Hl|]. intros Hx. apply in_upd in Hx. destruct Hx as [Hx|Hx]; [discriminate|auto].
  - injection H as <-. cbn. repeat split; assumption.
  - destruct (mtx s); [discriminate|]. rewrite Hw in H. injection H as <-. repeat split; assumption.
Qed.

Theorem leak_forever rc du tr : forall s, Leak s -> Leak (run rc du s tr).
Proof.
  induction tr as [|a r IH]; intros s L; cbn [run]; [exact L|].
  destruct (step rc du s a) eqn:E; [apply IH; eapply leak_step; eassumption|apply IH; exact L].
Qed.

(* ... and why the unconditional decrement matters: were customEvent to leave early when the wrapped
   handler rejects (early_return_skeleton: the switch computes to false), then after ONE rejected
   message — which the handler has seen: log = accepted, nothing queued, nothing in hand — no
   continuation whatsoever lets a stop call return *)
Definition rejecting_schedule : list act := [APost 0; APost 1; APost 2; ATake; ADone true; ATake; ADone false; ATake; ADone true; AResetStart 0].
Theorem stop_after_rejection_hangs_if_decrement_conditional :
  dec_unconditional early_return_skeleton = false /\
  exists s, run_strict true (dec_unconditional early_return_skeleton) (init true true 1) rejecting_schedule = Some s /\
            log s = accepted s /\ queue s = [] /\ inflight s = None /\ app s = true /\ In RCheck (stops s) /\
            forall rc tr, leaked_b (run rc false s tr) = true /\ ~ In RDone (stops (run rc false s tr)).
Proof.
  split; [reflexivity|]. eexists. split; [vm_compute; reflexivity|]. cbn.
  repeat split; try reflexivity; [left; reflexivity| |]; apply (leak_forever rc false tr);
    (split; [reflexivity|cbn; intros [H|[]]; discriminate]).
Qed.
