(* C01 — executable model of Pipeline::process (pipeline.cpp:52-77), the per-kind adapters
   (attrhandler.h, filter.h, formatter.h, sink.h, functionhandler.h) and the two mutable parts of a
   LogMessage (logmessage.h:84-92,140-141).  Definitions only: this file must keep compiling (and
   extracting) when a proof elsewhere breaks.

   The model is generic in a record [pipe_cfg] of control-flow facts which tools/s2c/pipeline.py reads
   from the source on every run (SrcPipeline.v : src_cfg); the theorems hold for every configuration
   passing the decidable check [cfg_goodb], the extracted model runs with [src_cfg]. *)
From Coq Require Import List NArith ZArith Bool Arith.
Import ListNotations.

(* ---------------------------------------------------------------- strings, values, messages *)
Definition str := list N.                      (* UTF-16 code units of a QString *)
Fixpoint seqb (a b : str) : bool :=
  match a, b with [], [] => true | x :: a', y :: b' => N.eqb x y && seqb a' b' | _, _ => false end.
Fixpoint prefixb (p t : str) : bool :=
  match p, t with [], _ => true | x :: p', y :: t' => N.eqb x y && prefixb p' t' | _ :: _, [] => false end.
Fixpoint containsb (s sub : str) : bool :=       (* QString::contains *)
  prefixb sub s || match s with [] => false | _ :: r => containsb r sub end.

(* QtMsgType in its numeric order 0..4 *)
Inductive mtype := Debug | Warning | Critical | Fatal | Info.
Definition severity (t : mtype) : nat :=
  match t with Debug => 0 | Info => 1 | Warning => 2 | Critical => 3 | Fatal => 4 end.
Definition mtype_eqb (a b : mtype) : bool := Nat.eqb (severity a) (severity b).

(* a QVariant of one of the five value types the vocabulary writes: QString, int, bool, double (the
   double h/2, so that integral and non-integral doubles occur), QByteArray.  Equality is STRICT (type
   and value): what a sink observes is userType() + value, never Qt5's loose QVariant::operator==
   (for which 1 == "1" == true == 1.0 and "abc" == QByteArray("abc")). *)
Inductive val := VStr (s : str) | VInt (z : Z) | VBool (b : bool) | VDbl (h : Z) | VBytes (b : list N).
Definition val_eqb (a b : val) : bool :=
  match a, b with
  | VStr x, VStr y => seqb x y | VInt x, VInt y => Z.eqb x y | VBool x, VBool y => Bool.eqb x y
  | VDbl x, VDbl y => Z.eqb x y | VBytes x, VBytes y => seqb x y | _, _ => false
  end.
Definition attrs := list (str * val).           (* QVariantHash: insert overrides; order never observed *)
Fixpoint insert (k : str) (v : val) (a : attrs) : attrs :=
  match a with
  | [] => [(k, v)]
  | (k', v') :: r => if seqb k k' then (k, v) :: r else (k', v') :: insert k v r
  end.
Fixpoint remove (k : str) (a : attrs) : attrs :=
  match a with [] => [] | (k', v') :: r => if seqb k k' then remove k r else (k', v') :: remove k r end.
Fixpoint lookup (k : str) (a : attrs) : option val :=
  match a with [] => None | (k', v) :: r => if seqb k k' then Some v else lookup k r end.
Fixpoint attrs_eqb (a b : attrs) : bool :=
  match a, b with
  | [], [] => true
  | (k, v) :: a', (k', v') :: b' => seqb k k' && val_eqb v v' && attrs_eqb a' b'
  | _, _ => false
  end.

(* LogMessage::updateAttributes with the hash built from the pairs: every returned key gets the returned value *)
Fixpoint merge_many (kvs : list (str * val)) (a : attrs) : attrs :=
  match kvs with [] => a | (k, v) :: r => merge_many r (insert k v a) end.
(* the value the returned hash holds for k *)
Fixpoint last_val (k : str) (kvs : list (str * val)) : option val :=
  match kvs with
  | [] => None
  | (k', v) :: r => match last_val k r with Some x => Some x | None => if seqb k k' then Some v else None end
  end.

(* [fmt = None] is the null QString = "not formatted" (logmessage.h:92); [Some []] is formatted with "" *)
Record msg := { mt : mtype; text : str; fmt : option str; mattrs : attrs }.
Definition is_formatted (m : msg) : bool := match fmt m with Some _ => true | None => false end.
(* LogMessage::formattedMessage(), logmessage.h:84-87 *)
Definition shown (m : msg) : str := match fmt m with Some f => f | None => text m end.
Definition set_fmt (m : msg) (f : option str) : msg :=
  {| mt := mt m; text := text m; fmt := f; mattrs := mattrs m |}.
Definition set_at (m : msg) (a : attrs) : msg :=
  {| mt := mt m; text := text m; fmt := fmt m; mattrs := a |}.

(* what a recording sink / probe sees of a message *)
Record content := { c_text : str; c_formatted : bool; c_attrs : attrs; c_raw : str }.
Definition content_of (m : msg) : content :=
  {| c_text := shown m; c_formatted := is_formatted m; c_attrs := mattrs m; c_raw := text m |}.
Definition content_eqb (a b : content) : bool :=
  seqb (c_text a) (c_text b) && Bool.eqb (c_formatted a) (c_formatted b)
  && attrs_eqb (c_attrs a) (c_attrs b) && seqb (c_raw a) (c_raw b).

(* ---------------------------------------------------------------- handlers *)
Inductive pred := PTrue | PFalse | PContains (s : str) | PHas (k : str) | PType (t : mtype).
Definition eval (p : pred) (m : msg) : bool :=
  match p with
  | PTrue => true
  | PFalse => false
  | PContains s => containsb (shown m) s
  | PHas k => match lookup k (mattrs m) with Some _ => true | None => false end
  | PType t => mtype_eqb t (mt m)
  end.

(* the closed vocabulary of scripted leaf behaviours, plus the stateful built-ins *)
Inductive leaf :=
| LAttrSet (k : str) (v : val)      (* FunctionAttrHandler returning {k: v}, v of any of the five types *)
| LAttrCopy (k : str)               (* FunctionAttrHandler returning {k: formattedMessage()} *)
| LAttrSetMany (kvs : list (str * val))  (* FunctionAttrHandler returning several pairs (later pairs of the list win) *)
| LFilter (p : pred)                (* FunctionFilter *)
| LFmtTag (tag : str)               (* FunctionFormatter: tag ":" shown *)
| LFmtAttr (tag k : str)            (* FunctionFormatter: tag "[" attribute k "]" *)
| LFmtNull                          (* FunctionFormatter returning the null QString *)
| LFmtEmpty                         (* FunctionFormatter returning "" *)
| LSink                             (* recording Sink *)
| LProbe                            (* recording FunctionHandler that returns true *)
| LGenSet (k : str) (v : val) (r : bool)  (* FunctionHandler: setAttribute(k, v), return r *)
| LGenRemove (k : str) (r : bool)   (* FunctionHandler: removeAttribute, return r *)
| LGenFmt (tag : str) (r : bool)    (* FunctionHandler: setFormattedMessage(tag + shown), return r *)
| LGenClear (r : bool)              (* FunctionHandler: setFormattedMessage(QString()), return r *)
| LSeq (name : str)                 (* SeqNumberAttr *)
| LDup                              (* DuplicateFilter *)
| LLevel (min : mtype).             (* LevelFilter *)

(* [oid] is the identity of the handler OBJECT: the same object inserted at several places has the
   same oid everywhere and shares its state (store entry) *)
Inductive handler :=
| HLeaf (oid : nat) (l : leaf)
| HNull                             (* a null QSharedPointer in the list *)
| HPipe (scoped : bool) (hs : list handler).

Inductive sstate := SSeq (z : Z) | SDup (last : str).
Definition store := list (nat * sstate).
Fixpoint sget (id : nat) (s : store) : option sstate :=
  match s with [] => None | (i, v) :: r => if Nat.eqb i id then Some v else sget id r end.
Fixpoint sset (id : nat) (v : sstate) (s : store) : store :=
  match s with
  | [] => [(id, v)]
  | (i, v') :: r => if Nat.eqb i id then (i, v) :: r else (i, v') :: sset id v r
  end.

(* one event per executed leaf.  [EExec o r]: the user-level function of object o ran and returned r
   (attribute handlers and formatters have no verdict of their own: r = true).  [EDeliver o p c]: the
   recording sink (p = false) or probe (p = true) o saw content c. *)
Inductive event := EExec (oid : nat) (r : bool) | EDeliver (oid : nat) (probe : bool) (c : content).

(* ---------------------------------------------------------------- source-derived configuration *)
Record pipe_cfg := {
  null_skips : bool;            (* `if (!handler) continue;`           false: the loop stops there *)
  reject_breaks : bool;         (* `if (!handler->process(lmsg)) break;` false: the loop goes on *)
  pipe_returns_true : bool;     (* `return true;`                      false: returns whether no handler rejected *)
  fmsg_init_null : bool;        (* `QString fmsg;` (null)              false: initialised with "" *)
  save_fmt_if_formatted : bool; (* fmsg assigned only under isFormatted()  false: formattedMessage() saved always *)
  restores_fmt : bool;          (* scoped: lmsg.setFormattedMessage(fmsg) *)
  restores_attrs : bool;        (* scoped: lmsg.setAttributes(attrs) *)
  attr_continues : bool;        (* AttrHandler::process returns true *)
  filter_returns_verdict : bool;(* Filter::process returns filter(lmsg) *)
  fmt_overwrites : bool;        (* Formatter::process sets the formatted text unconditionally *)
  fmt_continues : bool;         (* Formatter::process returns true *)
  sink_continues : bool;        (* Sink::process returns true *)
  fluent_child_scoped : bool    (* SimplePipeline::pipeline() creates a scoped child *)
}.
Definition std_cfg : pipe_cfg :=
  {| null_skips := true; reject_breaks := true; pipe_returns_true := true; fmsg_init_null := true;
     save_fmt_if_formatted := true; restores_fmt := true; restores_attrs := true; attr_continues := true;
     filter_returns_verdict := true; fmt_overwrites := true; fmt_continues := true; sink_continues := true;
     fluent_child_scoped := true |}.
Definition cfg_goodb (c : pipe_cfg) : bool :=
  null_skips c && reject_breaks c && pipe_returns_true c && fmsg_init_null c && save_fmt_if_formatted c
  && restores_fmt c && restores_attrs c && attr_continues c && filter_returns_verdict c && fmt_overwrites c
  && fmt_continues c && sink_continues c && fluent_child_scoped c.

(* ---------------------------------------------------------------- evaluation *)
(* store, message, "continue" flag (the bool process() returns), events *)
Definition res := (store * msg * bool * list event)%type.

Definition attr_val_str (m : msg) (k : str) : str :=
  match lookup k (mattrs m) with Some (VStr s) => s | Some _ => [35%N] | None => [45%N] end.
(* Formatter::process: lmsg.setFormattedMessage(format(lmsg)) *)
Definition apply_fmt (c : pipe_cfg) (m : msg) (f : option str) : msg :=
  if fmt_overwrites c then set_fmt m f else match fmt m with Some _ => m | None => set_fmt m f end.

Definition exec_leaf (c : pipe_cfg) (o : nat) (l : leaf) (st : store) (m : msg) : res :=
  match l with
  | LAttrSet k v => (st, set_at m (insert k v (mattrs m)), attr_continues c, [EExec o true])
  | LAttrCopy k => (st, set_at m (insert k (VStr (shown m)) (mattrs m)), attr_continues c, [EExec o true])
  | LAttrSetMany kvs => (st, set_at m (merge_many kvs (mattrs m)), attr_continues c, [EExec o true])
  | LFilter p => let v := eval p m in (st, m, if filter_returns_verdict c then v else true, [EExec o v])
  | LFmtTag tag => (st, apply_fmt c m (Some (tag ++ [58%N] ++ shown m)), fmt_continues c, [EExec o true])
  | LFmtAttr tag k =>
      (st, apply_fmt c m (Some (tag ++ [91%N] ++ attr_val_str m k ++ [93%N])), fmt_continues c, [EExec o true])
  | LFmtNull => (st, apply_fmt c m None, fmt_continues c, [EExec o true])
  | LFmtEmpty => (st, apply_fmt c m (Some []), fmt_continues c, [EExec o true])
  | LSink => (st, m, sink_continues c, [EDeliver o false (content_of m)])
  | LProbe => (st, m, true, [EDeliver o true (content_of m)])
  | LGenSet k v r => (st, set_at m (insert k v (mattrs m)), r, [EExec o r])
  | LGenRemove k r => (st, set_at m (remove k (mattrs m)), r, [EExec o r])
  | LGenFmt tag r => (st, set_fmt m (Some (tag ++ shown m)), r, [EExec o r])
  | LGenClear r => (st, set_fmt m None, r, [EExec o r])
  | LSeq name =>
      let n := match sget o st with Some (SSeq z) => z | _ => 0%Z end in
      (sset o (SSeq (n + 1)%Z) st, set_at m (insert name (VInt n) (mattrs m)), attr_continues c, [EExec o true])
  | LDup =>
      let last := match sget o st with Some (SDup l) => l | _ => [] end in
      if seqb (text m) last
      then (st, m, if filter_returns_verdict c then false else true, [EExec o false])
      else (sset o (SDup (text m)) st, m, true, [EExec o true])
  | LLevel min =>
      let v := Nat.leb (severity min) (severity (mt m)) in
      (st, m, if filter_returns_verdict c then v else true, [EExec o v])
  end.

(* what Pipeline::process keeps in `fmsg` on entry *)
Definition saved_fmt (c : pipe_cfg) (m : msg) : option str :=
  if save_fmt_if_formatted c
  then match fmt m with Some f => Some f | None => if fmsg_init_null c then None else Some [] end
  else Some (shown m).
Definition restore (c : pipe_cfg) (scoped : bool) (entry : msg) (m' : msg) : msg :=
  if scoped
  then let m1 := if restores_fmt c then set_fmt m' (saved_fmt c entry) else m' in
       if restores_attrs c then set_at m1 (mattrs entry) else m1
  else m'.

(* Handler::process for every kind of handler; the inner [fix] is the loop of Pipeline::process and is
   convertible with [run] below (lemma exec_pipe). *)
Fixpoint exec (c : pipe_cfg) (h : handler) (st : store) (m : msg) {struct h} : res :=
  match h with
  | HLeaf o l => exec_leaf c o l st m
  | HNull => (st, m, true, [])
  | HPipe scoped hs =>
      let '(st', m', ok, evs) :=
        (fix run (hs : list handler) (st : store) (m : msg) {struct hs} : res :=
           match hs with
           | [] => (st, m, true, [])
           | HNull :: t => if null_skips c then run t st m else (st, m, true, [])
           | h :: t =>
               let '(st1, m1, k, e1) := exec c h st m in
               if k then let '(st2, m2, k2, e2) := run t st1 m1 in (st2, m2, k2, e1 ++ e2)
               else if reject_breaks c then (st1, m1, false, e1)
               else let '(st2, m2, _, e2) := run t st1 m1 in (st2, m2, false, e1 ++ e2)
           end) hs st m in
      (st', restore c scoped m m', if pipe_returns_true c then true else ok, evs)
  end.

(* the handler loop of one pipeline: (store, message left by the last executed handler,
   "no handler rejected", events) *)
Definition run (c : pipe_cfg) : list handler -> store -> msg -> res :=
  fix run (hs : list handler) (st : store) (m : msg) {struct hs} : res :=
  match hs with
  | [] => (st, m, true, [])
  | HNull :: t => if null_skips c then run t st m else (st, m, true, [])
  | h :: t =>
      let '(st1, m1, k, e1) := exec c h st m in
      if k then let '(st2, m2, k2, e2) := run t st1 m1 in (st2, m2, k2, e1 ++ e2)
      else if reject_breaks c then (st1, m1, false, e1)
      else let '(st2, m2, _, e2) := run t st1 m1 in (st2, m2, false, e1 ++ e2)
  end.

(* a message sequence through a root pipeline (the root's own handler list; handler state persists
   between messages).  Per message: its events and the content of the message after the root returned *)
Fixpoint run_seq (c : pipe_cfg) (root : list handler) (st : store) (ms : list msg)
  : store * list (list event * content) :=
  match ms with
  | [] => (st, [])
  | m :: r =>
      let '(st1, m1, _, e) := run c root st m in
      let '(st2, out) := run_seq c root st1 r in (st2, (e, content_of m1) :: out)
  end.

Definition res_events (r : res) : list event := snd r.
Definition res_ok (r : res) : bool := snd (fst r).
Definition res_msg (r : res) : msg := snd (fst (fst r)).
Definition res_store (r : res) : store := fst (fst (fst r)).

(* ---------------------------------------------------------------- specification of the event order *)
(* can event e come from leaf (o, l), and does the pipeline continue after it?  Attribute handlers,
   formatters, sinks and probes always continue; filters and generic handlers continue iff the
   value their function returned is true; a generic scripted handler returns its scripted value. *)
Definition leaf_event (o : nat) (l : leaf) (e : event) : option bool :=
  match l, e with
  | LSink, EDeliver o' false _ => if Nat.eqb o o' then Some true else None
  | LProbe, EDeliver o' true _ => if Nat.eqb o o' then Some true else None
  | (LSink | LProbe), _ => None
  | (LAttrSet _ _ | LAttrCopy _ | LAttrSetMany _ | LFmtTag _ | LFmtAttr _ _ | LFmtNull | LFmtEmpty | LSeq _), EExec o' r =>
      if Nat.eqb o o' && r then Some true else None
  | (LFilter _ | LDup | LLevel _), EExec o' r => if Nat.eqb o o' then Some r else None
  | (LGenSet _ _ r0 | LGenRemove _ r0 | LGenFmt _ r0 | LGenClear r0), EExec o' r =>
      if Nat.eqb o o' && Bool.eqb r r0 then Some r else None
  | _, EDeliver _ _ _ => None
  end.

(* "the executed handlers are the in-order traversal of the tree, cut at each rejection at the
   boundary of the rejecting handler's own pipeline" *)
Inductive Trav : list handler -> list event -> Prop :=
| TNil : Trav [] []
| TNull t evs : Trav t evs -> Trav (HNull :: t) evs
| TStop o l e t : leaf_event o l e = Some false -> Trav (HLeaf o l :: t) [e]
| TGo o l e t evs : leaf_event o l e = Some true -> Trav t evs -> Trav (HLeaf o l :: t) (e :: evs)
| TPipe sc c t e1 e2 : Trav c e1 -> Trav t e2 -> Trav (HPipe sc c :: t) (e1 ++ e2).

(* its decision procedure: consume the events of one handler / one handler list, return the rest *)
Fixpoint accept_h (h : handler) (evs : list event) {struct h} : option (bool * list event) :=
  match h with
  | HNull => Some (true, evs)
  | HLeaf o l =>
      match evs with
      | e :: r => match leaf_event o l e with Some k => Some (k, r) | None => None end
      | [] => None
      end
  | HPipe _ c =>
      match (fix acc (hs : list handler) (evs : list event) {struct hs} : option (list event) :=
               match hs with
               | [] => Some evs
               | h :: t => match accept_h h evs with
                           | Some (true, r) => acc t r
                           | Some (false, r) => Some r
                           | None => None
                           end
               end) c evs with
      | Some r => Some (true, r)
      | None => None
      end
  end.
Fixpoint accept (hs : list handler) (evs : list event) {struct hs} : option (list event) :=
  match hs with
  | [] => Some evs
  | h :: t => match accept_h h evs with
              | Some (true, r) => accept t r
              | Some (false, r) => Some r
              | None => None
              end
  end.
Definition trav_b (hs : list handler) (evs : list event) : bool :=
  match accept hs evs with Some [] => true | _ => false end.

(* ---------------------------------------------------------------- scoped restore, seen by probes *)
(* the first leaf the loop reaches (null entries and leafless pipelines are transparent) *)
Fixpoint first_leaf_h (h : handler) : option (nat * leaf) :=
  match h with
  | HLeaf o l => Some (o, l)
  | HNull => None
  | HPipe _ c =>
      (fix fl (hs : list handler) : option (nat * leaf) :=
         match hs with
         | [] => None
         | h :: t => match first_leaf_h h with Some x => Some x | None => fl t end
         end) c
  end.
Fixpoint first_leaf (hs : list handler) : option (nat * leaf) :=
  match hs with
  | [] => None
  | h :: t => match first_leaf_h h with Some x => Some x | None => first_leaf t end
  end.
(* if the first leaf reached is a probe, the content its delivery (the head event) shows *)
Definition entry_content (hs : list handler) (evs : list event) : option content :=
  match first_leaf hs, evs with
  | Some (_, LProbe), EDeliver _ true c :: _ => Some c
  | _, _ => None
  end.
Definition agree (a b : option content) : bool :=
  match a, b with Some x, Some y => content_eqb x y | _, _ => true end.

(* For every scoped child: the content seen by a probe that is the first thing the child runs equals
   the content seen by a probe that is the first thing run after the child (so also the first thing
   of the next scoped sibling).  Walks the tree along the events like [accept]. *)
Fixpoint probes_ok_h (h : handler) (evs : list event) {struct h} : bool :=
  match h with
  | HPipe _ c =>
      (fix po (hs : list handler) (evs : list event) {struct hs} : bool :=
         match hs with
         | [] => true
         | h :: t =>
             probes_ok_h h evs
             && match accept_h h evs with
                | Some (true, r) =>
                    match h with
                    | HPipe true c' => agree (entry_content c' evs) (entry_content t r)
                    | _ => true
                    end && po t r
                | _ => true
                end
         end) c evs
  | _ => true
  end.
Fixpoint probes_ok (hs : list handler) (evs : list event) {struct hs} : bool :=
  match hs with
  | [] => true
  | h :: t =>
      probes_ok_h h evs
      && match accept_h h evs with
         | Some (true, r) =>
             match h with
             | HPipe true c' => agree (entry_content c' evs) (entry_content t r)
             | _ => true
             end && probes_ok t r
         | _ => true
         end
  end.

(* ---------------------------------------------------------------- a sink gets the latest effect *)
(* what a delivery must show when it is the first thing that runs after leaf l continued *)
Definition effect_seen (l : leaf) (c : content) : bool :=
  match l with
  | LFmtTag tag => c_formatted c && prefixb (tag ++ [58%N]) (c_text c)
  | LFmtAttr tag _ => c_formatted c && prefixb (tag ++ [91%N]) (c_text c)
  | LFmtNull | LGenClear _ => negb (c_formatted c) && seqb (c_text c) (c_raw c)
  | LFmtEmpty => c_formatted c && seqb (c_text c) []
  | LGenFmt tag _ => c_formatted c && prefixb tag (c_text c)
  | LAttrSet k v | LGenSet k v _ => match lookup k (c_attrs c) with Some v' => val_eqb v v' | None => false end
  | LGenRemove k _ => match lookup k (c_attrs c) with None => true | Some _ => false end
  | LAttrSetMany kvs =>
      forallb (fun kv => match last_val (fst kv) kvs with
                         | Some v => match lookup (fst kv) (c_attrs c) with Some v' => val_eqb v v' | None => false end
                         | None => true
                         end) kvs
  | LSeq name => match lookup name (c_attrs c) with Some (VInt _) => true | _ => false end
  | _ => true
  end.
Definition deliver_head (evs : list event) : option content :=
  match evs with EDeliver _ _ c :: _ => Some c | _ => None end.
Definition next_delivery (t : list handler) (r : list event) : option content :=
  match first_leaf t with
  | Some (_, LSink) | Some (_, LProbe) => deliver_head r
  | _ => None
  end.
Definition effect_check (h : handler) (t : list handler) (r : list event) : bool :=
  match h with
  | HLeaf _ l => match next_delivery t r with Some c => effect_seen l c | None => true end
  | _ => true
  end.
Fixpoint effects_ok_h (h : handler) (evs : list event) {struct h} : bool :=
  match h with
  | HPipe _ c =>
      (fix eo (hs : list handler) (evs : list event) {struct hs} : bool :=
         match hs with
         | [] => true
         | h :: t =>
             effects_ok_h h evs
             && match accept_h h evs with
                | Some (true, r) => effect_check h t r && eo t r
                | _ => true
                end
         end) c evs
  | _ => true
  end.
Fixpoint effects_ok (hs : list handler) (evs : list event) {struct hs} : bool :=
  match hs with
  | [] => true
  | h :: t =>
      effects_ok_h h evs
      && match accept_h h evs with
         | Some (true, r) => effect_check h t r && effects_ok t r
         | _ => true
         end
  end.

(* every delivery carries the raw text of the message; an unformatted message is shown as its raw text *)
Definition deliv_ok (m : msg) (evs : list event) : bool :=
  forallb (fun e => match e with
                    | EDeliver _ _ c => seqb (c_raw c) (text m)
                                        && (c_formatted c || seqb (c_text c) (c_raw c))
                    | EExec _ _ => true
                    end) evs.

(* the boolean oracle evaluated on the events the IMPLEMENTATION recorded for one message *)
Definition prop_c01_b (hs : list handler) (m : msg) (evs : list event) : bool :=
  trav_b hs evs && probes_ok hs evs && deliv_ok m evs && effects_ok hs evs.
(* which law fails: 0 = none, 1 = order, 2 = scoped restore, 3 = delivery content, 4 = latest effect *)
Definition prop_c01_which (hs : list handler) (m : msg) (evs : list event) : nat :=
  if negb (trav_b hs evs) then 1 else if negb (probes_ok hs evs) then 2 else if negb (deliv_ok m evs) then 3
  else if negb (effects_ok hs evs) then 4 else 0.

(* ---------------------------------------------------------------- inlining of unscoped children *)
Fixpoint inline_h (h : handler) : list handler :=
  match h with
  | HPipe false c => (fix il (hs : list handler) : list handler :=
                        match hs with [] => [] | h :: t => inline_h h ++ il t end) c
  | HPipe true c => [HPipe true ((fix il (hs : list handler) : list handler :=
                                    match hs with [] => [] | h :: t => inline_h h ++ il t end) c)]
  | _ => [h]
  end.
Fixpoint inline (hs : list handler) : list handler :=
  match hs with [] => [] | h :: t => inline_h h ++ inline t end.
Definition all_accept (evs : list event) : bool :=
  forallb (fun e => match e with EExec _ r => r | EDeliver _ _ _ => true end) evs.

(* ---------------------------------------------------------------- the last write to a key wins *)
(* the (type, value) leaf l writes to key k when its function runs (statically known for the scripted setters) *)
Definition leaf_sets (l : leaf) (k : str) : option val :=
  match l with
  | LAttrSet k' v | LGenSet k' v _ => if seqb k k' then Some v else None
  | LAttrSetMany kvs => last_val k kvs
  | _ => None
  end.
(* can leaf l change what key k holds? *)
Definition writes_key (l : leaf) (k : str) : bool :=
  match l with
  | LAttrSet k' _ | LGenSet k' _ _ | LAttrCopy k' | LGenRemove k' _ | LSeq k' => seqb k k'
  | LAttrSetMany kvs => match last_val k kvs with Some _ => true | None => false end
  | _ => false
  end.
(* can handler h leave key k changed for what runs AFTER it?  A scoped child cannot, whatever it contains. *)
Fixpoint may_write (k : str) (h : handler) {struct h} : bool :=
  match h with
  | HLeaf _ l => writes_key l k
  | HNull => false
  | HPipe true _ => false
  | HPipe false c => (fix mw (hs : list handler) : bool :=
                        match hs with [] => false | h :: t => may_write k h || mw t end) c
  end.
Fixpoint may_write_l (k : str) (hs : list handler) : bool :=
  match hs with [] => false | h :: t => may_write k h || may_write_l k t end.

(* ---------------------------------------------------------------- structural edits between messages *)
(* Handler::HandlerType of the real object behind a node (probes and the generic scripted handlers are
   FunctionHandler = plain Handler) *)
Inductive hclass := CAttr | CFilter | CFmt | CSink | CPipe | CGen.
Definition hclass_rank (c : hclass) : nat :=
  match c with CAttr => 0 | CFilter => 1 | CFmt => 2 | CSink => 3 | CPipe => 4 | CGen => 5 end.
Definition hclass_eqb (a b : hclass) : bool := Nat.eqb (hclass_rank a) (hclass_rank b).
Definition leaf_class (l : leaf) : hclass :=
  match l with
  | LAttrSet _ _ | LAttrCopy _ | LAttrSetMany _ | LSeq _ => CAttr
  | LFilter _ | LDup | LLevel _ => CFilter
  | LFmtTag _ | LFmtAttr _ _ | LFmtNull | LFmtEmpty => CFmt
  | LSink => CSink
  | LProbe | LGenSet _ _ _ | LGenRemove _ _ | LGenFmt _ _ | LGenClear _ => CGen
  end.
Definition class_of (h : handler) : option hclass :=
  match h with HLeaf _ l => Some (leaf_class l) | HNull => None | HPipe _ _ => Some CPipe end.
Definition in_cls (cs : list hclass) (h : handler) : bool :=
  match class_of h with Some k => existsb (hclass_eqb k) cs | None => false end.
Definition has_oid (o : nat) (h : handler) : bool :=
  match h with HLeaf o' _ => Nat.eqb o o' | _ => false end.

(* index of the first element satisfying p (the length if none) *)
Fixpoint find_first (p : handler -> bool) (l : list handler) : nat :=
  match l with [] => 0 | x :: r => if p x then 0 else S (find_first p r) end.
(* index just after the last element satisfying p (0 if none) *)
Fixpoint after_last (p : handler -> bool) (l : list handler) : nat :=
  match l with
  | [] => 0
  | x :: r => match after_last p r with 0 => if p x then 1 else 0 | S n => S (S n) end
  end.
Definition insert_at (n : nat) (h : handler) (l : list handler) : list handler := firstn n l ++ h :: skipn n l.
(* SortedPipeline::insertBetweenNearLeft / NearRight (sortedpipeline.cpp) *)
Definition near_left (lt rt : list hclass) (h : handler) (l : list handler) : list handler :=
  let fr := find_first (in_cls rt) l in insert_at (after_last (in_cls lt) (firstn fr l)) h l.
Definition near_right (lt rt : list hclass) (h : handler) (l : list handler) : list handler :=
  let ll := after_last (in_cls lt) l in insert_at (ll + find_first (in_cls rt) (skipn ll l)) h l.
Definition clear_class (k : hclass) (l : list handler) : list handler :=
  filter (fun h => negb (in_cls [k] h)) l.

Inductive edit_op :=
| OAppend (h : handler)         (* Pipeline::append(h) / operator<< / a fluent call of SimplePipeline: at the end; null ignored *)
| OAppendList (hs : list handler) (* Pipeline::append(initializer_list): at the end, null entries kept *)
| ORemove (o : nat)             (* Pipeline::remove(object o): every occurrence of that object in THIS list *)
| OClear                        (* Pipeline::clear() *)
| OClearClass (k : hclass)      (* SortedPipeline::clearAttrHandlers / Filters / Formatters / Sinks / Pipelines *)
| OSorted (h : handler).        (* SortedPipeline::appendAttrHandler / appendFilter / setFormatter / appendSink /
                                   appendPipeline, chosen by the class of h *)
Definition apply_op (op : edit_op) (l : list handler) : list handler :=
  match op with
  | OAppend HNull => l
  | OAppend h => l ++ [h]
  | OAppendList hs => l ++ hs
  | ORemove o => filter (fun h => negb (has_oid o h)) l
  | OClear => []
  | OClearClass k => clear_class k l
  | OSorted h =>
      match class_of h with
      | None => l
      | Some CAttr => near_left [CAttr] [CFilter; CFmt; CSink; CPipe] h l
      | Some CFilter => near_left [CAttr; CFilter] [CFmt; CSink; CPipe] h l
      | Some CFmt => near_right [CAttr; CFilter] [CSink; CPipe] h (clear_class CFmt l)
      | Some CSink => near_right [CAttr; CFilter; CFmt; CSink] [CPipe] h l
      | Some CPipe | Some CGen => l ++ [h]
      end
  end.

(* the pipeline an edit addresses: [] = the root, i :: p = inside the i-th entry (a pipeline) of this list *)
Fixpoint map_nth (i : nat) (f : handler -> handler) (l : list handler) : list handler :=
  match l, i with
  | [], _ => []
  | x :: r, 0 => f x :: r
  | x :: r, S j => x :: map_nth j f r
  end.
Fixpoint edit_at (path : list nat) (f : list handler -> list handler) (hs : list handler) : list handler :=
  match path with
  | [] => f hs
  | i :: p => map_nth i (fun h => match h with HPipe sc c => HPipe sc (edit_at p f c) | _ => h end) hs
  end.
Record edit := { e_path : list nat; e_op : edit_op }.
Definition apply_edit (e : edit) (root : list handler) : list handler :=
  edit_at (e_path e) (apply_op (e_op e)) root.

(* a history: messages and edits interleaved.  Every message is evaluated by [run] on the tree AS IT IS
   AT THAT MOMENT (all earlier edits applied, none of the later ones), handler state threaded. *)
Inductive step := SMsg (m : msg) | SEdit (e : edit).
Record outp := { o_tree : list handler; o_msg : msg; o_events : list event; o_final : content }.
Fixpoint run_steps (c : pipe_cfg) (root : list handler) (st : store) (steps : list step)
  : store * list handler * list outp :=
  match steps with
  | [] => (st, root, [])
  | SEdit e :: r => run_steps c (apply_edit e root) st r
  | SMsg m :: r =>
      let '(st1, m1, _, e) := run c root st m in
      let '(st2, root2, out) := run_steps c root st1 r in
      (st2, root2, {| o_tree := root; o_msg := m; o_events := e; o_final := content_of m1 |} :: out)
  end.
Definition tree_after (root : list handler) (steps : list step) : list handler :=
  fold_left (fun t s => match s with SEdit e => apply_edit e t | SMsg _ => t end) steps root.
Fixpoint count_msgs (steps : list step) : nat :=
  match steps with [] => 0 | SMsg _ :: r => S (count_msgs r) | SEdit _ :: r => count_msgs r end.

(* the oracle along a history, on the traces the IMPLEMENTATION recorded (one per message): which law
   fails for each message against the tree of that moment (9 = no trace) *)
Fixpoint which_steps (root : list handler) (steps : list step) (traces : list (list event)) : list nat :=
  match steps with
  | [] => []
  | SEdit e :: r => which_steps (apply_edit e root) r traces
  | SMsg m :: r =>
      match traces with
      | [] => 9 :: which_steps root r []
      | t :: ts => prop_c01_which root m t :: which_steps root r ts
      end
  end.

(* ---- how a child pipeline OBJECT came into being.  The scenario language can ask for a child that enters the real
   tree as a COPY of an already built Pipeline object (copy constructor once the original is complete, the library's
   by-value helper operator<<(Logger *, const Pipeline &) = PipelinePtr::create(pipeline), copy constructor of the
   still empty original, copy assignment).  The property does not speak about construction: a tree of pipelines is
   what it is however its pipelines were made, so the model FORGETS the tag - the scenario with tags is evaluated as
   [forget_l] of it (the driver parses into [bhandler] and calls this very function). *)
Inductive built := BFresh | BCopyCtor | BCopyHelper | BCopyEmpty | BCopyAssign.
Inductive bhandler :=
| BLeaf (oid : nat) (l : leaf)
| BNull
| BPipe (how : built) (scoped : bool) (hs : list bhandler).
Fixpoint forget (b : bhandler) : handler :=
  match b with
  | BLeaf o l => HLeaf o l
  | BNull => HNull
  | BPipe _ sc hs => HPipe sc (map forget hs)
  end.
Definition forget_l (bs : list bhandler) : list handler := map forget bs.
(* the same scenario with every child made the plain way *)
Fixpoint refresh (b : bhandler) : bhandler :=
  match b with
  | BPipe _ sc hs => BPipe BFresh sc (map refresh hs)
  | x => x
  end.
(* number of children (at any depth) that are copies *)
Fixpoint copies (b : bhandler) : nat :=
  match b with
  | BPipe how _ hs => (match how with BFresh => 0 | _ => 1 end) + fold_right (fun x n => copies x + n) 0 hs
  | _ => 0
  end.
