(* C11 — lemmas about FatalDefs.  The observation of a configuration is its [view]: for every file
   sink, in depth-first order, (file ++ buffer, broken?, filters in front of it).  Every step of the
   model acts on the view in a simple way: a message appends its record to the sinks whose filters it
   passes; a flush changes nothing.  A good configuration empties, after the fatal record was
   processed, the buffer of every healthy sink reachable from the logger. *)
From Coq Require Import List NArith Bool Lia PeanoNat.
Import ListNotations.
Require Import QtlVerif.FatalDefs.
Local Open Scope N_scope.

(* ---- one sink ---- *)
Lemma qflush_content s : content (qflush s) = content s.
Proof. unfold qflush. destruct (broken s); [reflexivity|]. unfold content; cbn. rewrite app_nil_r. reflexivity. Qed.
Lemma qflush_broken s : broken (qflush s) = broken s.
Proof. unfold qflush. destruct (broken s) eqn:E; [exact E|reflexivity]. Qed.
Lemma qflush_buf s : broken s = false -> buf (qflush s) = [].
Proof. unfold qflush. intros ->. reflexivity. Qed.
Lemma qappend_content s r : content (qappend s r) = content s ++ [r].
Proof. unfold content, qappend; cbn. rewrite app_assoc. reflexivity. Qed.
Lemma sink_flush_content cfg s : content (sink_flush cfg s) = content s.
Proof. unfold sink_flush. destruct (fs_flush_real cfg); [apply qflush_content|reflexivity]. Qed.
Lemma qflush_sid s : sid (qflush s) = sid s.
Proof. unfold qflush. destruct (broken s); reflexivity. Qed.
Lemma sink_flush_sid cfg s : sid (sink_flush cfg s) = sid s.
Proof. unfold sink_flush. destruct (fs_flush_real cfg); [apply qflush_sid|reflexivity]. Qed.
Lemma sink_flush_broken cfg s : broken (sink_flush cfg s) = broken s.
Proof. unfold sink_flush. destruct (fs_flush_real cfg); [apply qflush_broken|reflexivity]. Qed.

(* whatever the buffering policy does, a write adds exactly its record to (file ++ buffer) — unless the
   device rejects it, in which case nothing changes *)
Lemma write_spec cfg pol rej s m :
  content (write cfg pol rej s m) = content s ++ (if rej (sid s) (snd m) then [] else [snd m])
  /\ broken (write cfg pol rej s m) = broken s /\ sid (write cfg pol rej s m) = sid s.
Proof.
  unfold write. destruct (rej (sid s) (snd m)); [rewrite app_nil_r; repeat split|].
  set (s1 := if rot_presize cfg && presize s then qflush s else s).
  assert (E1 : content s1 = content s /\ broken s1 = broken s /\ sid s1 = sid s)
    by (unfold s1; destruct (rot_presize cfg && presize s); [repeat split; [apply qflush_content|apply qflush_broken|apply qflush_sid]|repeat split]).
  destruct (pol s1 (snd m)) as [pre post].
  set (s2 := if pre then qflush s1 else s1).
  assert (E2 : content s2 = content s1 /\ broken s2 = broken s1 /\ sid s2 = sid s1)
    by (unfold s2; destruct pre; [repeat split; [apply qflush_content|apply qflush_broken|apply qflush_sid]|repeat split]).
  set (s4 := if post then qflush (qappend s2 (snd m)) else qappend s2 (snd m)).
  assert (E4 : content s4 = content s ++ [snd m] /\ broken s4 = broken s /\ sid s4 = sid s).
  { destruct E1 as (A1 & B1 & C1), E2 as (A2 & B2 & C2).
    unfold s4. destruct post; [rewrite qflush_content, qflush_broken, qflush_sid|]; rewrite qappend_content;
      (repeat split; [rewrite A2, A1; reflexivity|cbn; rewrite B2, B1; reflexivity|cbn; rewrite C2, C1; reflexivity]). }
  destruct (mem_type (fst m) (snk_flush_types cfg)); [rewrite sink_flush_content, sink_flush_broken, sink_flush_sid|]; exact E4.
Qed.

(* ---- views ---- *)
Definition vw (sg : sink * list flt) : N * list rec * bool * list flt := (sid (fst sg), content (fst sg), broken (fst sg), snd sg).
Definition tview (pre : list flt) (t : tree) := map vw (gs pre t).
Definition view (t : tree) := tview [] t.
Definition upd (rej : reject) (m : msg) (v : N * list rec * bool * list flt) : N * list rec * bool * list flt :=
  let '(i, c, b, G) := v in (i, c ++ (if pass G m && negb (rej i (snd m)) then [snd m] else []), b, G).

Lemma pass_app G f m : pass (G ++ [f]) m = pass G m && f m.
Proof. unfold pass. rewrite forallb_app. cbn. rewrite andb_true_r. reflexivity. Qed.
Lemma gnext_twrite cfg pol rej m lv pre t : gnext pre (twrite cfg pol rej m lv t) = gnext pre t.
Proof. destruct t; reflexivity. Qed.
Lemma gnext_tflush cfg pre t : gnext pre (tflush cfg t) = gnext pre t.
Proof. destruct t; cbn; try reflexivity; [destruct (rf_flush_sinks cfg)|destruct (rf_descends cfg)]; reflexivity. Qed.
Lemma lnext_pass m pre t : lnext m (pass pre m) t = pass (gnext pre t) m.
Proof. destruct t; unfold lnext, gnext; try reflexivity. rewrite pass_app. reflexivity. Qed.

(* induction over trees with the hypothesis available for every handler of a nested pipeline *)
Section TreeInd.
  Variable P : tree -> Prop.
  Hypothesis HS : forall s, P (TSink s).
  Hypothesis HP : forall l, Forall P l -> P (TPipe l).
  Hypothesis HF : forall f, P (TFilter f).
  Hypothesis HO : P TOther.
  Hypothesis HN : P TNull.
  Fixpoint tree_ind2 (t : tree) : P t :=
    match t with
    | TSink s => HS s
    | TPipe l => HP l ((fix G (l : list tree) : Forall P l :=
                          match l with [] => Forall_nil _ | x :: r => Forall_cons x (tree_ind2 x) (G r) end) l)
    | TFilter f => HF f
    | TOther => HO
    | TNull => HN
    end.
End TreeInd.
(* the loops of the model as top-level functions *)
Definition lw cfg pol rej (m : msg) : list tree -> bool -> list tree :=
  fix lw (l : list tree) (lv : bool) : list tree :=
    match l with [] => [] | x :: r => twrite cfg pol rej m lv x :: lw r (lnext m lv x) end.
Lemma lw_cons cfg pol rej m x r lv : lw cfg pol rej m (x :: r) lv = twrite cfg pol rej m lv x :: lw cfg pol rej m r (lnext m lv x).
Proof. reflexivity. Qed.
Fixpoint go (l : list tree) (cur : list flt) : list (sink * list flt) :=
  match l with [] => [] | x :: r => gs cur x ++ go r (gnext cur x) end.
Lemma twrite_pipe cfg pol rej m lv l : twrite cfg pol rej m lv (TPipe l) = TPipe (lw cfg pol rej m l lv).
Proof. reflexivity. Qed.
Lemma gs_pipe pre l : gs pre (TPipe l) = go l pre.
Proof. reflexivity. Qed.

(* a message appends its record exactly to the sinks whose filters it passes *)
Lemma tview_twrite cfg pol rej m : forall t pre,
  tview pre (twrite cfg pol rej m (pass pre m) t) = map (upd rej m) (tview pre t).
Proof.
  induction t as [s|l IH|f| |] using tree_ind2; intros pre; try reflexivity.
  - unfold tview. cbn [twrite gs map]. unfold vw, upd. cbn [fst snd].
    destruct (pass pre m); cbn [andb].
    + destruct (write_spec cfg pol rej s m) as (-> & -> & ->). destruct (rej (sid s) (snd m)); reflexivity.
    + rewrite app_nil_r. reflexivity.
  - rewrite twrite_pipe. unfold tview. rewrite !gs_pipe. revert pre.
    induction IH as [|x r Hx _ IHr]; intros cur; [reflexivity|].
    rewrite lw_cons. cbn [go]. rewrite !map_app, gnext_twrite, lnext_pass, IHr. f_equal. apply Hx.
Qed.

(* a flush changes no view *)
Lemma go_map_tflush cfg l : Forall (fun t => forall pre, tview pre (tflush cfg t) = tview pre t) l ->
  forall cur, map vw (go (map (tflush cfg) l) cur) = map vw (go l cur).
Proof.
  induction 1 as [|x r Hx _ IHr]; intros cur; [reflexivity|].
  cbn [map go]. rewrite !map_app, gnext_tflush, IHr. f_equal. apply Hx.
Qed.
Lemma tview_tflush cfg : forall t pre, tview pre (tflush cfg t) = tview pre t.
Proof.
  induction t as [s|l IH|f| |] using tree_ind2; intros pre; try reflexivity; cbn [tflush].
  - destruct (rf_flush_sinks cfg); [|reflexivity]. unfold tview. cbn [gs map]. unfold vw. cbn [fst snd].
    rewrite sink_flush_content, sink_flush_broken, sink_flush_sid. reflexivity.
  - destruct (rf_descends cfg); [|reflexivity]. unfold tview. rewrite !gs_pipe. apply go_map_tflush. exact IH.
Qed.
Lemma tview_root_flush cfg t pre : tview pre (root_flush cfg t) = tview pre t.
Proof.
  destruct t as [s|l|f| |]; try apply tview_tflush. unfold root_flush, tview. rewrite !gs_pipe.
  apply go_map_tflush. apply Forall_forall. intros x _. apply tview_tflush.
Qed.

(* after a flush that reaches everything, no healthy sink has anything buffered *)
Definition flushed (sg : sink * list flt) : Prop := broken (fst sg) = false -> buf (fst sg) = [].
Lemma go_map_flushed cfg l : Forall (fun t => forall pre, Forall flushed (gs pre (tflush cfg t))) l ->
  forall cur, Forall flushed (go (map (tflush cfg) l) cur).
Proof.
  induction 1 as [|x r Hx _ IHr]; intros cur; [constructor|].
  cbn [map go]. apply Forall_app. split; [apply Hx|apply IHr].
Qed.
Lemma gs_tflush_flushed cfg :
  rf_flush_sinks cfg = true -> rf_descends cfg = true -> fs_flush_real cfg = true ->
  forall t pre, Forall flushed (gs pre (tflush cfg t)).
Proof.
  intros Hs Hd Hr. induction t as [s|l IH|f| |] using tree_ind2; intros pre; cbn [tflush]; try (cbn; constructor).
  - rewrite Hs. cbn [gs]. constructor; [|constructor]. unfold flushed, sink_flush. cbn [fst]. rewrite Hr.
    rewrite qflush_broken. apply qflush_buf.
  - rewrite Hd, gs_pipe. apply go_map_flushed. exact IH.
Qed.
Lemma gs_root_flush_flushed cfg :
  rf_flush_sinks cfg = true -> rf_descends cfg = true -> fs_flush_real cfg = true ->
  forall t, Forall flushed (gs [] (root_flush cfg t)).
Proof.
  intros Hs Hd Hr [s|l|f| |]; try (apply gs_tflush_flushed; assumption).
  unfold root_flush. rewrite gs_pipe. apply go_map_flushed. apply Forall_forall. intros x _.
  apply gs_tflush_flushed; assumption.
Qed.

(* ---- messages and histories ---- *)
Lemma view_process_message cfg pol rej t m : view (process_message cfg pol rej t m) = map (upd rej m) (view t).
Proof.
  unfold process_message, view. change true with (pass [] m).
  destruct (ff_pos cfg).
  - apply tview_twrite.
  - rewrite tview_twrite. destruct (flushes cfg (fst m)); [rewrite tview_root_flush|]; reflexivity.
  - destruct (flushes cfg (fst m)); [rewrite tview_root_flush|]; apply tview_twrite.
Qed.
Definition upd_all (rej : reject) (msgs : list msg) (v : N * list rec * bool * list flt) : N * list rec * bool * list flt :=
  let '(i, c, b, G) := v in (i, c ++ map snd (filter (fun m => pass G m && negb (rej i (snd m))) msgs), b, G).
Lemma view_log_all cfg pol rej msgs : forall t, view (log_all cfg pol rej t msgs) = map (upd_all rej msgs) (view t).
Proof.
  unfold log_all. induction msgs as [|m rest IH]; intros t; cbn [fold_left].
  - rewrite <- (map_id (view t)) at 1. apply map_ext. intros [[[i c] b] G]. cbn. rewrite app_nil_r. reflexivity.
  - rewrite IH, view_process_message, map_map. apply map_ext. intros [[[i c] b] G]. cbn [upd upd_all filter].
    destruct (pass G m && negb (rej i (snd m))); cbn [map]; rewrite <- app_assoc; reflexivity.
Qed.
Lemma view_run_fatal cfg pol rej t msgs r :
  view (run_fatal cfg pol rej t msgs r) = map (upd_all rej (msgs ++ [(Fatal, r)])) (view t).
Proof.
  unfold run_fatal. rewrite view_process_message, view_log_all, map_map. apply map_ext.
  intros [[[i c] b] G]. cbn [upd upd_all]. rewrite filter_app, map_app, <- app_assoc. cbn [filter snd].
  destruct (pass G (Fatal, r) && negb (rej i r)); reflexivity.
Qed.

Lemma cfg_good_inv cfg : cfg_goodb cfg = true ->
  ff_pos cfg = FAfter /\ flushes cfg Fatal = true /\
  rf_flush_sinks cfg = true /\ rf_descends cfg = true /\ fs_flush_real cfg = true.
Proof.
  unfold cfg_goodb, flushes. intros H.
  repeat (apply andb_true_iff in H; destruct H as [H ?]).
  destruct (ff_pos cfg); try discriminate.
  repeat split; try assumption. apply andb_true_iff. split; assumption.
Qed.

Definition obs (v : N * list rec * bool * list flt) : option (list rec) :=
  let '(_, c, b, _) := v in if b then None else Some c.
Lemma expected_view rej t msgs : expected rej t msgs = map obs (map (upd_all rej msgs) (view t)).
Proof.
  unfold expected, view, tview, gsinks. rewrite !map_map. apply map_ext. intros [s G]. cbn.
  destruct (broken s); reflexivity.
Qed.
Lemma survivors_of_flushed t : Forall flushed (gsinks t) -> survivors t = map obs (view t).
Proof.
  unfold survivors, view, tview, gsinks. generalize (gs [] t). intros l H. rewrite map_map.
  induction H as [|[s G] l Hs _ IH]; [reflexivity|]. cbn [map]. rewrite IH. f_equal.
  unfold vw, obs. cbn [fst snd]. unfold flushed in Hs. cbn [fst] in Hs.
  destruct (broken s); [reflexivity|]. unfold content. rewrite (Hs eq_refl), app_nil_r. reflexivity.
Qed.

(* THE theorem: with a good configuration, for every handler tree (file sinks healthy or not, filters,
   null entries, other handlers, pipelines nested to any depth), every history, every buffering policy
   and every pattern of transient device faults: at abort the file of every healthy file sink holds
   what it held before plus every record that passed the filters in front of that sink and was written
   while the device accepted writes, in order — the fatal record included iff it passes and is accepted *)
Theorem fatal_reaches_disk cfg : cfg_goodb cfg = true ->
  forall (pol : policy) (rej : reject) (t : tree) (msgs : list msg) (r : rec),
  survivors (run_fatal cfg pol rej t msgs r) = expected rej t (msgs ++ [(Fatal, r)]).
Proof.
  intros Hg pol rej t msgs r.
  destruct (cfg_good_inv cfg Hg) as (Hp & Hf & Hs & Hd & Hr).
  rewrite survivors_of_flushed.
  - rewrite view_run_fatal, expected_view. reflexivity.
  - unfold run_fatal, process_message, gsinks. rewrite Hp. cbn [fst]. rewrite Hf.
    apply gs_root_flush_flushed; assumption.
Qed.

(* nothing is ever lost from file ++ buffer except a record the device rejected, good configuration or
   not: what a file lacks at abort is exactly what still sat in the buffer *)
Theorem content_conserved cfg pol rej t msgs r :
  view (run_fatal cfg pol rej t msgs r) = map (upd_all rej (msgs ++ [(Fatal, r)])) (view t).
Proof. apply view_run_fatal. Qed.

(* without filters, faults and broken devices: every file = previous content + ALL records + the fatal one *)
Corollary fatal_reaches_disk_unfiltered cfg : cfg_goodb cfg = true ->
  forall pol t msgs r,
  Forall (fun sg => snd sg = [] /\ broken (fst sg) = false) (gsinks t) ->
  survivors (run_fatal cfg pol no_faults t msgs r)
  = map (fun sg => Some (content (fst sg) ++ map snd msgs ++ [r])) (gsinks t).
Proof.
  intros Hg pol t msgs r H. rewrite (fatal_reaches_disk cfg Hg). unfold expected.
  induction H as [|[s G] l [HG Hb] _ IH]; [reflexivity|]. cbn [map fst snd] in *. rewrite IH, Hb. f_equal. f_equal. f_equal.
  assert (E : forall ms : list msg, filter (reaches no_faults (s, G)) ms = ms).
  { assert (T : forall m, reaches no_faults (s, G) m = true) by (intros m; unfold reaches, no_faults; cbn [fst snd]; rewrite HG; reflexivity).
    induction ms as [|m rest IHm]; [reflexivity|]. cbn [filter]. rewrite T, IHm. reflexivity. }
  rewrite E, map_app. reflexivity.
Qed.

(* a null entry anywhere in a handler list changes nothing *)
Lemma gs_cons_null pre l : gs pre (TPipe (TNull :: l)) = gs pre (TPipe l).
Proof. reflexivity. Qed.

(* ---- the oracle ---- *)
Lemma ids_eqb_refl a : ids_eqb a a = true.
Proof. induction a as [|x a IH]; [reflexivity|]. cbn. rewrite N.eqb_refl, IH. reflexivity. Qed.
Lemma ids_eqb_eq a : forall b, ids_eqb a b = true <-> a = b.
Proof.
  induction a as [|x a IH]; intros [|y b]; cbn; try (split; [discriminate|discriminate]); [split; reflexivity|].
  rewrite andb_true_iff, N.eqb_eq, IH. split; [intros [-> ->]; reflexivity|intros H; inversion H; split; reflexivity].
Qed.
Lemma files_okb_refl l : files_okb l l = true.
Proof. induction l as [|[a|] l IH]; [reflexivity| |]; cbn; [rewrite ids_eqb_refl|]; exact IH. Qed.
(* what the oracle accepts: same number of sinks, and every healthy sink's file = the expected ids *)
Lemma files_okb_spec e : forall f, files_okb e f = true <->
  length e = length f /\ forall k a, nth_error e k = Some (Some a) -> nth_error f k = Some (Some a).
Proof.
  induction e as [|x e IH]; intros [|y f]; cbn [files_okb length].
  - split; [intros _; split; [reflexivity|intros [|k] a H; discriminate]|reflexivity].
  - split; [discriminate|intros [H _]; discriminate].
  - split; [discriminate|intros [H _]; discriminate].
  - rewrite andb_true_iff, IH. split.
    + intros [Hx [Hl Hn]]. split; [f_equal; exact Hl|]. intros [|k] a Hk; cbn in *; [|apply Hn; exact Hk].
      inversion Hk; subst x. destruct y as [b|]; cbn in Hx; [|discriminate]. apply ids_eqb_eq in Hx. subst. reflexivity.
    + intros [Hl Hn]. split; [|split; [congruence|intros k a Hk; apply (Hn (S k) a Hk)]].
      destruct x as [a|]; [|reflexivity]. specialize (Hn O a eq_refl). cbn in Hn. inversion Hn. cbn. apply ids_eqb_refl.
Qed.
Theorem oracle_holds cfg : cfg_goodb cfg = true ->
  forall pol rej t msgs r,
  prop_c11_b rej t msgs r (ids_of (survivors (run_fatal cfg pol rej t msgs r))) = true.
Proof.
  intros Hg pol rej t msgs r. unfold prop_c11_b. rewrite (fatal_reaches_disk cfg Hg). apply files_okb_refl.
Qed.

(* ---- variants of a configuration, for the refutations ---- *)
Definition with_pos (cfg : fatal_cfg) (p : fpos) : fatal_cfg :=
  {| ff_pos := p; ff_types := ff_types cfg; ff_cond := ff_cond cfg; rf_flush_sinks := rf_flush_sinks cfg;
     rf_descends := rf_descends cfg; fs_flush_real := fs_flush_real cfg; rot_presize := rot_presize cfg;
     snk_flush_types := snk_flush_types cfg |}.
Definition with_descends (cfg : fatal_cfg) (b : bool) : fatal_cfg :=
  {| ff_pos := ff_pos cfg; ff_types := ff_types cfg; ff_cond := ff_cond cfg; rf_flush_sinks := rf_flush_sinks cfg;
     rf_descends := b; fs_flush_real := fs_flush_real cfg; rot_presize := rot_presize cfg;
     snk_flush_types := snk_flush_types cfg |}.
(* the flush moved from the logger into the sink: IODeviceSink::send flushes after a fatal record *)
Definition flush_in_sink (cfg : fatal_cfg) : fatal_cfg :=
  {| ff_pos := FNone; ff_types := ff_types cfg; ff_cond := ff_cond cfg; rf_flush_sinks := rf_flush_sinks cfg;
     rf_descends := rf_descends cfg; fs_flush_real := fs_flush_real cfg; rot_presize := rot_presize cfg;
     snk_flush_types := [Fatal] |}.
Definition mk (i l : N) : rec := {| rid := i; rlen := l |}.
Definition info (i l : N) : msg := (Info, mk i l).
Definition is_type (ty : mtype) : flt := fun m => mtype_eqb (fst m) ty.

(* ================= histories with explicit flush() calls and reconfiguration =================
   [tmap settle] forgets where the records of a sink sit (file or write buffer).  Every step of the
   model, seen through it, is the corresponding step of the unbuffered specification [sstep]. *)
Lemma settle_fields s :
  settle s = {| sid := sid s; presize := presize s; broken := broken s; disk := content s; buf := [] |}.
Proof. reflexivity. Qed.
Lemma qflush_presize s : presize (qflush s) = presize s.
Proof. unfold qflush. destruct (broken s); reflexivity. Qed.
Lemma sink_flush_presize cfg s : presize (sink_flush cfg s) = presize s.
Proof. unfold sink_flush. destruct (fs_flush_real cfg); [apply qflush_presize|reflexivity]. Qed.
Lemma write_presize cfg pol rej s m : presize (write cfg pol rej s m) = presize s.
Proof.
  unfold write. destruct (rej (sid s) (snd m)); [reflexivity|].
  set (s1 := if rot_presize cfg && presize s then qflush s else s).
  assert (E1 : presize s1 = presize s) by (unfold s1; destruct (rot_presize cfg && presize s); [apply qflush_presize|reflexivity]).
  destruct (pol s1 (snd m)) as [pre post].
  set (s2 := if pre then qflush s1 else s1).
  assert (E2 : presize s2 = presize s) by (unfold s2; destruct pre; [rewrite qflush_presize|]; exact E1).
  set (s4 := if post then qflush (qappend s2 (snd m)) else qappend s2 (snd m)).
  assert (E4 : presize s4 = presize s) by (unfold s4; destruct post; [rewrite qflush_presize|]; exact E2).
  destruct (mem_type (fst m) (snk_flush_types cfg)); [rewrite sink_flush_presize|]; exact E4.
Qed.
Lemma settle_sink_flush cfg s : settle (sink_flush cfg s) = settle s.
Proof.
  rewrite !settle_fields, sink_flush_sid, sink_flush_presize, sink_flush_broken, sink_flush_content. reflexivity.
Qed.
Lemma settle_write cfg pol rej s m : settle (write cfg pol rej s m) = swrite rej (settle s) m.
Proof.
  rewrite (settle_fields (write cfg pol rej s m)), write_presize.
  destruct (write_spec cfg pol rej s m) as (-> & -> & ->).
  unfold swrite. cbn [settle sid presize broken disk buf]. unfold content.
  destruct (rej (sid s) (snd m)); [rewrite app_nil_r|]; reflexivity.
Qed.

Definition slw rej (m : msg) : list tree -> bool -> list tree :=
  fix slw (l : list tree) (lv : bool) : list tree :=
    match l with [] => [] | x :: r => stwrite rej m lv x :: slw r (lnext m lv x) end.
Lemma stwrite_pipe rej m lv l : stwrite rej m lv (TPipe l) = TPipe (slw rej m l lv).
Proof. reflexivity. Qed.
Lemma slw_cons rej m x r lv : slw rej m (x :: r) lv = stwrite rej m lv x :: slw rej m r (lnext m lv x).
Proof. reflexivity. Qed.
Lemma lnext_tmap f m lv t : lnext m lv (tmap f t) = lnext m lv t.
Proof. destruct t; reflexivity. Qed.
Lemma tmap_pipe f l : tmap f (TPipe l) = TPipe (map (tmap f) l).
Proof. reflexivity. Qed.

Lemma tmap_twrite cfg pol rej m : forall t lv,
  tmap settle (twrite cfg pol rej m lv t) = stwrite rej m lv (tmap settle t).
Proof.
  induction t as [s|l IH|f| |] using tree_ind2; intros lv; try reflexivity.
  - cbn [twrite tmap stwrite]. destruct lv; [rewrite settle_write|]; reflexivity.
  - rewrite twrite_pipe, !tmap_pipe, stwrite_pipe. f_equal. revert lv.
    induction IH as [|x r Hx _ IHr]; intros lv; [reflexivity|].
    rewrite lw_cons. cbn [map]. rewrite slw_cons, lnext_tmap, Hx, IHr. reflexivity.
Qed.
Lemma tmap_tflush cfg : forall t, tmap settle (tflush cfg t) = tmap settle t.
Proof.
  induction t as [s|l IH|f| |] using tree_ind2; try reflexivity; cbn [tflush].
  - destruct (rf_flush_sinks cfg); [|reflexivity]. cbn [tmap]. rewrite settle_sink_flush. reflexivity.
  - destruct (rf_descends cfg); [|reflexivity]. rewrite !tmap_pipe. f_equal. rewrite map_map.
    induction IH as [|x r Hx _ IHr]; [reflexivity|]. cbn [map]. rewrite Hx, IHr. reflexivity.
Qed.
Lemma tmap_root_flush cfg t : tmap settle (root_flush cfg t) = tmap settle t.
Proof.
  destruct t as [s|l|f| |]; try apply tmap_tflush. unfold root_flush. rewrite !tmap_pipe. f_equal. rewrite map_map.
  apply map_ext. intros x. apply tmap_tflush.
Qed.
Lemma tmap_process_message cfg pol rej t m :
  tmap settle (process_message cfg pol rej t m) = stwrite rej m true (tmap settle t).
Proof.
  unfold process_message. destruct (ff_pos cfg).
  - apply tmap_twrite.
  - rewrite tmap_twrite. destruct (flushes cfg (fst m)); [rewrite tmap_root_flush|]; reflexivity.
  - destruct (flushes cfg (fst m)); [rewrite tmap_root_flush|]; apply tmap_twrite.
Qed.

(* reconfigurations do not look inside the sinks *)
Lemma walk_map f g g' : (forall l, g' (map (tmap f) l) = map (tmap f) (g l)) ->
  forall l i, walk g' (map (tmap f) l) i = map (tmap f) (walk g l i).
Proof.
  intros H. induction l as [|x r IHl]; intros i; [reflexivity|].
  cbn [map walk]. destruct i as [|i'].
  - destruct x; cbn [tmap map]; try reflexivity. rewrite H. reflexivity.
  - cbn [map]. rewrite IHl. reflexivity.
Qed.
Lemma at_path_map f h h' : (forall l, h' (map (tmap f) l) = map (tmap f) (h l)) ->
  forall p l, at_path h' p (map (tmap f) l) = map (tmap f) (at_path h p l).
Proof.
  intros H. induction p as [|i p IHp]; intros l; cbn [at_path]; [apply H|].
  apply walk_map. exact IHp.
Qed.
Lemma remove_handler_map f k : forall l, remove_handler k (map (tmap f) l) = map (tmap f) (remove_handler k l).
Proof.
  induction k as [|k IHk]; intros [|x r]; try reflexivity.
  - destruct x; reflexivity.
  - cbn [map remove_handler]. rewrite IHk. reflexivity.
Qed.
Lemma clear_sinks_map f : forall l,
  filter (fun x => negb (is_sink x)) (map (tmap f) l) = map (tmap f) (filter (fun x => negb (is_sink x)) l).
Proof.
  induction l as [|x r IH]; [reflexivity|]. cbn [map filter].
  replace (is_sink (tmap f x)) with (is_sink x) by (destruct x; reflexivity).
  destruct (negb (is_sink x)); cbn [map]; rewrite IH; reflexivity.
Qed.
Lemma tmap_apply_op o t : tmap settle (apply_op o t) = apply_op (settle_op o) (tmap settle t).
Proof.
  destruct t as [s|l|f| |]; try reflexivity. unfold apply_op. rewrite !tmap_pipe. f_equal. symmetry.
  replace (op_path (settle_op o)) with (op_path o) by (destruct o; reflexivity).
  apply at_path_map. intros l0. destruct o as [p h|p k|p]; cbn [settle_op op_fun].
  - rewrite map_app. reflexivity.
  - apply remove_handler_map.
  - apply clear_sinks_map.
Qed.
Lemma tmap_run_events cfg pol rej : forall evs t,
  tmap settle (run_events cfg pol rej t evs) = fold_left (sstep rej) evs (tmap settle t).
Proof.
  unfold run_events. induction evs as [|e evs IH]; intros t; [reflexivity|]. cbn [fold_left]. rewrite IH. f_equal.
  destruct e as [m| |o]; cbn [step sstep]; [apply tmap_process_message|apply tmap_root_flush|apply tmap_apply_op].
Qed.

(* the sinks of a tree seen through tmap *)
Lemma gnext_tmap f pre t : gnext pre (tmap f t) = gnext pre t.
Proof. destruct t; reflexivity. Qed.
Lemma gs_tmap f : forall t pre, gs pre (tmap f t) = map (fun sg => (f (fst sg), snd sg)) (gs pre t).
Proof.
  induction t as [s|l IH|g| |] using tree_ind2; intros pre; try reflexivity.
  rewrite tmap_pipe, !gs_pipe. revert pre.
  induction IH as [|x r Hx _ IHr]; intros cur; [reflexivity|].
  cbn [map go]. rewrite map_app, gnext_tmap, Hx, IHr. reflexivity.
Qed.
Lemma survivors_settle t : Forall flushed (gsinks t) -> survivors (tmap settle t) = survivors t.
Proof.
  unfold survivors, gsinks. rewrite gs_tmap, map_map. generalize (gs [] t). intros l H.
  induction H as [|[s G] l Hs _ IH]; [reflexivity|]. cbn [map]. rewrite IH. f_equal. cbn [fst snd].
  unfold flushed in Hs. cbn [fst] in Hs. cbn [settle broken disk].
  destruct (broken s); [reflexivity|]. rewrite (Hs eq_refl), app_nil_r. reflexivity.
Qed.

(* THE theorem for histories with explicit flushes and reconfigurations: with a good configuration,
   whatever was appended to / removed from the logger or any nested pipeline between the messages and
   whatever flush() calls were made on earlier shapes of the tree, at abort the file of every healthy
   file sink of the FINAL configuration holds exactly what the unbuffered logger would have written *)
Theorem fatal_reaches_disk_ev cfg : cfg_goodb cfg = true ->
  forall (pol : policy) (rej : reject) (t : tree) (evs : list event) (r : rec),
  survivors (run_events_fatal cfg pol rej t evs r) = expected_ev rej t evs r.
Proof.
  intros Hg pol rej t evs r.
  destruct (cfg_good_inv cfg Hg) as (Hp & Hf & Hs & Hd & Hr).
  rewrite <- survivors_settle.
  - unfold run_events_fatal. rewrite tmap_process_message, tmap_run_events.
    unfold expected_ev, spec_run. rewrite fold_left_app. reflexivity.
  - unfold run_events_fatal, process_message, gsinks. rewrite Hp. cbn [fst]. rewrite Hf.
    apply gs_root_flush_flushed; assumption.
Qed.
Theorem oracle_ev_holds cfg : cfg_goodb cfg = true ->
  forall pol rej t evs r,
  prop_c11_ev_b rej t evs r (ids_of (survivors (run_events_fatal cfg pol rej t evs r))) = true.
Proof.
  intros Hg pol rej t evs r. unfold prop_c11_ev_b. rewrite (fatal_reaches_disk_ev cfg Hg). apply files_okb_refl.
Qed.
(* the model and the specification agree on WHICH sinks the final configuration has *)
Theorem final_sids_model cfg pol rej t evs :
  map (fun sg => sid (fst sg)) (gsinks (run_events cfg pol rej t evs)) = final_sids rej t evs.
Proof.
  unfold final_sids, spec_run. rewrite <- (tmap_run_events cfg pol). unfold gsinks. rewrite gs_tmap, map_map. reflexivity.
Qed.

(* a history of messages only: the specification is the closed form [expected] *)
Definition ideal_cfg : fatal_cfg :=
  {| ff_pos := FAfter; ff_types := [Fatal]; ff_cond := CAlways; rf_flush_sinks := true; rf_descends := true;
     fs_flush_real := true; rot_presize := false; snk_flush_types := [] |}.
Lemma run_events_msgs cfg pol rej msgs : forall t,
  run_events cfg pol rej t (map EMsg msgs) = log_all cfg pol rej t msgs.
Proof.
  unfold run_events, log_all. induction msgs as [|m rest IH]; intros t; [reflexivity|]. cbn [map fold_left]. apply IH.
Qed.
Theorem expected_ev_msgs rej t msgs r : expected_ev rej t (map EMsg msgs) r = expected rej t (msgs ++ [(Fatal, r)]).
Proof.
  rewrite <- (fatal_reaches_disk_ev ideal_cfg eq_refl qfile_policy), <- (fatal_reaches_disk ideal_cfg eq_refl qfile_policy).
  unfold run_events_fatal, run_fatal. rewrite run_events_msgs. reflexivity.
Qed.
(* explicit flush() calls anywhere in the history change nothing of what the property demands *)
Theorem expected_ev_flush rej t evs1 evs2 r :
  expected_ev rej t (evs1 ++ EFlush :: evs2) r = expected_ev rej t (evs1 ++ evs2) r.
Proof.
  unfold expected_ev, spec_run. rewrite <- !app_assoc, !fold_left_app. reflexivity.
Qed.

(* ================= several sinks on one file; destroyed sinks; a second Logger object =================
   [wsettle] forgets where the records of every sink (of the configuration or destroyed) sit; every step
   of the model, seen through it, is the step of the unbuffered specification [swstep]. *)
Definition wsettle (st : wstate) : wstate := (tmap settle (fst st), map settle (snd st)).
Lemma tmap_step cfg pol rej t e : tmap settle (step cfg pol rej t e) = sstep rej (tmap settle t) e.
Proof. destruct e as [m| |o]; cbn [step sstep]; [apply tmap_process_message|apply tmap_root_flush|apply tmap_apply_op]. Qed.
Lemma sinks_of_tmap f t : sinks_of (tmap f t) = map f (sinks_of t).
Proof. unfold sinks_of, gsinks. rewrite gs_tmap, !map_map. reflexivity. Qed.
Lemma has_sid_settle l i : has_sid (map settle l) i = has_sid l i.
Proof. unfold has_sid. induction l as [|s l IH]; [reflexivity|]. cbn [map existsb]. rewrite IH. reflexivity. Qed.
Lemma dropped_settle t t' : dropped (tmap settle t) (tmap settle t') = map settle (dropped t t').
Proof.
  unfold dropped. rewrite !sinks_of_tmap. induction (sinks_of t) as [|s l IH]; [reflexivity|].
  cbn [map filter]. rewrite has_sid_settle. cbn [settle sid].
  destruct (negb (has_sid (sinks_of t') (sid s))); cbn [map]; rewrite IH; reflexivity.
Qed.
Lemma settle_qflush s : settle (qflush s) = settle s.
Proof. rewrite !settle_fields, qflush_sid, qflush_presize, qflush_broken, qflush_content. reflexivity. Qed.
Lemma settle_fold_write cfg pol rej msgs : forall s,
  settle (fold_left (write cfg pol rej) msgs s) = fold_left (swrite rej) msgs (settle s).
Proof. induction msgs as [|m rest IH]; intros s; [reflexivity|]. cbn [fold_left]. rewrite IH, settle_write. reflexivity. Qed.
Lemma wsettle_wstep cfg pol rej st e : wsettle (wstep cfg pol rej st e) = swstep rej (wsettle st) e.
Proof.
  destruct st as [t g], e as [e|s msgs]; unfold wsettle, wstep, swstep; cbn [fst snd].
  - rewrite <- (tmap_step cfg pol), dropped_settle, map_app, map_map. f_equal. f_equal. apply map_ext. intros x. apply settle_qflush.
  - rewrite map_app. cbn [map]. rewrite settle_qflush, settle_fold_write. reflexivity.
Qed.
Lemma wsettle_fold cfg pol rej evs : forall st,
  wsettle (fold_left (wstep cfg pol rej) evs st) = fold_left (swstep rej) evs (wsettle st).
Proof. induction evs as [|e evs IH]; intros st; [reflexivity|]. cbn [fold_left]. rewrite IH, wsettle_wstep. reflexivity. Qed.
Lemma wsettle_wrun cfg pol rej t evs : wsettle (wrun cfg pol rej t evs) = wspec rej t evs.
Proof. unfold wrun, wspec. rewrite wsettle_fold. reflexivity. Qed.

(* a destroyed sink has nothing buffered: its QFile was closed *)
Definition sfl (s : sink) : Prop := broken s = false -> buf s = [].
Lemma sfl_qflush s : sfl (qflush s).
Proof. unfold sfl. rewrite qflush_broken. apply qflush_buf. Qed.
Lemma closed_wstep cfg pol rej st e : Forall sfl (snd st) -> Forall sfl (snd (wstep cfg pol rej st e)).
Proof.
  intros H. destruct e as [e|s msgs]; cbn [wstep snd]; apply Forall_app; (split; [exact H|]).
  - apply Forall_forall. intros x Hx. apply in_map_iff in Hx. destruct Hx as (y & <- & _). apply sfl_qflush.
  - constructor; [apply sfl_qflush|constructor].
Qed.
Lemma closed_fold cfg pol rej evs : forall st, Forall sfl (snd st) -> Forall sfl (snd (fold_left (wstep cfg pol rej) evs st)).
Proof. induction evs as [|e evs IH]; intros st H; [exact H|]. cbn [fold_left]. apply IH, closed_wstep, H. Qed.
Lemma sfl_of_flushed l : Forall flushed l -> Forall sfl (map fst l).
Proof. induction 1 as [|sg l H _ IH]; [constructor|]. cbn [map]. constructor; [exact H|exact IH]. Qed.

(* with every buffer empty, the streams are those of the settled state *)
Lemma on_file_settle fm f s : on_file fm f (settle s) = on_file fm f s.
Proof. reflexivity. Qed.
Lemma streams_settle fm f st : Forall sfl (all_sinks st) -> streams fm f (wsettle st) = streams fm f st.
Proof.
  unfold streams, all_sinks, wsettle. cbn [fst snd]. rewrite sinks_of_tmap, <- map_app.
  generalize (snd st ++ sinks_of (fst st)). intros l H.
  induction H as [|s l Hs _ IH]; [reflexivity|]. cbn [map filter]. rewrite on_file_settle.
  destruct (on_file fm f s) eqn:E; [|exact IH]. cbn [map]. rewrite IH. f_equal.
  unfold on_file in E. apply andb_true_iff in E. destruct E as [_ E]. apply negb_true_iff in E.
  cbn [settle disk]. rewrite (Hs E), app_nil_r. reflexivity.
Qed.
Lemma live_files_settle fm st : live_files fm (wsettle st) = live_files fm st.
Proof.
  unfold live_files, wsettle. cbn [fst]. rewrite sinks_of_tmap.
  induction (sinks_of (fst st)) as [|s l IH]; [reflexivity|]. cbn [map filter]. cbn [settle broken].
  destruct (negb (broken s)); cbn [map]; rewrite IH; reflexivity.
Qed.

(* THE theorem for files shared by several sinks: with a good configuration, for every assignment of files
   to sinks, every history of messages, flushes, reconfigurations and short-lived second loggers, every
   buffering policy and fault pattern: at abort every file holds, from every QFile ever opened on it (sinks of
   the final configuration and destroyed ones alike), exactly the stream the unbuffered logger would have
   written - and the files that belong to the final configuration are the same *)
Theorem fatal_reaches_shared_files cfg : cfg_goodb cfg = true ->
  forall (pol : policy) (rej : reject) (t : tree) (evs : list wevent) (r : rec) (fm : fmap),
  (forall f, streams fm f (wrun_fatal cfg pol rej t evs r) = streams fm f (expected_w rej t evs r))
  /\ live_files fm (wrun_fatal cfg pol rej t evs r) = live_files fm (expected_w rej t evs r).
Proof.
  intros Hg pol rej t evs r fm.
  destruct (cfg_good_inv cfg Hg) as (Hp & Hf & Hs & Hd & Hr).
  unfold expected_w, wrun_fatal. rewrite <- (wsettle_wrun cfg pol).
  split; [intros f; symmetry; apply streams_settle|symmetry; apply live_files_settle].
  unfold wrun. rewrite fold_left_app. cbn [fold_left]. set (st := fold_left (wstep cfg pol rej) evs (t, [])).
  unfold all_sinks. apply Forall_app. split.
  - apply closed_wstep. unfold st. apply closed_fold. constructor.
  - cbn [wfatal wstep fst step]. unfold sinks_of. apply sfl_of_flushed.
    unfold process_message, gsinks. rewrite Hp. cbn [fst]. rewrite Hf. apply gs_root_flush_flushed; assumption.
Qed.
(* killed at any other moment (no fatal message): every stream is a part of what was logged - what a destroyed sink
   wrote is complete, only the buffers of the sinks of the configuration are lost *)
Theorem destroyed_sinks_lose_nothing cfg pol rej t evs fm f :
  map disk (filter (on_file fm f) (snd (wrun cfg pol rej t evs)))
  = map disk (filter (on_file fm f) (snd (wspec rej t evs))).
Proof.
  rewrite <- (wsettle_wrun cfg pol). unfold wsettle. cbn [snd].
  assert (H : Forall sfl (snd (wrun cfg pol rej t evs))) by (unfold wrun; apply closed_fold; constructor).
  induction H as [|s l Hs _ IH]; [reflexivity|]. cbn [map filter]. rewrite on_file_settle.
  destruct (on_file fm f s) eqn:E; [|exact IH]. cbn [map]. rewrite IH. f_equal.
  unfold on_file in E. apply andb_true_iff in E. destruct E as [_ E]. apply negb_true_iff in E.
  cbn [settle disk]. rewrite (Hs E), app_nil_r. reflexivity.
Qed.

(* ---- the oracle for shared files ---- *)
Lemma ms_eqb_refl a : ms_eqb a a = true.
Proof.
  unfold ms_eqb. rewrite Nat.eqb_refl. cbn [andb]. apply forallb_forall. intros x _. apply N.eqb_refl.
Qed.
Lemma subseq_b_tail : forall l x p, subseq_b l (x :: p) = true -> subseq_b l p = true.
Proof.
  induction l as [|y l IH]; intros x p H; [discriminate|].
  cbn [subseq_b] in H. destruct p as [|z p']; [reflexivity|]. cbn [subseq_b].
  destruct (x =? y).
  - destruct (z =? y); [apply (IH z), H|exact H].
  - destruct (z =? y); [apply (IH z), (IH x), H|apply (IH x), H].
Qed.
Lemma subseq_b_refl_app : forall p b, subseq_b (p ++ b) p = true.
Proof.
  induction p as [|x p IH]; intros b; [destruct b; reflexivity|]. cbn [app subseq_b]. rewrite N.eqb_refl. apply IH.
Qed.
Lemma subseq_b_app_l : forall a l p, subseq_b l p = true -> subseq_b (a ++ l) p = true.
Proof.
  induction a as [|y a IH]; intros l p H; [exact H|]. cbn [app subseq_b].
  destruct p as [|x p']; [reflexivity|]. destruct (x =? y); [apply IH, (subseq_b_tail l x), H|apply IH, H].
Qed.
Lemma subseq_b_concat : forall parts : list (list N), forallb (subseq_b (concat parts)) parts = true.
Proof.
  intros parts. apply forallb_forall. intros p Hp. apply in_split in Hp. destruct Hp as (l1 & l2 & ->).
  rewrite concat_app. cbn [concat]. apply subseq_b_app_l, subseq_b_refl_app.
Qed.
Lemma stream_okb_concat parts : stream_okb parts (concat parts) = true.
Proof.
  unfold stream_okb. destruct parts as [|p [|q rest]].
  - reflexivity.
  - cbn [concat]. rewrite app_nil_r. apply ids_eqb_refl.
  - rewrite ms_eqb_refl. apply subseq_b_concat.
Qed.
(* the files of the model (its streams one after the other) satisfy the oracle *)
Theorem oracle_w_holds cfg : cfg_goodb cfg = true ->
  forall pol rej t evs r fm,
  prop_c11_w_b fm rej t evs r (fun f => Some (concat (stream_ids fm f (wrun_fatal cfg pol rej t evs r)))) = true.
Proof.
  intros Hg pol rej t evs r fm. unfold prop_c11_w_b. apply forallb_forall. intros f _.
  unfold stream_ids. rewrite (proj1 (fatal_reaches_shared_files cfg Hg pol rej t evs r fm) f). apply stream_okb_concat.
Qed.
(* what the oracle accepts of a file several sinks wrote: the same ids the same number of times *)
Lemma ms_eqb_count a b : ms_eqb a b = true -> forall x, In x a -> count_id x a = count_id x b.
Proof.
  unfold ms_eqb. intros H x Hx. apply andb_true_iff in H. destruct H as [_ H].
  rewrite forallb_forall in H. apply N.eqb_eq, H, Hx.
Qed.
(* on histories without a second logger the tree of the shared-file specification is the tree of [spec_run] *)
Lemma fst_swstep_fold rej evs : forall st,
  fst (fold_left (swstep rej) (map WEv evs) st) = fold_left (sstep rej) evs (fst st).
Proof. induction evs as [|e evs IH]; intros st; [reflexivity|]. cbn [map fold_left]. rewrite IH. reflexivity. Qed.
Theorem wspec_tree rej t evs : fst (wspec rej t (map WEv evs)) = spec_run rej t evs.
Proof. unfold wspec, spec_run. rewrite fst_swstep_fold. reflexivity. Qed.
