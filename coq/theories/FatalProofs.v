(* C11 — lemmas about FatalDefs: content is conserved by every step, a good configuration empties
   every buffer reachable from the logger after the fatal record was written. *)
From Coq Require Import List NArith Bool Lia.
Import ListNotations.
Require Import QtlVerif.FatalDefs.
Local Open Scope N_scope.

Lemma qflush_content s : content (qflush s) = content s.
Proof. unfold content, qflush; cbn. rewrite app_nil_r. reflexivity. Qed.
Lemma qflush_buf s : buf (qflush s) = [].
Proof. reflexivity. Qed.
Lemma qappend_content s r : content (qappend s r) = content s ++ [r].
Proof. unfold content, qappend; cbn. rewrite app_assoc. reflexivity. Qed.
Lemma sink_flush_content cfg s : content (sink_flush cfg s) = content s.
Proof. unfold sink_flush. destruct (fs_flush_real cfg); [apply qflush_content|reflexivity]. Qed.

(* whatever the buffering policy does, a write adds exactly its record to (disk ++ buffer) *)
Lemma write_content cfg pol s r : content (write cfg pol s r) = content s ++ [r].
Proof.
  unfold write.
  set (s1 := if rot_presize cfg && presize s then qflush s else s).
  assert (E1 : content s1 = content s)
    by (unfold s1; destruct (rot_presize cfg && presize s); [apply qflush_content|reflexivity]).
  destruct (pol s1 r) as [pre post].
  set (s2 := if pre then qflush s1 else s1).
  assert (E2 : content s2 = content s1) by (unfold s2; destruct pre; [apply qflush_content|reflexivity]).
  destruct post; [rewrite qflush_content|]; rewrite qappend_content, E2, E1; reflexivity.
Qed.

(* ---- trees: nested induction (tree contains list tree) ---- *)
Lemma sinks_twrite cfg pol r : forall t,
  map content (sinks (twrite cfg pol r t)) = map (fun s => content s ++ [r]) (sinks t).
Proof.
  fix F 1. intros [s|l|]; cbn [twrite sinks]; [cbn [map]; rewrite write_content; reflexivity| |reflexivity].
  refine ((fix G (l : list tree) :
             map content (flat_map sinks (map (twrite cfg pol r) l))
             = map (fun s => content s ++ [r]) (flat_map sinks l) :=
             match l with [] => eq_refl | x :: l0 => _ end) l).
  cbn [map flat_map]. rewrite !map_app, (F x), (G l0). reflexivity.
Qed.
Lemma lsinks_lwrite cfg pol r l :
  map content (lsinks (lwrite cfg pol r l)) = map (fun s => content s ++ [r]) (lsinks l).
Proof.
  unfold lsinks, lwrite. induction l as [|x l IH]; [reflexivity|].
  cbn [map flat_map]. rewrite !map_app, sinks_twrite, IH. reflexivity.
Qed.

Lemma sinks_tflush cfg : forall t, map content (sinks (tflush cfg t)) = map content (sinks t).
Proof.
  fix F 1. intros [s|l|]; cbn [tflush]; [| |reflexivity].
  - destruct (rf_flush_sinks cfg); [|reflexivity]. cbn [sinks map]. rewrite sink_flush_content. reflexivity.
  - destruct (rf_descends cfg); [|reflexivity]. cbn [sinks].
    refine ((fix G (l : list tree) :
               map content (flat_map sinks (map (tflush cfg) l)) = map content (flat_map sinks l) :=
               match l with [] => eq_refl | x :: l0 => _ end) l).
    cbn [map flat_map]. rewrite !map_app, (F x), (G l0). reflexivity.
Qed.
Lemma lsinks_lflush cfg l : map content (lsinks (lflush cfg l)) = map content (lsinks l).
Proof.
  unfold lsinks, lflush. induction l as [|x l IH]; [reflexivity|].
  cbn [map flat_map]. rewrite !map_app, sinks_tflush, IH. reflexivity.
Qed.

(* a flush reaches every sink of the tree when sinks are flushed, nested pipelines are entered and
   FileSink::flush really flushes *)
Lemma sinks_tflush_empty cfg :
  rf_flush_sinks cfg = true -> rf_descends cfg = true -> fs_flush_real cfg = true ->
  forall t, Forall (fun s => buf s = []) (sinks (tflush cfg t)).
Proof.
  intros Hs Hd Hr. fix F 1. intros [s|l|]; cbn [tflush].
  - rewrite Hs. unfold sink_flush. rewrite Hr. cbn [sinks]. constructor; [reflexivity|constructor].
  - rewrite Hd. cbn [sinks].
    refine ((fix G (l : list tree) : Forall (fun s => buf s = []) (flat_map sinks (map (tflush cfg) l)) :=
               match l with [] => Forall_nil _ | x :: l0 => _ end) l).
    cbn [map flat_map]. apply Forall_app. split; [apply F|apply G].
  - constructor.
Qed.
Lemma lsinks_lflush_empty cfg l :
  rf_flush_sinks cfg = true -> rf_descends cfg = true -> fs_flush_real cfg = true ->
  Forall (fun s => buf s = []) (lsinks (lflush cfg l)).
Proof.
  intros Hs Hd Hr. unfold lsinks, lflush. induction l as [|x l IH]; [constructor|].
  cbn [map flat_map]. apply Forall_app. split; [apply sinks_tflush_empty; assumption|exact IH].
Qed.

(* every message, whatever its type and the flush decisions, adds its record to every sink *)
Lemma process_message_content cfg pol l m :
  map content (lsinks (process_message cfg pol l m)) = map (fun s => content s ++ [snd m]) (lsinks l).
Proof.
  destruct m as [ty r]. unfold process_message. cbn [snd].
  destruct (ff_pos cfg).
  - apply lsinks_lwrite.
  - rewrite lsinks_lwrite. destruct (flushes cfg ty); [|reflexivity].
    rewrite <- (map_map content (fun c => c ++ [r])), lsinks_lflush, map_map. reflexivity.
  - destruct (flushes cfg ty); [rewrite lsinks_lflush|]; apply lsinks_lwrite.
Qed.
Lemma log_all_content cfg pol msgs : forall l,
  map content (lsinks (log_all cfg pol l msgs)) = map (fun s => content s ++ map snd msgs) (lsinks l).
Proof.
  unfold log_all. induction msgs as [|m rest IH]; intros l; cbn [fold_left map].
  - apply map_ext. intros s. rewrite app_nil_r. reflexivity.
  - rewrite IH. rewrite <- (map_map content (fun c => c ++ map snd rest)), process_message_content, map_map.
    apply map_ext. intros s. rewrite <- app_assoc. reflexivity.
Qed.

Lemma cfg_good_inv cfg : cfg_goodb cfg = true ->
  ff_pos cfg = FAfter /\ flushes cfg Fatal = true /\
  rf_flush_sinks cfg = true /\ rf_descends cfg = true /\ fs_flush_real cfg = true.
Proof.
  unfold cfg_goodb, flushes. intros H.
  repeat (apply andb_true_iff in H; destruct H as [H ?]).
  destruct (ff_pos cfg); try discriminate.
  repeat split; try assumption. apply andb_true_iff. split; assumption.
Qed.

Lemma disk_of_flushed (l : list sink) :
  Forall (fun s => buf s = []) l -> map disk l = map content l.
Proof.
  induction 1 as [|s l Hs _ IH]; [reflexivity|]. cbn [map]. rewrite IH. f_equal.
  unfold content. rewrite Hs, app_nil_r. reflexivity.
Qed.

(* THE theorem: with a good configuration the file of every sink reachable from the logger holds, at
   abort, what it held before plus every record of the history plus the fatal one — for every
   configuration tree, every history, every buffering policy *)
Theorem fatal_reaches_disk cfg : cfg_goodb cfg = true ->
  forall (pol : policy) (l : list tree) (msgs : list (mtype * rec)) (r : rec),
  survivors (run_fatal cfg pol l msgs r)
  = map (fun s => content s ++ map snd msgs ++ [r]) (lsinks l).
Proof.
  intros Hg pol l msgs r.
  destruct (cfg_good_inv cfg Hg) as (Hp & Hf & Hs & Hd & Hr).
  unfold survivors.
  assert (Hbuf : Forall (fun s => buf s = []) (lsinks (run_fatal cfg pol l msgs r))).
  { unfold run_fatal, process_message. rewrite Hp, Hf. apply lsinks_lflush_empty; assumption. }
  rewrite (disk_of_flushed _ Hbuf).
  unfold run_fatal. rewrite process_message_content. cbn [snd].
  rewrite <- (map_map content (fun c => c ++ [r])), log_all_content, map_map.
  apply map_ext. intros s. rewrite <- app_assoc. reflexivity.
Qed.

(* fresh files: every file = all records, fatal last *)
Corollary fatal_reaches_disk_fresh cfg : cfg_goodb cfg = true ->
  forall pol l msgs r, Forall (fun s => content s = []) (lsinks l) ->
  survivors (run_fatal cfg pol l msgs r) = map (fun _ => map snd msgs ++ [r]) (lsinks l).
Proof.
  intros Hg pol l msgs r He. rewrite (fatal_reaches_disk cfg Hg).
  induction He as [|s k Hs _ IH]; [reflexivity|]. cbn [map]. rewrite Hs, IH. reflexivity.
Qed.

(* nothing is ever lost from disk ++ buffer, good configuration or not: what is missing from a file
   at abort is exactly what still sat in the buffer *)
Theorem content_conserved cfg pol l msgs r :
  map content (lsinks (run_fatal cfg pol l msgs r))
  = map (fun s => content s ++ map snd msgs ++ [r]) (lsinks l).
Proof.
  unfold run_fatal. rewrite process_message_content. cbn [snd].
  rewrite <- (map_map content (fun c => c ++ [r])), log_all_content, map_map.
  apply map_ext. intros s. rewrite <- app_assoc. reflexivity.
Qed.

(* ---- the oracle ---- *)
Lemma ids_eqb_eq a : forall b, ids_eqb a b = true <-> a = b.
Proof.
  induction a as [|x a IH]; intros [|y b]; cbn; try (split; [discriminate|discriminate]); [split; reflexivity|].
  rewrite andb_true_iff, N.eqb_eq, IH. split; [intros [-> ->]; reflexivity|intros H; inversion H; split; reflexivity].
Qed.
Lemma prop_c11_b_spec expected files :
  prop_c11_b expected files = true <-> Forall (fun f => f = expected) files.
Proof.
  unfold prop_c11_b. rewrite forallb_forall, Forall_forall.
  split; intros H f Hf; specialize (H f Hf); [symmetry|subst f]; apply ids_eqb_eq; [exact H|reflexivity].
Qed.
Theorem oracle_holds cfg : cfg_goodb cfg = true ->
  forall pol l msgs r, Forall (fun s => content s = []) (lsinks l) ->
  prop_c11_b (map rid (map snd msgs ++ [r])) (ids_of (survivors (run_fatal cfg pol l msgs r))) = true.
Proof.
  intros Hg pol l msgs r He. apply prop_c11_b_spec.
  rewrite (fatal_reaches_disk_fresh cfg Hg pol l msgs r He). unfold ids_of.
  rewrite map_map. apply Forall_forall. intros f Hf. apply in_map_iff in Hf. destruct Hf as (s & <- & _). reflexivity.
Qed.

(* ---- the defect that was repaired, and the other ways to get it wrong: witnesses ---- *)
Definition with_pos (cfg : fatal_cfg) (p : fpos) : fatal_cfg :=
  {| ff_pos := p; ff_types := ff_types cfg; ff_cond := ff_cond cfg; rf_flush_sinks := rf_flush_sinks cfg;
     rf_descends := rf_descends cfg; fs_flush_real := fs_flush_real cfg; rot_presize := rot_presize cfg |}.
Definition with_descends (cfg : fatal_cfg) (b : bool) : fatal_cfg :=
  {| ff_pos := ff_pos cfg; ff_types := ff_types cfg; ff_cond := ff_cond cfg; rf_flush_sinks := rf_flush_sinks cfg;
     rf_descends := b; fs_flush_real := fs_flush_real cfg; rot_presize := rot_presize cfg |}.
Definition mk (i l : N) : rec := {| rid := i; rlen := l |}.
Definition info (i l : N) : mtype * rec := (Info, mk i l).
