(* C02 — the asynchronous -> synchronous transition: lemmas.  For every reset program satisfying [reset_ok], any number of
   producers, any quota and any schedule, the run of the model is simulated by the trace acceptor of ConcDefs — hence it
   has all the trace-level properties (no overlap, exactly once, per-thread order, consecutive sequence numbers). *)
From Coq Require Import List Arith Bool Lia.
Import ListNotations.
Require Import QtlVerif.ConcDefs QtlVerif.ConcProofs QtlVerif.ConcResetDefs.

Definition wl (s : rstate) : list (nat * nat) := match r_w s with WIn t i _ => [(t, i)] | WIdle => [] end.
Definition cur (s : rstate) : option (nat * nat) :=
  match r_w s with
  | WIn t i _ => Some (t, i)
  | WIdle => match r_m s with MProd t (PIn _) => Some (t, r_idx s t) | _ => None end
  end.
Definition progress (s : rstate) : nat :=
  match r_m s with
  | MReset pc => pc
  | _ => match r_r s with RStart => 0 | RSleep pc => pc | RDone => 3 end
  end.
Definition flag_at (f : rinstr -> bool) (prog : list rinstr) (k : nat) : bool := negb (existsb f (firstn k prog)).
Definition idxs_of (t : nat) (l : list (nat * nat)) : list nat := map snd (filter (fun x => Nat.eqb (fst x) t) l).

Lemma idxs_of_app t a b : idxs_of t (a ++ b) = idxs_of t a ++ idxs_of t b.
Proof. unfold idxs_of. rewrite filter_app, map_app. reflexivity. Qed.
Lemma idxs_of_same t i l : idxs_of t ((t, i) :: l) = i :: idxs_of t l.
Proof. unfold idxs_of. cbn. rewrite Nat.eqb_refl. reflexivity. Qed.
Lemma idxs_of_other t t' i l : t' <> t -> idxs_of t ((t', i) :: l) = idxs_of t l.
Proof. intros H. unfold idxs_of. cbn. destruct (Nat.eqb_spec t' t); [contradiction|reflexivity]. Qed.
Lemma seq_snoc a i : a <= i -> seq a (i - a) ++ [i] = seq a (S i - a).
Proof. intros H. replace (S i - a) with (S (i - a)) by lia. rewrite seq_S. do 2 f_equal. lia. Qed.
Lemma seq_head a k i r : i :: r = seq a k -> i = a /\ 1 <= k /\ r = seq (S a) (k - 1).
Proof. destruct k as [|k]; cbn; [discriminate|]. intros H. injection H as -> ->. rewrite Nat.sub_0_r. repeat split; lia. Qed.
Lemma seq_nil a k : [] = seq a k -> k = 0.
Proof. destruct k; [reflexivity|discriminate]. Qed.

(* ---- static facts about the two admissible programs ---- *)
Lemma ok_cases prog : reset_ok prog = true -> prog = [RDrain; RQuit; RClear] \/ prog = [RDrain; RClear; RQuit].
Proof.
  destruct prog as [|[] [|[] [|[] [|? ?]]]]; cbn; try discriminate; auto.
Qed.
Ltac pcs pc := destruct pc as [|[|[|[|pc]]]]; cbn in *; try discriminate; try lia; auto.
Lemma ok_drain prog pc : reset_ok prog = true -> nth_error prog pc = Some RDrain -> pc = 0.
Proof. intros H. destruct (ok_cases prog H) as [-> | ->]; intros E; pcs pc; destruct pc; discriminate. Qed.
Lemma ok_end prog pc : reset_ok prog = true -> nth_error prog pc = None -> 3 <= pc.
Proof. intros H. destruct (ok_cases prog H) as [-> | ->]; intros E; pcs pc. Qed.
Lemma ok_drain_flags prog f : reset_ok prog = true -> (f RDrain = false) -> flag_at f prog 1 = flag_at f prog 0.
Proof. intros H F. destruct (ok_cases prog H) as [-> | ->]; unfold flag_at; cbn; rewrite F; reflexivity. Qed.
Lemma ok_clear prog pc : reset_ok prog = true -> nth_error prog pc = Some RClear ->
  1 <= pc /\ S pc <= 3 /\ flag_at is_clear prog (S pc) = false /\ flag_at is_quit prog (S pc) = flag_at is_quit prog pc.
Proof. intros H. destruct (ok_cases prog H) as [-> | ->]; intros E; unfold flag_at; pcs pc; try (destruct pc; discriminate); repeat split; lia. Qed.
Lemma ok_quit prog pc : reset_ok prog = true -> nth_error prog pc = Some RQuit ->
  1 <= pc /\ S pc <= 3 /\ flag_at is_quit prog (S pc) = false /\ flag_at is_clear prog (S pc) = flag_at is_clear prog pc.
Proof. intros H. destruct (ok_cases prog H) as [-> | ->]; intros E; unfold flag_at; pcs pc; try (destruct pc; discriminate); repeat split; lia. Qed.
(* the event loop is stopped while m_worker is still set only inside the resetting thread's critical section *)
Lemma ok_window prog k : reset_ok prog = true -> k <= 3 -> flag_at is_quit prog k = false -> flag_at is_clear prog k = true -> k = 2.
Proof. intros H. destruct (ok_cases prog H) as [-> | ->]; unfold flag_at; pcs k. Qed.

Section Reset.
Variable prog : list rinstr.
Variable quota : nat -> nat.
Variable n : nat.
Hypothesis Hok : reset_ok prog = true.
Hypothesis Hq : forall t, n <= t -> quota t = 0.

Record RInv (s : rstate) (a : astate) : Prop := {
  v_lt : forall t ph, r_m s = MProd t ph -> r_idx s t < quota t;
  v_in : forall t tmp, r_m s = MProd t (PIn tmp) -> r_worker s = false /\ tmp = r_count s;
  v_wk : r_worker s = false -> r_queue s = [] /\ r_w s = WIdle;
  v_rn : r_running s = false -> r_queue s = [] /\ r_w s = WIdle;
  v_fw : r_worker s = flag_at is_clear prog (progress s);
  v_fr : r_running s = flag_at is_quit prog (progress s);
  v_pg : progress s <= 3;
  v_sl : forall pc, r_r s = RSleep pc -> pc = 0;
  v_dr : forall pc, r_m s = MReset pc -> 1 <= pc -> r_queue s = [] /\ r_w s = WIdle;
  v_wt : forall t i tmp, r_w s = WIn t i tmp -> tmp = r_count s;
  v_ct : r_count s = length (r_log s);
  v_ev : arun quota n a0 (r_evs s) = Some a;
  v_ac : a_cnt a = length (r_log s);
  v_ai : a_in a = cur s;
  v_lg : r_log s = delivs (r_evs s);
  v_nx : forall t, a_next a t <= r_idx s t /\ r_idx s t <= quota t /\
                   idxs_of t (wl s ++ r_queue s) = seq (a_next a t) (r_idx s t - a_next a t)
}.

Lemma rs0_inv : RInv rs0 a0.
Proof.
  constructor; unfold progress, cur, wl, flag_at; cbn; intros; try discriminate; try reflexivity; try lia; auto.
  all: repeat split; try lia; reflexivity.
Qed.

(* running = false and worker still set: the resetting thread holds M *)
Lemma window s a : RInv s a -> r_running s = false -> r_worker s = true -> exists pc, r_m s = MReset pc.
Proof.
  intros I R W. pose proof (v_fr _ _ I) as F1. pose proof (v_fw _ _ I) as F2. rewrite R in F1. rewrite W in F2.
  pose proof (ok_window prog _ Hok (v_pg _ _ I) (eq_sym F1) (eq_sym F2)) as P.
  unfold progress in P. destruct (r_m s) as [|t ph|pc] eqn:Em; [| |exists pc; reflexivity];
  (destruct (r_r s) as [|pc|] eqn:Er; [discriminate|pose proof (v_sl _ _ I pc Er); lia|discriminate]).
Qed.

Lemma tn t i : i < quota t -> t < n.
Proof. intros H. destruct (Nat.lt_ge_cases t n) as [|Hge]; [assumption|]. rewrite (Hq t Hge) in H. lia. Qed.

Ltac simp := cbn [r_idx r_m r_r r_w r_worker r_running r_queue r_count r_log r_evs a_in a_cnt a_next] in *.
Ltac sp t' t := destruct (Nat.eq_dec t' t) as [->|?Hne];
  [rewrite ?upd_same in *|rewrite ?upd_other in * by assumption].

Lemma rstep_inv s a act s' : RInv s a -> rstep prog quota s act = Some s' -> exists a', RInv s' a'.
Proof.
  intros I H. pose proof I as [I1 I2 I3 I4 I5 I6 I7 I8 I9 I10 I11 I12 I13 I14 I15 I16].
  destruct act as [t| |]; cbn [rstep] in H.
  - (* a producer *)
    destruct (Nat.leb_spec (quota t) (r_idx s t)) as [|Hlt]; [discriminate|].
    destruct (r_m s) as [|t0 ph|pc] eqn:Em; [| |discriminate].
    + (* takes M *)
      injection H as <-. exists a.
      constructor; unfold progress, cur, wl in *; simp; rewrite ?Em in *; try assumption; try discriminate.
      * intros t' ph E. injection E as <- <-. exact Hlt.
    + destruct (Nat.eqb_spec t0 t) as [->|]; [|discriminate].
      destruct ph as [|tmp].
      * destruct (r_worker s) eqn:Ew.
        -- (* posts *)
           injection H as <-. exists a.
           assert (Hrun : r_running s = true).
           { destruct (r_running s) eqn:Er; [reflexivity|]. destruct (window s a I Er Ew) as [pc E]. congruence. }
           constructor; unfold progress, cur, wl in *; simp; rewrite ?Em in *; try assumption; try discriminate; try congruence.
           intros t'. destruct (I16 t') as (A & B & C). sp t' t.
              ** pose proof (I1 t PLocked eq_refl). repeat split; [lia|lia|].
                 rewrite app_assoc, idxs_of_app, C. change [(t, r_idx s t)] with ((t, r_idx s t) :: []).
                 rewrite idxs_of_same. cbn [idxs_of filter map]. apply seq_snoc. exact A.
              ** repeat split; [assumption|assumption|].
                 rewrite app_assoc, idxs_of_app, C, idxs_of_other by congruence. cbn. apply app_nil_r.
        -- (* runs the pipeline itself: enters *)
           destruct (I3 eq_refl) as [Eq Ewi]. injection H as <-.
           destruct (I16 t) as (A & B & C). unfold wl in C. rewrite Ewi, Eq in C. cbn in C. apply seq_nil in C.
           assert (En : a_next a t = r_idx s t) by lia.
           exists {| a_in := Some (t, r_idx s t); a_cnt := a_cnt a; a_next := a_next a |}.
           constructor; unfold progress, cur, wl in *; simp; rewrite ?Em, ?Ewi in *; try assumption; try discriminate; try congruence.
           ++ intros t' tmp E. injection E as <- <-. split; reflexivity.
           ++ rewrite arun_app, I12. cbn [arun astep]. rewrite I14.
              destruct (Nat.ltb_spec t n) as [|Hge]; [|exfalso; pose proof (tn t _ Hlt); lia].
              rewrite En, Nat.eqb_refl. destruct (Nat.ltb_spec (r_idx s t) (quota t)); [reflexivity|lia].
           ++ rewrite delivs_app. cbn. rewrite app_nil_r. exact I15.
      * (* delivers, leaves the pipeline, releases M *)
        destruct (I2 t tmp eq_refl) as [Ew Et]. destruct (I3 Ew) as [Eq Ewi]. injection H as <-.
        pose proof (I1 t _ eq_refl) as Hlt'.
        exists {| a_in := None; a_cnt := S (a_cnt a); a_next := upd (a_next a) t (S (r_idx s t)) |}.
        constructor; unfold progress, cur, wl in *; simp; rewrite ?Em, ?Ewi, ?Eq in *; try assumption; try discriminate; try congruence.
        -- rewrite app_length. cbn. lia.
        -- rewrite arun_app, I12. cbn [arun astep]. rewrite I14, !Nat.eqb_refl. cbn [andb].
           rewrite I13, <- I11, <- Et, Nat.eqb_refl. reflexivity.
        -- rewrite app_length. cbn. lia.
        -- rewrite delivs_app. cbn. rewrite I15. reflexivity.
        -- intros t'. destruct (I16 t') as (A & B & C). sp t' t.
           ++ repeat split; [lia|lia|]. cbn. rewrite Nat.sub_diag. reflexivity.
           ++ repeat split; assumption.
  - (* the worker *)
    destruct (r_running s) eqn:Er; [|discriminate].
    destruct (r_w s) as [|t i tmp] eqn:Ewi.
    + destruct (r_queue s) as [|[t i] q] eqn:Eq; [discriminate|]. injection H as <-.
      assert (Ew : r_worker s = true). { destruct (r_worker s); [reflexivity|]. destruct (I3 eq_refl); discriminate. }
      assert (Ecur : cur s = None).
      { unfold cur. rewrite Ewi. destruct (r_m s) as [|t0 [|tmp]|pc] eqn:Em; try reflexivity. destruct (I2 t0 tmp eq_refl); congruence. }
      destruct (I16 t) as (A & B & C). unfold wl in C. rewrite Ewi in C. cbn [app] in C. rewrite idxs_of_same in C.
      apply seq_head in C as (Ei & Hk & C).
      exists {| a_in := Some (t, i); a_cnt := a_cnt a; a_next := a_next a |}.
      constructor; unfold progress, cur, wl in *; simp; rewrite ?Ewi in *; try assumption; try discriminate; try congruence.
      * intros pc E Hpc. destruct (I9 pc E Hpc); discriminate.
      * rewrite arun_app, I12. cbn [arun astep]. rewrite I14, Ecur.
        destruct (Nat.ltb_spec t n) as [|Hge]; [|exfalso; assert (t < n) by (apply (tn t i); lia); lia].
        rewrite Ei, Nat.eqb_refl. destruct (Nat.ltb_spec (a_next a t) (quota t)); [reflexivity|lia].
      * rewrite delivs_app. cbn. rewrite app_nil_r. exact I15.
    + injection H as <-. pose proof (I10 t i tmp eq_refl) as Et.
      assert (Hnp : forall t0 tmp0, r_m s <> MProd t0 (PIn tmp0)).
      { intros t0 tmp0 E. destruct (I2 t0 tmp0 E) as [Ew _]. destruct (I3 Ew); congruence. }
      exists {| a_in := None; a_cnt := S (a_cnt a); a_next := upd (a_next a) t (S i) |}.
      constructor; unfold progress, cur, wl in *; simp; rewrite ?Ewi in *; try assumption; try discriminate; try congruence.
      * intros Ew. destruct (I3 Ew); discriminate.
      * intros pc E Hpc. destruct (I9 pc E Hpc); discriminate.
      * rewrite app_length. cbn. lia.
      * rewrite arun_app, I12. cbn [arun astep]. rewrite I14, !Nat.eqb_refl. cbn [andb].
        rewrite I13, <- I11, <- Et, Nat.eqb_refl. reflexivity.
      * rewrite app_length. cbn. lia.
      * destruct (r_m s) as [|t0 [|tmp0]|pc] eqn:Em; try reflexivity. exfalso. exact (Hnp t0 tmp0 eq_refl).
      * rewrite delivs_app. cbn. rewrite I15. reflexivity.
      * intros t'. destruct (I16 t') as (A & B & C). cbn [app] in *. sp t' t.
        -- rewrite idxs_of_same in C. apply seq_head in C as (Ei & Hk & C). subst i.
           repeat split; [lia|assumption|]. rewrite C. f_equal. lia.
        -- rewrite idxs_of_other in C by congruence. repeat split; assumption.
  - (* the resetting thread *)
    destruct (r_m s) as [|t0 ph|pc] eqn:Em; [| discriminate |].
    + destruct (r_r s) as [|pc|] eqn:Err; [| |discriminate]; injection H as <-; exists a.
      * constructor; unfold progress, cur, wl in *; simp; rewrite ?Em, ?Err in *; try assumption; try discriminate.
        intros pc E Hpc. injection E as <-. lia.
      * pose proof (I8 pc eq_refl) as ->.
        constructor; unfold progress, cur, wl in *; simp; rewrite ?Em, ?Err in *; try assumption; try discriminate.
        intros pc E Hpc. injection E as <-. lia.
    + unfold progress in I5, I6, I7. rewrite Em in I5, I6, I7.
      destruct (nth_error prog pc) as [[| |]|] eqn:En.
      * (* drain *)
        pose proof (ok_drain prog pc Hok En) as ->.
        destruct (Nat.eqb_spec (pending s) 0) as [Hp|Hp]; injection H as <-; exists a.
        -- assert (Hq0 : r_queue s = [] /\ r_w s = WIdle).
           { unfold pending in Hp. destruct (r_queue s); [|cbn in Hp; lia]. destruct (r_w s); [split; reflexivity|cbn in Hp; lia]. }
           constructor; unfold progress, cur, wl in *; simp; rewrite ?Em in *; try assumption; try discriminate.
           ++ rewrite I5. symmetry. apply ok_drain_flags; [exact Hok|reflexivity].
           ++ rewrite I6. symmetry. apply ok_drain_flags; [exact Hok|reflexivity].
           ++ lia.
           ++ intros pc E _. exact Hq0.
        -- constructor; unfold progress, cur, wl in *; simp; rewrite ?Em in *; try assumption; try discriminate.
           intros pc E. injection E as <-. reflexivity.
      * (* quit *)
        destruct (r_w s) eqn:Ewi; [|discriminate]. injection H as <-. exists a.
        destruct (ok_quit prog pc Hok En) as (P1 & P2 & P3 & P4). destruct (I9 pc eq_refl P1) as [Eq _].
        constructor; unfold progress, cur, wl in *; simp; rewrite ?Em, ?Ewi in *; try assumption; try discriminate; try congruence.
        -- intros _. split; [exact Eq|reflexivity].
        -- intros pc' E _. split; [exact Eq|reflexivity].
      * (* clear *)
        injection H as <-. exists a.
        destruct (ok_clear prog pc Hok En) as (P1 & P2 & P3 & P4). destruct (I9 pc eq_refl P1) as [Eq Ewi].
        constructor; unfold progress, cur, wl in *; simp; rewrite ?Em, ?Ewi in *; try assumption; try discriminate; try congruence.
        -- intros _. split; [exact Eq|reflexivity].
        -- intros pc' E _. split; [exact Eq|reflexivity].
      * (* the end: M released *)
        injection H as <-. exists a. pose proof (ok_end prog pc Hok En) as P. assert (pc = 3) by lia. subst pc.
        constructor; unfold progress, cur, wl in *; simp; rewrite ?Em in *; try assumption; try discriminate.
Qed.

Theorem rrun_inv sched : forall s a, RInv s a -> exists a', RInv (rrun prog quota s sched) a'.
Proof.
  induction sched as [|act r IH]; intros s a I; cbn [rrun]; [exists a; exact I|].
  destruct (rstep prog quota s act) as [s'|] eqn:E; [|apply (IH s a I)].
  destruct (rstep_inv s a act s' I E) as [a' I']. apply (IH s' a' I').
Qed.
Definition rreach (s : rstate) : Prop := exists sched, s = rrun prog quota rs0 sched.
Lemma rreach_inv s : rreach s -> exists a, RInv s a.
Proof. intros [sched ->]. apply (rrun_inv sched rs0 a0 rs0_inv). Qed.

(* 1. the worker and a producer (or two producers) are never inside the pipeline at the same moment *)
Theorem reset_mutual_exclusion s x y : rreach s -> rinside s x = true -> rinside s y = true -> x = y.
Proof.
  intros R Hx Hy. destruct (rreach_inv s R) as [a I].
  assert (K : forall t, rinside s (AProd t) = true -> rinside s AWorker = true -> False).
  { intros t H1 H2. cbn in H1, H2. destruct (r_m s) as [|t0 [|tmp]|pc] eqn:Em; try discriminate.
    destruct (v_in _ _ I t0 tmp Em) as [Ew _]. destruct (v_wk _ _ I Ew) as [_ Ewi]. rewrite Ewi in H2. discriminate. }
  destruct x as [t| |], y as [t'| |]; try discriminate; try reflexivity.
  - cbn in Hx, Hy. destruct (r_m s) as [|t0 [|tmp]|pc]; try discriminate. apply Nat.eqb_eq in Hx, Hy. congruence.
  - exfalso. exact (K t Hx Hy).
  - exfalso. exact (K t' Hy Hx).
Qed.

(* 2. no posted message is ever left behind in the queue of a stopped event loop *)
Theorem reset_no_stranded s : rreach s -> stranded s = false.
Proof.
  intros R. destruct (rreach_inv s R) as [a I]. unfold stranded. destruct (r_running s) eqn:Er; [reflexivity|].
  destruct (v_rn _ _ I Er) as [-> _]. reflexivity.
Qed.

(* 3. tie to the acceptor: every reachable state's event trace is taken by the acceptor, the sink log is its deliveries,
   sequence numbers are consecutive at every moment, and a complete run's trace is accepted *)
Theorem reset_trace_accepted_prefix s : rreach s ->
  (exists a, arun quota n a0 (r_evs s) = Some a) /\ r_log s = delivs (r_evs s) /\ r_count s = length (r_log s).
Proof.
  intros R. destruct (rreach_inv s R) as [a I]. split; [exists a; exact (v_ev _ _ I)|]. split; [exact (v_lg _ _ I)|exact (v_ct _ _ I)].
Qed.

Theorem reset_complete_trace_accepted s : rreach s -> rfinished n quota s = true -> accept_conc quota n (r_evs s) = true.
Proof.
  intros R F. destruct (rreach_inv s R) as [a I]. unfold accept_conc. rewrite (v_ev _ _ I). unfold a_final.
  unfold rfinished in F. apply andb_prop in F as [F F3]. apply andb_prop in F as [F1 F2].
  destruct (r_queue s) eqn:Eq; [|discriminate]. destruct (r_w s) eqn:Ewi; [|discriminate].
  assert (Hidx : forall t, t < n -> r_idx s t = quota t).
  { intros t Ht. rewrite forallb_forall in F1. apply Nat.eqb_eq. apply F1. apply in_seq. lia. }
  assert (Hc : cur s = None).
  { unfold cur. rewrite Ewi. destruct (r_m s) as [|t0 [|tmp]|pc] eqn:Em; try reflexivity.
    pose proof (v_lt _ _ I t0 _ Em) as Hlt. pose proof (tn t0 _ Hlt) as Hn. rewrite (Hidx t0 Hn) in Hlt. lia. }
  rewrite (v_ai _ _ I), Hc. apply forallb_forall. intros t Hin. apply in_seq in Hin. apply Nat.eqb_eq.
  destruct (v_nx _ _ I t) as (A & B & C). unfold wl in C. rewrite Ewi, Eq in C. cbn in C. apply seq_nil in C.
  rewrite <- (Hidx t) by lia. lia.
Qed.
End Reset.

(* trace-level consequences, in the property's own terms *)
Theorem reset_seq_consecutive prog quota n : reset_ok prog = true -> threads_below n quota ->
  forall sched, let s := rrun prog quota rs0 sched in map e_seq (r_log s) = seq 0 (length (r_log s)).
Proof.
  intros Ok Hn sched s. destruct (rreach_inv prog quota n Ok Hn s (ex_intro _ sched eq_refl)) as [a I].
  pose proof (arun_ainv quota n (r_evs s) [] a0 a (a0_ainv quota n) (v_ev _ _ _ _ _ I)) as AI. cbn [app] in AI.
  rewrite (v_lg _ _ _ _ _ I). rewrite (ConcProofs.v_seq _ _ _ _ AI). f_equal.
  rewrite <- (v_lg _ _ _ _ _ I). exact (v_ac _ _ _ _ _ I).
Qed.
Theorem reset_exactly_once_in_order prog quota n : reset_ok prog = true -> threads_below n quota ->
  forall sched, let s := rrun prog quota rs0 sched in rfinished n quota s = true ->
  forall t, map e_idx (of_thread t (r_log s)) = seq 0 (quota t).
Proof.
  intros Ok Hn sched s F t. pose proof (ex_intro _ sched eq_refl : rreach prog quota s) as R.
  pose proof (reset_complete_trace_accepted prog quota n Ok Hn s R F) as A.
  destruct (reset_trace_accepted_prefix prog quota n Ok Hn s R) as (_ & L & _). rewrite L.
  rewrite (accept_per_thread quota n _ A t). destruct (Nat.ltb_spec t n) as [|Hge]; [reflexivity|rewrite (Hn t Hge); reflexivity].
Qed.
Theorem reset_no_overlap_trace prog quota n : reset_ok prog = true -> threads_below n quota ->
  forall sched, let s := rrun prog quota rs0 sched in rfinished n quota s = true -> r_evs s = paired (r_log s).
Proof.
  intros Ok Hn sched s F. pose proof (ex_intro _ sched eq_refl : rreach prog quota s) as R.
  pose proof (reset_complete_trace_accepted prog quota n Ok Hn s R F) as A.
  destruct (reset_trace_accepted_prefix prog quota n Ok Hn s R) as (_ & L & _). rewrite L.
  exact (accept_alternates quota n _ A).
Qed.
