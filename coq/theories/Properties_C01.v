(* C01 — Pipeline evaluation follows the sequential handler semantics.
   Property theorems only; each is closed by [exact] of a lemma of PipelineProofs.v instantiated at
   [src_cfg], the configuration tools/src2coq.py reads from /repo/src/qtlogger on every run (control
   flow of Pipeline::process, return values of the four adapters, scopedness of pipeline() children).
   [run src_cfg] is the very function that is extracted and run against the real SimplePipeline.

   Reading guide: [run c hs st m = (st', m', ok, evs)]: the handler loop of one pipeline on message m
   with handler-object states st leaves states st', message m' (as the LAST EXECUTED handler left it),
   ok = "no handler rejected", evs = what every executed leaf's function saw/returned, in order
   ([EDeliver o probe content] for recording sinks/probes, [EExec o returned] otherwise). *)
From Coq Require Import List NArith ZArith Bool.
Import ListNotations.
Require Import QtlVerif.PipelineDefs QtlVerif.PipelineProofs QtlVerif.SrcPipeline.

(* the translated source passes the decidable well-formedness check (by computation): null entries are
   skipped, the first rejection breaks the loop, process returns true, the saved formatted text is the
   null string for an unformatted message, both parts are restored under m_scoped, adapters as documented *)
Theorem C01_source_configuration_good : cfg_goodb src_cfg = true.
Proof. vm_compute. reflexivity. Qed.
Print Assumptions C01_source_configuration_good.

(* 1. the complete denotation of nesting: the child's events come first, in order; the parent ALWAYS
   continues with [rest]; a scoped child hands on the message it received (its own fmt and attrs put
   back, text/type never change), an unscoped child hands on what its last executed handler left *)
Theorem C01_nesting_equation : forall sc hs rest st m,
  run src_cfg (HPipe sc hs :: rest) st m =
    let '(st1, m1, _, e1) := run src_cfg hs st m in
    let handed_on := if sc then set_at (set_fmt m1 (fmt m)) (mattrs m) else m1 in
    let '(st2, m2, k2, e2) := run src_cfg rest st1 handed_on in (st2, m2, k2, e1 ++ e2).
Proof. exact (nesting_equation src_cfg C01_source_configuration_good). Qed.
Print Assumptions C01_nesting_equation.

(* 2. a nested pipeline never stops its parent, whatever happens inside *)
Theorem C01_child_never_stops_parent : forall sc hs st m, res_ok (exec src_cfg (HPipe sc hs) st m) = true.
Proof. exact (child_never_stops_parent src_cfg C01_source_configuration_good). Qed.
Print Assumptions C01_child_never_stops_parent.

(* 3. formatted text and attributes set inside a scoped sub-pipeline are invisible once it ends — for every
   entry state, in particular fmt = None (unformatted stays unformatted, not "") and fmt = Some [] *)
Theorem C01_scoped_restores : forall hs st m,
  let m' := res_msg (exec src_cfg (HPipe true hs) st m) in
  fmt m' = fmt m /\ mattrs m' = mattrs m /\ text m' = text m /\ mt m' = mt m.
Proof. exact (scoped_restores src_cfg C01_source_configuration_good). Qed.
Print Assumptions C01_scoped_restores.

Theorem C01_text_and_type_never_change : forall hs st m,
  text (res_msg (run src_cfg hs st m)) = text m /\ mt (res_msg (run src_cfg hs st m)) = mt m.
Proof. exact (text_type_never_change src_cfg C01_source_configuration_good). Qed.
Print Assumptions C01_text_and_type_never_change.

(* 4. a handler that rejects skips the remaining handlers of its own pipeline: nothing after it runs,
   changes a handler state or delivers (and by 1/2 the effect ends at the boundary of that pipeline) *)
Theorem C01_reject_skips_rest : forall h t st m st1 m1 e1,
  exec src_cfg h st m = (st1, m1, false, e1) -> run src_cfg (h :: t) st m = (st1, m1, false, e1).
Proof. exact (reject_skips_rest src_cfg C01_source_configuration_good). Qed.
Print Assumptions C01_reject_skips_rest.

(* 5. scoped siblings are independent: b runs on THE SAME message as a (only handler state is threaded) *)
Theorem C01_siblings_independent : forall a b rest st m,
  run src_cfg (HPipe true a :: HPipe true b :: rest) st m =
    let '(st1, _, _, e1) := run src_cfg a st m in
    let '(st2, _, _, e2) := run src_cfg b st1 m in
    let '(st3, m3, k3, e3) := run src_cfg rest st2 m in (st3, m3, k3, e1 ++ e2 ++ e3).
Proof. exact (siblings_independent src_cfg C01_source_configuration_good). Qed.
Print Assumptions C01_siblings_independent.

(* 6. the executed handlers are exactly the in-order traversal of the tree cut at rejections (inductive
   [Trav]: every leaf reached runs once; after a leaf whose function returned false the rest of ITS list
   is skipped; after a child pipeline the parent's list goes on; null entries are skipped) ... *)
Theorem C01_in_order : forall hs st m, Trav hs (res_events (run src_cfg hs st m)).
Proof. exact (in_order src_cfg C01_source_configuration_good). Qed.
Print Assumptions C01_in_order.
(* ... in particular every leaf of the tree runs exactly once, in insertion order, when nothing rejects *)
Theorem C01_none_skipped_without_rejection : forall hs st m,
  forallb accepts (res_events (run src_cfg hs st m)) = true ->
  map ev_oid (res_events (run src_cfg hs st m)) = leaf_oids hs.
Proof. exact (none_skipped_without_rejection src_cfg C01_source_configuration_good). Qed.
Print Assumptions C01_none_skipped_without_rejection.
(* ... and the boolean acceptor the check evaluates on the implementation's recorded events decides it *)
Theorem C01_trav_b_iff : forall hs evs, trav_b hs evs = true <-> Trav hs evs.
Proof. exact trav_b_iff. Qed.
Print Assumptions C01_trav_b_iff.

(* 7. a sink gets the message as the handlers before it left it: the latest formatted text, or the raw
   message when nothing formatted it (or a handler reset it to the null string) *)
Theorem C01_sink_gets_latest : forall pre o rest st m st1 m1 e1,
  run src_cfg pre st m = (st1, m1, true, e1) ->
  run src_cfg (pre ++ HLeaf o LSink :: rest) st m =
    let '(st2, m2, k2, e2) := run src_cfg rest st1 m1 in
    (st2, m2, k2, e1 ++ EDeliver o false (content_of m1) :: e2).
Proof. exact (sink_gets_latest src_cfg C01_source_configuration_good). Qed.
Print Assumptions C01_sink_gets_latest.
Theorem C01_shown_is_formatted_or_raw : forall m,
  c_text (content_of m) = (if c_formatted (content_of m) then match fmt m with Some f => f | None => [] end else text m)
  /\ (c_formatted (content_of m) = true <-> fmt m <> None).
Proof. exact shown_spec. Qed.
Print Assumptions C01_shown_is_formatted_or_raw.

(* what an unscoped child sets persists: when none of its handlers rejects it is the same as its handlers
   written inline; and with no rejection anywhere ALL unscoped children can be inlined, recursively *)
Theorem C01_unscoped_is_inline : forall hs rest st m,
  res_ok (run src_cfg hs st m) = true ->
  run src_cfg (HPipe false hs :: rest) st m = run src_cfg (hs ++ rest) st m.
Proof. exact (unscoped_is_inline src_cfg C01_source_configuration_good). Qed.
Print Assumptions C01_unscoped_is_inline.
Theorem C01_inline_preserves : forall hs st m,
  all_accept (res_events (run src_cfg hs st m)) = true -> run src_cfg (inline hs) st m = run src_cfg hs st m.
Proof. exact (inline_preserves src_cfg C01_source_configuration_good). Qed.
Print Assumptions C01_inline_preserves.

(* the form the check uses on the implementation (nested tree vs. inlined tree, leading messages without
   a rejection): as long as no handler function returned false the two trees record the same events *)
Theorem C01_seq_inline : forall root ms st,
  all_accept_seq src_cfg root st ms = true ->
  run_seq src_cfg (inline root) st ms = run_seq src_cfg root st ms.
Proof. exact (seq_inline src_cfg C01_source_configuration_good). Qed.
Print Assumptions C01_seq_inline.

(* 8. message sequences: handler state is threaded, every message is evaluated by [run] from the state its
   predecessors left, so every per-message law above holds for every message of every sequence *)
Theorem C01_seq_nth : forall root pre m post st,
  let st_pre := fst (run_seq src_cfg root st pre) in
  nth_error (snd (run_seq src_cfg root st (pre ++ m :: post))) (length pre)
  = Some (res_events (run src_cfg root st_pre m), content_of (res_msg (run src_cfg root st_pre m))).
Proof. exact (run_seq_nth src_cfg). Qed.
Print Assumptions C01_seq_nth.
Theorem C01_seq_lifts : forall root (R : msg -> list event -> content -> Prop),
  (forall st m, R m (res_events (run src_cfg root st m)) (content_of (res_msg (run src_cfg root st m)))) ->
  forall ms st, Forall2 (fun m out => R m (fst out) (snd out)) ms (snd (run_seq src_cfg root st ms)).
Proof. exact (run_seq_lifts src_cfg). Qed.
Print Assumptions C01_seq_lifts.
Theorem C01_seq_in_order : forall root ms st,
  Forall2 (fun m out => Trav root (fst out)) ms (snd (run_seq src_cfg root st ms)).
Proof. exact (seq_in_order src_cfg C01_source_configuration_good). Qed.
Print Assumptions C01_seq_in_order.

(* the boolean oracle the check evaluates on the implementation's events (order law, scoped-restore law
   seen by probes, delivery-content law) holds on every run of the model, also along sequences *)
Theorem C01_oracle_holds : forall hs st m, prop_c01_b hs m (res_events (run src_cfg hs st m)) = true.
Proof. exact (oracle_holds src_cfg C01_source_configuration_good). Qed.
Print Assumptions C01_oracle_holds.
Theorem C01_seq_oracle_holds : forall root ms st,
  Forall2 (fun m out => prop_c01_b root m (fst out) = true) ms (snd (run_seq src_cfg root st ms)).
Proof. exact (seq_oracle_holds src_cfg C01_source_configuration_good). Qed.
Print Assumptions C01_seq_oracle_holds.

(* 9. attribute values are typed (QString, int, bool, double, QByteArray) and the delivered attribute map
   carries exactly the LAST written (type, value) per key: after a setter l - an attribute handler returning
   {k: v} (updateAttributes) or a generic handler calling setAttribute(k, v) - wrote v, and the handlers [mid]
   up to a sink ran without a rejection and without an unscoped write to k (scoped children inside [mid] may
   do anything), the sink's delivery shows k = v, whatever k held before - in particular a value of another
   type that Qt5's loose QVariant::operator== calls equal.  [run] is the loop of ANY pipeline, so this is
   the statement inside scoped and unscoped children as well. *)
Theorem C01_values_compared_strictly : forall a b, val_eqb a b = true <-> a = b.
Proof. exact val_eqb_iff. Qed.
Print Assumptions C01_values_compared_strictly.
Theorem C01_last_write_wins : forall pre o l mid st m st3 m3 e3 k v,
  leaf_sets l k = Some v -> may_write_l k mid = false ->
  run src_cfg (pre ++ HLeaf o l :: mid) st m = (st3, m3, true, e3) ->
  lookup k (mattrs m3) = Some v.
Proof. exact (last_write_wins src_cfg C01_source_configuration_good). Qed.
Print Assumptions C01_last_write_wins.
Theorem C01_sink_sees_last_write : forall pre o l mid o' rest st m st3 m3 e3 k v,
  leaf_sets l k = Some v -> may_write_l k mid = false ->
  run src_cfg (pre ++ HLeaf o l :: mid) st m = (st3, m3, true, e3) ->
  run src_cfg ((pre ++ HLeaf o l :: mid) ++ HLeaf o' LSink :: rest) st m =
    (let '(st4, m4, k4, e4) := run src_cfg rest st3 m3 in
     (st4, m4, k4, e3 ++ EDeliver o' false (content_of m3) :: e4))
  /\ lookup k (c_attrs (content_of m3)) = Some v.
Proof. exact (sink_sees_last_write src_cfg C01_source_configuration_good). Qed.
Print Assumptions C01_sink_sees_last_write.
(* a key no handler can change for its successors (scoped children do not count) is handed on unchanged *)
Theorem C01_untouched_key_kept : forall k hs st m,
  may_write_l k hs = false -> lookup k (mattrs (res_msg (run src_cfg hs st m))) = lookup k (mattrs m).
Proof. exact (untouched_key_kept src_cfg C01_source_configuration_good). Qed.
Print Assumptions C01_untouched_key_kept.

(* 10. structural edits between messages (append / operator<< / fluent call, append(list), remove(object),
   clear(), the typed SortedPipeline calls and clear<Class>() on any pipeline of the tree): every message is
   evaluated by [run] on the tree AS IT IS AT THAT MOMENT - all earlier edits applied, none of the later ones -
   from the handler states its predecessors left; so every per-message law holds along every history *)
Theorem C01_steps_nth : forall root pre m post st,
  let st_pre := fst (fst (run_steps src_cfg root st pre)) in
  let tree := tree_after root pre in
  nth_error (snd (run_steps src_cfg root st (pre ++ SMsg m :: post))) (count_msgs pre)
  = Some {| o_tree := tree; o_msg := m; o_events := res_events (run src_cfg tree st_pre m);
            o_final := content_of (res_msg (run src_cfg tree st_pre m)) |}.
Proof. exact (run_steps_nth src_cfg). Qed.
Print Assumptions C01_steps_nth.
Theorem C01_steps_tree : forall steps root st, snd (fst (run_steps src_cfg root st steps)) = tree_after root steps.
Proof. exact (steps_tree src_cfg). Qed.
Print Assumptions C01_steps_tree.
Theorem C01_steps_without_edits : forall root ms st,
  fst (fst (run_steps src_cfg root st (map SMsg ms))) = fst (run_seq src_cfg root st ms)
  /\ snd (fst (run_steps src_cfg root st (map SMsg ms))) = root
  /\ map (fun o => (o_events o, o_final o)) (snd (run_steps src_cfg root st (map SMsg ms))) = snd (run_seq src_cfg root st ms).
Proof. exact (run_steps_msgs src_cfg). Qed.
Print Assumptions C01_steps_without_edits.
Theorem C01_steps_lifts : forall (R : list handler -> msg -> list event -> content -> Prop),
  (forall tree st m, R tree m (res_events (run src_cfg tree st m)) (content_of (res_msg (run src_cfg tree st m)))) ->
  forall steps root st,
    Forall (fun o => R (o_tree o) (o_msg o) (o_events o) (o_final o)) (snd (run_steps src_cfg root st steps)).
Proof. exact (run_steps_lifts src_cfg). Qed.
Print Assumptions C01_steps_lifts.
Theorem C01_steps_in_order : forall steps root st,
  Forall (fun o => Trav (o_tree o) (o_events o)) (snd (run_steps src_cfg root st steps)).
Proof. exact (steps_in_order src_cfg C01_source_configuration_good). Qed.
Print Assumptions C01_steps_in_order.
Theorem C01_steps_oracle_holds : forall steps root st,
  Forall (fun o => prop_c01_b (o_tree o) (o_msg o) (o_events o) = true) (snd (run_steps src_cfg root st steps)).
Proof. exact (steps_oracle_holds src_cfg C01_source_configuration_good). Qed.
Print Assumptions C01_steps_oracle_holds.
Theorem C01_steps_which_zero : forall steps root st,
  which_steps root steps (map o_events (snd (run_steps src_cfg root st steps))) = repeat 0 (count_msgs steps).
Proof. exact (steps_which_zero src_cfg C01_source_configuration_good). Qed.
Print Assumptions C01_steps_which_zero.
(* what the edits do to the addressed list, and that they touch nothing else *)
Theorem C01_append_runs_last : forall h l st m,
  h <> HNull ->
  run src_cfg (apply_op (OAppend h) l) st m =
    let '(st1, m1, k, e1) := run src_cfg l st m in
    if k then let '(st2, m2, k2, e2) := run src_cfg [h] st1 m1 in (st2, m2, k2, e1 ++ e2)
    else (st1, m1, false, e1).
Proof. exact (append_runs_last src_cfg C01_source_configuration_good). Qed.
Print Assumptions C01_append_runs_last.
Theorem C01_remove_spec : forall o l h, In h (apply_op (ORemove o) l) <-> In h l /\ has_oid o h = false.
Proof. exact op_remove_spec. Qed.
Print Assumptions C01_remove_spec.
Theorem C01_clear_class_spec : forall k l h, In h (apply_op (OClearClass k) l) <-> In h l /\ in_cls [k] h = false.
Proof. exact op_clear_class_spec. Qed.
Print Assumptions C01_clear_class_spec.
Theorem C01_typed_call_inserts_one : forall h l,
  class_of h <> None ->
  exists a b, (match class_of h with Some CFmt => clear_class CFmt l | _ => l end) = a ++ b
              /\ apply_op (OSorted h) l = a ++ h :: b.
Proof. exact op_sorted_inserts_one. Qed.
Print Assumptions C01_typed_call_inserts_one.
Theorem C01_edit_reaches_child : forall i p f hs sc c,
  nth_error hs i = Some (HPipe sc c) -> nth_error (edit_at (i :: p) f hs) i = Some (HPipe sc (edit_at p f c)).
Proof. exact edit_at_child. Qed.
Print Assumptions C01_edit_reaches_child.
Theorem C01_edit_touches_nothing_else : forall i p f hs j,
  j <> i -> nth_error (edit_at (i :: p) f hs) j = nth_error hs j.
Proof. exact edit_at_elsewhere. Qed.
Print Assumptions C01_edit_touches_nothing_else.

(* ---- non-vacuity: a depth-3 tree mixing all constructors, a formatter before a scoped child, a rejecting
   filter (11) inside it, a shared SeqNumberAttr object (4) at two places, a null entry.
   Per event: (object, returned / delivered, text shown to a sink or probe). *)
Example C01_nonvacuous :
  let tree :=
    [ HLeaf 1 (LAttrSet [97%N] (VStr [120%N])); HNull; HLeaf 2 (LFmtTag [116%N]);
      HPipe true [ HLeaf 3 LProbe; HLeaf 4 (LSeq [110%N]);
                   HPipe false [ HLeaf 5 (LGenFmt [103%N] true); HLeaf 6 LFmtNull; HLeaf 7 (LAttrCopy [98%N]);
                                 HPipe true [ HLeaf 8 LFmtEmpty; HLeaf 9 (LGenRemove [97%N] true); HLeaf 10 LSink ] ];
                   HLeaf 11 (LFilter (PHas [122%N])); HLeaf 12 LSink ];
      HLeaf 13 LProbe;
      HPipe true [ HLeaf 14 (LLevel Warning); HLeaf 4 (LSeq [110%N]); HLeaf 15 LDup;
                   HLeaf 16 (LFmtAttr [109%N] [110%N]); HLeaf 17 LSink ];
      HLeaf 18 (LGenClear false); HLeaf 19 LSink ] in
  let m := {| mt := Critical; text := [104%N; 105%N]; fmt := None; mattrs := [] |} in
  map (fun o => map (fun e => match e with EExec o r => (o, r, []) | EDeliver o _ c => (o, true, c_text c) end) (fst o))
      (snd (run_seq src_cfg tree [] [m; m]))
  = [ [ (1, true, []); (2, true, []); (3, true, [116; 58; 104; 105]%N); (4, true, []); (5, true, []); (6, true, []);
        (7, true, []); (8, true, []); (9, true, []); (10, true, []); (11, false, []);
        (13, true, [116; 58; 104; 105]%N); (14, true, []); (4, true, []); (15, true, []); (16, true, []);
        (17, true, [109; 91; 35; 93]%N); (18, false, []) ];
      [ (1, true, []); (2, true, []); (3, true, [116; 58; 104; 105]%N); (4, true, []); (5, true, []); (6, true, []);
        (7, true, []); (8, true, []); (9, true, []); (10, true, []); (11, false, []);
        (13, true, [116; 58; 104; 105]%N); (14, true, []); (4, true, []); (15, false, []); (18, false, []) ] ].
Proof. vm_compute. reflexivity. Qed.

(* the restore also puts back "unformatted" (None) and "formatted with the empty string" (Some []) *)
Example C01_restore_unformatted_and_empty :
  let child := HPipe true [HLeaf 1 (LFmtTag [116%N]); HLeaf 2 (LGenSet [97%N] (VStr [98%N]) true)] in
  fmt (res_msg (exec src_cfg child [] {| mt := Info; text := [104%N]; fmt := None; mattrs := [] |})) = None
  /\ fmt (res_msg (exec src_cfg child [] {| mt := Info; text := [104%N]; fmt := Some []; mattrs := [] |})) = Some []
  /\ mattrs (res_msg (exec src_cfg child [] {| mt := Info; text := [104%N]; fmt := Some [120%N]; mattrs := [] |})) = []
  /\ fmt (res_msg (exec src_cfg (HPipe false [HLeaf 1 (LFmtTag [116%N])]) []
                        {| mt := Info; text := [104%N]; fmt := None; mattrs := [] |})) = Some [116; 58; 104]%N.
Proof. vm_compute. repeat split. Qed.

(* typed overwrites: int 1, then the string "1" through setAttribute in an unscoped child, then bool true
   through an attribute handler inside a scoped child: each sink sees the last written type, and after the
   scoped child the string is back *)
Example C01_typed_last_write :
  let k := [99%N] in
  let tree :=
    [ HLeaf 1 (LGenSet k (VInt 1) true); HLeaf 2 LSink;
      HPipe false [ HLeaf 3 (LGenSet k (VStr [49%N]) true) ]; HLeaf 4 LSink;
      HPipe true [ HLeaf 5 (LAttrSet k (VBool true)); HLeaf 6 LSink;
                   HLeaf 7 (LAttrSetMany [(k, VDbl 2); (k, VBytes [49%N])]); HLeaf 8 LSink ];
      HLeaf 9 LSink ] in
  let m := {| mt := Info; text := [104%N]; fmt := None; mattrs := [] |} in
  map (fun e => match e with EDeliver o _ c => (o, lookup k (c_attrs c)) | EExec o _ => (o, None) end)
      (res_events (run src_cfg tree [] m))
  = [ (1, None); (2, Some (VInt 1)); (3, None); (4, Some (VStr [49%N])); (5, None); (6, Some (VBool true));
      (7, None); (8, Some (VBytes [49%N])); (9, Some (VStr [49%N])) ]
  /\ val_eqb (VInt 1) (VStr [49%N]) = false /\ val_eqb (VInt 1) (VBool true) = false
  /\ val_eqb (VInt 1) (VDbl 2) = false /\ val_eqb (VStr [49%N]) (VBytes [49%N]) = false.
Proof. vm_compute. repeat split. Qed.

(* a history: configure, one message, then a filter put in through the typed call, the formatter replaced, a
   sink appended inside the child, the first sink removed; later messages see the tree of their moment *)
Example C01_history_with_edits :
  let root := [ HLeaf 1 (LFilter PTrue); HLeaf 2 (LFmtTag [65%N]); HLeaf 3 LSink; HPipe true [ HLeaf 4 LProbe ] ] in
  let m t := {| mt := t; text := [109%N]; fmt := None; mattrs := [] |} in
  let steps :=
    [ SMsg (m Debug);
      SEdit {| e_path := []; e_op := OClearClass CFilter |};
      SEdit {| e_path := []; e_op := OSorted (HLeaf 5 (LLevel Warning)) |};
      SEdit {| e_path := []; e_op := OSorted (HLeaf 6 (LFmtTag [66%N])) |};
      SEdit {| e_path := [3]; e_op := OAppend (HLeaf 7 LSink) |};
      SMsg (m Debug); SMsg (m Warning);
      SEdit {| e_path := []; e_op := ORemove 3 |};
      SMsg (m Critical) ] in
  tree_after root steps
  = [ HLeaf 5 (LLevel Warning); HLeaf 6 (LFmtTag [66%N]); HPipe true [ HLeaf 4 LProbe; HLeaf 7 LSink ] ]
  /\ map (fun o => map ev_oid (o_events o)) (snd (run_steps src_cfg root [] steps))
     = [ [1; 2; 3; 4]; [5]; [5; 6; 3; 4; 7]; [5; 6; 4; 7] ].
Proof. vm_compute. split; reflexivity. Qed.

(* 14. children that enter the tree as COPIES of a built pipeline object (copy constructor, the by-value helper
   operator<<(Logger *, const Pipeline &), copy assignment): how a pipeline object was made is no part of the tree.
   The scenario language tags such children; the model evaluates [forget_l] of the scenario, so a scenario with copies
   denotes what the same scenario with plainly made children ([refresh]) denotes - for one message and for every
   history of messages and edits - and a scoped COPY restores like any scoped child, an unscoped one is inline *)
Theorem C01_copy_behaves_as_original : forall bs st m,
  run src_cfg (forget_l bs) st m = run src_cfg (forget_l (map refresh bs)) st m.
Proof. exact (copy_is_original src_cfg). Qed.
Print Assumptions C01_copy_behaves_as_original.

Theorem C01_copy_behaves_as_original_history : forall bs st steps,
  run_steps src_cfg (forget_l bs) st steps = run_steps src_cfg (forget_l (map refresh bs)) st steps.
Proof. exact (copy_is_original_steps src_cfg). Qed.
Print Assumptions C01_copy_behaves_as_original_history.

Theorem C01_scoped_copy_restores : forall how hs st m,
  let m' := res_msg (exec src_cfg (forget (BPipe how true hs)) st m) in
  fmt m' = fmt m /\ mattrs m' = mattrs m /\ text m' = text m /\ mt m' = mt m.
Proof. exact (fun how hs => scoped_restores src_cfg C01_source_configuration_good (map forget hs)). Qed.
Print Assumptions C01_scoped_copy_restores.

Theorem C01_copied_child_nesting : forall how sc hs rest st m,
  run src_cfg (forget_l (BPipe how sc hs :: rest)) st m =
    let '(st1, m1, _, e1) := run src_cfg (forget_l hs) st m in
    let handed_on := if sc then set_at (set_fmt m1 (fmt m)) (mattrs m) else m1 in
    let '(st2, m2, k2, e2) := run src_cfg (forget_l rest) st1 handed_on in (st2, m2, k2, e1 ++ e2).
Proof. exact (fun how sc hs rest => nesting_equation src_cfg C01_source_configuration_good sc (forget_l hs) (forget_l rest)). Qed.
Print Assumptions C01_copied_child_nesting.

(* non-vacuity: a scoped child made through the by-value helper, holding a formatter, an attribute handler and a sink,
   followed by an outer sink (the shape of the library's `&logger << pipeline` idiom): the outer sink gets the raw,
   unformatted message without the attribute; the scenario does contain copies *)
Example C01_scoped_copy_hides_its_effects :
  let k := [97%N] in
  let sc := [ BPipe BCopyHelper true [ BLeaf 1 (LFmtTag [84%N]); BLeaf 2 (LAttrSet k (VInt 1)); BLeaf 3 LSink ];
              BPipe BCopyAssign false [ BLeaf 4 (LAttrSet k (VInt 2)) ]; BLeaf 5 LSink ] in
  let m := {| mt := Info; text := [104%N]; fmt := None; mattrs := [] |} in
  fold_right (fun x n => copies x + n) 0 sc = 2
  /\ map (fun e => match e with EDeliver o _ c => (o, c_formatted c, lookup k (c_attrs c)) | EExec o _ => (o, false, None) end)
         (res_events (run src_cfg (forget_l sc) [] m))
     = [ (1, false, None); (2, false, None); (3, true, Some (VInt 1)); (4, false, None); (5, false, Some (VInt 2)) ].
Proof. vm_compute. split; reflexivity. Qed.
