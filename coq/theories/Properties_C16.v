(* C16 — Built-in filters and counters follow their decision rules on every sequence.
   Property theorems only; each is closed by [exact] of a lemma of FiltersProofs.v / RegexProofs.v,
   instantiated at [src_cfg], the rule configuration tools/s2c/filters.py reads from
   levelfilter.h, duplicatefilter.{h,cpp}, regexpfilter.cpp and seqnumberattr.{h,cpp} on every run.
   [all_calls src_cfg sc] is the list of handler calls, in the order they happen, when the messages
   of scenario [sc] go through its pipelines (objects may sit in several pipelines and several times
   in one) and other users call attributes()/filter() of the same objects directly in between; [calls_of o] selects the calls of handler object number [o]. *)
From Coq Require Import List NArith ZArith Bool Arith.
Import ListNotations.
Require Import QtlVerif.RegexDefs QtlVerif.RegexProofs QtlVerif.FiltersDefs QtlVerif.FiltersProofs QtlVerif.SrcFilters.

(* the translated source passes the decidable check (closed computation: 25 level pairs + 8 flags) *)
Theorem C16_source_configuration_good : cfg_goodb src_cfg = true.
Proof. vm_compute. reflexivity. Qed.
Print Assumptions C16_source_configuration_good.
Definition good := cfg_goodb_good src_cfg C16_source_configuration_good.

(* ---- level filter: all thresholds x all types, under debug < info < warning < critical < fatal ---- *)
Theorem C16_level_iff : forall min t, level_pass src_cfg min t = true <-> severity min <= severity t.
Proof. exact (level_iff src_cfg good). Qed.
Print Assumptions C16_level_iff.
(* ... also for every LevelFilter object inside any scenario *)
Theorem C16_level_calls : forall sc o min e,
  nth_error (objs sc) o = Some (HLevel min) -> In e (calls_of o (all_calls src_cfg sc)) ->
  (ev_ok e = true <-> severity min <= severity (mt (ev_in e))).
Proof. exact (level_calls src_cfg good). Qed.
Print Assumptions C16_level_calls.

(* ---- duplicate filter ---- *)
(* one object, every message reaches it: drops iff the text equals the previous text, initially "" *)
Theorem C16_dup_drops_iff_equal_to_previous : forall ms,
  dup_run src_cfg (dup_init src_cfg) ms = prev_neq [] (map text ms).
Proof. exact (fun ms => eq_trans (dup_drops_iff_equal_to_previous src_cfg good ms (dup_init src_cfg))
                                 (f_equal (fun l => prev_neq l (map text ms)) (g_dup_init _ good))). Qed.
Print Assumptions C16_dup_drops_iff_equal_to_previous.
Theorem C16_dup_collapses_runs : forall ms,
  select (dup_run src_cfg (dup_init src_cfg) ms) (map text ms) = collapse [] (map text ms).
Proof. exact (dup_collapses_runs src_cfg good). Qed.
Print Assumptions C16_dup_collapses_runs.
(* "collapse" leaves no two adjacent equal texts and changes nothing else *)
Theorem C16_collapse_meaning : forall ts,
  no_adjacent_eq [] (collapse [] ts) /\ (no_adjacent_eq [] ts -> collapse [] ts = ts).
Proof. exact (fun ts => conj (collapse_no_adjacent ts []) (collapse_fixed ts [])). Qed.
Print Assumptions C16_collapse_meaning.
(* full strength: an object shared between pipelines, with other handlers dropping messages before
   and after it — its verdicts are "differs from the text of the message THIS object saw immediately
   before", over exactly the messages that reached it *)
Theorem C16_shared_dup_drops_iff_equal_to_previous : forall sc o,
  nth_error (objs sc) o = Some HDup ->
  let calls := calls_of o (all_calls src_cfg sc) in
  map ev_ok calls = prev_neq [] (map (fun e => text (ev_in e)) calls).
Proof. exact (shared_dup_drops_iff_equal_to_previous src_cfg good). Qed.
Print Assumptions C16_shared_dup_drops_iff_equal_to_previous.
Theorem C16_shared_dup_collapses_runs : forall sc o,
  nth_error (objs sc) o = Some HDup ->
  let calls := calls_of o (all_calls src_cfg sc) in
  let seen := map (fun e => text (ev_in e)) calls in
  select (map ev_ok calls) seen = collapse [] seen.
Proof. exact (shared_dup_collapses_runs src_cfg good). Qed.
Print Assumptions C16_shared_dup_collapses_runs.

(* ---- sequence numbers ---- *)
Theorem C16_seq_consecutive : forall n, seq_run src_cfg (seq_init src_cfg) n = map Z.of_nat (seq 0 n).
Proof. exact (seq_from_zero src_cfg good). Qed.
Print Assumptions C16_seq_consecutive.
(* full strength: the k-th message an object sees gets number k (first = 0, each exactly previous
   + 1, no gap, no repeat), the object never drops — whatever the pipelines, however many of them
   share the object, whatever later handlers decide *)
Theorem C16_shared_seq_consecutive : forall sc o,
  nth_error (objs sc) o = Some HSeq ->
  let calls := calls_of o (all_calls src_cfg sc) in
  map (fun e => get_attr o (attrs (ev_out e))) calls = map (fun k => Some (Z.of_nat k)) (seq 0 (length calls))
  /\ Forall (fun e => ev_ok e = true) calls.
Proof. exact (shared_seq_consecutive src_cfg good). Qed.
Print Assumptions C16_shared_seq_consecutive.
(* the bound: up to 2^31 messages per object every number is a non-negative C++ int *)
Theorem C16_shared_seq_in_int_range : forall sc o,
  nth_error (objs sc) o = Some HSeq ->
  let calls := calls_of o (all_calls src_cfg sc) in
  (Z.of_nat (length calls) <= int_max + 1)%Z ->
  forall k e, nth_error calls k = Some e ->
  get_attr o (attrs (ev_out e)) = Some (Z.of_nat k) /\ (0 <= Z.of_nat k <= int_max)%Z.
Proof. exact (shared_seq_in_int_range src_cfg good). Qed.
Print Assumptions C16_shared_seq_in_int_range.

(* ---- regular-expression filter ---- *)
(* the verdict depends on the message text only and is the search verdict of the matcher ... *)
Theorem C16_regex_calls : forall sc o r e,
  nth_error (objs sc) o = Some (HRegex r) -> In e (calls_of o (all_calls src_cfg sc)) ->
  ev_ok e = regex_search16 r (text (ev_in e)).
Proof. exact (regex_calls src_cfg good). Qed.
Print Assumptions C16_regex_calls.
(* ... which is: the text is well-formed UTF-16 and the expression matches some factor of it
   (Match = inductive matching relation of the subset; derivative matcher proved equal to it) *)
Theorem C16_regex_pass_iff_matches_somewhere : forall r text,
  regex_search16 r text = true <->
  exists cps, decode16 text = Some cps /\ exists p w post, cps = p ++ w ++ post /\ Match r p w post.
Proof. exact regex_search16_correct. Qed.
Print Assumptions C16_regex_pass_iff_matches_somewhere.
Theorem C16_derivative_matcher_correct : forall r pre c w post,
  Match r pre (c :: w) post <-> Match (der (isnil pre) (dollar (c :: w ++ post)) c r) (pre ++ [c]) w post.
Proof. exact der_correct. Qed.
Print Assumptions C16_derivative_matcher_correct.
(* the three literal shapes of the fall-back menu, as corollaries *)
Theorem C16_literal_is_substring : forall s text,
  search (lit_seq s) text = true <-> exists p post, text = p ++ s ++ post.
Proof. exact search_literal_is_substring. Qed.
Print Assumptions C16_literal_is_substring.
Theorem C16_anchored_literal_is_prefix : forall s text,
  search (Cat Bol (lit_seq s)) text = true <-> exists post, text = s ++ post.
Proof. exact search_anchored_literal_is_prefix. Qed.
Print Assumptions C16_anchored_literal_is_prefix.
Theorem C16_literal_dollar_is_suffix : forall s text,
  search (Cat (lit_seq s) Eol) text = true <-> exists p, text = p ++ s \/ text = p ++ s ++ [10%N].
Proof. exact search_literal_dollar_is_suffix. Qed.
Print Assumptions C16_literal_dollar_is_suffix.

(* ---- messages are not altered on the way (the texts the objects see are the texts sent) ---- *)
Theorem C16_handlers_see_the_sent_message : forall ob pl st m,
  Forall (fun e => same_input m (ev_in e)) (snd (run_handlers src_cfg ob st pl m)).
Proof. exact (run_handlers_inputs src_cfg). Qed.
Print Assumptions C16_handlers_see_the_sent_message.

(* ---- the boolean oracle evaluated on the implementation's observations accepts the model ---- *)
Theorem C16_oracle_holds : forall sc, prop_c16_b sc (observe src_cfg sc) = true.
Proof. exact (oracle_holds src_cfg good). Qed.
Print Assumptions C16_oracle_holds.

(* ... and nothing else: it accepts exactly the observations of the model under the reference
   configuration [ref_cfg] (the rules written down independently of the source), so a verdict
   "accepted" on the implementation's observations means they ARE the specified ones, and the
   translated source behaves as the reference on every scenario *)
Theorem C16_reference_configuration_good : cfg_goodb ref_cfg = true.
Proof. vm_compute. reflexivity. Qed.
Print Assumptions C16_reference_configuration_good.
Theorem C16_oracle_exact : forall sc oss, prop_c16_b sc oss = true <-> oss = observe ref_cfg sc.
Proof. exact (oracle_exact ref_cfg (cfg_goodb_good _ C16_reference_configuration_good)). Qed.
Print Assumptions C16_oracle_exact.
Theorem C16_source_behaves_as_reference : forall sc, observe src_cfg sc = observe ref_cfg sc.
Proof. exact (fun sc => proj1 (C16_oracle_exact sc _) (C16_oracle_holds sc)). Qed.
Print Assumptions C16_source_behaves_as_reference.

(* ---- non-vacuity ---- *)
Definition m_ (t : mtype) (s : list N) (fl : N) := fresh t s fl.
Definition a_ : list N := [97%N].
Definition A_ : list N := [65%N].
(* objects: 0 SeqNumberAttr, 1 DuplicateFilter, 2 drop-if-bit-0, 3 LevelFilter(warning), 4 formatter;
   pipelines: [seq; drop; fmt; dup] and [dup; seq; level] share the counter and the duplicate filter *)
Definition sc_ex : scenario :=
  {| objs := [HSeq; HDup; HDrop 0; HLevel Warning; HFmtTag];
     pipes := [[0; 2; 4; 1]; [1; 0; 3]];
     feed := [Send 0 (m_ Info a_ 0%N); Send 1 (m_ Info a_ 0%N); Send 0 (m_ Debug a_ 1%N); Send 1 (m_ Fatal [] 0%N);
              Send 1 (m_ Debug [] 0%N); Send 0 (m_ Warning A_ 2%N); Direct 0 (m_ Debug a_ 0%N);
              Send 1 (m_ Critical a_ 0%N)] |}.
Example C16_nonvacuous_shared :
  observe src_cfg sc_ex
  = [[(true, Some 0); (true, None); (true, None); (true, None)];   (* "a": number 0, passes *)
     [(false, None)];                                              (* "a" again, other pipeline: dropped at once *)
     [(true, Some 1); (false, None)];                              (* scripted drop: numbered 1, never reaches dup *)
     [(true, None); (true, Some 2); (true, None)];                 (* "" differs from "a": passes, fatal >= warning *)
     [(false, None)];                                              (* "" again: dropped *)
     [(true, Some 3); (true, None); (true, None); (true, None)];   (* "A" is not "" *)
     [(true, Some 4)];                                             (* attributes() called directly on the counter *)
     [(true, None); (true, Some 5); (true, None)]]%Z.              (* "a" is not "A" (case matters) *)
Proof. vm_compute. reflexivity. Qed.
Example C16_nonvacuous_initially_empty :
  dup_run src_cfg (dup_init src_cfg) [m_ Debug [] 0%N; m_ Debug a_ 0%N; m_ Debug a_ 0%N; m_ Debug [] 0%N]
  = [false; true; false; true].
Proof. vm_compute. reflexivity. Qed.
(* a(b|c)*d$ finds "acbd" inside "xacbd\n"; the same expression does not match the whole text *)
Definition re_ex : re :=
  Cat (Chr (CLit 97)) (Cat (Star (Alt (Chr (CLit 98)) (Chr (CLit 99)))) (Cat (Chr (CLit 100)) Eol))%N.
Example C16_nonvacuous_regex :
  search re_ex [120; 97; 99; 98; 100; 10]%N = true /\ whole re_ex true [120; 97; 99; 98; 100; 10]%N = false
  /\ search re_ex [97; 100; 10; 10]%N = false
  /\ regex_search16 (Chr CDot) [55357; 56832]%N = true /\ regex_search16 (Chr CDot) [55357]%N = false.
Proof. vm_compute. repeat split; reflexivity. Qed.
