(* C11 — executable model of "what is in the log files when qFatal aborts the process".
   Definitions only: this file must keep compiling (and extracting) when a proof elsewhere breaks.

   Modelled code: Logger::processMessage (logger.cpp), Pipeline::process (the handler loop stops at
   the first handler that returns false: a filter that rejects the message; a nested pipeline never
   stops its parent), SimplePipeline::flush / recursiveFlush (simplepipeline.cpp), Sink::process,
   IODeviceSink::send (one QIODevice::write per record), FileSink::flush (filesink.cpp),
   RotatingFileSink::send (size() before the write when a size limit is set; QFileDevice::size()
   flushes), QFileDevice's write buffer (an arbitrary flush policy in the theorems, Qt 5.15's 16 KiB
   policy as the instance the check runs), a file sink on a device that accepts no data (/dev/full:
   its flush fails), abort() = only what has been handed to the kernel survives.
   The logger is the SYNCHRONOUS one (own thread not running), as in the property text; the flush structure
   is read from the source twice: default build and -DQTLOGGER_NO_THREAD (SrcFatal.v).
   Histories may contain explicit flush() calls and reconfigurations of the logger between two messages
   (second half of this file: [event], [run_events], and the unbuffered specification [spec_run]).

   What the property demands of a sink behind filters: the file holds every record that REACHED the
   sink (passed every filter in front of it) before the fatal message, and the fatal record itself
   iff it reaches the sink. *)
From Coq Require Import List NArith Bool.
Import ListNotations.
Local Open Scope N_scope.

(* QtMsgType *)
Inductive mtype := Debug | Warning | Critical | Fatal | Info.
Definition mtype_eqb (a b : mtype) : bool :=
  match a, b with
  | Debug, Debug | Warning, Warning | Critical, Critical | Fatal, Fatal | Info, Info => true
  | _, _ => false
  end.
Definition mem_type (t : mtype) (l : list mtype) : bool := existsb (mtype_eqb t) l.

(* one record = formatted message + newline, written by a single QIODevice::write *)
Record rec := { rid : N; rlen : N }.
Definition msg := (mtype * rec)%type.
(* a (stateless) filter: accepts or rejects a message *)
Definition flt := msg -> bool.
Definition pass (G : list flt) (m : msg) : bool := forallb (fun f => f m) G.

(* a file sink: what the kernel has (survives abort), what sits in QFile's write buffer *)
Record sink := { sid : N;            (* identity (position in the configuration) *)
                 presize : bool;     (* RotatingFileSink with a size limit: size() before each write *)
                 broken : bool;      (* the device takes no data (ENOSPC): every flush fails *)
                 disk : list rec;
                 buf : list rec }.
Definition content (s : sink) : list rec := disk s ++ buf s.
(* QFileDevice::flush *)
Definition qflush (s : sink) : sink :=
  if broken s then s
  else {| sid := sid s; presize := presize s; broken := broken s; disk := disk s ++ buf s; buf := [] |}.
Definition qappend (s : sink) (r : rec) : sink :=
  {| sid := sid s; presize := presize s; broken := broken s; disk := disk s; buf := buf s ++ [r] |}.
(* the buffering policy: looking at the sink and the record, flush before appending? after? *)
Definition policy := sink -> rec -> bool * bool.
(* transient device faults: does the device of sink number i reject the write of record r?  A rejected
   record is lost (QIODevice::write returns -1); nothing else happens to the sink. *)
Definition reject := N -> rec -> bool.

(* what tools/s2c/fatal.py reads from the source *)
Inductive fpos := FNone | FBefore | FAfter.         (* flush() relative to process(lmsg) *)
Inductive fcond := CAlways | CSyncOnly | CAsyncOnly. (* guard on ownThreadIsRunning() *)
Record fatal_cfg := {
  ff_pos : fpos;                (* Logger::processMessage: where it flushes *)
  ff_types : list mtype;        (* ... for which message types *)
  ff_cond : fcond;              (* ... under which thread condition *)
  rf_flush_sinks : bool;        (* recursiveFlush calls flush() on every Sink it meets *)
  rf_descends : bool;           (* recursiveFlush recurses into nested Pipelines *)
  fs_flush_real : bool;         (* FileSink::flush() is QFile::flush() *)
  rot_presize : bool;           (* RotatingFileSink::send asks size() before FileSink::send when limited *)
  snk_flush_types : list mtype  (* IODeviceSink::send itself flushes after writing a message of these types *)
}.
(* the synchronous logger: ownThreadIsRunning() = false *)
Definition cond_holds_sync (c : fcond) : bool :=
  match c with CAlways | CSyncOnly => true | CAsyncOnly => false end.

(* Sink::flush() as dispatched to FileSink::flush *)
Definition sink_flush (cfg : fatal_cfg) (s : sink) : sink :=
  if fs_flush_real cfg then qflush s else s.
(* IODeviceSink::send on a (Rotating)FileSink *)
Definition write (cfg : fatal_cfg) (pol : policy) (rej : reject) (s : sink) (m : msg) : sink :=
  let r := snd m in
  if rej (sid s) r then s else
  let s1 := if rot_presize cfg && presize s then qflush s else s in
  let (pre, post) := pol s1 r in
  let s2 := if pre then qflush s1 else s1 in
  let s3 := qappend s2 r in
  let s4 := if post then qflush s3 else s3 in
  if mem_type (fst m) (snk_flush_types cfg) then sink_flush cfg s4 else s4.

(* the handler tree: file sinks, nested pipelines, filters, anything else that lets the message
   pass (formatters, attribute handlers, non-file sinks) *)
Inductive tree := TSink (s : sink) | TPipe (l : list tree) | TFilter (f : flt) | TOther
                | TNull.   (* a null HandlerPtr entry (append(initializer_list), Pipeline({..})): skipped by process and by flush *)
(* Pipeline::process: is the loop still running after this handler? *)
Definition lnext (m : msg) (live : bool) (t : tree) : bool :=
  match t with TFilter f => live && f m | _ => live end.
Fixpoint twrite (cfg : fatal_cfg) (pol : policy) (rej : reject) (m : msg) (live : bool) (t : tree) : tree :=
  match t with
  | TSink s => TSink (if live then write cfg pol rej s m else s)
  | TPipe l => TPipe ((fix lw (l : list tree) (lv : bool) : list tree :=
                         match l with
                         | [] => []
                         | x :: r => twrite cfg pol rej m lv x :: lw r (lnext m lv x)
                         end) l live)
  | _ => t
  end.
(* recursiveFlush applied to one handler *)
Fixpoint tflush (cfg : fatal_cfg) (t : tree) : tree :=
  match t with
  | TSink s => if rf_flush_sinks cfg then TSink (sink_flush cfg s) else t
  | TPipe l => if rf_descends cfg then TPipe (map (tflush cfg) l) else t
  | _ => t
  end.
(* the logger itself is a pipeline: TPipe handlers; SimplePipeline::flush() = recursiveFlush(this) *)
Definition root_flush (cfg : fatal_cfg) (t : tree) : tree :=
  match t with TPipe l => TPipe (map (tflush cfg) l) | _ => tflush cfg t end.

(* Logger::processMessage for one message *)
Definition flushes (cfg : fatal_cfg) (ty : mtype) : bool :=
  mem_type ty (ff_types cfg) && cond_holds_sync (ff_cond cfg).
Definition process_message (cfg : fatal_cfg) (pol : policy) (rej : reject) (t : tree) (m : msg) : tree :=
  match ff_pos cfg with
  | FNone => twrite cfg pol rej m true t
  | FBefore => twrite cfg pol rej m true (if flushes cfg (fst m) then root_flush cfg t else t)
  | FAfter => let t1 := twrite cfg pol rej m true t in if flushes cfg (fst m) then root_flush cfg t1 else t1
  end.
Definition log_all cfg pol rej (t : tree) (msgs : list msg) : tree :=
  fold_left (process_message cfg pol rej) msgs t.
(* msgs, then qFatal(r); Qt calls abort() when the handler returns *)
Definition run_fatal cfg pol rej (t : tree) (msgs : list msg) (r : rec) : tree :=
  process_message cfg pol rej (log_all cfg pol rej t msgs) (Fatal, r).

(* ---- the file sinks of a configuration, each with the filters in front of it ---- *)
Definition gnext (pre : list flt) (t : tree) : list flt :=
  match t with TFilter f => pre ++ [f] | _ => pre end.
Fixpoint gs (pre : list flt) (t : tree) : list (sink * list flt) :=
  match t with
  | TSink s => [(s, pre)]
  | TPipe l => (fix go (l : list tree) (cur : list flt) : list (sink * list flt) :=
                  match l with
                  | [] => []
                  | x :: r => gs cur x ++ go r (gnext cur x)
                  end) l pre
  | _ => []
  end.
Definition gsinks (t : tree) : list (sink * list flt) := gs [] t.
(* abort()/SIGKILL: per file sink, what the file holds (None: the device keeps nothing) *)
Definition survivors (t : tree) : list (option (list rec)) :=
  map (fun sg => if broken (fst sg) then None else Some (disk (fst sg))) (gsinks t).
(* THE SPECIFICATION: previous content + every record that passed the filters in front of the sink and
   was written while its device accepted writes *)
Definition reaches (rej : reject) (sg : sink * list flt) (m : msg) : bool :=
  pass (snd sg) m && negb (rej (sid (fst sg)) (snd m)).
Definition expected (rej : reject) (t : tree) (msgs : list msg) : list (option (list rec)) :=
  map (fun sg => if broken (fst sg) then None
                 else Some (content (fst sg) ++ map snd (filter (reaches rej sg) msgs))) (gsinks t).
Definition no_faults : reject := fun _ _ => false.

Definition cfg_goodb (cfg : fatal_cfg) : bool :=
  match ff_pos cfg with FAfter => true | _ => false end
  && mem_type Fatal (ff_types cfg) && cond_holds_sync (ff_cond cfg)
  && rf_flush_sinks cfg && rf_descends cfg && fs_flush_real cfg.

(* ---- the instance of the policy the check runs: QFileDevice::writeData of Qt 5.15 ----
   flush first when the buffered bytes plus the new block exceed 16 KiB; blocks larger than 16 KiB
   bypass the buffer (written straight to the engine) *)
Definition bytes (l : list rec) : N := fold_left (fun a r => a + rlen r) l 0.
Definition qfile_chunk : N := 16384.
Definition qfile_policy : policy := fun s r =>
  (qfile_chunk <? bytes (buf s) + rlen r, qfile_chunk <? rlen r).

(* ---- boolean oracle, evaluated on the record ids found in the real files ---- *)
Fixpoint ids_eqb (a b : list N) : bool :=
  match a, b with [], [] => true | x :: a', y :: b' => (x =? y) && ids_eqb a' b' | _, _ => false end.
Definition file_okb (e f : option (list N)) : bool :=
  match e, f with
  | None, _ => true                       (* a device that keeps nothing: no file to look at *)
  | Some a, Some b => ids_eqb a b
  | Some _, None => false
  end.
Fixpoint files_okb (e f : list (option (list N))) : bool :=
  match e, f with
  | [], [] => true
  | x :: e', y :: f' => file_okb x y && files_okb e' f'
  | _, _ => false
  end.
Definition ids_of (l : list (option (list rec))) : list (option (list N)) := map (option_map (map rid)) l.
(* every file holds exactly the records that reached its sink, in order *)
Definition prop_c11_b (rej : reject) (t : tree) (msgs : list msg) (r : rec) (files : list (option (list N))) : bool :=
  files_okb (ids_of (expected rej t (msgs ++ [(Fatal, r)]))) files.

(* ---- histories with explicit flush() calls and RECONFIGURATION between two messages ----
   The logger may be reconfigured while it runs (Pipeline::append / remove, SimplePipeline::sendToFile
   on the logger or on an existing nested pipeline(), SortedPipeline::clearSinks): the handler tree the
   fatal flush has to reach is the one that exists WHEN the fatal message is processed, whatever
   flush() calls were made on earlier shapes of the tree. *)
Inductive op :=
  | OAppend (path : list nat) (h : tree)   (* append(h) / sendToFile(..) on the pipeline reached by [path] (handler indices) *)
  | ORemove (path : list nat) (k : nat)    (* remove(handlers()[k]); a null entry is not removed (Pipeline::remove ignores null) *)
  | OClearSinks (path : list nat).         (* clearSinks(): every file sink that is a direct handler of that pipeline
                                              (the check uses it on pipelines whose [TOther] handlers are no sinks) *)
Inductive event := EMsg (m : msg) | EFlush | EOp (o : op).

Fixpoint remove_handler (k : nat) (l : list tree) : list tree :=
  match l with
  | [] => []
  | x :: r => match k with
              | O => match x with TNull => l | _ => r end
              | S k' => x :: remove_handler k' r
              end
  end.
Definition is_sink (t : tree) : bool := match t with TSink _ => true | _ => false end.
Definition op_path (o : op) : list nat :=
  match o with OAppend p _ | ORemove p _ | OClearSinks p => p end.
Definition op_fun (o : op) : list tree -> list tree :=
  match o with
  | OAppend _ h => fun l => l ++ [h]
  | ORemove _ k => remove_handler k
  | OClearSinks _ => filter (fun x => negb (is_sink x))
  end.
(* apply [f] to the handler list of the pipeline reached by [path]; a path that does not lead to a
   pipeline changes nothing *)
Fixpoint walk (g : list tree -> list tree) (l : list tree) (i : nat) : list tree :=
  match l with
  | [] => []
  | x :: r => match i with
              | O => match x with TPipe l' => TPipe (g l') :: r | _ => l end
              | S i' => x :: walk g r i'
              end
  end.
Fixpoint at_path (f : list tree -> list tree) (path : list nat) (l : list tree) : list tree :=
  match path with
  | [] => f l
  | i :: p => walk (at_path f p) l i
  end.
Definition apply_op (o : op) (t : tree) : tree :=
  match t with TPipe l => TPipe (at_path (op_fun o) (op_path o) l) | _ => t end.

(* one step of a run: a message, an explicit logger.flush() (SimplePipeline::flush), a reconfiguration *)
Definition step cfg pol rej (t : tree) (e : event) : tree :=
  match e with
  | EMsg m => process_message cfg pol rej t m
  | EFlush => root_flush cfg t
  | EOp o => apply_op o t
  end.
Definition run_events cfg pol rej (t : tree) (evs : list event) : tree := fold_left (step cfg pol rej) evs t.
Definition run_events_fatal cfg pol rej (t : tree) (evs : list event) (r : rec) : tree :=
  process_message cfg pol rej (run_events cfg pol rej t evs) (Fatal, r).

(* THE SPECIFICATION for such histories: the logger without any buffering.  Every sink keeps one list
   (its file); a message appends its record to the file of every sink it reaches unless the device
   rejects the write; flush() does nothing; a reconfiguration acts on the tree.  No configuration, no
   policy, no flush appears in it. *)
Definition settle (s : sink) : sink :=
  {| sid := sid s; presize := presize s; broken := broken s; disk := disk s ++ buf s; buf := [] |}.
Fixpoint tmap (f : sink -> sink) (t : tree) : tree :=
  match t with TSink s => TSink (f s) | TPipe l => TPipe (map (tmap f) l) | _ => t end.
Definition swrite (rej : reject) (s : sink) (m : msg) : sink :=
  if rej (sid s) (snd m) then s
  else {| sid := sid s; presize := presize s; broken := broken s; disk := disk s ++ [snd m]; buf := buf s |}.
Fixpoint stwrite (rej : reject) (m : msg) (live : bool) (t : tree) : tree :=
  match t with
  | TSink s => TSink (if live then swrite rej s m else s)
  | TPipe l => TPipe ((fix lw (l : list tree) (lv : bool) : list tree :=
                         match l with
                         | [] => []
                         | x :: r => stwrite rej m lv x :: lw r (lnext m lv x)
                         end) l live)
  | _ => t
  end.
Definition settle_op (o : op) : op :=
  match o with OAppend p h => OAppend p (tmap settle h) | _ => o end.
Definition sstep (rej : reject) (t : tree) (e : event) : tree :=
  match e with
  | EMsg m => stwrite rej m true t
  | EFlush => t
  | EOp o => apply_op (settle_op o) t
  end.
Definition spec_run (rej : reject) (t : tree) (evs : list event) : tree := fold_left (sstep rej) evs (tmap settle t).
(* what must be in the file of every file sink of the FINAL configuration after qFatal(r) *)
Definition expected_ev (rej : reject) (t : tree) (evs : list event) (r : rec) : list (option (list rec)) :=
  survivors (spec_run rej t (evs ++ [EMsg (Fatal, r)])).
(* which sinks (by identity, depth-first) the final configuration has *)
Definition final_sids (rej : reject) (t : tree) (evs : list event) : list N :=
  map (fun sg => sid (fst sg)) (gsinks (spec_run rej t evs)).
Definition prop_c11_ev_b (rej : reject) (t : tree) (evs : list event) (r : rec) (files : list (option (list N))) : bool :=
  files_okb (ids_of (expected_ev rej t evs r)) files.

(* ---- several file sinks on ONE file, sinks that leave the configuration, a second Logger object ----
   A file sink owns a QFile object (its own descriptor, opened for appending, its own write buffer).
   Nothing keeps two sinks from being created for the same file NAME: a sink replaced at run time by a
   new one for the same file (the new one appended, then the old one removed), a short-lived second
   Logger that logs to the same file.  The file then holds what EVERY QFile ever opened on it has handed
   to the kernel: one stream of records per QFile, interleaved in the order of the kernel writes.
   [fmap] says which file a sink (by identity) logs to.  A sink that leaves the configuration (remove,
   clearSinks, its pipeline removed) is destroyed: FileSink::~FileSink closes the QFile, which flushes
   it; its stream stays in the file.  What the property demands of a file that still belongs to a file
   sink of the logger when the process dies: every stream complete - each record once per sink that
   wrote it, the records of one sink in their order. *)
Definition fmap := N -> N.
Definition sinks_of (t : tree) : list sink := map fst (gsinks t).
Definition has_sid (l : list sink) (i : N) : bool := existsb (fun s => sid s =? i) l.
(* the sinks of [t] that are no longer in [t'] *)
Definition dropped (t t' : tree) : list sink :=
  filter (fun s => negb (has_sid (sinks_of t') (sid s))) (sinks_of t).
(* [WScratch s msgs]: a second Logger object holding the single file sink [s] logs [msgs] and is destroyed *)
Inductive wevent := WEv (e : event) | WScratch (s : sink) (msgs : list msg).
(* the logger's handler tree, and the sinks that were destroyed so far (closed: flushed) *)
Definition wstate := (tree * list sink)%type.
Definition wstep cfg pol rej (st : wstate) (e : wevent) : wstate :=
  match e with
  | WEv e => let t' := step cfg pol rej (fst st) e in (t', snd st ++ map qflush (dropped (fst st) t'))
  | WScratch s msgs => (fst st, snd st ++ [qflush (fold_left (write cfg pol rej) msgs s)])
  end.
Definition wrun cfg pol rej (t : tree) (evs : list wevent) : wstate := fold_left (wstep cfg pol rej) evs (t, []).
Definition wfatal (r : rec) : wevent := WEv (EMsg (Fatal, r)).
Definition wrun_fatal cfg pol rej (t : tree) (evs : list wevent) (r : rec) : wstate :=
  wrun cfg pol rej t (evs ++ [wfatal r]).
(* THE SPECIFICATION: the same without any buffering (no configuration, no policy, no flush in it) *)
Definition swstep (rej : reject) (st : wstate) (e : wevent) : wstate :=
  match e with
  | WEv e => let t' := sstep rej (fst st) e in (t', snd st ++ dropped (fst st) t')
  | WScratch s msgs => (fst st, snd st ++ [fold_left (swrite rej) msgs (settle s)])
  end.
Definition wspec (rej : reject) (t : tree) (evs : list wevent) : wstate := fold_left (swstep rej) evs (tmap settle t, []).
Definition expected_w (rej : reject) (t : tree) (evs : list wevent) (r : rec) : wstate := wspec rej t (evs ++ [wfatal r]).
(* abort()/SIGKILL: the streams file [f] is made of (destroyed sinks first, then those of the configuration) *)
Definition all_sinks (st : wstate) : list sink := snd st ++ sinks_of (fst st).
Definition on_file (fm : fmap) (f : N) (s : sink) : bool := (fm (sid s) =? f) && negb (broken s).
Definition streams (fm : fmap) (f : N) (st : wstate) : list (list rec) := map disk (filter (on_file fm f) (all_sinks st)).
(* the files that belong to a (healthy) file sink of the configuration *)
Definition live_files (fm : fmap) (st : wstate) : list N :=
  map (fun s => fm (sid s)) (filter (fun s => negb (broken s)) (sinks_of (fst st))).
(* boolean oracle on the record ids found in a file, in file order: a file written by ONE QFile must hold
   exactly its stream; a file written by several must hold the same records the same number of times, and
   every stream as a subsequence *)
Fixpoint count_id (x : N) (l : list N) : N :=
  match l with [] => 0 | y :: r => (if x =? y then 1 else 0) + count_id x r end.
Definition ms_eqb (a b : list N) : bool :=
  Nat.eqb (length a) (length b) && forallb (fun x => count_id x a =? count_id x b) a.
Fixpoint subseq_b (l p : list N) : bool :=
  match l with
  | [] => match p with [] => true | _ => false end
  | y :: l' => match p with
               | [] => true
               | x :: p' => if x =? y then subseq_b l' p' else subseq_b l' p
               end
  end.
Definition stream_okb (parts : list (list N)) (file : list N) : bool :=
  match parts with
  | [p] => ids_eqb p file
  | _ => ms_eqb (concat parts) file && forallb (subseq_b file) parts
  end.
Definition stream_ids (fm : fmap) (f : N) (st : wstate) : list (list N) := map (map rid) (streams fm f st).
Definition prop_c11_w_b (fm : fmap) (rej : reject) (t : tree) (evs : list wevent) (r : rec)
                        (found : N -> option (list N)) : bool :=
  let st := expected_w rej t evs r in
  forallb (fun f => match found f with
                    | Some ids => stream_okb (stream_ids fm f st) ids
                    | None => false
                    end) (live_files fm st).

(* ---- helpers for the driver ---- *)
Definition fresh (id : N) (pre : bool) (brk : bool) : sink :=
  {| sid := id; presize := pre; broken := brk; disk := []; buf := [] |}.
