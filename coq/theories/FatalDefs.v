(* C11 — executable model of "what is in the log files when qFatal aborts the process".
   Definitions only: this file must keep compiling (and extracting) when a proof elsewhere breaks.

   Modelled code: Logger::processMessage (logger.cpp), SimplePipeline::flush / recursiveFlush
   (simplepipeline.cpp), Sink::process, IODeviceSink::send (one QIODevice::write per record),
   FileSink::flush (filesink.cpp), RotatingFileSink::send (size() before the write when a size limit
   is set; QFileDevice::size() flushes), QFileDevice's write buffer (an arbitrary flush policy in
   the theorems, Qt 5.15's 16 KiB policy as the instance the check runs), abort() = only what has
   been handed to the kernel survives.
   The logger is the SYNCHRONOUS one (own thread not running), as in the property text. *)
From Coq Require Import List NArith Bool.
Import ListNotations.
Local Open Scope N_scope.

(* QtMsgType *)
Inductive mtype := Debug | Warning | Critical | Fatal | Info.
Definition mtype_eqb (a b : mtype) : bool :=
  match a, b with
  | Debug, Debug | Warning, Warning | Critical, Critical | Fatal, Fatal | Info, Info => true
  | _, _ => false
  end.
Definition mem_type (t : mtype) (l : list mtype) : bool := existsb (mtype_eqb t) l.

(* one record = formatted message + newline, written by a single QIODevice::write *)
Record rec := { rid : N; rlen : N }.

(* a file sink: what the kernel has (survives abort), what sits in QFile's write buffer *)
Record sink := { sid : N;            (* identity (position in the configuration) *)
                 presize : bool;     (* RotatingFileSink with a size limit: size() before each write *)
                 disk : list rec;
                 buf : list rec }.
Definition content (s : sink) : list rec := disk s ++ buf s.
(* QFileDevice::flush *)
Definition qflush (s : sink) : sink :=
  {| sid := sid s; presize := presize s; disk := disk s ++ buf s; buf := [] |}.
Definition qappend (s : sink) (r : rec) : sink :=
  {| sid := sid s; presize := presize s; disk := disk s; buf := buf s ++ [r] |}.
(* the buffering policy: looking at the sink and the record, flush before appending? after? *)
Definition policy := sink -> rec -> bool * bool.

(* what tools/s2c/fatal.py reads from the source *)
Inductive fpos := FNone | FBefore | FAfter.         (* flush() relative to process(lmsg) *)
Inductive fcond := CAlways | CSyncOnly | CAsyncOnly. (* guard on ownThreadIsRunning() *)
Record fatal_cfg := {
  ff_pos : fpos;                (* Logger::processMessage: where it flushes *)
  ff_types : list mtype;        (* ... for which message types *)
  ff_cond : fcond;              (* ... under which thread condition *)
  rf_flush_sinks : bool;        (* recursiveFlush calls flush() on every Sink it meets *)
  rf_descends : bool;           (* recursiveFlush recurses into nested Pipelines *)
  fs_flush_real : bool;         (* FileSink::flush() is QFile::flush() *)
  rot_presize : bool            (* RotatingFileSink::send asks size() before FileSink::send when limited *)
}.
(* the synchronous logger: ownThreadIsRunning() = false *)
Definition cond_holds_sync (c : fcond) : bool :=
  match c with CAlways | CSyncOnly => true | CAsyncOnly => false end.

(* IODeviceSink::send on a (Rotating)FileSink *)
Definition write (cfg : fatal_cfg) (pol : policy) (s : sink) (r : rec) : sink :=
  let s1 := if rot_presize cfg && presize s then qflush s else s in
  let (pre, post) := pol s1 r in
  let s2 := if pre then qflush s1 else s1 in
  let s3 := qappend s2 r in
  if post then qflush s3 else s3.
(* Sink::flush() as dispatched to FileSink::flush *)
Definition sink_flush (cfg : fatal_cfg) (s : sink) : sink :=
  if fs_flush_real cfg then qflush s else s.

(* the handler tree: file sinks, nested pipelines, anything else that lets the message pass
   (formatters, attribute handlers, non-file sinks) *)
Inductive tree := TSink (s : sink) | TPipe (l : list tree) | TOther.
Fixpoint twrite (cfg : fatal_cfg) (pol : policy) (r : rec) (t : tree) : tree :=
  match t with
  | TSink s => TSink (write cfg pol s r)
  | TPipe l => TPipe (map (twrite cfg pol r) l)
  | TOther => TOther
  end.
(* recursiveFlush applied to one handler of the list *)
Fixpoint tflush (cfg : fatal_cfg) (t : tree) : tree :=
  match t with
  | TSink s => if rf_flush_sinks cfg then TSink (sink_flush cfg s) else t
  | TPipe l => if rf_descends cfg then TPipe (map (tflush cfg) l) else t
  | TOther => TOther
  end.
(* the logger itself is a pipeline: its handler list *)
Definition lwrite cfg pol r (l : list tree) := map (twrite cfg pol r) l.
Definition lflush cfg (l : list tree) := map (tflush cfg) l.

(* Logger::processMessage for one message of type ty *)
Definition flushes (cfg : fatal_cfg) (ty : mtype) : bool :=
  mem_type ty (ff_types cfg) && cond_holds_sync (ff_cond cfg).
Definition process_message (cfg : fatal_cfg) (pol : policy) (l : list tree) (m : mtype * rec) : list tree :=
  let (ty, r) := m in
  match ff_pos cfg with
  | FNone => lwrite cfg pol r l
  | FBefore => lwrite cfg pol r (if flushes cfg ty then lflush cfg l else l)
  | FAfter => let l1 := lwrite cfg pol r l in if flushes cfg ty then lflush cfg l1 else l1
  end.
Definition log_all cfg pol (l : list tree) (msgs : list (mtype * rec)) : list tree :=
  fold_left (process_message cfg pol) msgs l.
(* msgs, then qFatal(r); Qt calls abort() when the handler returns *)
Definition run_fatal cfg pol (l : list tree) (msgs : list (mtype * rec)) (r : rec) : list tree :=
  process_message cfg pol (log_all cfg pol l msgs) (Fatal, r).

Fixpoint sinks (t : tree) : list sink :=
  match t with TSink s => [s] | TPipe l => flat_map sinks l | TOther => [] end.
Definition lsinks (l : list tree) : list sink := flat_map sinks l.
(* abort()/SIGKILL: per file sink, what the file holds *)
Definition survivors (l : list tree) : list (list rec) := map disk (lsinks l).

Definition cfg_goodb (cfg : fatal_cfg) : bool :=
  match ff_pos cfg with FAfter => true | _ => false end
  && mem_type Fatal (ff_types cfg) && cond_holds_sync (ff_cond cfg)
  && rf_flush_sinks cfg && rf_descends cfg && fs_flush_real cfg.

(* ---- the instance of the policy the check runs: QFileDevice::writeData of Qt 5.15 ----
   flush first when the buffered bytes plus the new block exceed 16 KiB; blocks larger than 16 KiB
   bypass the buffer (written straight to the engine) *)
Definition bytes (l : list rec) : N := fold_left (fun a r => a + rlen r) l 0.
Definition qfile_chunk : N := 16384.
Definition qfile_policy : policy := fun s r =>
  (qfile_chunk <? bytes (buf s) + rlen r, qfile_chunk <? rlen r).

(* ---- boolean oracle, evaluated on the record ids found in the real files ---- *)
Fixpoint ids_eqb (a b : list N) : bool :=
  match a, b with [], [] => true | x :: a', y :: b' => (x =? y) && ids_eqb a' b' | _, _ => false end.
(* every file holds exactly the expected records, in order, the fatal one last *)
Definition prop_c11_b (expected : list N) (files : list (list N)) : bool :=
  forallb (ids_eqb expected) files.

(* ---- helpers for the driver: build a configuration from a description ---- *)
Definition fresh (id : N) (pre : bool) : sink := {| sid := id; presize := pre; disk := []; buf := [] |}.
Definition ids_of (l : list (list rec)) : list (list N) := map (map rid) l.
