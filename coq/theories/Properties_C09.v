(* C09 — Daily rotation keeps days apart and rotated names are unique and dated.
   Property theorems only; each is closed by [exact] of a lemma of RotateProofs.v, instantiated at
   [src_shape], the decision shapes tools/src2coq.py reads from rotatingfilesink.cpp / filesink.cpp /
   iodevicesink.cpp on every run.  [run src_shape c t0 ops] is the model the check executes against
   the real sink (coq/extract/Ex_rotate.v extracts these very definitions).
   Quantification: every op list [ops] (Write of any payload and any message type / Advance of the wall clock, never
   backwards / Restart / PutForeign), every configuration [c] (any L, any N, all 8 option sets, three
   timestamp granularities, any base name and suffix, any time zone offset within +-24 h), any start time.  Hypothesis [clean c ops]:
   nobody else creates files that follow the sink's own rotated-name scheme (PutForeign names are
   rejected by the sink's recogniser).  The model's wall clock saturates at 9999-12-31. *)
From Coq Require Import List ZArith Sorted.
Import ListNotations.
Require Import QtlVerif.RotateDefs QtlVerif.RotateProofs QtlVerif.SrcRotate.
Local Open Scope Z_scope.

(* the translated source has exactly the decision shapes the lemmas are proved for (by computation) *)
Theorem C09_source_shape : shape_eqb src_shape std_shape = true.
Proof. vm_compute. reflexivity. Qed.
Print Assumptions C09_source_shape.

(* ASSUMPTION of the model behind the next theorem: every record reaches the file, and stamps it, at the time it is written
   (the active file's modification time is the time of its last Write) - i.e. the sink is flushed or inspected between
   operations.  The model has no write buffer.  Where this fails the theorem's conclusion fails on the real sink: a record
   written before midnight that is still in QFile's buffer when the sink object is destroyed after midnight stamps the file
   with the new day, and a restarted sink then lets both days share the file (open finding F21; checks/rotate_util.py,
   probe_buffered_record_crosses_midnight runs exactly that history on the real sink).  A formal `_refuted` statement would
   need a buffered/flushed distinction in the world record and in every invariant; it is kept at the probe level. *)
(* daily, N <> 1: the records of the active file share one calendar day; the records of every rotated file (present or removed) share one day and the date in its name is the civil date of that day *)
Theorem C09_days_apart_and_name_carries_day : forall c t0 ops, clean c ops -> let w := run src_shape c t0 ops in daily c = true -> cN c <> 1 ->
  Forall (fun r => rday r = day_of c (act_mt w)) (act w) /\
  Forall (fun f => Forall (fun r => rday r = fday f) (fcont f) /\ fymd f = civil (fday f)) (gone w ++ rot w).
Proof. exact (fun c t0 ops H => T_days_apart src_shape C09_source_shape c t0 ops H). Qed.
Print Assumptions C09_days_apart_and_name_carries_day.

(* for a fixed date the indices strictly increase in rotation order — across restarts, compression and removals (gone ++ rot is the rotation order of all files ever rotated) *)
Theorem C09_indices_increase : forall c t0 ops, clean c ops -> let w := run src_shape c t0 ops in forall l1 a l2 b l3, gone w ++ rot w = l1 ++ a :: l2 ++ b :: l3 -> fymd a = fymd b -> fidx a < fidx b.
Proof. exact (fun c t0 ops H => T_indices_increase src_shape C09_source_shape c t0 ops H). Qed.
Print Assumptions C09_indices_increase.

(* no (date, index) pair is ever handed out twice, even after the earlier file was removed: rename targets never exist *)
Theorem C09_never_overwritten : forall c t0 ops, clean c ops -> let w := run src_shape c t0 ops in NoDup (map (fun f => (fymd f, fidx f)) (gone w ++ rot w)).
Proof. exact (fun c t0 ops H => T_never_overwritten src_shape C09_source_shape c t0 ops H). Qed.
Print Assumptions C09_never_overwritten.

(* rotation order = strictly increasing (day, index); every name the sink generated carries a civil date *)
Theorem C09_keys_strictly_increase : forall c t0 ops, clean c ops -> let w := run src_shape c t0 ops in StronglySorted lt_key (gone w ++ rot w) /\ Forall WfFile (gone w ++ rot w).
Proof. exact (fun c t0 ops H => T_keys_increase src_shape C09_source_shape c t0 ops H). Qed.
Print Assumptions C09_keys_strictly_increase.

(* a rotated file is never empty (so every name has a day to carry) *)
Theorem C09_never_rotates_empty : forall c t0 ops, clean c ops -> let w := run src_shape c t0 ops in Forall (fun f => fcont f <> []) (gone w ++ rot w).
Proof. exact (fun c t0 ops H => T_never_empty src_shape C09_source_shape c t0 ops H). Qed.
Print Assumptions C09_never_rotates_empty.

(* the date text in the names orders like the day numbers *)
Theorem C09_civil_dates_monotone : forall a b, -719468 <= a -> a < b -> ymd_ltb (civil a) (civil b) = true.
Proof. exact (civil_mono). Qed.
Print Assumptions C09_civil_dates_monotone.

(* the boolean oracle of the check *)
Theorem C09_oracle_holds : forall c t0 ops, clean c ops -> let w := run src_shape c t0 ops in prop_c09_b std_shape c (snap_of w) = true.
Proof. exact (fun c t0 ops H => proj2 (proj2 (proj2 (T_oracles src_shape C09_source_shape c t0 ops H)))). Qed.
Print Assumptions C09_oracle_holds.

(* ---- names as strings: rendering, the recogniser, uniqueness (any base name, any suffix) ---- *)

(* the recogniser of findRotatedFiles reads back exactly (date, index digits, gz) from a rendered name: 4/2/2-digit date fields, a non-empty run of index digits, for EVERY base name and suffix *)
Theorem C09_parse_reads_back_render : forall c f, name_ok f -> parse_name c (render c f) = Some (fymd f, fdig f, fgz f).
Proof. exact (parse_render). Qed.
Print Assumptions C09_parse_reads_back_render.

(* so rendering is injective on (date, index digits, gz) *)
Theorem C09_render_injective : forall c a b, name_ok a -> name_ok b -> render c a = render c b -> fymd a = fymd b /\ fdig a = fdig b /\ fgz a = fgz b.
Proof. exact (render_inj). Qed.
Print Assumptions C09_render_injective.

(* the index is rendered in decimal digits that read back to it *)
Theorem C09_decimal_index : forall n, 0 <= n -> digits (dec n) /\ digits_val (dec n) = n /\ dec n <> [].
Proof. exact (dec_spec). Qed.
Print Assumptions C09_decimal_index.

(* without a leading zero *)
Theorem C09_decimal_index_no_leading_zero : forall n, 1 <= n -> hd 48%N (dec n) <> 48%N.
Proof. exact (dec_no_leading_zero). Qed.
Print Assumptions C09_decimal_index_no_leading_zero.

(* distinct indices have distinct digit strings *)
Theorem C09_decimal_index_injective : forall a b, 0 <= a -> 0 <= b -> dec a = dec b -> a = b.
Proof. exact (dec_inj). Qed.
Print Assumptions C09_decimal_index_injective.

(* dates of the supported range render as yyyy-MM-dd with exactly 4/2/2 digits *)
Theorem C09_civil_dates_in_range : forall a, -1 <= a <= MAXDAY -> let '(y, m, d) := civil a in 1969 <= y <= 9999 /\ 1 <= m <= 12 /\ 1 <= d <= 31.
Proof. exact (civil_range). Qed.
Print Assumptions C09_civil_dates_in_range.

(* every name the sink ever generated is recognised by its own pattern with the date, index (>= 1, decimal, no leading zero) and gz flag it was rendered from *)
Theorem C09_generated_names_round_trip : forall c t0 ops, clean c ops -> let w := run src_shape c t0 ops in Forall (fun f => parse_name c (render c f) = Some (fymd f, fdig f, fgz f) /\
                  fdig f = dec (fidx f) /\ 1 <= fidx f /\ hd 48%N (fdig f) <> 48%N) (gone w ++ rot w).
Proof. exact (fun c t0 ops H => T_names_roundtrip src_shape C09_source_shape c t0 ops H). Qed.
Print Assumptions C09_generated_names_round_trip.

(* no rotated file NAME is ever used twice, removed files included (the (date, index) version is C09_never_overwritten) *)
Theorem C09_never_overwritten_names : forall c t0 ops, clean c ops -> let w := run src_shape c t0 ops in NoDup (map (render c) (gone w ++ rot w)).
Proof. exact (fun c t0 ops H => T_never_overwritten_names src_shape C09_source_shape c t0 ops H). Qed.
Print Assumptions C09_never_overwritten_names.

(* all names in the directory are distinct - rotated files, the active file, foreign files: in particular a rename target never exists *)
Theorem C09_directory_names_distinct : forall c t0 ops, clean c ops -> let w := run src_shape c t0 ops in NoDup (map (fun e => fst (fst e)) (listing c w)).
Proof. exact (fun c t0 ops H => T_directory_names_distinct src_shape C09_source_shape c t0 ops H). Qed.
Print Assumptions C09_directory_names_distinct.

(* non-vacuity: two records on 2023-11-14, a jump of two days, a restart on a pre-dated active file *)
Example C09_nonvacuous :
  let c := {| cL := 0; cN := 0; startup := false; daily := true; compress := false; cgran := G1ms; cbase := [97%N]; csuffix := []; ctz := 0 |} in
  let w := run src_shape c 1700000000000 [Write TInfo [120%N]; Write TInfo [121%N]; Advance 172800000; Write TFatal [122%N]; Advance 86400000; Restart; Write TInfo [119%N]] in
  (map (fun f => (fymd f, fidx f, map rday (fcont f))) (rot w), map rday (act w))
  = ([((2023, 11, 14), 1, [19675; 19675]); ((2023, 11, 16), 1, [19677])], [19678]).
Proof. vm_compute. reflexivity. Qed.

(* non-vacuity with a time zone: UTC+9; 14:50 and 15:10 UTC are the same UTC day but two LOCAL days *)
Example C09_nonvacuous_zone :
  let c := {| cL := 0; cN := 0; startup := false; daily := true; compress := false; cgran := G1s; cbase := [97%N]; csuffix := []; ctz := 540 |} in
  let w := run src_shape c (19675 * 86400000 + 53400000) [Write TInfo [120%N]; Advance 1200000; Write TInfo [121%N]] in
  (map (fun f => (fymd f, fidx f, map rday (fcont f))) (rot w), map rday (act w))
  = ([((2023, 11, 14), 1, [19675])], [19676]).
Proof. vm_compute. reflexivity. Qed.

(* ---- round 8: the sink obtained through the fluent front end SimplePipeline::sendToFile(path, L, N, options).
   [src_front] is translated from simplepipeline.cpp on every run: which requests make the front end build the rotating
   sink.  Whatever the configuration and the history, the directory (and the ghost history) develops exactly as with a
   directly constructed RotatingFileSink - so every theorem of C05, C06, C07 and C09 above holds for it too: where the
   front end builds the plain append-only FileSink, the rotating sink would never have rotated. *)
Require Import QtlVerif.RotateFrontDefs QtlVerif.RotateFrontProofs QtlVerif.SrcRotateFront.
Theorem C09_source_front_end_good : front_goodb src_front = true.
Proof. vm_compute. reflexivity. Qed.
Print Assumptions C09_source_front_end_good.

Theorem C09_front_end_sink_behaves_as_the_rotating_sink : forall c t0 ops,
  same_files (run_front src_front src_shape c t0 ops) (run src_shape c t0 ops).
Proof. exact (fun c t0 ops => front_end_equivalent src_front C09_source_front_end_good src_shape c t0 ops). Qed.
Print Assumptions C09_front_end_sink_behaves_as_the_rotating_sink.

Theorem C09_daily_rotation_asked_for_is_built : forall c, daily c = true -> picks_rotating src_front c = true.
Proof.
  intros c H. unfold picks_rotating. rewrite H.
  replace (f_daily src_front) with true by (vm_compute; reflexivity). rewrite Bool.orb_true_r. reflexivity.
Qed.
Print Assumptions C09_daily_rotation_asked_for_is_built.

(* a front end that forgets the daily flag builds the plain sink for "daily only": no rotation where one is due *)
Theorem C09_front_end_without_the_daily_case_refuted :
  exists ops, rot (run_front forgetful_front std_shape daily_only_cfg 0 ops) = []
              /\ rot (run std_shape daily_only_cfg 0 ops) <> [].
Proof. exact forgetful_front_refuted. Qed.
Print Assumptions C09_front_end_without_the_daily_case_refuted.

Example C09_front_nonvacuous :
  picks_rotating src_front daily_only_cfg = true
  /\ picks_rotating src_front {| cL := 0; cN := 3; startup := false; daily := false; compress := true; cgran := G1s;
                                 cbase := [97%N]; csuffix := []; ctz := 0 |} = false
  /\ length (rot (run_front src_front src_shape daily_only_cfg 0 [Write TInfo [120%N]; Advance 86400000; Write TInfo [121%N]])) = 1%nat.
Proof. vm_compute. repeat split. Qed.
