(* C02 — Concurrent logging is exactly-once, mutually exclusive and order-preserving.
   Property theorems only; each is closed by [exact] of a lemma of ConcProofs.v.

   The model (ConcDefs.v) INTERPRETS locking skeletons.  Every thread t of a run executes its own skeleton [skf t] (its
   entry point into the logger) once per message.  The theorems hold for EVERY FAMILY [sks] of skeletons with
   [bracketed_family sks = true] (all members bracketed by one and the same mutex; for the statements about flush():
   [guarded_family sks = true]), ANY assignment of members to threads ([forall t, In (skf t) sks]), any number n of
   threads, any number of messages per thread ([quota]) and any schedule.
   The skeletons the code has today are translated from /repo on every run into SrcConc.v:
     src_logger_sk        a call through Qt's macros: Logger::processMessage with OwnThreadHandler::process inlined
     src_handler_sk       a direct call of the public process() (also: a bare OwnThreadHandler<Pipeline>, lock M only)
     src_logger_fatal_sk  the macro path at fatal level (type == QtFatalMsg: flush() of the sinks)
   and the obligations (a) say, by computation, exactly which sub-families qualify.
   The same definitions are extracted (coq/extract/Ex_conc.v): the check runs [accept_conc] and [prop_c02_b] on the traces
   recorded from the real library. *)
From Coq Require Import List Arith Permutation.
Import ListNotations.
Require Import QtlVerif.ConcDefs QtlVerif.ConcProofs QtlVerif.ConcResetDefs QtlVerif.ConcResetProofs
               QtlVerif.ConcSigDefs QtlVerif.ConcSigProofs QtlVerif.SrcConc.

(* ------------------------------------------------------------------------------------------------------------------
   (a) what the translated source satisfies *)
Theorem C02_src_logger_bracketed : bracketed src_logger_sk = true.
Proof. vm_compute. reflexivity. Qed.
Print Assumptions C02_src_logger_bracketed.
Theorem C02_src_handler_bracketed : bracketed src_handler_sk = true.
Proof. vm_compute. reflexivity. Qed.
Print Assumptions C02_src_handler_bracketed.
Theorem C02_src_skeletons_solo_ok : forallb solo_ok src_entry_points = true.
Proof. vm_compute. reflexivity. Qed.
Print Assumptions C02_src_skeletons_solo_ok.
(* exceptions are outside the model (a skeleton has one exit); what makes the skeleton the whole truth is that every lock of
   the two functions is a QMutexLocker, released on every exit path — also when a user handler throws *)
Theorem C02_src_locks_scope_bound : src_locks_scope_bound = true.
Proof. vm_compute. reflexivity. Qed.
Print Assumptions C02_src_locks_scope_bound.
(* the exclusion proved below is per pipeline (per lock): the stateful built-in handlers must not share mutable state between
   objects living in different pipelines — no file-scope variable that is neither const nor thread_local *)
Theorem C02_src_handlers_no_shared_mutable_state : src_handlers_no_shared_mutable_state = true.
Proof. vm_compute. reflexivity. Qed.
Print Assumptions C02_src_handlers_no_shared_mutable_state.
(* ALL three entry points are bracketed by one and the same mutex (the handler mutex M): pipeline runs — every handler
   incl. Sink::send — exclude each other however the threads of a run mix the entry points *)
Theorem C02_src_entry_points_bracketed_family : bracketed_family src_entry_points = true.
Proof. vm_compute. reflexivity. Qed.
Print Assumptions C02_src_entry_points_bracketed_family.
(* sink-touching instructions INCLUDING flush(): exactly these sub-families are guarded by one mutex —
   {macro, fatal macro} (Logger mutex L) and {macro, direct process()} (handler mutex M) *)
Theorem C02_src_macro_paths_guarded_family : guarded_family [src_logger_sk; src_logger_fatal_sk] = true.
Proof. vm_compute. reflexivity. Qed.
Print Assumptions C02_src_macro_paths_guarded_family.
Theorem C02_src_macro_and_direct_guarded_family : guarded_family [src_logger_sk; src_handler_sk] = true.
Proof. vm_compute. reflexivity. Qed.
Print Assumptions C02_src_macro_and_direct_guarded_family.
(* ({direct process(), fatal macro} is NOT: see C02_direct_call_vs_fatal_flush_refuted below; the check reports the value of
   [guarded_family src_entry_points] in its coverage as static.full_family_guarded.) *)

(* ------------------------------------------------------------------------------------------------------------------
   (b) theorems for every bracketed family, any assignment of entry points to threads, any schedule *)
Section Family.
Variable sks : list (list instr).
Variable skf : nat -> list instr.
Variable quota : nat -> nat.
Variable n : nat.
Hypothesis Hfam : bracketed_family sks = true.
Hypothesis Hasg : forall t, In (skf t) sks.
Hypothesis Hn : threads_below n quota.

(* 1. no two threads are ever inside the pipeline at the same moment *)
Theorem C02_mutual_exclusion : forall sched t1 t2,
  inside (run skf quota s0 sched) t1 = true -> inside (run skf quota s0 sched) t2 = true -> t1 = t2.
Proof. exact (mutual_exclusion skf quota n (fam_guard sks skf Hfam Hasg) Hn). Qed.

(* 2. serialisable: the sink log of any complete schedule is the log of the sequential execution of whole messages
   ([serial_log]: message k of the order gets sequence number k and is delivered k-th), the order being that in which the
   critical sections on the common guarding mutex were entered (lock acquisition order) *)
Theorem C02_serialisable : forall sched, let s := run skf quota s0 sched in finishedb n quota s = true ->
  exists g, (forall t, shape g (skf t) = true) /\ log s = serial_log (acq_of g (acq s)).
Proof. exact (serialisable skf quota n (fam_guard sks skf Hfam Hasg) Hn). Qed.

(* 2'. schedule form: the sink log of ANY complete schedule equals the sink log of the sequential schedule [whole_msgs] that
   runs whole messages one after the other in lock-acquisition order *)
Theorem C02_serialisable_schedule : forallb solo_ok sks = true ->
  forall sched, let s := run skf quota s0 sched in finishedb n quota s = true ->
  exists g, (forall t, shape g (skf t) = true) /\ log (run skf quota s0 (whole_msgs skf (acq_of g (acq s)))) = log s.
Proof. exact (fun So => serialisable_schedule skf quota n (fam_guard sks skf Hfam Hasg) (fam_solo sks skf So Hasg) Hn). Qed.

(* 3a. every message is delivered exactly once (count of index i among the deliveries of thread t) ... *)
Theorem C02_exactly_once : forall sched, let s := run skf quota s0 sched in finishedb n quota s = true ->
  forall t i, count_occ Nat.eq_dec (map e_idx (of_thread t (log s))) i = if Nat.ltb i (quota t) then 1 else 0.
Proof. exact (exactly_once skf quota n (fam_guard sks skf Hfam Hasg) Hn). Qed.

(* 3b. ... and each thread's messages reach the sink in the order that thread logged them *)
Theorem C02_per_thread_order : forall sched, let s := run skf quota s0 sched in finishedb n quota s = true ->
  forall t, map e_idx (of_thread t (log s)) = seq 0 (quota t).
Proof. exact (per_thread_order skf quota n (fam_guard sks skf Hfam Hasg) Hn). Qed.

(* 3c. sequence numbers are consecutive in delivery order — at every moment of every run *)
Theorem C02_seq_consecutive : forall sched, let s := run skf quota s0 sched in map e_seq (log s) = seq 0 (length (log s)).
Proof. exact (seq_consecutive skf quota n (fam_guard sks skf Hfam Hasg) Hn). Qed.

(* 3d. no update of the stateful handler is lost: whenever nobody is inside the pipeline the counter (two-step read/write
   in the model) equals the number of deliveries *)
Theorem C02_no_lost_update : forall sched, let s := run skf quota s0 sched in
  (forall t, inside s t = false) -> count s = length (log s).
Proof. exact (no_lost_update skf quota n (fam_guard sks skf Hfam Hasg) Hn). Qed.

(* tie to the recorded traces: every (prefix of a) trace of the model is taken by the acceptor, the sink log is its
   deliveries, and a complete run's trace is accepted — so a recorded trace that the acceptor rejects is not a trace of any
   bracketed family under any assignment and schedule *)
Theorem C02_model_traces_accepted : forall sched, let s := run skf quota s0 sched in
  (exists a, arun quota n a0 (evs s) = Some a) /\ log s = delivs (evs s) /\
  (finishedb n quota s = true -> accept_conc quota n (evs s) = true).
Proof. exact (trace_accepted skf quota n (fam_guard sks skf Hfam Hasg) Hn). Qed.

(* conversely an accepted trace IS the event trace of a complete run of the model (the sequential schedule executing the
   whole messages in delivery order): acceptor = set of complete model traces *)
Theorem C02_accepted_is_model_trace : forallb solo_ok sks = true -> forall tr, accept_conc quota n tr = true ->
  let s := run skf quota s0 (whole_msgs skf (map fst (delivs tr))) in evs s = tr /\ finishedb n quota s = true.
Proof. exact (fun So tr => accepted_is_model_trace skf quota n tr (fam_guard sks skf Hfam Hasg) (fam_solo sks skf So Hasg)). Qed.

(* 1'. if moreover every sink-touching instruction (pipeline run AND flush) of every member lies inside the critical section
   of the common mutex, no two threads are ever at such an instruction at the same moment *)
Theorem C02_sink_exclusion : guarded_family sks = true -> forall sched t1 t2,
  at_sink skf (run skf quota s0 sched) t1 = true -> at_sink skf (run skf quota s0 sched) t2 = true -> t1 = t2.
Proof. exact (fun G => sink_exclusion skf quota n (fam_sinks_guard sks skf G Hasg) Hn). Qed.
End Family.
Print Assumptions C02_mutual_exclusion.
Print Assumptions C02_serialisable.
Print Assumptions C02_serialisable_schedule.
Print Assumptions C02_exactly_once.
Print Assumptions C02_per_thread_order.
Print Assumptions C02_seq_consecutive.
Print Assumptions C02_no_lost_update.
Print Assumptions C02_model_traces_accepted.
Print Assumptions C02_accepted_is_model_trace.
Print Assumptions C02_sink_exclusion.

(* ------------------------------------------------------------------------------------------------------------------
   (c) instances for the code of today *)
(* any mix of Qt-macro callers (fatal or not) and direct process() callers on one installed synchronous Logger, and a bare
   handler: pipeline runs exclude each other *)
Theorem C02_src_any_mix_mutual_exclusion : forall skf quota n, (forall t, In (skf t) src_entry_points) -> threads_below n quota ->
  forall sched t1 t2, inside (run skf quota s0 sched) t1 = true -> inside (run skf quota s0 sched) t2 = true -> t1 = t2.
Proof. exact (fun skf quota n A => C02_mutual_exclusion src_entry_points skf quota n C02_src_entry_points_bracketed_family A). Qed.
Print Assumptions C02_src_any_mix_mutual_exclusion.
Theorem C02_src_any_mix_serialisable : forall skf quota n, (forall t, In (skf t) src_entry_points) -> threads_below n quota ->
  forall sched, let s := run skf quota s0 sched in finishedb n quota s = true ->
  exists g, (forall t, shape g (skf t) = true) /\ log s = serial_log (acq_of g (acq s)).
Proof. exact (fun skf quota n A => C02_serialisable src_entry_points skf quota n C02_src_entry_points_bracketed_family A). Qed.
Print Assumptions C02_src_any_mix_serialisable.
(* macro callers only (fatal or not): send() and flush() of the sinks never overlap *)
Theorem C02_src_macro_paths_sink_exclusion : forall skf quota n, (forall t, In (skf t) [src_logger_sk; src_logger_fatal_sk]) ->
  threads_below n quota -> forall sched t1 t2,
  at_sink skf (run skf quota s0 sched) t1 = true -> at_sink skf (run skf quota s0 sched) t2 = true -> t1 = t2.
Proof.
  exact (fun skf quota n A Hn => C02_sink_exclusion _ skf quota n A Hn C02_src_macro_paths_guarded_family).
Qed.
Print Assumptions C02_src_macro_paths_sink_exclusion.
(* once (if ever) the whole family is guarded by one mutex, send()/flush() exclusion holds for every mix *)
Theorem C02_src_any_mix_sink_exclusion_if_guarded : guarded_family src_entry_points = true ->
  forall skf quota n, (forall t, In (skf t) src_entry_points) -> threads_below n quota -> forall sched t1 t2,
  at_sink skf (run skf quota s0 sched) t1 = true -> at_sink skf (run skf quota s0 sched) t2 = true -> t1 = t2.
Proof. exact (fun G skf quota n A Hn => C02_sink_exclusion _ skf quota n A Hn G). Qed.
Print Assumptions C02_src_any_mix_sink_exclusion_if_guarded.

(* REFUTED for the skeletons the code has today (written out; the check compares them with the translation in its static
   report): a thread that calls the public process() directly (handler mutex M only) and a thread that logs a fatal message
   through Qt's macros (flush() under the Logger mutex L only, M already released) do NOT exclude each other — thread 1 is
   inside the pipeline (Sink::send) while thread 0 stands at flush() (Sink::flush), each holding a different mutex *)
Definition today_direct : list instr := [Other; Lock M; Other; Work; Unlock M].
Definition today_fatal_macro : list instr :=
  [Other; Lock L; Other; Other; Other; Lock M; Other; Work; Unlock M; Other; Flush; Unlock L].
Theorem C02_direct_call_vs_fatal_flush_refuted :
  guarded_family [today_direct; today_fatal_macro] = false /\
  exists sched,
    let skf := fun t => match t with 0 => today_fatal_macro | _ => today_direct end in
    let quota := fun t => if Nat.ltb t 2 then 1 else 0 in
    let s := run skf quota s0 sched in
    nth_error (skf 0) (pc (th s 0)) = Some Flush /\ owner s L = Some 0 /\
    inside s 1 = true /\ owner s M = Some 1 /\
    at_sink skf s 0 = true /\ at_sink skf s 1 = true.
Proof. split; [vm_compute; reflexivity|]. exists (repeat 0 13 ++ repeat 1 4). vm_compute. repeat split; reflexivity. Qed.
Print Assumptions C02_direct_call_vs_fatal_flush_refuted.

(* 4. the locks are what makes this true: the same program with the lock steps erased loses an update
   (two threads, one message each: both read 0, both write 1, both deliver sequence number 0) *)
Theorem C02_unlocked_refuted : exists sched,
  let quota := fun t => if Nat.ltb t 2 then 1 else 0 in
  let s := run (uni (erase_locks src_logger_sk)) quota s0 sched in
  finishedb 2 quota s = true /\ inside s 0 = false /\ inside s 1 = false /\
  length (log s) = 2 /\ count s = 1 /\ map e_seq (log s) = [0; 0].
Proof. exists (flat_map (fun _ => [0; 1]) (seq 0 12)). vm_compute. repeat split; reflexivity. Qed.
Print Assumptions C02_unlocked_refuted.

(* ------------------------------------------------------------------------------------------------------------------
   (d) accepted traces have the trace-level form of the property: strict alternation enter/deliver (nobody overlaps),
   consecutive sequence numbers, every thread's messages exactly once in order *)
Theorem C02_accepted_trace_no_overlap : forall quota n tr, accept_conc quota n tr = true -> tr = paired (delivs tr).
Proof. exact accept_alternates. Qed.
Print Assumptions C02_accepted_trace_no_overlap.
Theorem C02_accepted_trace_seq_consecutive : forall quota n tr, accept_conc quota n tr = true ->
  map e_seq (delivs tr) = seq 0 (length (delivs tr)).
Proof. exact accept_seq_consecutive. Qed.
Print Assumptions C02_accepted_trace_seq_consecutive.
Theorem C02_accepted_trace_exactly_once_in_order : forall quota n tr, accept_conc quota n tr = true ->
  forall t, map e_idx (of_thread t (delivs tr)) = seq 0 (if Nat.ltb t n then quota t else 0).
Proof. exact accept_per_thread. Qed.
Print Assumptions C02_accepted_trace_exactly_once_in_order.
Theorem C02_accept_implies_oracle : forall quota n tr, accept_conc quota n tr = true -> prop_c02_b quota n tr = true.
Proof. exact accept_implies_oracle. Qed.
Print Assumptions C02_accept_implies_oracle.

(* the predicates discriminate: dropping either lock of a Logger is harmless, releasing before the sinks, locking per
   handler or no lock at all is not; entry points on different mutexes do not form a family *)
Example C02_predicates_discriminate :
  bracketed [Other; Lock M; Work; Unlock M] = true /\ bracketed [Lock L; Other; Work; Unlock L] = true /\
  bracketed [Lock L; Other; Unlock L; Work] = false /\ bracketed [Lock M; Work; Unlock M; Lock M; Work; Unlock M] = false /\
  bracketed [Other; Work] = false /\ bracketed (erase_locks src_logger_sk) = false /\
  sinks_guarded [Lock L; Work; Unlock L; Flush] = false /\ sinks_guarded [Lock L; Work; Flush; Unlock L] = true /\
  bracketed_family [[Lock L; Work; Unlock L]; [Lock M; Work; Unlock M]] = false /\
  bracketed_family [[Lock L; Lock M; Work; Unlock M; Unlock L]; [Lock M; Work; Unlock M]] = true.
Proof. vm_compute. repeat split; reflexivity. Qed.

(* non-vacuity: three threads (2, 1 and 2 messages) through today's Logger skeleton under an unfair interleaved schedule:
   the run completes, the trace is accepted, and the log is the serial log in lock order *)
Example C02_nonvacuous :
  let quota := fun t => match t with 0 => 2 | 1 => 1 | 2 => 2 | _ => 0 end in
  let sk := [Other; Lock L; Other; Other; Other; Lock M; Other; Work; Unlock M; Other; Other; Unlock L] in
  let s := run (uni sk) quota s0 (flat_map (fun _ => [2; 0; 0; 1; 2; 1; 1; 0; 2; 2]) (seq 0 40)) in
  bracketed sk = true /\ finishedb 3 quota s = true /\ accept_conc quota 3 (evs s) = true /\
  log s = [(0, 0, 0); (2, 0, 1); (0, 1, 2); (1, 0, 3); (2, 1, 4)] /\
  log s = serial_log (acq_of L (acq s)) /\ log s = serial_log (acq_of M (acq s)).
Proof. vm_compute. repeat split; reflexivity. Qed.
(* ... and a run MIXING the three translated entry points (thread 0 macro, thread 1 direct process(), thread 2 fatal macro)
   completes with an accepted trace *)
Example C02_nonvacuous_src_mixed :
  let quota := fun t => match t with 0 => 2 | 1 => 1 | 2 => 2 | _ => 0 end in
  let skf := fun t => match t with 0 => src_logger_sk | 1 => src_handler_sk | _ => src_logger_fatal_sk end in
  let s := run skf quota s0 (flat_map (fun _ => [2; 0; 0; 1; 2; 1; 1; 0; 2; 2]) (seq 0 40)) in
  finishedb 3 quota s = true /\ accept_conc quota 3 (evs s) = true /\ length (log s) = 5 /\
  log s = serial_log (acq_of M (acq s)).
Proof. vm_compute. repeat split; reflexivity. Qed.

(* ==================================================================================================================
   (e) THE ASYNCHRONOUS -> SYNCHRONOUS TRANSITION: resetOwnThread() while other threads keep logging (ConcResetDefs.v).
   The pipeline starts in its own thread (one worker, which takes no lock); producers post under the handler mutex M or,
   once m_worker is cleared, run the pipeline themselves — from that moment the logger is synchronous again and in scope.
   The theorems hold for EVERY reset program with [reset_ok] (drain first; quit and clear, in either order, in the critical
   section in which the drain loop saw "nothing pending"), any number of producers, any quota, any schedule. *)
Theorem C02_src_reset_ok : reset_ok src_reset_prog = true.
Proof. vm_compute. reflexivity. Qed.
Print Assumptions C02_src_reset_ok.

Section ResetFamily.
Variable prog : list rinstr.
Variable quota : nat -> nat.
Variable n : nat.
Hypothesis Hok : reset_ok prog = true.
Hypothesis Hn : threads_below n quota.

(* the worker thread and a producer that runs the pipeline itself (or two such producers) are never inside at the same moment *)
Theorem C02_reset_mutual_exclusion : forall sched x y,
  rinside (rrun prog quota rs0 sched) x = true -> rinside (rrun prog quota rs0 sched) y = true -> x = y.
Proof. exact (fun sched x y => reset_mutual_exclusion prog quota n Hok Hn _ x y (ex_intro _ sched eq_refl)). Qed.

(* no posted message is left behind in the queue of a stopped event loop (nothing is lost by the transition) *)
Theorem C02_reset_no_stranded_message : forall sched, stranded (rrun prog quota rs0 sched) = false.
Proof. exact (fun sched => reset_no_stranded prog quota n Hok Hn _ (ex_intro _ sched eq_refl)). Qed.

(* sequence numbers are consecutive in delivery order — at every moment of every run, across the transition *)
Theorem C02_reset_seq_consecutive : forall sched, let s := rrun prog quota rs0 sched in
  map e_seq (r_log s) = seq 0 (length (r_log s)).
Proof. exact (reset_seq_consecutive prog quota n Hok Hn). Qed.

(* exactly once and in each thread's own order: queued messages first (worker), the later ones synchronously *)
Theorem C02_reset_exactly_once_in_order : forall sched, let s := rrun prog quota rs0 sched in rfinished n quota s = true ->
  forall t, map e_idx (of_thread t (r_log s)) = seq 0 (quota t).
Proof. exact (reset_exactly_once_in_order prog quota n Hok Hn). Qed.

(* trace form of mutual exclusion: every entry is followed at once by the delivery of the same message *)
Theorem C02_reset_no_overlap_trace : forall sched, let s := rrun prog quota rs0 sched in rfinished n quota s = true ->
  r_evs s = paired (r_log s).
Proof. exact (reset_no_overlap_trace prog quota n Hok Hn). Qed.

(* tie to the recorded traces (scenario `resetwhile`): the SAME acceptor takes every trace of this model *)
Theorem C02_reset_model_traces_accepted : forall sched, let s := rrun prog quota rs0 sched in
  ((exists a, arun quota n a0 (r_evs s) = Some a) /\ r_log s = delivs (r_evs s) /\ r_count s = length (r_log s)) /\
  (rfinished n quota s = true -> accept_conc quota n (r_evs s) = true).
Proof.
  exact (fun sched => conj (reset_trace_accepted_prefix prog quota n Hok Hn _ (ex_intro _ sched eq_refl))
                           (reset_complete_trace_accepted prog quota n Hok Hn _ (ex_intro _ sched eq_refl))).
Qed.
End ResetFamily.
Print Assumptions C02_reset_mutual_exclusion.
Print Assumptions C02_reset_no_stranded_message.
Print Assumptions C02_reset_seq_consecutive.
Print Assumptions C02_reset_exactly_once_in_order.
Print Assumptions C02_reset_no_overlap_trace.
Print Assumptions C02_reset_model_traces_accepted.

(* instances for the resetOwnThread() of today *)
Theorem C02_src_reset_mutual_exclusion : forall quota n, threads_below n quota -> forall sched x y,
  rinside (rrun src_reset_prog quota rs0 sched) x = true -> rinside (rrun src_reset_prog quota rs0 sched) y = true -> x = y.
Proof. exact (fun quota n => C02_reset_mutual_exclusion src_reset_prog quota n C02_src_reset_ok). Qed.
Print Assumptions C02_src_reset_mutual_exclusion.
Theorem C02_src_reset_exactly_once_in_order : forall quota n, threads_below n quota -> forall sched,
  let s := rrun src_reset_prog quota rs0 sched in rfinished n quota s = true ->
  forall t, map e_idx (of_thread t (r_log s)) = seq 0 (quota t).
Proof. exact (fun quota n => C02_reset_exactly_once_in_order src_reset_prog quota n C02_src_reset_ok). Qed.
Print Assumptions C02_src_reset_exactly_once_in_order.

(* REFUTED for "stop feeding the worker first": with m_worker cleared BEFORE the drain loop a producer that gets the mutex
   during one of the sleep windows runs the pipeline itself while the worker is still inside it — overlap, the producer's
   message 2 delivered before its queued messages 0 and 1, and a lost update of the sequence counter (number 0 twice) *)
Theorem C02_reset_clear_before_drain_refuted :
  reset_ok [RClear; RDrain; RQuit] = false /\
  (exists sched, let s := rrun [RClear; RDrain; RQuit] (fun t => if Nat.ltb t 2 then 3 else 0) rs0 sched in
     rinside s AWorker = true /\ rinside s (AProd 0) = true) /\
  (exists sched, let quota := fun t => if Nat.ltb t 2 then 3 else 0 in
     let s := rrun [RClear; RDrain; RQuit] quota rs0 sched in
     rfinished 2 quota s = true /\ map e_idx (of_thread 0 (r_log s)) = [2; 0; 1] /\
     map e_seq (r_log s) = [0; 0; 1; 2; 3; 4] /\ accept_conc quota 2 (r_evs s) = false).
Proof.
  split; [reflexivity|]. split.
  - exists [AProd 0; AProd 0; AProd 0; AProd 0; AWorker; AResetter; AResetter; AResetter; AProd 0; AProd 0].
    vm_compute. split; reflexivity.
  - exists ([AProd 0; AProd 0; AProd 0; AProd 0; AWorker; AResetter; AResetter; AResetter; AProd 0; AProd 0; AProd 0]
            ++ repeat AWorker 5 ++ repeat AResetter 5 ++ repeat (AProd 1) 10).
    vm_compute. repeat split; reflexivity.
Qed.
Print Assumptions C02_reset_clear_before_drain_refuted.

(* non-vacuity: two producers (4 messages each) against today's resetOwnThread(): a backlog is posted, the reset starts
   and sleeps twice while producers keep posting, the worker drains, the thread is stopped, m_worker cleared, and the last
   messages run synchronously — the run completes, the trace is accepted, every message exactly once in order *)
Example C02_reset_nonvacuous :
  let quota := fun t => if Nat.ltb t 2 then 4 else 0 in
  let sched := [AProd 0; AProd 0; AProd 0; AProd 0; AProd 1; AProd 1; AWorker; AResetter; AResetter; AProd 1; AProd 1;
                AWorker; AWorker; AResetter; AResetter; AProd 0; AProd 0] ++ repeat AWorker 10 ++ repeat AResetter 6
               ++ repeat (AProd 0) 3 ++ repeat (AProd 1) 3 ++ repeat (AProd 0) 3 ++ repeat (AProd 1) 3 in
  let s := rrun [RDrain; RQuit; RClear] quota rs0 sched in
  rfinished 2 quota s = true /\ r_r s = RDone /\ r_worker s = false /\ r_running s = false /\
  accept_conc quota 2 (r_evs s) = true /\
  r_log s = [(0, 0, 0); (0, 1, 1); (1, 0, 2); (1, 1, 3); (0, 2, 4); (0, 3, 5); (1, 2, 6); (1, 3, 7)].
Proof. vm_compute. repeat split; reflexivity. Qed.

(* the schedule of scenario `resetslow`: the worker is INSIDE the pipeline for the last queued message (a slow handler) when
   resetOwnThread() is called; the stop finds it pending and sleeps; a producer logs meanwhile: m_worker is still set, the
   message is queued behind the one in flight (nobody else is inside the pipeline), the stop keeps waiting, the worker
   delivers both in order, only then the thread is stopped and m_worker cleared *)
Example C02_reset_slow_handler_schedule :
  let quota := fun t => if Nat.ltb t 2 then 1 else 0 in
  let s1 := rrun src_reset_prog quota rs0 [AProd 0; AProd 0; AWorker; AResetter; AResetter; AProd 1; AProd 1; AResetter; AResetter] in
  let s2 := rrun src_reset_prog quota s1 ([AWorker; AWorker; AWorker] ++ repeat AResetter 6) in
  (rinside s1 AWorker = true /\ rinside s1 (AProd 1) = false /\ r_worker s1 = true /\ r_queue s1 = [(1, 0)] /\
   r_r s1 = RSleep 0 /\ pending s1 = 2) /\
  (rfinished 2 quota s2 = true /\ r_r s2 = RDone /\ r_worker s2 = false /\ r_log s2 = [(0, 0, 0); (1, 0, 1)] /\
   accept_conc quota 2 (r_evs s2) = true).
Proof. vm_compute. repeat split; reflexivity. Qed.

(* ==================================================================================================================
   (f) SIGNAL SINKS (sendToSignal / SignalSink, ConcSigDefs.v): what a receiver QObject connected the way the library
   connects it (string-based AutoConnection) observes when N threads log concurrently.  [home] is the thread the receiver
   lives in.  Source anchors first: *)
Theorem C02_src_signal_sink_emits_in_send : src_signal_emits_in_send = true.
Proof. vm_compute. reflexivity. Qed.
Print Assumptions C02_src_signal_sink_emits_in_send.
Theorem C02_src_signal_autoconnect : src_signal_autoconnect = true.
Proof. vm_compute. reflexivity. Qed.
Print Assumptions C02_src_signal_autoconnect.
Theorem C02_src_signal_type_registered : src_signal_type_registered = true.
Proof. vm_compute. reflexivity. Qed.
Print Assumptions C02_src_signal_type_registered.

(* every trace accepted by Qt's delivery rule: the signal sink emits every message exactly once in pipeline order ... *)
Theorem C02_signal_emits_in_pipeline_order : forall home tr, accept_sig home tr = true -> sss tr = sxs tr.
Proof. exact sig_emits_in_pipeline_order. Qed.
Print Assumptions C02_signal_emits_in_pipeline_order.
(* ... the receiver gets every message exactly once ... *)
Theorem C02_signal_exactly_once : forall home tr, accept_sig home tr = true -> Permutation (sqs tr) (sxs tr).
Proof. exact sig_exactly_once. Qed.
Print Assumptions C02_signal_exactly_once.
(* ... each producing thread's messages in the order that thread logged them ... *)
Theorem C02_signal_per_thread_order : forall home tr, accept_sig home tr = true ->
  forall t, of_thread t (sqs tr) = of_thread t (sxs tr).
Proof. exact sig_per_thread. Qed.
Print Assumptions C02_signal_per_thread_order.
(* ... and, as long as the receiver's own thread does not log, in pipeline order: consecutive sequence numbers stay
   consecutive in delivery order at the receiver *)
Theorem C02_signal_foreign_threads_fifo : forall home tr, accept_sig home tr = true ->
  emits_from home (sxs tr) = false -> sqs tr = sxs tr.
Proof. exact sig_fifo. Qed.
Print Assumptions C02_signal_foreign_threads_fifo.
Theorem C02_signal_foreign_threads_seq_consecutive : forall home tr, accept_sig home tr = true ->
  emits_from home (sxs tr) = false -> map e_seq (sxs tr) = seq 0 (length (sxs tr)) ->
  map e_seq (sqs tr) = seq 0 (length (sqs tr)).
Proof. exact sig_fifo_seq_consecutive. Qed.
Print Assumptions C02_signal_foreign_threads_seq_consecutive.
Theorem C02_signal_accept_implies_oracle : forall home tr, accept_sig home tr = true -> prop_sig_b home tr = true.
Proof. exact sig_accept_implies_oracle. Qed.
Print Assumptions C02_signal_accept_implies_oracle.
(* the acceptor takes every trace of the generative model (threads enter / emit, the home thread pumps its queue) *)
Theorem C02_signal_model_traces_accepted : forall home acts,
  (srun home ss0 (snd (sgen home ss0 acts)) = Some (fst (sgen home ss0 acts))) /\
  (s_quiet (fst (sgen home ss0 acts)) = true -> accept_sig home (snd (sgen home ss0 acts)) = true).
Proof. exact (fun home acts => conj (proj1 (sgen_accepted home acts ss0 eq_refl)) (sgen_complete_accepted home acts)). Qed.
Print Assumptions C02_signal_model_traces_accepted.

(* OBSERVATION (the AutoConnection semantics, not a defect of the pipeline): when the receiver's own thread logs while
   queued calls are pending, its message is delivered directly and overtakes them — the receiver does not see pipeline
   order although the sink was handed the messages in order.  Thread 0 logs two messages, the home thread 1 logs one. *)
Theorem C02_signal_home_thread_overtakes : exists acts,
  let tr := snd (sgen 1 ss0 acts) in
  accept_sig 1 tr = true /\ prop_sig_b 1 tr = true /\ sss tr = sxs tr /\
  map e_seq (sxs tr) = [0; 1; 2] /\ map e_seq (sqs tr) = [2; 0; 1] /\ prop_sig_strict_b tr = false.
Proof.
  exists [AEnter (0, 0, 0); AEmit; AEnter (0, 1, 1); AEmit; AEnter (1, 0, 2); AEmit; APump; APump].
  vm_compute. repeat split; reflexivity.
Qed.
Print Assumptions C02_signal_home_thread_overtakes.

(* non-vacuity: two foreign threads, the home thread pumps in between (also between a delivery and its emission): accepted,
   the receiver sees 0,1,2,3; a trace that loses a queued call, or delivers one twice, is rejected *)
Example C02_signal_nonvacuous :
  let tr := snd (sgen 2 ss0 [AEnter (0, 0, 0); AEmit; AEnter (1, 0, 1); APump; AEmit; AEnter (0, 1, 2); AEmit; APump; APump;
                             AEnter (1, 1, 3); AEmit; APump]) in
  accept_sig 2 tr = true /\ map e_seq (sqs tr) = [0; 1; 2; 3] /\
  accept_sig 2 [SX (0, 0, 0); SS (0, 0, 0)] = false /\
  accept_sig 2 [SX (0, 0, 0); SS (0, 0, 0); SQ (0, 0, 0); SQ (0, 0, 0)] = false /\
  prop_sig_b 2 [SX (0, 0, 0); SS (0, 0, 0)] = false.
Proof. vm_compute. repeat split; reflexivity. Qed.

(* ---- two pipeline objects in one process (harness mode "twopipes") --------------------------------------------------
   The counters of distinct pipeline objects are independent: in the product model (a pair of acceptor states, an event
   moves only the component of its own pipeline) whatever pipeline B does, pipeline A's state after the run is the one
   its OWN events alone produce; the product acceptor is the conjunction of the single-pipeline acceptors on the two
   projections (this is what checks/c02.py runs through the extracted driver: accept_conc / prop_c02_b per pipeline), so
   an accepted run numbers the deliveries of EACH pipeline 0,1,2,... in that pipeline's delivery order. *)
Theorem C02_two_pipelines_independent : forall qa na qb nb tr a b a' b',
  arun2 qa na qb nb (a, b) tr = Some (a', b') ->
  arun qa na a (proj_pipe PA tr) = Some a' /\ arun qb nb b (proj_pipe PB tr) = Some b'.
Proof. exact (fun qa na qb nb tr a b a' b' H => conj (two_pipes_component_A qa na qb nb tr a b a' b' H)
                                                      (two_pipes_component_B qa na qb nb tr a b a' b' H)). Qed.
Print Assumptions C02_two_pipelines_independent.

Theorem C02_two_pipelines_acceptor_splits : forall qa na qb nb tr,
  accept_two qa na qb nb tr = andb (accept_conc qa na (proj_pipe PA tr)) (accept_conc qb nb (proj_pipe PB tr)).
Proof. exact accept_two_split. Qed.
Print Assumptions C02_two_pipelines_acceptor_splits.

Theorem C02_two_pipelines_each_consecutive : forall qa na qb nb tr, accept_two qa na qb nb tr = true ->
  prop_c02_b qa na (proj_pipe PA tr) = true /\ prop_c02_b qb nb (proj_pipe PB tr) = true.
Proof. exact accept_two_implies_oracles. Qed.
Print Assumptions C02_two_pipelines_each_consecutive.

(* non-vacuity: A and B interleave, their runs even overlap in time (B enters while A is inside), each numbers 0,1; accepted.
   The same schedule with ONE counter shared by both pipelines (A gets 0 and 2, B gets 1 and 3) is rejected, and so is
   each pipeline's own trace by the boolean oracle. *)
Example C02_two_pipelines_nonvacuous :
  let q := fun _ : nat => 2 in
  accept_two q 1 q 1 [(PA, EEnter 0 0); (PB, EEnter 0 0); (PA, EDeliver 0 0 0); (PB, EDeliver 0 0 0);
                      (PA, EEnter 0 1); (PA, EDeliver 0 1 1); (PB, EEnter 0 1); (PB, EDeliver 0 1 1)] = true /\
  accept_two q 1 q 1 [(PA, EEnter 0 0); (PA, EDeliver 0 0 0); (PB, EEnter 0 0); (PB, EDeliver 0 0 1);
                      (PA, EEnter 0 1); (PA, EDeliver 0 1 2); (PB, EEnter 0 1); (PB, EDeliver 0 1 3)] = false /\
  prop_c02_b q 1 (proj_pipe PA [(PA, EEnter 0 0); (PA, EDeliver 0 0 0); (PB, EEnter 0 0); (PB, EDeliver 0 0 1);
                                (PA, EEnter 0 1); (PA, EDeliver 0 1 2); (PB, EEnter 0 1); (PB, EDeliver 0 1 3)]) = false.
Proof. vm_compute. repeat split; reflexivity. Qed.
