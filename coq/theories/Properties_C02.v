(* C02 — Concurrent logging is exactly-once, mutually exclusive and order-preserving.
   Property theorems only; each is closed by [exact] of a lemma of ConcProofs.v.

   The model (ConcDefs.v) INTERPRETS locking skeletons.  Every thread t of a run executes its own skeleton [skf t] (its
   entry point into the logger) once per message.  The theorems hold for EVERY FAMILY [sks] of skeletons with
   [bracketed_family sks = true] (all members bracketed by one and the same mutex; for the statements about flush():
   [guarded_family sks = true]), ANY assignment of members to threads ([forall t, In (skf t) sks]), any number n of
   threads, any number of messages per thread ([quota]) and any schedule.
   The skeletons the code has today are translated from /repo on every run into SrcConc.v:
     src_logger_sk        a call through Qt's macros: Logger::processMessage with OwnThreadHandler::process inlined
     src_handler_sk       a direct call of the public process() (also: a bare OwnThreadHandler<Pipeline>, lock M only)
     src_logger_fatal_sk  the macro path at fatal level (type == QtFatalMsg: flush() of the sinks)
   and the obligations (a) say, by computation, exactly which sub-families qualify.
   The same definitions are extracted (coq/extract/Ex_conc.v): the check runs [accept_conc] and [prop_c02_b] on the traces
   recorded from the real library. *)
From Coq Require Import List Arith.
Import ListNotations.
Require Import QtlVerif.ConcDefs QtlVerif.ConcProofs QtlVerif.SrcConc.

(* ------------------------------------------------------------------------------------------------------------------
   (a) what the translated source satisfies *)
Theorem C02_src_logger_bracketed : bracketed src_logger_sk = true.
Proof. vm_compute. reflexivity. Qed.
Print Assumptions C02_src_logger_bracketed.
Theorem C02_src_handler_bracketed : bracketed src_handler_sk = true.
Proof. vm_compute. reflexivity. Qed.
Print Assumptions C02_src_handler_bracketed.
Theorem C02_src_skeletons_solo_ok : forallb solo_ok src_entry_points = true.
Proof. vm_compute. reflexivity. Qed.
Print Assumptions C02_src_skeletons_solo_ok.
(* exceptions are outside the model (a skeleton has one exit); what makes the skeleton the whole truth is that every lock of
   the two functions is a QMutexLocker, released on every exit path — also when a user handler throws *)
Theorem C02_src_locks_scope_bound : src_locks_scope_bound = true.
Proof. vm_compute. reflexivity. Qed.
Print Assumptions C02_src_locks_scope_bound.
(* ALL three entry points are bracketed by one and the same mutex (the handler mutex M): pipeline runs — every handler
   incl. Sink::send — exclude each other however the threads of a run mix the entry points *)
Theorem C02_src_entry_points_bracketed_family : bracketed_family src_entry_points = true.
Proof. vm_compute. reflexivity. Qed.
Print Assumptions C02_src_entry_points_bracketed_family.
(* sink-touching instructions INCLUDING flush(): exactly these sub-families are guarded by one mutex —
   {macro, fatal macro} (Logger mutex L) and {macro, direct process()} (handler mutex M) *)
Theorem C02_src_macro_paths_guarded_family : guarded_family [src_logger_sk; src_logger_fatal_sk] = true.
Proof. vm_compute. reflexivity. Qed.
Print Assumptions C02_src_macro_paths_guarded_family.
Theorem C02_src_macro_and_direct_guarded_family : guarded_family [src_logger_sk; src_handler_sk] = true.
Proof. vm_compute. reflexivity. Qed.
Print Assumptions C02_src_macro_and_direct_guarded_family.
(* ({direct process(), fatal macro} is NOT: see C02_direct_call_vs_fatal_flush_refuted below; the check reports the value of
   [guarded_family src_entry_points] in its coverage as static.full_family_guarded.) *)

(* ------------------------------------------------------------------------------------------------------------------
   (b) theorems for every bracketed family, any assignment of entry points to threads, any schedule *)
Section Family.
Variable sks : list (list instr).
Variable skf : nat -> list instr.
Variable quota : nat -> nat.
Variable n : nat.
Hypothesis Hfam : bracketed_family sks = true.
Hypothesis Hasg : forall t, In (skf t) sks.
Hypothesis Hn : threads_below n quota.

(* 1. no two threads are ever inside the pipeline at the same moment *)
Theorem C02_mutual_exclusion : forall sched t1 t2,
  inside (run skf quota s0 sched) t1 = true -> inside (run skf quota s0 sched) t2 = true -> t1 = t2.
Proof. exact (mutual_exclusion skf quota n (fam_guard sks skf Hfam Hasg) Hn). Qed.

(* 2. serialisable: the sink log of any complete schedule is the log of the sequential execution of whole messages
   ([serial_log]: message k of the order gets sequence number k and is delivered k-th), the order being that in which the
   critical sections on the common guarding mutex were entered (lock acquisition order) *)
Theorem C02_serialisable : forall sched, let s := run skf quota s0 sched in finishedb n quota s = true ->
  exists g, (forall t, shape g (skf t) = true) /\ log s = serial_log (acq_of g (acq s)).
Proof. exact (serialisable skf quota n (fam_guard sks skf Hfam Hasg) Hn). Qed.

(* 2'. schedule form: the sink log of ANY complete schedule equals the sink log of the sequential schedule [whole_msgs] that
   runs whole messages one after the other in lock-acquisition order *)
Theorem C02_serialisable_schedule : forallb solo_ok sks = true ->
  forall sched, let s := run skf quota s0 sched in finishedb n quota s = true ->
  exists g, (forall t, shape g (skf t) = true) /\ log (run skf quota s0 (whole_msgs skf (acq_of g (acq s)))) = log s.
Proof. exact (fun So => serialisable_schedule skf quota n (fam_guard sks skf Hfam Hasg) (fam_solo sks skf So Hasg) Hn). Qed.

(* 3a. every message is delivered exactly once (count of index i among the deliveries of thread t) ... *)
Theorem C02_exactly_once : forall sched, let s := run skf quota s0 sched in finishedb n quota s = true ->
  forall t i, count_occ Nat.eq_dec (map e_idx (of_thread t (log s))) i = if Nat.ltb i (quota t) then 1 else 0.
Proof. exact (exactly_once skf quota n (fam_guard sks skf Hfam Hasg) Hn). Qed.

(* 3b. ... and each thread's messages reach the sink in the order that thread logged them *)
Theorem C02_per_thread_order : forall sched, let s := run skf quota s0 sched in finishedb n quota s = true ->
  forall t, map e_idx (of_thread t (log s)) = seq 0 (quota t).
Proof. exact (per_thread_order skf quota n (fam_guard sks skf Hfam Hasg) Hn). Qed.

(* 3c. sequence numbers are consecutive in delivery order — at every moment of every run *)
Theorem C02_seq_consecutive : forall sched, let s := run skf quota s0 sched in map e_seq (log s) = seq 0 (length (log s)).
Proof. exact (seq_consecutive skf quota n (fam_guard sks skf Hfam Hasg) Hn). Qed.

(* 3d. no update of the stateful handler is lost: whenever nobody is inside the pipeline the counter (two-step read/write
   in the model) equals the number of deliveries *)
Theorem C02_no_lost_update : forall sched, let s := run skf quota s0 sched in
  (forall t, inside s t = false) -> count s = length (log s).
Proof. exact (no_lost_update skf quota n (fam_guard sks skf Hfam Hasg) Hn). Qed.

(* tie to the recorded traces: every (prefix of a) trace of the model is taken by the acceptor, the sink log is its
   deliveries, and a complete run's trace is accepted — so a recorded trace that the acceptor rejects is not a trace of any
   bracketed family under any assignment and schedule *)
Theorem C02_model_traces_accepted : forall sched, let s := run skf quota s0 sched in
  (exists a, arun quota n a0 (evs s) = Some a) /\ log s = delivs (evs s) /\
  (finishedb n quota s = true -> accept_conc quota n (evs s) = true).
Proof. exact (trace_accepted skf quota n (fam_guard sks skf Hfam Hasg) Hn). Qed.

(* conversely an accepted trace IS the event trace of a complete run of the model (the sequential schedule executing the
   whole messages in delivery order): acceptor = set of complete model traces *)
Theorem C02_accepted_is_model_trace : forallb solo_ok sks = true -> forall tr, accept_conc quota n tr = true ->
  let s := run skf quota s0 (whole_msgs skf (map fst (delivs tr))) in evs s = tr /\ finishedb n quota s = true.
Proof. exact (fun So tr => accepted_is_model_trace skf quota n tr (fam_guard sks skf Hfam Hasg) (fam_solo sks skf So Hasg)). Qed.

(* 1'. if moreover every sink-touching instruction (pipeline run AND flush) of every member lies inside the critical section
   of the common mutex, no two threads are ever at such an instruction at the same moment *)
Theorem C02_sink_exclusion : guarded_family sks = true -> forall sched t1 t2,
  at_sink skf (run skf quota s0 sched) t1 = true -> at_sink skf (run skf quota s0 sched) t2 = true -> t1 = t2.
Proof. exact (fun G => sink_exclusion skf quota n (fam_sinks_guard sks skf G Hasg) Hn). Qed.
End Family.
Print Assumptions C02_mutual_exclusion.
Print Assumptions C02_serialisable.
Print Assumptions C02_serialisable_schedule.
Print Assumptions C02_exactly_once.
Print Assumptions C02_per_thread_order.
Print Assumptions C02_seq_consecutive.
Print Assumptions C02_no_lost_update.
Print Assumptions C02_model_traces_accepted.
Print Assumptions C02_accepted_is_model_trace.
Print Assumptions C02_sink_exclusion.

(* ------------------------------------------------------------------------------------------------------------------
   (c) instances for the code of today *)
(* any mix of Qt-macro callers (fatal or not) and direct process() callers on one installed synchronous Logger, and a bare
   handler: pipeline runs exclude each other *)
Theorem C02_src_any_mix_mutual_exclusion : forall skf quota n, (forall t, In (skf t) src_entry_points) -> threads_below n quota ->
  forall sched t1 t2, inside (run skf quota s0 sched) t1 = true -> inside (run skf quota s0 sched) t2 = true -> t1 = t2.
Proof. exact (fun skf quota n A => C02_mutual_exclusion src_entry_points skf quota n C02_src_entry_points_bracketed_family A). Qed.
Print Assumptions C02_src_any_mix_mutual_exclusion.
Theorem C02_src_any_mix_serialisable : forall skf quota n, (forall t, In (skf t) src_entry_points) -> threads_below n quota ->
  forall sched, let s := run skf quota s0 sched in finishedb n quota s = true ->
  exists g, (forall t, shape g (skf t) = true) /\ log s = serial_log (acq_of g (acq s)).
Proof. exact (fun skf quota n A => C02_serialisable src_entry_points skf quota n C02_src_entry_points_bracketed_family A). Qed.
Print Assumptions C02_src_any_mix_serialisable.
(* macro callers only (fatal or not): send() and flush() of the sinks never overlap *)
Theorem C02_src_macro_paths_sink_exclusion : forall skf quota n, (forall t, In (skf t) [src_logger_sk; src_logger_fatal_sk]) ->
  threads_below n quota -> forall sched t1 t2,
  at_sink skf (run skf quota s0 sched) t1 = true -> at_sink skf (run skf quota s0 sched) t2 = true -> t1 = t2.
Proof.
  exact (fun skf quota n A Hn => C02_sink_exclusion _ skf quota n A Hn C02_src_macro_paths_guarded_family).
Qed.
Print Assumptions C02_src_macro_paths_sink_exclusion.
(* once (if ever) the whole family is guarded by one mutex, send()/flush() exclusion holds for every mix *)
Theorem C02_src_any_mix_sink_exclusion_if_guarded : guarded_family src_entry_points = true ->
  forall skf quota n, (forall t, In (skf t) src_entry_points) -> threads_below n quota -> forall sched t1 t2,
  at_sink skf (run skf quota s0 sched) t1 = true -> at_sink skf (run skf quota s0 sched) t2 = true -> t1 = t2.
Proof. exact (fun G skf quota n A Hn => C02_sink_exclusion _ skf quota n A Hn G). Qed.
Print Assumptions C02_src_any_mix_sink_exclusion_if_guarded.

(* REFUTED for the skeletons the code has today (written out; the check compares them with the translation in its static
   report): a thread that calls the public process() directly (handler mutex M only) and a thread that logs a fatal message
   through Qt's macros (flush() under the Logger mutex L only, M already released) do NOT exclude each other — thread 1 is
   inside the pipeline (Sink::send) while thread 0 stands at flush() (Sink::flush), each holding a different mutex *)
Definition today_direct : list instr := [Other; Lock M; Other; Work; Unlock M].
Definition today_fatal_macro : list instr :=
  [Other; Lock L; Other; Other; Other; Lock M; Other; Work; Unlock M; Other; Flush; Unlock L].
Theorem C02_direct_call_vs_fatal_flush_refuted :
  guarded_family [today_direct; today_fatal_macro] = false /\
  exists sched,
    let skf := fun t => match t with 0 => today_fatal_macro | _ => today_direct end in
    let quota := fun t => if Nat.ltb t 2 then 1 else 0 in
    let s := run skf quota s0 sched in
    nth_error (skf 0) (pc (th s 0)) = Some Flush /\ owner s L = Some 0 /\
    inside s 1 = true /\ owner s M = Some 1 /\
    at_sink skf s 0 = true /\ at_sink skf s 1 = true.
Proof. split; [vm_compute; reflexivity|]. exists (repeat 0 13 ++ repeat 1 4). vm_compute. repeat split; reflexivity. Qed.
Print Assumptions C02_direct_call_vs_fatal_flush_refuted.

(* 4. the locks are what makes this true: the same program with the lock steps erased loses an update
   (two threads, one message each: both read 0, both write 1, both deliver sequence number 0) *)
Theorem C02_unlocked_refuted : exists sched,
  let quota := fun t => if Nat.ltb t 2 then 1 else 0 in
  let s := run (uni (erase_locks src_logger_sk)) quota s0 sched in
  finishedb 2 quota s = true /\ inside s 0 = false /\ inside s 1 = false /\
  length (log s) = 2 /\ count s = 1 /\ map e_seq (log s) = [0; 0].
Proof. exists (flat_map (fun _ => [0; 1]) (seq 0 12)). vm_compute. repeat split; reflexivity. Qed.
Print Assumptions C02_unlocked_refuted.

(* ------------------------------------------------------------------------------------------------------------------
   (d) accepted traces have the trace-level form of the property: strict alternation enter/deliver (nobody overlaps),
   consecutive sequence numbers, every thread's messages exactly once in order *)
Theorem C02_accepted_trace_no_overlap : forall quota n tr, accept_conc quota n tr = true -> tr = paired (delivs tr).
Proof. exact accept_alternates. Qed.
Print Assumptions C02_accepted_trace_no_overlap.
Theorem C02_accepted_trace_seq_consecutive : forall quota n tr, accept_conc quota n tr = true ->
  map e_seq (delivs tr) = seq 0 (length (delivs tr)).
Proof. exact accept_seq_consecutive. Qed.
Print Assumptions C02_accepted_trace_seq_consecutive.
Theorem C02_accepted_trace_exactly_once_in_order : forall quota n tr, accept_conc quota n tr = true ->
  forall t, map e_idx (of_thread t (delivs tr)) = seq 0 (if Nat.ltb t n then quota t else 0).
Proof. exact accept_per_thread. Qed.
Print Assumptions C02_accepted_trace_exactly_once_in_order.
Theorem C02_accept_implies_oracle : forall quota n tr, accept_conc quota n tr = true -> prop_c02_b quota n tr = true.
Proof. exact accept_implies_oracle. Qed.
Print Assumptions C02_accept_implies_oracle.

(* the predicates discriminate: dropping either lock of a Logger is harmless, releasing before the sinks, locking per
   handler or no lock at all is not; entry points on different mutexes do not form a family *)
Example C02_predicates_discriminate :
  bracketed [Other; Lock M; Work; Unlock M] = true /\ bracketed [Lock L; Other; Work; Unlock L] = true /\
  bracketed [Lock L; Other; Unlock L; Work] = false /\ bracketed [Lock M; Work; Unlock M; Lock M; Work; Unlock M] = false /\
  bracketed [Other; Work] = false /\ bracketed (erase_locks src_logger_sk) = false /\
  sinks_guarded [Lock L; Work; Unlock L; Flush] = false /\ sinks_guarded [Lock L; Work; Flush; Unlock L] = true /\
  bracketed_family [[Lock L; Work; Unlock L]; [Lock M; Work; Unlock M]] = false /\
  bracketed_family [[Lock L; Lock M; Work; Unlock M; Unlock L]; [Lock M; Work; Unlock M]] = true.
Proof. vm_compute. repeat split; reflexivity. Qed.

(* non-vacuity: three threads (2, 1 and 2 messages) through today's Logger skeleton under an unfair interleaved schedule:
   the run completes, the trace is accepted, and the log is the serial log in lock order *)
Example C02_nonvacuous :
  let quota := fun t => match t with 0 => 2 | 1 => 1 | 2 => 2 | _ => 0 end in
  let sk := [Other; Lock L; Other; Other; Other; Lock M; Other; Work; Unlock M; Other; Other; Unlock L] in
  let s := run (uni sk) quota s0 (flat_map (fun _ => [2; 0; 0; 1; 2; 1; 1; 0; 2; 2]) (seq 0 40)) in
  bracketed sk = true /\ finishedb 3 quota s = true /\ accept_conc quota 3 (evs s) = true /\
  log s = [(0, 0, 0); (2, 0, 1); (0, 1, 2); (1, 0, 3); (2, 1, 4)] /\
  log s = serial_log (acq_of L (acq s)) /\ log s = serial_log (acq_of M (acq s)).
Proof. vm_compute. repeat split; reflexivity. Qed.
(* ... and a run MIXING the three translated entry points (thread 0 macro, thread 1 direct process(), thread 2 fatal macro)
   completes with an accepted trace *)
Example C02_nonvacuous_src_mixed :
  let quota := fun t => match t with 0 => 2 | 1 => 1 | 2 => 2 | _ => 0 end in
  let skf := fun t => match t with 0 => src_logger_sk | 1 => src_handler_sk | _ => src_logger_fatal_sk end in
  let s := run skf quota s0 (flat_map (fun _ => [2; 0; 0; 1; 2; 1; 1; 0; 2; 2]) (seq 0 40)) in
  finishedb 3 quota s = true /\ accept_conc quota 3 (evs s) = true /\ length (log s) = 5 /\
  log s = serial_log (acq_of M (acq s)).
Proof. vm_compute. repeat split; reflexivity. Qed.
