(* C02 — Concurrent logging is exactly-once, mutually exclusive and order-preserving.
   Property theorems only; each is closed by [exact] of a lemma of ConcProofs.v.

   The model (ConcDefs.v) INTERPRETS a locking skeleton; the theorems hold for EVERY skeleton [sk] with
   [bracketed sk = true], any number n of threads, any number of messages per thread ([quota]) and any
   schedule.  The two skeletons the code has today — [src_logger_sk] (a call through an installed Logger:
   Logger::processMessage with OwnThreadHandler::process inlined) and [src_handler_sk] (a bare
   OwnThreadHandler<Pipeline> in synchronous mode, lock M only) — are translated from /repo on every run
   into SrcConc.v and must pass [bracketed] by computation (first two obligations below).
   The same definitions are extracted (coq/extract/Ex_conc.v): the check runs [accept_conc] and
   [prop_c02_b] on the traces recorded from the real library. *)
From Coq Require Import List Arith.
Import ListNotations.
Require Import QtlVerif.ConcDefs QtlVerif.ConcProofs QtlVerif.SrcConc.

(* (a) the translated skeletons satisfy the decidable predicate *)
Theorem C02_src_logger_bracketed : bracketed src_logger_sk = true.
Proof. vm_compute. reflexivity. Qed.
Print Assumptions C02_src_logger_bracketed.
Theorem C02_src_handler_bracketed : bracketed src_handler_sk = true.
Proof. vm_compute. reflexivity. Qed.
Print Assumptions C02_src_handler_bracketed.

(* ... and a thread running them alone never blocks on itself (needed only to REALISE sequential schedules) *)
Theorem C02_src_skeletons_solo_ok : solo_ok src_logger_sk = true /\ solo_ok src_handler_sk = true.
Proof. vm_compute. split; reflexivity. Qed.
Print Assumptions C02_src_skeletons_solo_ok.

(* the fatal path of Logger::processMessage (type == QtFatalMsg: SimplePipeline::flush() = Sink::flush of every sink) is
   bracketed too and its flush() runs while the guarding mutex is still held *)
Theorem C02_src_logger_fatal_path_guarded : bracketed src_logger_fatal_sk = true /\ sinks_guarded src_logger_fatal_sk = true.
Proof. vm_compute. split; reflexivity. Qed.
Print Assumptions C02_src_logger_fatal_path_guarded.
(* the two entry points of an installed Logger — Qt's macros (Logger::processMessage) and a direct call of the public
   process() (OwnThreadHandler::process) — are guarded by one and the same mutex.  PARTIAL: the interleaving theorems below
   are proved for runs in which all threads execute ONE skeleton; for runs mixing the two entry points only this static
   obligation and the recorded traces (mode "mixed" of h_conc) stand. *)
Theorem C02_src_entry_points_share_guard : share_guard src_logger_sk src_handler_sk = true /\ share_guard src_logger_fatal_sk src_handler_sk = true.
Proof. vm_compute. split; reflexivity. Qed.
Print Assumptions C02_src_entry_points_share_guard.

(* 1. no two threads are ever inside the pipeline at the same moment *)
Theorem C02_mutual_exclusion : forall sk quota n, bracketed sk = true -> threads_below n quota ->
  forall sched t1 t2, inside (run sk quota s0 sched) t1 = true -> inside (run sk quota s0 sched) t2 = true -> t1 = t2.
Proof. exact mutual_exclusion. Qed.
Print Assumptions C02_mutual_exclusion.

(* 1'. ... nor at any instruction that touches the sinks (pipeline run or flush), for every skeleton whose sink-touching
   instructions all lie inside the critical section of the guard *)
Theorem C02_sink_exclusion : forall sk quota n, sinks_guarded sk = true -> threads_below n quota ->
  forall sched t1 t2, at_sink sk (run sk quota s0 sched) t1 = true -> at_sink sk (run sk quota s0 sched) t2 = true -> t1 = t2.
Proof. exact sink_exclusion. Qed.
Print Assumptions C02_sink_exclusion.
Theorem C02_logger_fatal_flush_excluded : forall quota n, threads_below n quota ->
  forall sched t1 t2, at_sink src_logger_fatal_sk (run src_logger_fatal_sk quota s0 sched) t1 = true ->
                      at_sink src_logger_fatal_sk (run src_logger_fatal_sk quota s0 sched) t2 = true -> t1 = t2.
Proof. exact (fun quota n => sink_exclusion src_logger_fatal_sk quota n (proj2 C02_src_logger_fatal_path_guarded)). Qed.
Print Assumptions C02_logger_fatal_flush_excluded.

(* 2. serialisable: the sink log of any complete schedule is the log of the sequential execution of whole
   messages ([serial_log]: message k of the order gets sequence number k and is delivered k-th), the order
   being that in which the critical sections on the guarding mutex were entered (lock acquisition order) *)
Theorem C02_serialisable : forall sk quota n, bracketed sk = true -> threads_below n quota ->
  forall sched, let s := run sk quota s0 sched in finishedb n quota s = true ->
  exists g, shape g sk = true /\ log s = serial_log (acq_of g (acq s)).
Proof. exact serialisable. Qed.
Print Assumptions C02_serialisable.

(* 2'. the same in schedule form: the sink log of ANY complete schedule equals the sink log of the sequential schedule
   [whole_msgs] that runs whole messages one after the other in lock-acquisition order *)
Theorem C02_serialisable_schedule : forall sk quota n, bracketed sk = true -> solo_ok sk = true -> threads_below n quota ->
  forall sched, let s := run sk quota s0 sched in finishedb n quota s = true ->
  exists g, shape g sk = true /\ log (run sk quota s0 (whole_msgs sk (acq_of g (acq s)))) = log s.
Proof. exact serialisable_schedule. Qed.
Print Assumptions C02_serialisable_schedule.

(* 3a. every message is delivered exactly once (count of index i among the deliveries of thread t) ... *)
Theorem C02_exactly_once : forall sk quota n, bracketed sk = true -> threads_below n quota ->
  forall sched, let s := run sk quota s0 sched in finishedb n quota s = true ->
  forall t i, count_occ Nat.eq_dec (map e_idx (of_thread t (log s))) i = if Nat.ltb i (quota t) then 1 else 0.
Proof. exact exactly_once. Qed.
Print Assumptions C02_exactly_once.

(* 3b. ... and each thread's messages reach the sink in the order that thread logged them *)
Theorem C02_per_thread_order : forall sk quota n, bracketed sk = true -> threads_below n quota ->
  forall sched, let s := run sk quota s0 sched in finishedb n quota s = true ->
  forall t, map e_idx (of_thread t (log s)) = seq 0 (quota t).
Proof. exact per_thread_order. Qed.
Print Assumptions C02_per_thread_order.

(* 3c. sequence numbers are consecutive in delivery order — at every moment of every run *)
Theorem C02_seq_consecutive : forall sk quota n, bracketed sk = true -> threads_below n quota ->
  forall sched, let s := run sk quota s0 sched in map e_seq (log s) = seq 0 (length (log s)).
Proof. exact seq_consecutive. Qed.
Print Assumptions C02_seq_consecutive.

(* 3d. no update of the stateful handler is lost: whenever nobody is inside the pipeline the counter
   (two-step read/write in the model) equals the number of deliveries *)
Theorem C02_no_lost_update : forall sk quota n, bracketed sk = true -> threads_below n quota ->
  forall sched, let s := run sk quota s0 sched in (forall t, inside s t = false) -> count s = length (log s).
Proof. exact no_lost_update. Qed.
Print Assumptions C02_no_lost_update.

(* 4. the locks are what makes this true: the same program with the lock steps erased loses an update
   (two threads, one message each: both read 0, both write 1, both deliver sequence number 0) *)
Theorem C02_unlocked_refuted : exists sched,
  let quota := fun t => if Nat.ltb t 2 then 1 else 0 in
  let s := run (erase_locks src_logger_sk) quota s0 sched in
  finishedb 2 quota s = true /\ inside s 0 = false /\ inside s 1 = false /\
  length (log s) = 2 /\ count s = 1 /\ map e_seq (log s) = [0; 0].
Proof. exists (flat_map (fun _ => [0; 1]) (seq 0 12)). vm_compute. repeat split; reflexivity. Qed.
Print Assumptions C02_unlocked_refuted.

(* tie to the recorded traces: every (prefix of a) trace of the model is taken by the acceptor, the sink log
   is its deliveries, and a complete run's trace is accepted — so a recorded trace that the acceptor rejects
   is not a trace of any bracketed skeleton under any schedule *)
Theorem C02_model_traces_accepted : forall sk quota n, bracketed sk = true -> threads_below n quota ->
  forall sched, let s := run sk quota s0 sched in
  (exists a, arun quota n a0 (evs s) = Some a) /\ log s = delivs (evs s) /\
  (finishedb n quota s = true -> accept_conc quota n (evs s) = true).
Proof. exact trace_accepted. Qed.
Print Assumptions C02_model_traces_accepted.

(* conversely an accepted trace IS the event trace of a complete run of the model (the sequential schedule executing the
   whole messages in delivery order): acceptor = set of complete model traces *)
Theorem C02_accepted_is_model_trace : forall sk quota n tr, bracketed sk = true -> solo_ok sk = true ->
  accept_conc quota n tr = true ->
  let s := run sk quota s0 (whole_msgs sk (map fst (delivs tr))) in evs s = tr /\ finishedb n quota s = true.
Proof. exact accepted_is_model_trace. Qed.
Print Assumptions C02_accepted_is_model_trace.

(* ... and an accepted trace has the trace-level form of the property: strict alternation enter/deliver
   (nobody overlaps), consecutive sequence numbers, every thread's messages exactly once in order *)
Theorem C02_accepted_trace_no_overlap : forall quota n tr, accept_conc quota n tr = true -> tr = paired (delivs tr).
Proof. exact accept_alternates. Qed.
Print Assumptions C02_accepted_trace_no_overlap.
Theorem C02_accepted_trace_seq_consecutive : forall quota n tr, accept_conc quota n tr = true ->
  map e_seq (delivs tr) = seq 0 (length (delivs tr)).
Proof. exact accept_seq_consecutive. Qed.
Print Assumptions C02_accepted_trace_seq_consecutive.
Theorem C02_accepted_trace_exactly_once_in_order : forall quota n tr, accept_conc quota n tr = true ->
  forall t, map e_idx (of_thread t (delivs tr)) = seq 0 (if Nat.ltb t n then quota t else 0).
Proof. exact accept_per_thread. Qed.
Print Assumptions C02_accepted_trace_exactly_once_in_order.
Theorem C02_accept_implies_oracle : forall quota n tr, accept_conc quota n tr = true -> prop_c02_b quota n tr = true.
Proof. exact accept_implies_oracle. Qed.
Print Assumptions C02_accept_implies_oracle.

(* 5. instances for the code of today: an installed Logger, and a bare OwnThreadHandler<Pipeline> in
   synchronous mode (only lock M) *)
Theorem C02_logger_mutual_exclusion : forall quota n, threads_below n quota ->
  forall sched t1 t2, inside (run src_logger_sk quota s0 sched) t1 = true ->
                      inside (run src_logger_sk quota s0 sched) t2 = true -> t1 = t2.
Proof. exact (fun quota n => mutual_exclusion src_logger_sk quota n C02_src_logger_bracketed). Qed.
Print Assumptions C02_logger_mutual_exclusion.
Theorem C02_bare_handler_mutual_exclusion : forall quota n, threads_below n quota ->
  forall sched t1 t2, inside (run src_handler_sk quota s0 sched) t1 = true ->
                      inside (run src_handler_sk quota s0 sched) t2 = true -> t1 = t2.
Proof. exact (fun quota n => mutual_exclusion src_handler_sk quota n C02_src_handler_bracketed). Qed.
Print Assumptions C02_bare_handler_mutual_exclusion.
Theorem C02_bare_handler_serialisable : forall quota n, threads_below n quota ->
  forall sched, let s := run src_handler_sk quota s0 sched in finishedb n quota s = true ->
  exists g, shape g src_handler_sk = true /\ log s = serial_log (acq_of g (acq s)).
Proof. exact (fun quota n => serialisable src_handler_sk quota n C02_src_handler_bracketed). Qed.
Print Assumptions C02_bare_handler_serialisable.

(* the predicate discriminates: dropping either lock of a Logger is harmless, releasing before the sinks,
   locking per handler or no lock at all is not *)
Example C02_bracketed_discriminates :
  bracketed [Other; Lock M; Work; Unlock M] = true /\ bracketed [Lock L; Other; Work; Unlock L] = true /\
  bracketed [Lock L; Other; Unlock L; Work] = false /\ bracketed [Lock M; Work; Unlock M; Lock M; Work; Unlock M] = false /\
  bracketed [Other; Work] = false /\ bracketed (erase_locks src_logger_sk) = false /\
  sinks_guarded [Lock L; Work; Unlock L; Flush] = false /\ sinks_guarded [Lock L; Work; Flush; Unlock L] = true /\
  share_guard [Lock L; Work; Unlock L] [Lock M; Work; Unlock M] = false.
Proof. vm_compute. repeat split; reflexivity. Qed.

(* non-vacuity: three threads (2, 1 and 2 messages) through today's Logger skeleton under an unfair interleaved
   schedule: the run completes, the trace is accepted, and the log is the serial log in lock order *)
Example C02_nonvacuous :
  let quota := fun t => match t with 0 => 2 | 1 => 1 | 2 => 2 | _ => 0 end in
  let sk := [Other; Lock L; Other; Other; Other; Lock M; Other; Work; Unlock M; Other; Other; Unlock L] in
  let s := run sk quota s0 (flat_map (fun _ => [2; 0; 0; 1; 2; 1; 1; 0; 2; 2]) (seq 0 40)) in
  bracketed sk = true /\ finishedb 3 quota s = true /\ accept_conc quota 3 (evs s) = true /\
  log s = [(0, 0, 0); (2, 0, 1); (0, 1, 2); (1, 0, 3); (2, 1, 4)] /\
  log s = serial_log (acq_of L (acq s)) /\ log s = serial_log (acq_of M (acq s)).
Proof. vm_compute. repeat split; reflexivity. Qed.
(* ... and the translated skeletons themselves run to completion with an accepted trace *)
Example C02_nonvacuous_src :
  let quota := fun t => match t with 0 => 2 | 1 => 1 | 2 => 2 | _ => 0 end in
  let s := run src_logger_sk quota s0 (flat_map (fun _ => [2; 0; 0; 1; 2; 1; 1; 0; 2; 2]) (seq 0 40)) in
  let s' := run src_handler_sk quota s0 (flat_map (fun _ => [2; 0; 0; 1; 2; 1; 1; 0; 2; 2]) (seq 0 40)) in
  finishedb 3 quota s = true /\ accept_conc quota 3 (evs s) = true /\ length (log s) = 5 /\
  finishedb 3 quota s' = true /\ accept_conc quota 3 (evs s') = true /\ length (log s') = 5.
Proof. vm_compute. repeat split; reflexivity. Qed.
