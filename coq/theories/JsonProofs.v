(* C13 — lemmas about the JSON model of JsonDefs.v: the parse-after-write round trip for the Qt writer model
   (compact and indented), absence of control characters in compact output, lookup through the key sort,
   and the correctness of the boolean oracle.  Generic in the translated configuration: the results that
   mention a configuration hold for every [cfg] passing the decidable check [json_cfg_goodb]. *)
From Coq Require Import List NArith ZArith Bool Lia Decimal DecimalZ DecimalPos ZifyN.
Require Import QtlVerif.JsonDefs.
Import ListNotations.
Local Open Scope N_scope.
Ltac Zify.zify_post_hook ::= Z.div_mod_to_equations.

(* ---------- strings ---------- *)
Lemma unhex_hexd n : n < 16 -> unhex (hexd n) = Some n.
Proof.
  intros H. assert (Hc : In n (map N.of_nat (seq 0 16))).
  { apply in_map_iff. exists (N.to_nat n). split; [apply N2Nat.id|]. apply in_seq. lia. }
  cbn [map seq] in Hc. repeat (destruct Hc as [<-|Hc]; [reflexivity|]). contradiction.
Qed.

Lemma parse_esc_u u r acc : u < 65536 -> parse_chars (esc_u u ++ r) acc = parse_chars r (u :: acc).
Proof.
  intros H. unfold esc_u. rewrite <- !app_comm_cons, app_nil_l. cbn [parse_chars].
  change (92 =? 34) with false. change (92 =? 92) with true. cbn iota.
  change (117 =? 34) with false. change (117 =? 92) with false. change (117 =? 47) with false. change (117 =? 98) with false.
  change (117 =? 102) with false. change (117 =? 110) with false. change (117 =? 114) with false. change (117 =? 116) with false.
  change (117 =? 117) with true. cbn iota.
  rewrite !unhex_hexd by lia. f_equal. f_equal. lia.
Qed.

Lemma raw_step c r acc : 32 <= c -> c <> 34 -> c <> 92 -> parse_chars (c :: r) acc = parse_chars r (c :: acc).
Proof.
  intros H1 H2 H3. cbn [parse_chars].
  destruct (N.eqb_spec c 34); [contradiction|]. destruct (N.eqb_spec c 92); [contradiction|].
  destruct (N.ltb_spec c 32); [lia|]. reflexivity.
Qed.

Lemma bs_step e x r acc : In (e, x) [(34,34);(92,92);(98,8);(102,12);(110,10);(114,13);(116,9)] ->
  parse_chars (92 :: e :: r) acc = parse_chars r (x :: acc).
Proof. cbn [In]. intros H. repeat (destruct H as [H|H]; [injection H as <- <-; reflexivity|]). contradiction. Qed.
Lemma end_step r acc : parse_chars (34 :: r) acc = Some (List.rev acc, r). Proof. reflexivity. Qed.

(* all units below 2^16 (QString); the measure for the pair look-ahead is the length *)
Definition units (s : str) : Prop := Forall (fun u => u < 65536) s.

Lemma escape_roundtrip : forall n s, (length s <= n)%nat -> units s -> forall r acc,
  parse_chars (escape s ++ 34 :: r) acc = Some (List.rev acc ++ s, r).
Proof.
  induction n as [|n IH]; intros s Hn Hu r acc.
  - destruct s; [|cbn in Hn; lia]. cbn [escape]. rewrite app_nil_l, end_step, app_nil_r. reflexivity.
  - destruct s as [|u t]; [cbn [escape]; rewrite app_nil_l, end_step, app_nil_r; reflexivity|].
    inversion Hu as [|? ? Hu1 Hut]; subst. cbn [length] in Hn.
    assert (Hrec : forall acc', parse_chars (escape t ++ 34 :: r) acc' = Some (List.rev acc' ++ t, r)) by (intros; apply IH; [lia|assumption]).
    assert (Hfin : forall x, List.rev (x :: acc) ++ t = List.rev acc ++ x :: t) by (intros; cbn [List.rev]; rewrite <- app_assoc; reflexivity).
    cbn [escape].
    destruct (N.eqb_spec u 34) as [->|N34]; [rewrite <- !app_comm_cons, (bs_step 34 34) by (cbn; tauto); rewrite Hrec, Hfin; reflexivity|].
    destruct (N.eqb_spec u 92) as [->|N92]; [rewrite <- !app_comm_cons, (bs_step 92 92) by (cbn; tauto); rewrite Hrec, Hfin; reflexivity|].
    destruct (N.eqb_spec u 8) as [->|N8]; [rewrite <- !app_comm_cons, (bs_step 98 8) by (cbn; tauto); rewrite Hrec, Hfin; reflexivity|].
    destruct (N.eqb_spec u 12) as [->|N12]; [rewrite <- !app_comm_cons, (bs_step 102 12) by (cbn; tauto); rewrite Hrec, Hfin; reflexivity|].
    destruct (N.eqb_spec u 10) as [->|N10]; [rewrite <- !app_comm_cons, (bs_step 110 10) by (cbn; tauto); rewrite Hrec, Hfin; reflexivity|].
    destruct (N.eqb_spec u 13) as [->|N13]; [rewrite <- !app_comm_cons, (bs_step 114 13) by (cbn; tauto); rewrite Hrec, Hfin; reflexivity|].
    destruct (N.eqb_spec u 9) as [->|N9]; [rewrite <- !app_comm_cons, (bs_step 116 9) by (cbn; tauto); rewrite Hrec, Hfin; reflexivity|].
    destruct (N.ltb_spec u 32) as [Hlt|Hge].
    { rewrite <- app_assoc, parse_esc_u by lia. rewrite Hrec, Hfin. reflexivity. }
    destruct (is_high u) eqn:Eh.
    + destruct t as [|v t'].
      * rewrite parse_esc_u by lia. rewrite end_step. reflexivity.
      * destruct (is_low v) eqn:El.
        -- (* a proper pair is written raw *)
           inversion Hut as [|? ? Hv Hut']; subst.
           unfold is_low in El. apply andb_prop in El as [El1 El2]. apply N.leb_le in El1. apply N.leb_le in El2.
           rewrite <- !app_comm_cons. rewrite raw_step by lia. rewrite raw_step by lia.
           rewrite IH; [|cbn [length] in Hn; lia|assumption]. cbn [List.rev]. rewrite <- !app_assoc. reflexivity.
        -- rewrite <- app_assoc, parse_esc_u by lia. rewrite Hrec, Hfin. reflexivity.
    + destruct (is_low u) eqn:El.
      * rewrite <- app_assoc, parse_esc_u by lia. rewrite Hrec, Hfin. reflexivity.
      * rewrite <- app_comm_cons, raw_step by lia. rewrite Hrec, Hfin. reflexivity.
Qed.

Lemma quote_roundtrip s r : units s -> parse_chars (escape s ++ 34 :: r) [] = Some (s, r).
Proof. intros H. rewrite (escape_roundtrip (length s) s (le_n _) H). reflexivity. Qed.

(* ---------- numbers ---------- *)
Definition ok_follow (r : str) : Prop := match r with c :: _ => is_digit c = false | [] => True end.
Lemma parse_digits_roundtrip u : forall r, ok_follow r -> parse_digits (uint_chars u ++ r) = (u, r).
Proof.
  induction u; intros r Hr.
  1: { change (uint_chars Nil ++ r) with r. destruct r as [|c r]; [reflexivity|].
       unfold ok_follow in Hr. cbn [parse_digits]. rewrite Hr. reflexivity. }
  all: cbn [uint_chars]; rewrite <- app_comm_cons; cbn [parse_digits]; change (is_digit _) with true; cbn iota; rewrite IHu by exact Hr; reflexivity.
Qed.
Lemma uint_chars_head u : u <> Nil -> exists c t, uint_chars u = c :: t /\ is_digit c = true.
Proof. destruct u; intros H; try contradiction; cbn [uint_chars]; eexists; eexists; split; reflexivity. Qed.
Lemma pos_to_uint_nonnil p : Pos.to_uint p <> Nil.
Proof. intro H. pose proof (DecimalPos.Unsigned.of_to p) as E. rewrite H in E. discriminate. Qed.

(* top-level copies of the writer's inner loops, and the equations tying them to wv *)
Definition wl (compact : bool) (lvl : nat) : list json -> str :=
  fix wl (l : list json) : str :=
  match l with
  | [] => []
  | [x] => ind compact (S lvl) ++ wv compact (S lvl) x ++ nl compact
  | x :: r => ind compact (S lvl) ++ wv compact (S lvl) x ++ 44 :: nl compact ++ wl r
  end.
Definition wo (compact : bool) (lvl : nat) : list (str * json) -> str :=
  fix wo (l : list (str * json)) : str :=
  match l with
  | [] => []
  | [(k, x)] => ind compact (S lvl) ++ quote k ++ 58 :: (if compact then [] else [32]) ++ wv compact (S lvl) x ++ nl compact
  | (k, x) :: r => ind compact (S lvl) ++ quote k ++ 58 :: (if compact then [] else [32]) ++ wv compact (S lvl) x ++ 44 :: nl compact ++ wo r
  end.
Lemma wl_one c lvl x : wl c lvl [x] = ind c (S lvl) ++ wv c (S lvl) x ++ nl c. Proof. reflexivity. Qed.
Lemma wl_more c lvl x y r : wl c lvl (x :: y :: r) = ind c (S lvl) ++ wv c (S lvl) x ++ 44 :: nl c ++ wl c lvl (y :: r). Proof. reflexivity. Qed.
Lemma wo_one c lvl k x : wo c lvl [(k, x)] = ind c (S lvl) ++ quote k ++ 58 :: sp c ++ wv c (S lvl) x ++ nl c. Proof. reflexivity. Qed.
Lemma wo_more c lvl k x y r : wo c lvl ((k, x) :: y :: r) = ind c (S lvl) ++ quote k ++ 58 :: sp c ++ wv c (S lvl) x ++ 44 :: nl c ++ wo c lvl (y :: r). Proof. reflexivity. Qed.
Lemma wv_arr c lvl l : wv c lvl (JArr l) = 91 :: nl c ++ wl c lvl l ++ ind c lvl ++ [93].
Proof. reflexivity. Qed.
Lemma wv_obj c lvl kv : wv c lvl (JObj kv) = 123 :: nl c ++ wo c lvl kv ++ ind c lvl ++ [125].
Proof. reflexivity. Qed.

Fixpoint size (v : json) : nat :=
  match v with
  | JArr l => S ((fix sl (l : list json) := match l with [] => O | x :: r => S (size x + sl r) end) l)
  | JObj kv => S ((fix so (l : list (str * json)) := match l with [] => O | (_, x) :: r => S (size x + so r) end) kv)
  | _ => 1%nat
  end.
Fixpoint size_list (l : list json) : nat := match l with [] => O | x :: r => S (size x + size_list r) end.
Fixpoint size_members (l : list (str * json)) : nat := match l with [] => O | (_, x) :: r => S (size x + size_members r) end.
Lemma size_arr l : size (JArr l) = S (size_list l). Proof. reflexivity. Qed.
Lemma size_obj kv : size (JObj kv) = S (size_members kv). Proof. reflexivity. Qed.

(* well-formedness: every string (keys included) consists of 16-bit units *)
Fixpoint wf (v : json) : Prop :=
  match v with
  | JStr s => units s
  | JArr l => (fix f (l : list json) := match l with [] => True | x :: r => wf x /\ f r end) l
  | JObj kv => (fix f (l : list (str * json)) := match l with [] => True | (k, x) :: r => units k /\ wf x /\ f r end) kv
  | _ => True
  end.
Fixpoint wf_list (l : list json) : Prop := match l with [] => True | x :: r => wf x /\ wf_list r end.
Fixpoint wf_members (l : list (str * json)) : Prop := match l with [] => True | (k, x) :: r => units k /\ wf x /\ wf_members r end.
Lemma wf_arr l : wf (JArr l) = wf_list l. Proof. reflexivity. Qed.
Lemma wf_obj kv : wf (JObj kv) = wf_members kv. Proof. reflexivity. Qed.

(* ---------- whitespace ---------- *)
Lemma skip_ws_app ws s : forallb is_ws ws = true -> skip_ws (ws ++ s) = skip_ws s.
Proof. induction ws as [|c ws IH]; intros H; [reflexivity|]. cbn [forallb] in H. apply andb_prop in H as [Hc Hw]. rewrite <- app_comm_cons. cbn [skip_ws]. rewrite Hc. apply IH, Hw. Qed.
Lemma ws_repeat n : forallb is_ws (repeat 32 n) = true. Proof. induction n; [reflexivity|]. cbn [repeat forallb]. rewrite IHn. reflexivity. Qed.
Lemma ind_ws c n : forallb is_ws (ind c n) = true. Proof. unfold ind. destruct c; [reflexivity|apply ws_repeat]. Qed.
Lemma nl_ws c : forallb is_ws (nl c) = true. Proof. destruct c; reflexivity. Qed.
Lemma sp_ws c : forallb is_ws (sp c) = true. Proof. destruct c; reflexivity. Qed.
Lemma ws_app a b : forallb is_ws a = true -> forallb is_ws b = true -> forallb is_ws (a ++ b) = true.
Proof. intros Ha Hb. rewrite forallb_app, Ha, Hb. reflexivity. Qed.
Lemma skip_ws_nonws c t : is_ws c = false -> skip_ws (c :: t) = c :: t.
Proof. intros H. cbn [skip_ws]. rewrite H. reflexivity. Qed.

(* ---------- the first character of a written value ---------- *)
Definition good_head (h : N) : Prop := is_ws h = false /\ h <> 93 /\ h <> 125 /\ h <> 44 /\ h <> 58.
Lemma num_head z : exists c t, num_chars z = c :: t /\ (is_digit c = true \/ c = 45).
Proof.
  unfold num_chars. destruct (Z.to_int z) as [u|u] eqn:E.
  - assert (Hu : u <> Nil) by (destruct z as [|p|p]; unfold Z.to_int in E; inversion E; subst; [discriminate|apply pos_to_uint_nonnil]).
    destruct (uint_chars_head u Hu) as (c & t & Hct & Hd). exists c, t. split; [exact Hct|left; exact Hd].
  - eexists; eexists; split; [reflexivity|right; reflexivity].
Qed.
Lemma digit_good c : is_digit c = true -> good_head c.
Proof.
  unfold is_digit. intros H. apply andb_prop in H as [H1 H2]. apply N.leb_le in H1. apply N.leb_le in H2.
  unfold good_head, is_ws. repeat split; try lia. repeat (apply orb_false_iff; split); apply N.eqb_neq; lia.
Qed.
Lemma wv_head c lvl v : exists h t, wv c lvl v = h :: t /\ good_head h.
Proof.
  destruct v as [|[|]|z|s|l|kv].
  1-3: (eexists; eexists; split; [reflexivity|unfold good_head; cbn; repeat split; discriminate]).
  - destruct (num_head z) as (h & t & E & [Hd| ->]); cbn [wv]; rewrite E; eexists; eexists; (split; [reflexivity|]);
      [apply digit_good; exact Hd|unfold good_head; cbn; repeat split; discriminate].
  - eexists; eexists; split; [reflexivity|unfold good_head; cbn; repeat split; discriminate].
  - rewrite wv_arr. eexists; eexists; split; [reflexivity|unfold good_head; cbn; repeat split; discriminate].
  - rewrite wv_obj. eexists; eexists; split; [reflexivity|unfold good_head; cbn; repeat split; discriminate].
Qed.

(* ---------- numbers through the dispatcher ---------- *)
Lemma digit_head_dispatch f c t (Hd : is_digit c = true) :
  parse (S f) (c :: t) = let (u, r') := parse_digits (c :: t) in Some (JNum (Z.of_int (Pos u)), r').
Proof.
  unfold is_digit in Hd. apply andb_prop in Hd as [H1 H2]. apply N.leb_le in H1. apply N.leb_le in H2.
  assert (Hc : In c [48;49;50;51;52;53;54;55;56;57]).
  { assert (E : c = 48 + N.of_nat (N.to_nat (c - 48))) by lia.
    assert (Hn : (N.to_nat (c - 48) < 10)%nat) by lia.
    rewrite E. clear E. revert Hn. generalize (N.to_nat (c - 48)). intros n Hn.
    do 10 (destruct n as [|n]; [cbn; tauto|]). lia. }
  cbn [In] in Hc. repeat (destruct Hc as [<-|Hc]; [reflexivity|]). contradiction.
Qed.
Lemma num_roundtrip f z r : ok_follow r -> parse (S f) (num_chars z ++ r) = Some (JNum z, r).
Proof.
  intros Hr. unfold num_chars. destruct (Z.to_int z) as [u|u] eqn:E.
  - assert (Hu : u <> Nil) by (destruct z as [|p|p]; unfold Z.to_int in E; inversion E; subst; [discriminate|apply pos_to_uint_nonnil]).
    destruct (uint_chars_head u Hu) as (c & t & Hct & Hd). rewrite Hct, <- app_comm_cons.
    rewrite (digit_head_dispatch f c (t ++ r) Hd). rewrite app_comm_cons, <- Hct, parse_digits_roundtrip by exact Hr.
    rewrite <- E, DecimalZ.of_to. reflexivity.
  - assert (Hu : u <> Nil) by (destruct z as [|p|p]; unfold Z.to_int in E; inversion E; subst; apply pos_to_uint_nonnil).
    rewrite <- app_comm_cons.
    change (parse (S f) (45 :: uint_chars u ++ r)) with
      (let (u', r') := parse_digits (uint_chars u ++ r) in match u' with Nil => None | _ => Some (JNum (Z.of_int (Neg u')), r') end).
    rewrite parse_digits_roundtrip by exact Hr. destruct u; try contradiction; rewrite <- E, DecimalZ.of_to; reflexivity.
Qed.

(* a head that is not the closing bracket/brace selects the default branch *)
Lemma not93 {A} (h : N) (t : str) (a : str -> A) (b : A) : h <> 93 -> match h :: t with 93 :: r' => a r' | _ => b end = b.
Proof. intros H. destruct h as [|p]; [reflexivity|]. repeat (destruct p as [p|p|]; try reflexivity). contradiction. Qed.
Lemma not125 {A} (h : N) (t : str) (a : str -> A) (b : A) : h <> 125 -> match h :: t with 125 :: r' => a r' | _ => b end = b.
Proof. intros H. destruct h as [|p]; [reflexivity|]. repeat (destruct p as [p|p|]; try reflexivity). contradiction. Qed.

(* ---------- leading whitespace is transparent ---------- *)
Lemma parse_ws fuel ws s : forallb is_ws ws = true -> parse fuel (ws ++ s) = parse fuel s.
Proof. intros H. destruct fuel as [|f]; [reflexivity|]. cbn [parse]. rewrite (skip_ws_app ws s H). reflexivity. Qed.
Lemma parse_elems_ws fuel ws s : forallb is_ws ws = true -> parse_elems fuel (ws ++ s) = parse_elems fuel s.
Proof. intros H. destruct fuel as [|f]; [reflexivity|]. cbn [parse_elems]. rewrite (parse_ws f ws s H). reflexivity. Qed.
Lemma parse_members_ws fuel ws s : forallb is_ws ws = true -> parse_members fuel (ws ++ s) = parse_members fuel s.
Proof. intros H. destruct fuel as [|f]; [reflexivity|]. cbn [parse_members]. rewrite (skip_ws_app ws s H). reflexivity. Qed.

Lemma ok_follow_close c lvl b r : (b = 93 \/ b = 125) -> ok_follow (nl c ++ ind c lvl ++ b :: r).
Proof. intros [-> | ->]; destruct c; cbn; try reflexivity. Qed.
Lemma ok_follow_comma r : ok_follow (44 :: r). Proof. reflexivity. Qed.
Lemma skip_close c lvl b r : is_ws b = false -> skip_ws (nl c ++ ind c lvl ++ b :: r) = b :: r.
Proof. intros H. rewrite skip_ws_app by apply nl_ws. rewrite skip_ws_app by apply ind_ws. apply skip_ws_nonws, H. Qed.

(* ---------- the round trip ---------- *)
Definition P1 (n : nat) := forall v, (size v <= n)%nat -> wf v -> forall c lvl fuel r, (fuel > n)%nat -> ok_follow r ->
  parse fuel (wv c lvl v ++ r) = Some (v, r).
Definition P2 (n : nat) := forall l, l <> [] -> (size_list l <= n)%nat -> wf_list l -> forall c lvl fuel ws r, (fuel > n)%nat -> forallb is_ws ws = true ->
  parse_elems fuel (ws ++ wl c lvl l ++ ind c lvl ++ 93 :: r) = Some (l, r).
Definition P3 (n : nat) := forall kv, kv <> [] -> (size_members kv <= n)%nat -> wf_members kv -> forall c lvl fuel ws r, (fuel > n)%nat -> forallb is_ws ws = true ->
  parse_members fuel (ws ++ wo c lvl kv ++ ind c lvl ++ 125 :: r) = Some (kv, r).

Lemma step_P1 n : P1 n -> P2 n -> P3 n -> P1 (S n).
Proof.
  intros H1 H2 H3 v Hs Hw c lvl fuel r Hf Hr. destruct fuel as [|f]; [lia|].
  destruct v as [|[|]|z|s|l|kv].
  - reflexivity.
  - reflexivity.
  - reflexivity.
  - apply num_roundtrip, Hr.
  - cbn [wv]. unfold quote. rewrite <- app_comm_cons, <- app_assoc.
    change (parse (S f) (34 :: escape s ++ [34] ++ r)) with
      (match parse_chars (escape s ++ [34] ++ r) [] with Some (str, r') => Some (JStr str, r') | None => None end).
    change ([34] ++ r) with (34 :: r). rewrite quote_roundtrip by exact Hw. reflexivity.
  - (* array *)
    rewrite wv_arr. rewrite size_arr in Hs. rewrite wf_arr in Hw. rewrite <- app_comm_cons.
    set (rest := (nl c ++ wl c lvl l ++ ind c lvl ++ [93]) ++ r).
    change (parse (S f) (91 :: rest)) with
      (match skip_ws rest with
       | 93 :: r' => Some (JArr [], r')
       | _ => match parse_elems f rest with Some (vs, r') => Some (JArr vs, r') | None => None end
       end).
    assert (Erest : rest = nl c ++ wl c lvl l ++ ind c lvl ++ 93 :: r).
    { unfold rest. rewrite <- !app_assoc. reflexivity. }
    destruct l as [|x l'].
    + rewrite Erest. change (wl c lvl []) with (@nil N). rewrite app_nil_l. rewrite skip_close by reflexivity. reflexivity.
    + (* the first thing after the whitespace is the head of x *)
      destruct (wv_head c (S lvl) x) as (h & t & Eh & (Hws & H93 & _)).
      assert (Esk : exists t', skip_ws rest = h :: t').
      { rewrite Erest. rewrite skip_ws_app by apply nl_ws.
        destruct l' as [|y l'']; [rewrite wl_one|rewrite wl_more]; rewrite <- !app_assoc; rewrite skip_ws_app by apply ind_ws;
          rewrite Eh, <- app_comm_cons; rewrite skip_ws_nonws by exact Hws; eexists; reflexivity. }
      destruct Esk as [t' ->].
      set (dflt := match parse_elems f rest with Some (vs, r') => Some (JArr vs, r') | None => None end).
      assert (E : match h :: t' with 93 :: r' => Some (JArr [], r') | _ => dflt end = dflt).
      { destruct h as [|p]; [reflexivity|]. repeat (destruct p as [p|p|]; try reflexivity). contradiction. }
      rewrite E. unfold dflt.
      rewrite Erest. rewrite (H2 (x :: l')); [reflexivity|discriminate|lia|exact Hw|lia|apply nl_ws].
  - (* object *)
    rewrite wv_obj. rewrite size_obj in Hs. rewrite wf_obj in Hw. rewrite <- app_comm_cons.
    set (rest := (nl c ++ wo c lvl kv ++ ind c lvl ++ [125]) ++ r).
    change (parse (S f) (123 :: rest)) with
      (match skip_ws rest with
       | 125 :: r' => Some (JObj [], r')
       | _ => match parse_members f rest with Some (m, r') => Some (JObj m, r') | None => None end
       end).
    assert (Erest : rest = nl c ++ wo c lvl kv ++ ind c lvl ++ 125 :: r).
    { unfold rest. rewrite <- !app_assoc. reflexivity. }
    destruct kv as [|[k x] kv'].
    + rewrite Erest. change (wo c lvl []) with (@nil N). rewrite app_nil_l. rewrite skip_close by reflexivity. reflexivity.
    + assert (Esk : exists t', skip_ws rest = 34 :: t').
      { rewrite Erest. rewrite skip_ws_app by apply nl_ws.
        destruct kv' as [|y kv'']; [rewrite wo_one|rewrite wo_more]; rewrite <- !app_assoc; rewrite skip_ws_app by apply ind_ws;
          unfold quote; rewrite <- app_comm_cons; rewrite skip_ws_nonws by reflexivity; eexists; reflexivity. }
      destruct Esk as [t' ->]. cbn iota.
      rewrite Erest. rewrite (H3 ((k, x) :: kv')); [reflexivity|discriminate|lia|exact Hw|lia|apply nl_ws].
Qed.

Lemma step_P2 n : P1 n -> P2 n -> P2 (S n).
Proof.
  intros H1 H2 l Hne Hs Hw c lvl fuel ws r Hf Hws. destruct fuel as [|f]; [lia|].
  destruct l as [|x l']; [contradiction|]. cbn [size_list] in Hs. destruct Hw as [Hx Hl'].
  rewrite parse_elems_ws by exact Hws. cbn [parse_elems].
  destruct l' as [|y l''].
  - rewrite wl_one, <- !app_assoc. rewrite parse_ws by apply ind_ws.
    rewrite H1; [|lia|exact Hx|lia|apply ok_follow_close; left; reflexivity].
    rewrite skip_close by reflexivity. reflexivity.
  - rewrite wl_more, <- !app_assoc. rewrite parse_ws by apply ind_ws.
    rewrite <- app_comm_cons. rewrite H1; [|lia|exact Hx|lia|apply ok_follow_comma].
    rewrite skip_ws_nonws by reflexivity. cbn iota. rewrite <- ?app_assoc.
    rewrite (H2 (y :: l'')); [reflexivity|discriminate|cbn [size_list] in *; lia|exact Hl'|lia|apply nl_ws].
Qed.

Lemma step_P3 n : P1 n -> P3 n -> P3 (S n).
Proof.
  intros H1 H3 kv Hne Hs Hw c lvl fuel ws r Hf Hws. destruct fuel as [|f]; [lia|].
  destruct kv as [|[k x] kv']; [contradiction|]. cbn [size_members] in Hs. destruct Hw as (Hk & Hx & Hkv').
  rewrite parse_members_ws by exact Hws.
  assert (Hgo : forall tail : str, ok_follow tail -> (forall res, (match skip_ws tail with
                  | 44 :: r4 => match parse_members f r4 with Some (m, r5) => Some ((k, x) :: m, r5) | None => None end
                  | 125 :: r4 => Some ([(k, x)], r4)
                  | _ => None end) = res ->
            parse_members (S f) (ind c (S lvl) ++ quote k ++ 58 :: sp c ++ wv c (S lvl) x ++ tail) = res)).
  { intros tail Ht res Hres. cbn [parse_members]. rewrite skip_ws_app by apply ind_ws.
    unfold quote. rewrite <- app_comm_cons. rewrite skip_ws_nonws by reflexivity.
    rewrite <- app_assoc. change ([34] ++ 58 :: sp c ++ wv c (S lvl) x ++ tail) with (34 :: 58 :: sp c ++ wv c (S lvl) x ++ tail).
    rewrite quote_roundtrip by exact Hk. rewrite skip_ws_nonws by reflexivity.
    rewrite parse_ws by apply sp_ws. rewrite H1; [exact Hres|lia|exact Hx|lia|exact Ht]. }
  destruct kv' as [|y kv''].
  - rewrite wo_one. repeat (rewrite <- app_assoc || rewrite <- app_comm_cons). apply Hgo; [apply ok_follow_close; right; reflexivity|].
    rewrite skip_close by reflexivity. reflexivity.
  - rewrite wo_more. repeat (rewrite <- app_assoc || rewrite <- app_comm_cons). apply Hgo; [apply ok_follow_comma|].
    rewrite skip_ws_nonws by reflexivity. cbn iota. rewrite <- ?app_assoc.
    rewrite (H3 (y :: kv'')); [reflexivity|discriminate|cbn [size_members] in *; destruct y; lia|exact Hkv'|lia|apply nl_ws].
Qed.

Theorem roundtrip_all n : P1 n /\ P2 n /\ P3 n.
Proof.
  induction n as [|n (H1 & H2 & H3)].
  - repeat split.
    + intros v Hs. destruct v; cbn in Hs; lia.
    + intros [|x l] Hne Hs; [contradiction|cbn in Hs; lia].
    + intros [|[k x] kv] Hne Hs; [contradiction|cbn in Hs; lia].
  - split; [apply step_P1; assumption|split; [apply step_P2; assumption|apply step_P3; assumption]].
Qed.

(* ---------- the written text is at least as long as the value is big: fuel from the input length ---------- *)
Lemma num_len z : (1 <= length (num_chars z))%nat.
Proof. destruct (num_head z) as (c & t & E & _). rewrite E. cbn [length]. lia. Qed.
Lemma size_le_len_sized : forall n v c lvl, (size v <= n)%nat -> (size v <= length (wv c lvl v))%nat.
Proof.
  induction n as [|n IH]; intros v c lvl Hs; [destruct v; cbn in Hs; lia|].
  destruct v as [|[|]|z|s|l|kv].
  1-3: (cbn; lia).
  - cbn [size wv]. apply num_len.
  - cbn [size wv]. unfold quote. cbn [length]. lia.
  - rewrite wv_arr. rewrite size_arr in *. cbn [length]. rewrite !app_length. cbn [length].
    assert (Hl : (size_list l <= S (length (wl c lvl l)))%nat).
    { clear - IH Hs. induction l as [|x l' IHl]; [cbn; lia|]. cbn [size_list] in Hs.
      assert (Hx : (size x <= length (wv c (S lvl) x))%nat) by (apply IH; lia).
      destruct l' as [|y l''].
      - rewrite wl_one. rewrite !app_length. cbn [size_list]. lia.
      - rewrite wl_more. rewrite !app_length. cbn [length]. rewrite !app_length.
        assert (Hr : (size_list (y :: l'') <= S (length (wl c lvl (y :: l''))))%nat) by (apply IHl; cbn [size_list] in *; lia).
        cbn [size_list] in *. lia. }
    lia.
  - rewrite wv_obj. rewrite size_obj in *. cbn [length]. rewrite !app_length. cbn [length].
    assert (Hl : (size_members kv <= length (wo c lvl kv))%nat).
    { clear - IH Hs. induction kv as [|[k x] kv' IHl]; [cbn; lia|]. cbn [size_members] in Hs.
      assert (Hx : (size x <= length (wv c (S lvl) x))%nat) by (apply IH; lia).
      destruct kv' as [|y kv''].
      - rewrite wo_one. rewrite !app_length. unfold quote. cbn [length]. rewrite !app_length. cbn [size_members length]. lia.
      - rewrite wo_more. rewrite !app_length. unfold quote. cbn [length]. rewrite !app_length. cbn [length]. rewrite !app_length.
        assert (Hr : (size_members (y :: kv'') <= length (wo c lvl (y :: kv'')))%nat) by (apply IHl; cbn [size_members] in *; destruct y; lia).
        cbn [size_members] in *. destruct y. lia. }
    lia.
Qed.

(* the statement used by C13 / C18: any well-formed value, either mode, is recovered exactly, and the
   rest of the text is the writer's final line break (nothing in compact mode) *)
Theorem parse_write_doc compact v : wf v -> forall fuel, (fuel > size v)%nat -> parse fuel (write_doc compact v) = Some (v, nl compact).
Proof.
  intros Hw fuel Hf. unfold write_doc. destruct (roundtrip_all (size v)) as (H1 & _ & _).
  apply H1; [lia|exact Hw|lia|destruct compact; reflexivity].
Qed.
Theorem parse_doc_write_doc compact v : wf v -> parse_doc (write_doc compact v) = Some v.
Proof.
  intros Hw. unfold parse_doc. rewrite parse_write_doc; [rewrite nl_ws; reflexivity|exact Hw|].
  pose proof (size_le_len_sized (size v) v compact 0 (le_n _)) as H. unfold write_doc. rewrite app_length. lia.
Qed.

(* the writer is injective on well-formed values (used for the oracle's equality test) *)
Lemma seqb_refl a : seqb a a = true.
Proof. induction a as [|x a IH]; [reflexivity|]. cbn. rewrite N.eqb_refl. exact IH. Qed.
Lemma seqb_eq a : forall b, seqb a b = true -> a = b.
Proof.
  induction a as [|x a IH]; intros [|y b] H; cbn in H; try discriminate; [reflexivity|].
  apply andb_prop in H as [H1 H2]. apply N.eqb_eq in H1. subst. f_equal. apply IH, H2.
Qed.
Lemma seqb_spec a b : reflect (a = b) (seqb a b).
Proof. destruct (seqb a b) eqn:E; constructor; [apply seqb_eq, E|]. intros ->. rewrite seqb_refl in E. discriminate. Qed.
Lemma json_eqb_refl a : json_eqb a a = true. Proof. apply seqb_refl. Qed.
Theorem json_eqb_true a b : wf a -> wf b -> json_eqb a b = true -> a = b.
Proof.
  intros Ha Hb H. apply seqb_eq in H.
  pose proof (parse_write_doc true a Ha (S (size a + size b)) ltac:(lia)) as Pa.
  pose proof (parse_write_doc true b Hb (S (size a + size b)) ltac:(lia)) as Pb.
  unfold write_doc in Pa, Pb. rewrite H in Pa. rewrite Pa in Pb. injection Pb as ->. reflexivity.
Qed.

(* ---------- compact output holds no character below U+0020 ---------- *)
Definition ge32 (s : str) : Prop := Forall (fun c => 32 <= c) s.
Lemma ge32_app a b : ge32 a -> ge32 b -> ge32 (a ++ b). Proof. intros; apply Forall_app; split; assumption. Qed.
Lemma ge32_cons c s : 32 <= c -> ge32 s -> ge32 (c :: s). Proof. intros; apply Forall_cons; assumption. Qed.
Lemma hexd_ge n : 32 <= hexd n. Proof. unfold hexd. destruct (n <? 10); lia. Qed.
Lemma esc_u_ge u : ge32 (esc_u u).
Proof. unfold esc_u. repeat (apply ge32_cons; [first [apply hexd_ge|lia]|]). apply Forall_nil. Qed.
Lemma escape_ge_aux : forall n s, (length s <= n)%nat -> ge32 (escape s).
Proof.
  induction n as [|n IH]; intros [|u t] Hn; cbn [escape]; try apply Forall_nil; [cbn in Hn; lia|]. cbn [length] in Hn.
  assert (Ht : ge32 (escape t)) by (apply IH; lia).
  destruct (u =? 34); [apply ge32_cons; [lia|apply ge32_cons; [lia|exact Ht]]|].
  destruct (u =? 92); [apply ge32_cons; [lia|apply ge32_cons; [lia|exact Ht]]|].
  destruct (u =? 8); [apply ge32_cons; [lia|apply ge32_cons; [lia|exact Ht]]|].
  destruct (u =? 12); [apply ge32_cons; [lia|apply ge32_cons; [lia|exact Ht]]|].
  destruct (u =? 10); [apply ge32_cons; [lia|apply ge32_cons; [lia|exact Ht]]|].
  destruct (u =? 13); [apply ge32_cons; [lia|apply ge32_cons; [lia|exact Ht]]|].
  destruct (u =? 9); [apply ge32_cons; [lia|apply ge32_cons; [lia|exact Ht]]|].
  destruct (N.ltb_spec u 32); [apply ge32_app; [apply esc_u_ge|exact Ht]|].
  destruct (is_high u).
  - destruct t as [|v t']; [apply esc_u_ge|]. destruct (is_low v) eqn:El.
    + apply ge32_cons; [lia|]. apply ge32_cons.
      * unfold is_low in El. apply andb_prop in El as [E1 _]. apply N.leb_le in E1. lia.
      * apply IH. cbn [length] in Hn. lia.
    + apply ge32_app; [apply esc_u_ge|exact Ht].
  - destruct (is_low u); [apply ge32_app; [apply esc_u_ge|exact Ht]|]. apply ge32_cons; [lia|exact Ht].
Qed.
Lemma quote_ge s : ge32 (quote s).
Proof.
  unfold quote. apply ge32_cons; [lia|]. apply ge32_app; [apply (escape_ge_aux (length s)); lia|]. apply ge32_cons; [lia|apply Forall_nil].
Qed.
Lemma uint_ge u : ge32 (uint_chars u).
Proof. induction u; cbn [uint_chars]; [apply Forall_nil| | | | | | | | | |]; (apply ge32_cons; [lia|assumption]). Qed.
Lemma num_ge z : ge32 (num_chars z).
Proof. unfold num_chars. destruct (Z.to_int z); [apply uint_ge|]. apply ge32_cons; [lia|apply uint_ge]. Qed.
Lemma compact_ge_sized : forall n v lvl, (size v <= n)%nat -> ge32 (wv true lvl v).
Proof.
  induction n as [|n IH]; intros v lvl Hs; [destruct v; cbn in Hs; lia|].
  destruct v as [|[|]|z|s|l|kv].
  1-3: (cbn [wv]; repeat (apply ge32_cons; [lia|]); apply Forall_nil).
  - apply num_ge.
  - apply quote_ge.
  - rewrite wv_arr. rewrite size_arr in Hs.
    assert (Hl : ge32 (wl true lvl l)).
    { clear - IH Hs. induction l as [|x l' IHl]; [apply Forall_nil|]. cbn [size_list] in Hs.
      assert (Hx : ge32 (wv true (S lvl) x)) by (apply IH; lia).
      destruct l' as [|y l''].
      - rewrite wl_one. cbn [ind nl]. rewrite app_nil_l, app_nil_r. exact Hx.
      - rewrite wl_more. cbn [ind nl]. rewrite !app_nil_l. apply ge32_app; [exact Hx|]. apply ge32_cons; [lia|].
        apply IHl. cbn [size_list] in *. lia. }
    cbn [nl ind]. rewrite !app_nil_l. apply ge32_cons; [lia|]. apply ge32_app; [exact Hl|]. apply ge32_cons; [lia|apply Forall_nil].
  - rewrite wv_obj. rewrite size_obj in Hs.
    assert (Hl : ge32 (wo true lvl kv)).
    { clear - IH Hs. induction kv as [|[k x] kv' IHl]; [apply Forall_nil|]. cbn [size_members] in Hs.
      assert (Hx : ge32 (wv true (S lvl) x)) by (apply IH; lia).
      pose proof (quote_ge k) as Hq.
      destruct kv' as [|y kv''].
      - rewrite wo_one. cbn [ind nl sp]. rewrite !app_nil_l, app_nil_r. apply ge32_app; [exact Hq|]. apply ge32_cons; [lia|exact Hx].
      - rewrite wo_more. cbn [ind nl sp]. rewrite !app_nil_l. apply ge32_app; [exact Hq|]. apply ge32_cons; [lia|].
        apply ge32_app; [exact Hx|]. apply ge32_cons; [lia|]. apply IHl. cbn [size_members] in *. destruct y. lia. }
    cbn [nl ind]. rewrite !app_nil_l. apply ge32_cons; [lia|]. apply ge32_app; [exact Hl|]. apply ge32_cons; [lia|apply Forall_nil].
Qed.
Theorem compact_no_control v : ge32 (write_doc true v).
Proof. unfold write_doc. cbn [nl]. rewrite app_nil_r. apply (compact_ge_sized (size v)). lia. Qed.
Corollary compact_one_line v : ~ In 10 (write_doc true v) /\ ~ In 13 (write_doc true v).
Proof.
  pose proof (compact_no_control v) as H. unfold ge32 in H. rewrite Forall_forall in H.
  split; intros Hin; apply H in Hin; lia.
Qed.
Lemma no_line_break_ge32 s : ge32 s -> no_line_break s = true.
Proof.
  intros H. unfold no_line_break. apply forallb_forall. unfold ge32 in H. rewrite Forall_forall in H.
  intros c Hc. apply H in Hc. apply negb_true_iff, orb_false_iff. split; apply N.eqb_neq; lia.
Qed.

(* ---------- the key sort ---------- *)
Fixpoint go (l acc : list (str * json)) : list (str * json) :=
  match l with [] => acc | (k, x) :: r => go r (ins k (sort_keys x) acc) end.
Lemma sort_keys_obj kv : sort_keys (JObj kv) = JObj (go kv []). Proof. reflexivity. Qed.
Lemma sort_keys_arr l : sort_keys (JArr l) = JArr (map sort_keys l). Proof. reflexivity. Qed.

Lemma ins_wf k v : units k -> wf v -> forall l, wf_members l -> wf_members (ins k v l).
Proof.
  intros Hk Hv. induction l as [|[k' v'] r IH]; intros Hl; cbn [ins].
  - cbn. tauto.
  - destruct Hl as (Hk' & Hv' & Hr). destruct (str_ltb k k'); [cbn; tauto|].
    destruct (str_ltb k' k); cbn [wf_members]; [split; [exact Hk'|split; [exact Hv'|apply IH, Hr]]|tauto].
Qed.
Lemma sort_keys_wf_sized : forall n v, (size v <= n)%nat -> wf v -> wf (sort_keys v).
Proof.
  induction n as [|n IH]; intros v Hs Hw; [destruct v; cbn in Hs; lia|].
  destruct v as [|b|z|s|l|kv]; try exact Hw.
  - rewrite sort_keys_arr, wf_arr. rewrite size_arr in Hs. rewrite wf_arr in Hw.
    induction l as [|x l' IHl]; [exact I|]. cbn [size_list] in Hs. destruct Hw as [Hx Hl'].
    cbn [map wf_list]. split; [apply IH; [lia|exact Hx]|apply IHl; [lia|exact Hl']].
  - rewrite sort_keys_obj, wf_obj. rewrite size_obj in Hs. rewrite wf_obj in Hw.
    assert (G : forall kv acc, (size_members kv <= n)%nat -> wf_members kv -> wf_members acc -> wf_members (go kv acc)).
    { clear - IH. induction kv as [|[k x] kv' IHkv]; intros acc Hs Hw Ha; [exact Ha|].
      cbn [size_members] in Hs. destruct Hw as (Hk & Hx & Hkv'). cbn [go].
      apply IHkv; [lia|exact Hkv'|]. apply ins_wf; [exact Hk|apply IH; [lia|exact Hx]|exact Ha]. }
    apply G; [lia|exact Hw|exact I].
Qed.
Theorem sort_keys_wf v : wf v -> wf (sort_keys v).
Proof. apply (sort_keys_wf_sized (size v)). lia. Qed.

(* trichotomy of the key order *)
Lemma ltb_tricho a : forall b, str_ltb a b = false -> str_ltb b a = false -> a = b.
Proof.
  induction a as [|x a IH]; intros [|y b] H1 H2; cbn in *; try reflexivity; try discriminate.
  destruct (N.ltb_spec x y); [discriminate|]. destruct (N.ltb_spec y x); [discriminate|].
  assert (x = y) by lia. subst. f_equal. apply IH; assumption.
Qed.
Lemma ltb_irrefl a : str_ltb a a = false.
Proof. induction a as [|x a IH]; [reflexivity|]. cbn. rewrite N.ltb_irrefl. exact IH. Qed.

Lemma look_ins k k' v l : look k (ins k' v l) = if seqb k k' then Some v else look k l.
Proof.
  induction l as [|[k0 v0] r IH]; cbn [ins look]; [reflexivity|].
  destruct (str_ltb k' k0) eqn:E1; [reflexivity|].
  destruct (str_ltb k0 k') eqn:E2.
  - cbn [look]. rewrite IH. destruct (seqb_spec k k0) as [->|]; [|reflexivity].
    destruct (seqb_spec k0 k') as [->|]; [rewrite ltb_irrefl in E2; discriminate|reflexivity].
  - pose proof (ltb_tricho k' k0 E1 E2) as ->. cbn [look]. destruct (seqb k k0); reflexivity.
Qed.

(* the loop of sort_keys: of the pairs with the same key the LAST one wins *)
Fixpoint last_val (k : str) (l : list (str * json)) (d : option json) : option json :=
  match l with [] => d | (k', v) :: r => last_val k r (if seqb k k' then Some (sort_keys v) else d) end.
Lemma look_go k : forall l acc, look k (go l acc) = last_val k l (look k acc).
Proof.
  induction l as [|[k' v] r IH]; intros acc; cbn [go last_val]; [reflexivity|].
  rewrite IH, look_ins. reflexivity.
Qed.
Definition not_key (k : str) (l : list (str * json)) : Prop := Forall (fun kv => fst kv <> k) l.
Lemma has_key_false k l : has_key k l = false -> not_key k l.
Proof.
  unfold has_key, not_key. induction l as [|[k' v] r IH]; intros H; [constructor|]. cbn [existsb fst] in H.
  apply orb_false_iff in H as [H1 H2]. constructor; [|apply IH, H2]. cbn [fst]. intros ->. rewrite seqb_refl in H1. discriminate.
Qed.
Lemma last_val_absent k l d : not_key k l -> last_val k l d = d.
Proof.
  intros H. revert d. induction H as [|[k' v] r Hk _ IH]; intros d; [reflexivity|]. cbn [last_val].
  destruct (seqb_spec k k') as [->|]; [cbn in Hk; contradiction|apply IH].
Qed.
Lemma last_val_app k a : forall b d, last_val k (a ++ b) d = last_val k b (last_val k a d).
Proof. induction a as [|[k' v] r IH]; intros b d; cbn [app last_val]; [reflexivity|apply IH]. Qed.
Lemma last_val_unique k v : forall l d, NoDup (map fst l) -> In (k, v) l -> last_val k l d = Some (sort_keys v).
Proof.
  induction l as [|[k' v'] r IH]; intros d Hnd Hin; [contradiction|]. cbn [map fst] in Hnd. inversion Hnd as [|? ? Hni Hnd']; subst.
  cbn [last_val]. destruct Hin as [E|Hin].
  - injection E as -> ->. rewrite seqb_refl. apply last_val_absent.
    unfold not_key. rewrite Forall_forall. intros [k2 v2] H2 E2. cbn [fst] in E2. subst. apply Hni. apply in_map_iff. exists (k, v2). split; [reflexivity|exact H2].
  - apply IH; assumption.
Qed.
Lemma last_val_last k v pre post d : not_key k post -> last_val k (pre ++ (k, v) :: post) d = Some (sort_keys v).
Proof. intros H. rewrite last_val_app. cbn [last_val]. rewrite seqb_refl. apply last_val_absent, H. Qed.

(* ---------- values already in QVariantMap form (keys strictly increasing) are fixed by the key sort ---------- *)
Fixpoint canonical (v : json) : Prop :=
  match v with
  | JArr l => (fix f (l : list json) := match l with [] => True | x :: r => canonical x /\ f r end) l
  | JObj kv => (fix f (l : list (str * json)) :=
                  match l with [] => True
                  | (k, x) :: r => Forall (fun kv' => str_ltb k (fst kv') = true) r /\ canonical x /\ f r end) kv
  | _ => True
  end.
Fixpoint canonical_list (l : list json) : Prop := match l with [] => True | x :: r => canonical x /\ canonical_list r end.
Fixpoint canonical_members (l : list (str * json)) : Prop :=
  match l with [] => True | (k, x) :: r => Forall (fun kv' => str_ltb k (fst kv') = true) r /\ canonical x /\ canonical_members r end.
Lemma canonical_arr l : canonical (JArr l) = canonical_list l. Proof. reflexivity. Qed.
Lemma canonical_obj kv : canonical (JObj kv) = canonical_members kv. Proof. reflexivity. Qed.
Lemma ltb_asym a : forall b, str_ltb a b = true -> str_ltb b a = false.
Proof.
  induction a as [|x a IH]; intros [|y b] H; cbn in *; try reflexivity; try discriminate.
  destruct (N.ltb_spec x y); [destruct (N.ltb_spec y x); [lia|reflexivity]|].
  destruct (N.ltb_spec y x); [discriminate|]. apply IH, H.
Qed.
Lemma ins_last k v : forall acc, Forall (fun kv' => str_ltb (fst kv') k = true) acc -> ins k v acc = acc ++ [(k, v)].
Proof.
  induction acc as [|[k' v'] r IH]; intros H; [reflexivity|]. inversion H as [|? ? Hk Hr]; subst. cbn [fst] in Hk.
  cbn [ins app]. rewrite (ltb_asym k' k Hk), Hk, (IH Hr). reflexivity.
Qed.
Lemma sort_keys_canonical_sized : forall n v, (size v <= n)%nat -> canonical v -> sort_keys v = v.
Proof.
  induction n as [|n IH]; intros v Hs Hc; [destruct v; cbn in Hs; lia|].
  destruct v as [|b|z|s|l|kv]; try reflexivity.
  - rewrite sort_keys_arr. f_equal. rewrite size_arr in Hs. rewrite canonical_arr in Hc.
    induction l as [|x l' IHl]; [reflexivity|]. cbn [size_list] in Hs. destruct Hc as [Hx Hl']. cbn [map].
    rewrite (IH x) by (lia || exact Hx). rewrite IHl by (lia || exact Hl'). reflexivity.
  - rewrite sort_keys_obj. f_equal. rewrite size_obj in Hs. rewrite canonical_obj in Hc.
    assert (Gn : forall l acc, (size_members l <= n)%nat -> canonical_members l ->
                 (forall a b, In a acc -> In b l -> str_ltb (fst a) (fst b) = true) -> go l acc = acc ++ l).
    { clear - IH. induction l as [|[k x] r IHl]; intros acc Hs Hc Hlt; [cbn [go]; rewrite app_nil_r; reflexivity|].
      cbn [size_members] in Hs. destruct Hc as (Hk & Hx & Hr). cbn [go].
      rewrite (IH x) by (lia || exact Hx). rewrite ins_last.
      - rewrite IHl; [rewrite <- app_assoc; reflexivity|lia|exact Hr|].
        intros a b Ha Hb. apply in_app_or in Ha as [Ha|[<-|[]]].
        + apply Hlt; [exact Ha|right; exact Hb].
        + rewrite Forall_forall in Hk. apply Hk, Hb.
      - rewrite Forall_forall. intros a Ha. apply (Hlt a (k, x)); [exact Ha|left; reflexivity]. }
    rewrite Gn; [reflexivity|lia|exact Hc|intros a b []].
Qed.
Theorem sort_keys_canonical v : canonical v -> sort_keys v = v.
Proof. apply (sort_keys_canonical_sized (size v)). lia. Qed.

(* the key sort invents no member *)
Lemma ins_keys k v : forall l x, In x (map fst (ins k v l)) -> x = k \/ In x (map fst l).
Proof.
  induction l as [|[k' v'] r IH]; intros x H; cbn [ins] in H.
  - cbn in H. destruct H as [<-|[]]. left. reflexivity.
  - destruct (str_ltb k k'); [cbn [map fst In] in *; destruct H as [<-|H]; [left; reflexivity|right; exact H]|].
    destruct (str_ltb k' k); cbn [map fst In] in *.
    + destruct H as [<-|H]; [right; left; reflexivity|]. apply IH in H as [->|H]; [left; reflexivity|right; right; exact H].
    + destruct H as [<-|H]; [left; reflexivity|right; right; exact H].
Qed.
Lemma go_keys : forall l acc x, In x (map fst (go l acc)) -> In x (map fst l) \/ In x (map fst acc).
Proof.
  induction l as [|[k v] r IH]; intros acc x H; cbn [go] in H; [right; exact H|].
  apply IH in H as [H|H]; [left; right; exact H|]. apply ins_keys in H as [->|H]; [left; left; reflexivity|right; exact H].
Qed.
Lemma has_key_in k : forall l, In k (map fst l) -> has_key k l = true.
Proof.
  unfold has_key. induction l as [|[k' v] r IH]; intros H; [contradiction|]. cbn [map fst In existsb] in *.
  destruct H as [->|H]; [rewrite seqb_refl; reflexivity|]. rewrite (IH H). apply orb_true_r.
Qed.

(* ---------- the decidable condition on the translated configuration ---------- *)
Fixpoint nodupb (l : list str) : bool := match l with [] => true | k :: r => negb (existsb (seqb k) r) && nodupb r end.
Definition json_cfg_goodb (cfg : json_cfg) : bool :=
  forallb (fun kf => existsb (fun kf' => seqb (fst kf) (fst kf') && (bfield_code (snd kf) =? bfield_code (snd kf'))) (builtins cfg)) spec_fields
  && nodupb (map fst (builtins cfg)) && forallb unitsb (map fst (builtins cfg))
  && custom_overlay cfg && flag_true_is_compact cfg
  && forallb (fun t => seqb (type_name cfg t) (spec_type_name t)) [0; 1; 2; 3; 4]
  && forallb (fun kf => negb (bfield_code (snd kf) =? bfield_code BFormatted)) (builtins cfg)
  && forallb (fun kf => is_spec_name (fst kf)) (builtins cfg).

Lemma nodupb_NoDup l : nodupb l = true -> NoDup l.
Proof.
  induction l as [|k r IH]; intros H; [constructor|]. cbn [nodupb] in H. apply andb_prop in H as [H1 H2].
  constructor; [|apply IH, H2]. intros Hin. apply negb_true_iff in H1.
  assert (E : existsb (seqb k) r = true) by (apply existsb_exists; exists k; split; [exact Hin|apply seqb_refl]). congruence.
Qed.
Lemma unitsb_units s : unitsb s = true -> units s.
Proof. unfold unitsb, units. rewrite forallb_forall, Forall_forall. intros H x Hx. apply H in Hx. apply N.ltb_lt in Hx. exact Hx. Qed.
Lemma bfield_code_inj a b : bfield_code a = bfield_code b -> a = b.
Proof. destruct a, b; cbn; intros H; try reflexivity; discriminate. Qed.

Record cfg_good (cfg : json_cfg) : Prop := {
  g_spec : forall k f, In (k, f) spec_fields -> In (k, f) (builtins cfg);
  g_nodup : NoDup (map fst (builtins cfg));
  g_units : Forall units (map fst (builtins cfg));
  g_overlay : custom_overlay cfg = true;
  g_flag : flag_true_is_compact cfg = true;
  g_types : forall t, t < 5 -> type_name cfg t = spec_type_name t;
  g_nofmt : forall k, ~ In (k, BFormatted) (builtins cfg);
  g_only : forall k, In k (map fst (builtins cfg)) -> is_spec_name k = true }.
Lemma cfg_goodb_good cfg : json_cfg_goodb cfg = true -> cfg_good cfg.
Proof.
  unfold json_cfg_goodb. intros H. apply andb_prop in H as [H Hon].
  apply andb_prop in H as [H Hnf]. apply andb_prop in H as [H Hty]. apply andb_prop in H as [H Hfl].
  apply andb_prop in H as [H Hov]. apply andb_prop in H as [H Hun]. apply andb_prop in H as [Hsp Hnd].
  constructor.
  - intros k f Hin. rewrite forallb_forall in Hsp. apply Hsp in Hin. apply existsb_exists in Hin as ([k' f'] & Hin & E).
    cbn [fst snd] in E. apply andb_prop in E as [E1 E2]. apply seqb_eq in E1. apply N.eqb_eq, bfield_code_inj in E2. subst. exact Hin.
  - apply nodupb_NoDup. exact Hnd.
  - rewrite Forall_forall. intros k Hk. apply unitsb_units. rewrite forallb_forall in Hun. apply Hun, Hk.
  - exact Hov.
  - exact Hfl.
  - intros t Ht. rewrite forallb_forall in Hty. apply seqb_eq, Hty.
    assert (Hc : In t (map N.of_nat (seq 0 5))) by (apply in_map_iff; exists (N.to_nat t); split; [apply N2Nat.id|apply in_seq; lia]).
    exact Hc.
  - intros k Hin. rewrite forallb_forall in Hnf. apply Hnf in Hin. cbn in Hin. discriminate.
  - intros k Hin. apply in_map_iff in Hin as ([k' f] & <- & Hin). rewrite forallb_forall in Hon. apply (Hon _ Hin).
Qed.

(* ---------- well-formed messages ---------- *)
Definition wf_msg (m : lmsg) : Prop :=
  mtype m < 5 /\ units (mtext m) /\ units (cstr (mfile m)) /\ units (cstr (mfunc m)) /\ units (cstr (mcat m))
  /\ units (mtime m) /\ wf_members (mattrs m).
Lemma spec_type_units t : units (spec_type_name t).
Proof. unfold spec_type_name. repeat (destruct (_ =? _); [unfold units; repeat (apply Forall_cons; [lia|]); apply Forall_nil|]).
  unfold units; repeat (apply Forall_cons; [lia|]); apply Forall_nil. Qed.
Lemma field_value_atom tn f m : sort_keys (field_value tn f m) = field_value tn f m.
Proof. destruct f; reflexivity. Qed.
Lemma field_value_wf cfg f m : cfg_good cfg -> wf_msg m -> f <> BFormatted -> wf (field_value (type_name cfg) f m).
Proof.
  intros G (Ht & H1 & H2 & H3 & H4 & H5 & _) Hf. destruct f; cbn [field_value wf]; try assumption; try exact I; try contradiction.
  rewrite (g_types cfg G) by exact Ht. apply spec_type_units.
Qed.
Lemma wf_members_app a b : wf_members a -> wf_members b -> wf_members (a ++ b).
Proof. induction a as [|[k x] a IH]; intros Ha Hb; [exact Hb|]. destruct Ha as (H1 & H2 & H3). cbn. tauto. Qed.
Lemma all_attributes_wf cfg m : cfg_good cfg -> wf_msg m -> wf (all_attributes cfg m).
Proof.
  intros G Hm. unfold all_attributes. rewrite wf_obj. apply wf_members_app.
  - pose proof (g_units cfg G) as Hu. pose proof (g_nofmt cfg G) as Hn. clear - G Hm Hu Hn.
    induction (builtins cfg) as [|[k f] r IH]; [exact I|]. cbn [map fst snd wf_members] in *. inversion Hu; subst.
    split; [assumption|]. split.
    + apply field_value_wf; [exact G|exact Hm|]. intros ->. apply (Hn k). left. reflexivity.
    + apply IH; [assumption|]. intros k' Hin. apply (Hn k'). right. exact Hin.
  - destruct (custom_overlay cfg); [apply Hm|exact I].
Qed.

(* ---------- numeric QVariant types ---------- *)
Lemma num_store_in_range t z : num_in_range t z = true -> num_store t z = z.
Proof.
  unfold num_in_range, num_store, two24, two31, two32, two53, two64.
  destruct t; intros H; apply andb_prop in H as [H1 H2]; try reflexivity; lia.
Qed.
(* outside the range the 32-bit types wrap: the model follows the C++ conversion *)
Lemma num_store_wraps : num_store TInt two31 = (- two31)%Z /\ num_store TUInt (-1) = (two32 - 1)%Z /\ num_store TUInt two32 = 0%Z.
Proof. repeat split. Qed.
(* the decimal text of a number identifies it *)
Lemma uint_chars_inj a : forall b, uint_chars a = uint_chars b -> a = b.
Proof.
  induction a; destruct b; cbn [uint_chars]; intros E; try reflexivity; try discriminate E;
    injection E as E; try discriminate; f_equal; apply IHa; assumption.
Qed.
Lemma uint_chars_not_minus u : forall t, uint_chars u <> 45 :: t.
Proof. destruct u; cbn [uint_chars]; intros t E; discriminate E. Qed.
Theorem num_chars_inj a b : num_chars a = num_chars b -> a = b.
Proof.
  unfold num_chars. intros E. rewrite <- (DecimalZ.of_to a), <- (DecimalZ.of_to b).
  destruct (Z.to_int a) as [u|u], (Z.to_int b) as [w|w].
  - apply uint_chars_inj in E. subst. reflexivity.
  - exfalso. exact (uint_chars_not_minus _ _ E).
  - exfalso. symmetry in E. exact (uint_chars_not_minus _ _ E).
  - injection E as E. apply uint_chars_inj in E. subst. reflexivity.
Qed.

(* ---------- the headline results, for every good configuration ---------- *)
Section Good.
Variable cfg : json_cfg.
Hypothesis G : json_cfg_goodb cfg = true.
Let Gp : cfg_good cfg := cfg_goodb_good cfg G.

(* valid, exactly one object, lossless: the text parses back to the very object that was written *)
Theorem format_roundtrip flag m : wf_msg m ->
  parse_doc (json_format cfg flag m) = Some (sort_keys (all_attributes cfg m)).
Proof. intros Hm. unfold json_format. apply parse_doc_write_doc, sort_keys_wf, all_attributes_wf; assumption. Qed.
Theorem format_parse_rest flag m : wf_msg m -> forall fuel, (fuel > size (sort_keys (all_attributes cfg m)))%nat ->
  parse fuel (json_format cfg flag m) = Some (sort_keys (all_attributes cfg m), nl flag).
Proof.
  intros Hm fuel Hf. unfold json_format, mode_of. rewrite (g_flag cfg Gp).
  apply parse_write_doc; [apply sort_keys_wf, all_attributes_wf; assumption|exact Hf].
Qed.
Theorem exactly_one_object flag m : wf_msg m -> exists kv, parse_doc (json_format cfg flag m) = Some (JObj kv).
Proof. intros Hm. rewrite format_roundtrip by exact Hm. unfold all_attributes. rewrite sort_keys_obj. eexists. reflexivity. Qed.

Definition members_of (m : lmsg) : list (str * json) :=
  go (map (fun kf => (fst kf, field_value (type_name cfg) (snd kf) m)) (builtins cfg) ++ mattrs m) [].
Lemma sorted_is_members m : sort_keys (all_attributes cfg m) = JObj (members_of m).
Proof. unfold all_attributes, members_of. rewrite (g_overlay cfg Gp). apply sort_keys_obj. Qed.

(* every built-in field the property names, unless a custom attribute has taken its name *)
Theorem builtin_recovered m k f : mtype m < 5 -> In (k, f) spec_fields -> has_key k (mattrs m) = false ->
  look k (members_of m) = Some (field_value spec_type_name f m).
Proof.
  intros Ht Hin Hk. unfold members_of. rewrite look_go, last_val_app. rewrite (last_val_absent k (mattrs m)) by (apply has_key_false, Hk).
  set (B := map _ (builtins cfg)).
  assert (Hfst : map fst B = map fst (builtins cfg)) by (unfold B; rewrite map_map; reflexivity).
  rewrite (last_val_unique k (field_value (type_name cfg) f m)).
  - rewrite field_value_atom. f_equal. destruct f; try reflexivity. cbn [field_value]. rewrite (g_types cfg Gp) by exact Ht. reflexivity.
  - rewrite Hfst. apply (g_nodup cfg Gp).
  - unfold B. apply in_map_iff. exists (k, f). split; [reflexivity|apply (g_spec cfg Gp), Hin].
Qed.
(* every custom attribute, at its last setting (whether or not it shadows a built-in) *)
Theorem custom_recovered m pre k v post : mattrs m = pre ++ (k, v) :: post -> has_key k post = false ->
  look k (members_of m) = Some (sort_keys v).
Proof.
  intros E Hk. unfold members_of. rewrite look_go, E, app_assoc. apply last_val_last, has_key_false, Hk.
Qed.

(* the property in one statement: what an independent reader gets back from the text *)
Theorem fields_recovered flag m : wf_msg m ->
  exists kv, parse_doc (json_format cfg flag m) = Some (JObj kv)
    /\ (forall k f, In (k, f) spec_fields -> has_key k (mattrs m) = false -> look k kv = Some (field_value spec_type_name f m))
    /\ (forall pre k v post, mattrs m = pre ++ (k, v) :: post -> has_key k post = false -> look k kv = Some (sort_keys v)).
Proof.
  intros Hm. exists (members_of m). split; [rewrite format_roundtrip by exact Hm; rewrite sorted_is_members; reflexivity|]. split.
  - intros k f Hin Hk. apply builtin_recovered; [apply Hm|exact Hin|exact Hk].
  - intros pre k v post E Hk. apply (custom_recovered m pre k v post E Hk).
Qed.
(* null source-location pointers are rendered as the empty string *)
Theorem null_pointers_render_empty flag m : wf_msg m ->
  exists kv, parse_doc (json_format cfg flag m) = Some (JObj kv)
    /\ (mfile m = None -> has_key k_file (mattrs m) = false -> look k_file kv = Some (JStr []))
    /\ (mfunc m = None -> has_key k_function (mattrs m) = false -> look k_function kv = Some (JStr []))
    /\ (mcat m = None -> has_key k_category (mattrs m) = false -> look k_category kv = Some (JStr [])).
Proof.
  intros Hm. destruct (fields_recovered flag m Hm) as (kv & Hp & Hb & _). exists kv. split; [exact Hp|].
  split; [|split]; intros E Hk.
  - rewrite (Hb k_file BFile) by (cbn; tauto || exact Hk). cbn [field_value]. rewrite E. reflexivity.
  - rewrite (Hb k_function BFunction) by (cbn; tauto || exact Hk). cbn [field_value]. rewrite E. reflexivity.
  - rewrite (Hb k_category BCategory) by (cbn; tauto || exact Hk). cbn [field_value]. rewrite E. reflexivity.
Qed.

(* nothing else: every member of the record is a built-in field or an attribute of this message *)
Theorem nothing_else m k : In k (map fst (members_of m)) -> is_spec_name k = true \/ has_key k (mattrs m) = true.
Proof.
  unfold members_of. intros H. apply go_keys in H as [H|[]]. rewrite map_app in H. apply in_app_or in H as [H|H].
  - left. apply (g_only cfg Gp). rewrite map_map in H. exact H.
  - right. apply has_key_in, H.
Qed.
Theorem record_has_nothing_else flag m : wf_msg m ->
  exists kv, parse_doc (json_format cfg flag m) = Some (JObj kv)
    /\ forall k, In k (map fst kv) -> is_spec_name k = true \/ has_key k (mattrs m) = true.
Proof.
  intros Hm. exists (members_of m). split; [rewrite format_roundtrip by exact Hm; rewrite sorted_is_members; reflexivity|apply nothing_else].
Qed.

(* compact mode: no character below U+0020 anywhere in the record, hence no LF and no CR *)
Theorem compact_record_one_line m : ge32 (json_format cfg true m).
Proof. unfold json_format, mode_of. rewrite (g_flag cfg Gp). apply compact_no_control. Qed.

(* the oracle evaluated by the check holds of the model's own output *)
Lemma customs_ok_suffix m : forall l pre, mattrs m = pre ++ l -> customs_ok (members_of m) l = true.
Proof.
  induction l as [|[k v] r IH]; intros pre E; [reflexivity|]. cbn [customs_ok].
  rewrite (IH (pre ++ [(k, v)])) by (rewrite <- app_assoc; exact E). rewrite andb_true_r.
  destruct (has_key k r) eqn:Hk; [reflexivity|]. cbn [orb]. destruct (is_spec_name k); [reflexivity|].
  rewrite (custom_recovered m pre k v r E Hk). apply json_eqb_refl.
Qed.
Theorem oracle_holds flag m : wf_msg m -> prop_c13_b flag m (json_format cfg flag m) = true.
Proof.
  intros Hm. unfold prop_c13_b. rewrite format_roundtrip by exact Hm. rewrite sorted_is_members.
  apply andb_true_intro. split; [apply andb_true_intro; split; [apply andb_true_intro; split|]|].
  - unfold fields_ok. apply forallb_forall. intros [k f] Hin. cbn [fst snd].
    destruct (has_key k (mattrs m)) eqn:Hk; [reflexivity|].
    rewrite (builtin_recovered m k f (proj1 Hm) Hin Hk). apply json_eqb_refl.
  - apply (customs_ok_suffix m (mattrs m) []). reflexivity.
  - destruct flag; [|reflexivity]. apply no_line_break_ge32, compact_record_one_line.
  - unfold only_known. apply forallb_forall. intros [k v] Hin. cbn [fst]. apply orb_true_iff.
    apply nothing_else. apply in_map_iff. exists (k, v). split; [reflexivity|exact Hin].
Qed.
(* numeric attribute values of every QVariant type (int, uint, qlonglong, qulonglong, double, float):
   within the range of the type the stored number is z itself and it is read back as z *)
Theorem numeric_attribute_recovered flag m pre k t z post : wf_msg m ->
  mattrs m = pre ++ (k, num_value t z) :: post -> has_key k post = false -> num_in_range t z = true ->
  exists kv, parse_doc (json_format cfg flag m) = Some (JObj kv) /\ look k kv = Some (JNum z).
Proof.
  intros Hm E Hk Hr. destruct (fields_recovered flag m Hm) as (kv & Hp & _ & Hc). exists kv. split; [exact Hp|].
  rewrite (Hc pre k (num_value t z) post E Hk). unfold num_value. rewrite (num_store_in_range t z Hr). reflexivity.
Qed.
End Good.

(* the documented type names identify the type *)
Lemma spec_type_name_injective : forall a b, a < 5 -> b < 5 -> spec_type_name a = spec_type_name b -> a = b.
Proof.
  intros a b Ha Hb.
  assert (Hc : forall t, t < 5 -> In t [0;1;2;3;4]).
  { intros t Ht. assert (Hi : In t (map N.of_nat (seq 0 5))) by (apply in_map_iff; exists (N.to_nat t); split; [apply N2Nat.id|apply in_seq; lia]). exact Hi. }
  pose proof (Hc a Ha) as Ia. pose proof (Hc b Hb) as Ib. cbn [In] in Ia, Ib.
  repeat (destruct Ia as [<-|Ia]); try contradiction; repeat (destruct Ib as [<-|Ib]); try contradiction; cbn; intros E; try reflexivity; discriminate.
Qed.

(* ------------------------------------------------------------------ front ends (round 8) *)
Lemma front_good_inv : forall fr, front_goodb fr = true ->
  fluent_obj fr = FFresh /\ ctor_default_compact fr = false /\ instance_flag fr = false.
Proof.
  intros fr H. unfold front_goodb in H. apply andb_true_iff in H. destruct H as [H H3].
  apply andb_true_iff in H. destruct H as [H1 H2].
  unfold instance_flag. destruct (fluent_obj fr); try discriminate.
  destruct (ctor_default_compact fr); try discriminate.
  destruct (instance_arg fr) as [[|]|]; try discriminate; auto.
Qed.

Lemma obtain_all_static_flag : forall fr, front_goodb fr = true -> forall cs st,
  (st = None \/ st = Some false) -> (obtain_all fr st cs = None \/ obtain_all fr st cs = Some false).
Proof.
  intros fr G. destruct (front_good_inv fr G) as [Hf [Hc Hi]].
  induction cs as [|c cs IH]; intros st Hst; [exact Hst|].
  unfold obtain_all in *. cbn [fold_left]. apply IH.
  destruct c as [flag|]; unfold obtain; rewrite ?Hf; cbn [fst]; [exact Hst|].
  destruct Hst as [-> | ->]; cbn [fst]; rewrite ?Hi; auto.
Qed.

Lemma front_gives_requested : forall fr, front_goodb fr = true -> forall cs c,
  snd (obtain fr (obtain_all fr None cs) c) = requested c.
Proof.
  intros fr G cs c. destruct (front_good_inv fr G) as [Hf [Hc Hi]].
  destruct (obtain_all_static_flag fr G cs None (or_introl eq_refl)) as [E | E]; rewrite E;
    destruct c as [flag|]; unfold obtain, requested; rewrite ?Hf, ?Hi; reflexivity.
Qed.

Lemma front_format_is_requested_format : forall cfg fr, front_goodb fr = true -> forall cs c m,
  front_format cfg fr cs c m = json_format cfg (requested c) m.
Proof. intros cfg fr G cs c m. unfold front_format. rewrite (front_gives_requested fr G). reflexivity. Qed.

Definition shared_front : json_front := {| fluent_obj := FShared; ctor_default_compact := false; instance_arg := None |}.
Lemma shared_front_refuted : exists cs, snd (obtain shared_front (obtain_all shared_front None cs) (CFluent true)) = false.
Proof. exists [CFluent false]. reflexivity. Qed.
Lemma shared_front_refuted_by_instance : exists cs, snd (obtain shared_front (obtain_all shared_front None cs) (CFluent true)) = false
  /\ Forall (fun c => c = CInstance) cs.
Proof. exists [CInstance]. split; [reflexivity | repeat constructor]. Qed.
