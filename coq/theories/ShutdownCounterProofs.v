(* C04 — the width of the pending counter: lemmas *)
From Coq Require Import ZArith Arith Lia Bool.
Require Import QtlVerif.ShutdownCounterDefs.

Lemma counter_reads_small bits n : (Z.of_nat n <= counter_capacity bits)%Z -> counter_reads bits n = Z.of_nat n.
Proof.
  unfold counter_capacity, counter_reads. intros H.
  assert (Hm : (0 < 2 ^ Z.of_nat bits)%Z) by (apply Z.pow_pos_nonneg; lia).
  set (m := (2 ^ Z.of_nat bits)%Z) in *.
  assert (Hh : (m / 2 <= m)%Z) by (apply Z.div_le_upper_bound; lia).
  assert (Hlt : (Z.of_nat n < m / 2)%Z) by lia.
  rewrite Z.mod_small by lia.
  destruct (Z.ltb_spec (Z.of_nat n) (m / 2)); [reflexivity|lia].
Qed.
(* within the capacity of the counter the loop test of the code IS the loop test of the model *)
Theorem drain_test_faithful bits n : (Z.of_nat n <= counter_capacity bits)%Z -> drain_test bits n = Nat.ltb 0 n.
Proof.
  intros H. unfold drain_test. rewrite (counter_reads_small bits n H).
  destruct (Z.ltb_spec 0 (Z.of_nat n)); destruct (Nat.ltb_spec 0 n); try reflexivity; lia.
Qed.
Theorem drain_test_faithful_b bits n : counter_covers bits (Z.of_nat n) = true -> drain_test bits n = Nat.ltb 0 n.
Proof. intros H. apply drain_test_faithful. unfold counter_covers in H. apply Z.leb_le. exact H. Qed.
