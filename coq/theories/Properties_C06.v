(* C06 — Retention bounds the file count and deletes only the oldest rotated files.
   Property theorems only; each is closed by [exact] of a lemma of RotateProofs.v, instantiated at
   [src_shape], the decision shapes tools/src2coq.py reads from rotatingfilesink.cpp / filesink.cpp /
   iodevicesink.cpp on every run.  [run src_shape c t0 ops] is the model the check executes against
   the real sink (coq/extract/Ex_rotate.v extracts these very definitions).
   Quantification: every op list [ops] (Write of any payload and any message type / Advance of the wall clock, never
   backwards / Restart / PutForeign), every configuration [c] (any L, any N, all 8 option sets, three
   timestamp granularities, any base name and suffix, any time zone offset within +-24 h), any start time.  Hypothesis [clean c ops]:
   nobody else creates files that follow the sink's own rotated-name scheme (PutForeign names are
   rejected by the sink's recogniser).  The model's wall clock saturates at 9999-12-31. *)
From Coq Require Import List ZArith Sorted.
Import ListNotations.
Require Import QtlVerif.RotateDefs QtlVerif.RotateProofs QtlVerif.SrcRotate.
Local Open Scope Z_scope.

(* the translated source has exactly the decision shapes the lemmas are proved for (by computation) *)
Theorem C06_source_shape : shape_eqb src_shape std_shape = true.
Proof. vm_compute. reflexivity. Qed.
Print Assumptions C06_source_shape.

(* N >= 2: rotated files + the active file are at most N (after every operation, a fortiori after every write) *)
Theorem C06_count_bound : forall c t0 ops, clean c ops -> let w := run src_shape c t0 ops in 2 <= cN c -> Z.of_nat (length (rot w)) + 1 <= cN c.
Proof. exact (fun c t0 ops H => T_count_bound src_shape C06_source_shape c t0 ops H). Qed.
Print Assumptions C06_count_bound.

(* the removed files are a prefix of the rotation order: their records precede all surviving records and their (date, index) keys are below all surviving keys *)
Theorem C06_victims_are_oldest : forall c t0 ops, clean c ops -> let w := run src_shape c t0 ops in hist w = contents (gone w) ++ contents (rot w) ++ act w /\ StronglySorted lt_key (gone w ++ rot w).
Proof. exact (fun c t0 ops H => conj (T_history_conserved src_shape C06_source_shape c t0 ops H) (proj1 (T_keys_increase src_shape C06_source_shape c t0 ops H))). Qed.
Print Assumptions C06_victims_are_oldest.

(* so the surviving records are one contiguous most-recent stretch of the history *)
Theorem C06_survivors_contiguous : forall c t0 ops, clean c ops -> let w := run src_shape c t0 ops in contents (rot w) ++ act w = skipn (length (contents (gone w))) (hist w).
Proof. exact (fun c t0 ops H => T_survivors_contiguous src_shape C06_source_shape c t0 ops H). Qed.
Print Assumptions C06_survivors_contiguous.

(* N <= 0: nothing is ever removed *)
Theorem C06_no_delete : forall c t0 ops, clean c ops -> let w := run src_shape c t0 ops in cN c <= 0 -> gone w = [] /\ hist w = contents (rot w) ++ act w.
Proof. exact (fun c t0 ops H => T_no_delete src_shape C06_source_shape c t0 ops H). Qed.
Print Assumptions C06_no_delete.

(* N = 1: no rotated file is ever produced *)
Theorem C06_no_rotated_when_one : forall c t0 ops, clean c ops -> let w := run src_shape c t0 ops in cN c = 1 -> rot w = [] /\ gone w = [].
Proof. exact (fun c t0 ops H => T_no_rotated_when_one src_shape C06_source_shape c t0 ops H). Qed.
Print Assumptions C06_no_rotated_when_one.

(* no operation of the sink changes, removes or renames a file outside its name scheme (from ANY world) *)
Theorem C06_foreign_untouched : forall c w o, (forall n b, o <> PutForeign n b) -> foreign (step src_shape c w o) = foreign w.
Proof. exact (fun c w o => T_foreign_untouched src_shape c w o C06_source_shape). Qed.
Print Assumptions C06_foreign_untouched.

(* and a file whose name the recogniser rejects is invisible to the sink *)
Theorem C06_foreign_inert : forall c w n b, parse_name c n = None -> let w' := step src_shape c w (PutForeign n b) in
  gone w' = gone w /\ rot w' = rot w /\ act w' = act w /\ act_mt w' = act_mt w /\ now w' = now w /\
  inited w' = inited w /\ cur w' = cur w /\ hist w' = hist w.
Proof. exact (T_foreign_inert src_shape). Qed.
Print Assumptions C06_foreign_inert.

(* the boolean oracle of the check *)
Theorem C06_oracle_holds : forall c t0 ops, clean c ops -> let w := run src_shape c t0 ops in prop_c06_b std_shape c (snap_of w) = true.
Proof. exact (fun c t0 ops H => proj1 (proj2 (T_oracles src_shape C06_source_shape c t0 ops H))). Qed.
Print Assumptions C06_oracle_holds.

(* ---- names: the active file and foreign files can never be taken for rotated files ---- *)

(* the recogniser rejects the active file's own name, for every base name and suffix *)
Theorem C06_active_name_not_rotated : forall c, parse_name c (active_name c) = None.
Proof. exact (parse_rejects_active). Qed.
Print Assumptions C06_active_name_not_rotated.

(* and no rendered rotated name equals it *)
Theorem C06_rotated_name_not_active : forall c f, render c f <> active_name c.
Proof. exact (render_not_active). Qed.
Print Assumptions C06_rotated_name_not_active.

(* the foreign files of every reachable directory have pairwise distinct names outside the scheme, none of them the active name *)
Theorem C06_foreign_names_stay_foreign : forall c t0 ops, clean c ops -> let w := run src_shape c t0 ops in NoDup (map xname (foreign w)) /\
  Forall (fun x => parse_name c (xname x) = None /\ xname x <> active_name c) (foreign w).
Proof. exact (fun c t0 ops H => T_foreign_ok src_shape C06_source_shape c t0 ops H). Qed.
Print Assumptions C06_foreign_names_stay_foreign.

(* non-vacuity: ten rotations within one timestamp tick (1 s granularity), N = 3: indices 9 -> 10 are
   crossed, the two newest rotated files survive, a look-alike foreign name is rejected *)
Example C06_nonvacuous :
  let c := {| cL := 2; cN := 3; startup := false; daily := false; compress := false; cgran := G1s; cbase := [97%N]; csuffix := [108%N]; ctz := 0 |} in
  let w := run src_shape c 1700000000000 (repeat (Write TInfo [120%N]) 11) in
  (map fidx (gone w), map fidx (rot w), map rid (act w), parse_name c [120%N; 97%N; 46%N]) = ([1; 2; 3; 4; 5; 6; 7; 8], [9; 10], [10%nat], None).
Proof. vm_compute. reflexivity. Qed.
