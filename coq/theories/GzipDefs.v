(* C08 — executable model of compressFile()/calculateCRC32() of rotatingfilesink.cpp and an RFC 1952
   member reader.  Definitions only (no proofs): this file must keep compiling and extracting when a
   proof elsewhere breaks.  Everything the code fixes by a literal (polynomial, initial value, final
   xor, index mask, header bytes, slice offsets, guard, level, buffer size, trailer order and byte
   order) is a field of [gz_cfg]; tools/s2c/gzip.py regenerates the value [src_gz] (SrcGzip.v) from
   the source on every run.  zlib's deflate/inflate are parameters of the functions that need them
   (Section variables with a stated hypothesis in GzipProofs.v). *)
From Coq Require Import List NArith Bool.
Import ListNotations.
Local Open Scope N_scope.

Definition bytes := list N.
Definition wf_bytes (d : bytes) : Prop := Forall (fun b => b < 256) d.
Definition wf_bytesb (d : bytes) : bool := forallb (fun b => b <? 256) d.

(* length in N, by a fold (a nat holding a data-dependent size does not survive extraction) *)
Definition lenN (d : bytes) : N := fold_left (fun n _ => N.succ n) d 0.
Fixpoint bytes_eqb (a b : bytes) : bool :=
  match a, b with
  | [], [] => true
  | x :: a', y :: b' => if x =? y then bytes_eqb a' b' else false
  | _, _ => false
  end.

Inductive endian := LE | BE.
Inductive tfield := TCrc | TSize.
Record gz_cfg := {
  g_poly : N; g_init : N; g_xorout : N;     (* calculateCRC32: polynomial, crc = ..., return crc ^ ... *)
  g_mask : N; g_shift : N;                  (* table[(crc ^ b) & mask] ^ (crc >> shift) *)
  g_table_size : N; g_bits : N;             (* for i < 256, for j < 8 *)
  g_buf : N;                                (* char buffer[8192] *)
  g_header : bytes;                         (* the ten bytes written before the body *)
  g_level : N;                              (* qCompress(rawData, 5) *)
  g_guard : N;                              (* if (compressed.size() > 10) *)
  g_front : N; g_sub_a : N; g_sub_b : N;    (* write(constData() + 6, size() - 6 - 4) *)
  g_trailer : list tfield; g_endian : endian }.

(* ---- CRC-32 ---- *)
Definition rfc_poly : N := 0xEDB88320.       (* RFC 1952 section 8, reflected *)
Definition ones32 : N := 0xFFFFFFFF.
Definition two32 : N := 4294967296.
Definition crc_step (poly x : N) : N :=
  if N.odd x then N.lxor (N.shiftr x 1) poly else N.shiftr x 1.
Fixpoint crc_iter (poly : N) (k : nat) (x : N) : N :=
  match k with O => x | S k' => crc_iter poly k' (crc_step poly x) end.
Definition crc_table (poly : N) : list N := map (fun i => crc_iter poly 8 (N.of_nat i)) (seq 0 256).
Definition crc_update_table (t : list N) (mask : N) (crc b : N) : N :=
  N.lxor (nth (N.to_nat (N.land (N.lxor crc b) mask)) t 0) (N.shiftr crc 8).
Definition crc_update_bitwise (poly : N) (crc b : N) : N := crc_iter poly 8 (N.lxor crc b).

(* the code's loop: one running crc across all chunks read from the file *)
Definition crc_chunks (cfg : gz_cfg) (chunks : list bytes) : N :=
  let t := crc_table (g_poly cfg) in
  N.lxor (fold_left (fun c ch => fold_left (crc_update_table t (g_mask cfg)) ch c) chunks (g_init cfg))
         (g_xorout cfg).
Definition crc32 (cfg : gz_cfg) (d : bytes) : N :=
  N.lxor (fold_left (crc_update_table (crc_table (g_poly cfg)) (g_mask cfg)) d (g_init cfg)) (g_xorout cfg).
(* the specification: bit-at-a-time CRC-32 of RFC 1952 / ISO 3309 *)
Definition crc32_bitwise (d : bytes) : N :=
  N.lxor (fold_left (crc_update_bitwise rfc_poly) d ones32) ones32.

(* file.read(buffer, sizeof buffer) until atEnd: chunks of [n] bytes, the last one shorter *)
Fixpoint chunk_go (n : N) (d : bytes) (cur : bytes) (k : N) (acc : list bytes) : list bytes :=
  match d with
  | [] => rev' (match cur with [] => acc | _ => rev' cur :: acc end)
  | x :: t => if N.succ k =? n then chunk_go n t [] 0 (rev' (x :: cur) :: acc)
              else chunk_go n t (x :: cur) (N.succ k) acc
  end.
Definition chunks_of (n : N) (d : bytes) : list bytes := chunk_go n d [] 0 [].
Definition file_crc (cfg : gz_cfg) (d : bytes) : N := crc_chunks cfg (chunks_of (g_buf cfg) d).

(* ---- framing ---- *)
Definition le32 (x : N) : bytes := [x mod 256; (x / 256) mod 256; (x / 65536) mod 256; (x / 16777216) mod 256].
Definition be32 (x : N) : bytes := [(x / 16777216) mod 256; (x / 65536) mod 256; (x / 256) mod 256; x mod 256].
Definition enc32 (e : endian) (x : N) : bytes := match e with LE => le32 x | BE => be32 x end.
Definition field_value (cfg : gz_cfg) (d : bytes) (f : tfield) : N :=
  match f with TCrc => file_crc cfg d | TSize => lenN d mod two32 end.   (* static_cast<quint32>(size) *)
Definition trailer (cfg : gz_cfg) (d : bytes) : bytes :=
  flat_map (fun f => enc32 (g_endian cfg) (field_value cfg d f)) (g_trailer cfg).
(* what RFC 1952 prescribes after the compressed blocks *)
Definition rfc_trailer (d : bytes) : bytes := le32 (crc32_bitwise d) ++ le32 (lenN d mod two32).

(* compressed.constData() + front, compressed.size() - sub_a - sub_b *)
Definition slice (cfg : gz_cfg) (z : bytes) : bytes :=
  firstn (length z - N.to_nat (g_sub_a cfg) - N.to_nat (g_sub_b cfg)) (skipn (N.to_nat (g_front cfg)) z).
Definition body_of (cfg : gz_cfg) (z : bytes) : bytes :=
  if g_guard cfg <? lenN z then slice cfg z else [].
(* Adler-32 of zlib (RFC 1950), only needed to state Qt's framing of qCompress *)
Definition adler32 (d : bytes) : N :=
  let '(a, b) := fold_left (fun '(a, b) x => let a' := (a + x) mod 65521 in (a', (b + a') mod 65521)) d (1, 0) in
  b * 65536 + a.

Section Zlib.
  Variable deflate : bytes -> bytes.                    (* raw deflate stream at the configured level *)
  Variable inflate : bytes -> option (bytes * bytes).   (* decoded data, unconsumed input *)
  Variable zhdr : bytes.                                (* the two zlib header bytes (CMF, FLG) *)

  (* Qt: 4-byte big-endian uncompressed length, then the zlib stream *)
  Definition qcompress (d : bytes) : bytes :=
    be32 (lenN d mod two32) ++ zhdr ++ deflate d ++ be32 (adler32 d).
  (* what compressFile() leaves in <name>.gz for an input file with content d *)
  Definition compress_file (cfg : gz_cfg) (d : bytes) : bytes :=
    g_header cfg ++ body_of cfg (qcompress d) ++ trailer cfg d.
  (* the gzip member RFC 1952 prescribes for d with this header *)
  Definition gzip_member (cfg : gz_cfg) (d : bytes) : bytes :=
    g_header cfg ++ deflate d ++ rfc_trailer d.

  (* ---- RFC 1952 member reader (section 2.3): fixed header, FEXTRA, FNAME, FCOMMENT, FHCRC,
     compressed blocks, CRC32, ISIZE.  The header CRC16 is skipped, not verified (a decompressor
     "may" check it); reserved flag bits must be zero, CM must be 8. ---- *)
  Definition un_le32 (b : bytes) : option (N * bytes) :=
    match b with a :: b' :: c :: d :: r => Some (a + 256 * b' + 65536 * c + 16777216 * d, r) | _ => None end.
  Definition un_le16 (b : bytes) : option (N * bytes) :=
    match b with a :: b' :: r => Some (a + 256 * b', r) | _ => None end.
  Fixpoint drop_exact (n : nat) (b : bytes) : option bytes :=
    match n, b with O, _ => Some b | S n', _ :: t => drop_exact n' t | S _, [] => None end.
  Fixpoint skip_zstr (b : bytes) : option bytes :=
    match b with [] => None | x :: t => if x =? 0 then Some t else skip_zstr t end.
  Definition obind {A B} (o : option A) (f : A -> option B) : option B :=
    match o with Some a => f a | None => None end.
  Definition gunzip_member (b : bytes) : option (bytes * bytes) :=
    match b with
    | id1 :: id2 :: cm :: flg :: _ :: _ :: _ :: _ :: _ :: _ :: r0 =>
      if (id1 =? 31) && (id2 =? 139) && (cm =? 8) && (flg <? 32) then
        obind (if N.testbit flg 2
               then obind (un_le16 r0) (fun xr => drop_exact (N.to_nat (fst xr)) (snd xr))
               else Some r0) (fun r1 =>
        obind (if N.testbit flg 3 then skip_zstr r1 else Some r1) (fun r2 =>
        obind (if N.testbit flg 4 then skip_zstr r2 else Some r2) (fun r3 =>
        obind (if N.testbit flg 1 then drop_exact 2 r3 else Some r3) (fun r4 =>
        obind (inflate r4) (fun dr =>
        obind (un_le32 (snd dr)) (fun cr =>
        obind (un_le32 (snd cr)) (fun sr =>
        if (fst cr =? crc32_bitwise (fst dr)) && (fst sr =? lenN (fst dr) mod two32)
        then Some (fst dr, snd sr) else None)))))))
      else None
    | _ => None
    end.
  (* a file holding exactly one member *)
  Definition gunzip (b : bytes) : option bytes :=
    match gunzip_member b with Some (d, []) => Some d | _ => None end.

  (* ---- the boolean oracle evaluated on what the implementation wrote: the file is one
     well-formed member whose content, CRC-32 and ISIZE are those of [expected] ---- *)
  Definition prop_c08_b (expected file : bytes) : bool :=
    match gunzip file with Some d => bytes_eqb d expected | None => false end.
End Zlib.

(* ---- decidable well-formedness of the translated configuration ---- *)
Definition tfield_eqb (a b : tfield) : bool :=
  match a, b with TCrc, TCrc | TSize, TSize => true | _, _ => false end.
Fixpoint tfields_eqb (a b : list tfield) : bool :=
  match a, b with [] , [] => true | x :: a', y :: b' => tfield_eqb x y && tfields_eqb a' b' | _, _ => false end.
Definition header_okb (h : bytes) : bool :=
  match h with
  | id1 :: id2 :: cm :: flg :: m0 :: m1 :: m2 :: m3 :: xfl :: os :: [] =>
    (id1 =? 31) && (id2 =? 139) && (cm =? 8) && (flg =? 0) && wf_bytesb h
  | _ => false
  end.
Definition cfg_goodb (c : gz_cfg) : bool :=
  (g_poly c =? rfc_poly) && (g_init c =? ones32) && (g_xorout c =? ones32)
  && (g_mask c =? 255) && (g_shift c =? 8) && (g_table_size c =? 256) && (g_bits c =? 8)
  && (0 <? g_buf c)
  && header_okb (g_header c)
  && (g_level c <=? 9)
  && (g_front c =? 6) && (g_sub_a c =? 6) && (g_sub_b c =? 4) && (g_guard c =? 10)
  && tfields_eqb (g_trailer c) [TCrc; TSize]
  && match g_endian c with LE => true | BE => false end.

(* ---- order of the file operations of compressFile(), translated from its body ---- *)
Inductive cstmt := COpenIn | CCreateOut | CReadCrc | CWriteHeader | CReadAll | CWriteBody | CWriteTrailer
                 | CCloseIn | CCloseOut | CRemoveOrig.
Definition cstmt_code (s : cstmt) : nat :=
  match s with COpenIn => 0 | CCreateOut => 1 | CReadCrc => 2 | CWriteHeader => 3 | CReadAll => 4
             | CWriteBody => 5 | CWriteTrailer => 6 | CCloseIn => 7 | CCloseOut => 8 | CRemoveOrig => 9 end.
Definition cstmt_eqb (a b : cstmt) : bool := Nat.eqb (cstmt_code a) (cstmt_code b).
Fixpoint index_of (s : cstmt) (l : list cstmt) : option nat :=
  match l with [] => None | x :: t => if cstmt_eqb s x then Some O
                                       else match index_of s t with Some k => Some (S k) | None => None end end.
Definition before (a b : cstmt) (l : list cstmt) : bool :=
  match index_of a l, index_of b l with Some i, Some j => Nat.ltb i j | _, _ => false end.
Definition count_of (s : cstmt) (l : list cstmt) : nat := length (filter (cstmt_eqb s) l).
(* the original is removed once, as the very last operation, after header, body and trailer were
   written and the output closed; both files are opened before anything is written *)
Definition removed_lastb (l : list cstmt) : bool :=
  Nat.eqb (count_of CRemoveOrig l) 1 && Nat.eqb (count_of CCloseOut l) 1
  && match rev l with CRemoveOrig :: _ => true | _ => false end
  && before COpenIn CCreateOut l && before CCreateOut CWriteHeader l
  && before CWriteHeader CWriteBody l && before CWriteBody CWriteTrailer l
  && before CReadAll CWriteBody l && before CReadCrc CWriteTrailer l
  && before CWriteTrailer CCloseOut l && before CCloseOut CRemoveOrig l.
