(* C12 — Pattern formatting follows the documented mini-language; values are verbatim.
   Property theorems only; each is closed by [exact] of a lemma of PatternProofs.v.  They speak about
   [format_model] / [format_pattern] / [parse_pattern] / [pad] / [parse_spec] of PatternDefs.v — the
   definitions that are extracted and run against the real PatternFormatter — instantiated with the
   constants tools/s2c/pattern.py reads from patternformatter.cpp and logmessage.h on every run.
   Strings are UTF-16 code units; c_pct = '%', c_lbrace = '{', c_rbrace = '}'. *)
From Coq Require Import List NArith ZArith Bool.
Import ListNotations.
Require Import QtlVerif.SrcPattern QtlVerif.PatternDefs QtlVerif.PatternProofs.
Local Open Scope N_scope.

(* the source carries "remove M after" out of band (a counter), not as a marker code point inside the
   output buffer: this is what makes [format_model] the out-of-band evaluator.  Reverting the F4 repair
   makes this (and with it every theorem below that depends on it) fail to check. *)
Theorem C12_source_removal_is_out_of_band : src_inband_marker = None.
Proof. reflexivity. Qed.
Print Assumptions C12_source_removal_is_out_of_band.

(* ---- 1. literal text, %%, lone %, unterminated placeholder ---- *)
Theorem C12_literal_verbatim : forall p m, p <> [] -> ~ In c_pct p -> format_pattern p m = p.
Proof. exact (M_literal_verbatim C12_source_removal_is_out_of_band). Qed.
Print Assumptions C12_literal_verbatim.

Theorem C12_percent_escape : forall a b m, ~ In c_pct a -> ~ In c_pct b ->
  format_pattern (a ++ [c_pct; c_pct] ++ b) m = a ++ [c_pct] ++ b.
Proof. exact (M_percent_escape C12_source_removal_is_out_of_band). Qed.
Print Assumptions C12_percent_escape.

Theorem C12_lone_percent : forall a b m, ~ In c_pct a -> ~ In c_pct b ->
  (match b with c :: _ => c <> c_lbrace | [] => True end) ->
  format_pattern (a ++ [c_pct] ++ b) m = a ++ [c_pct] ++ b.
Proof. exact (M_lone_percent C12_source_removal_is_out_of_band). Qed.
Print Assumptions C12_lone_percent.

Theorem C12_unterminated_placeholder_literal : forall a b m, ~ In c_pct a -> ~ In c_pct b -> ~ In c_rbrace b ->
  format_pattern (a ++ [c_pct; c_lbrace] ++ b) m = a ++ [c_pct; c_lbrace] ++ b.
Proof. exact (M_unterminated C12_source_removal_is_out_of_band). Qed.
Print Assumptions C12_unterminated_placeholder_literal.

(* the general form of the four: ANY pattern in which no "%{" is ever closed by a '}' (any number and
   mix of '%', "%%", "%{", '{', '}' before) is reproduced with every "%%" collapsed to '%' *)
Theorem C12_pattern_without_placeholder : forall p m, p <> [] -> no_placeholder p = true ->
  format_pattern p m = unescape p.
Proof. exact (M_without_placeholder C12_source_removal_is_out_of_band). Qed.
Print Assumptions C12_pattern_without_placeholder.

(* ---- the tokeniser on every pattern written in the documented grammar ----
   text without '%' | "%%" | "%{body}" (body without '}'): literal text accumulates, "%%" adds one '%',
   a placeholder first flushes the pending literal into its own token and then acts as [ph_step] says
   (token of the classified kind with the condition in force and the accepted format spec, or a change
   of the condition); the first '}' closes the placeholder. *)
Theorem C12_tokeniser_follows_grammar : forall items, Forall wf_item items ->
  parse_pattern (unparse items) = finish (fold_left sem_item items ([], None, [])).
Proof. exact parse_grammar. Qed.
Print Assumptions C12_tokeniser_follows_grammar.

(* ---- 2. the documented padding tables, row group by row group ---- *)
(* "Padding Only (No !)": width - |v| fill units (none if the value is longer: never truncated),
   on the right for '<', on the left for '>', floor(p/2) left and the rest right for '^' *)
Theorem C12_padding_table_pad_only : forall f a w v,
  let p := (N.to_nat w - length v)%nat in
  pad (Some {| fill := f; al := Some a; width := w; mode := MNone |}) v = repeat f (lpad a p) ++ v ++ repeat f (rpad a p).
Proof. exact pad_only. Qed.
Print Assumptions C12_padding_table_pad_only.
Theorem C12_padding_table_pad_only_length : forall f a w v,
  length (pad (Some {| fill := f; al := Some a; width := w; mode := MNone |}) v) = Nat.max (length v) (N.to_nat w).
Proof. exact pad_only_length. Qed.
Print Assumptions C12_padding_table_pad_only_length.
(* "Truncation Only (! Without Fill)": never padded; first w units kept, last w units for '>' *)
Theorem C12_padding_table_truncate_only : forall f a w v,
  pad (Some {| fill := f; al := a; width := w; mode := MOnly |}) v =
  if (length v <=? N.to_nat w)%nat then v else match a with Some ARight => lastn (N.to_nat w) v | _ => firstn (N.to_nat w) v end.
Proof. exact truncate_only. Qed.
Print Assumptions C12_padding_table_truncate_only.
Theorem C12_padding_table_truncate_only_length : forall f a w v,
  length (pad (Some {| fill := f; al := a; width := w; mode := MOnly |}) v) = Nat.min (length v) (N.to_nat w).
Proof. exact truncate_only_length. Qed.
Print Assumptions C12_padding_table_truncate_only_length.
(* "Truncation AND Padding (! With Fill)": truncated as above, then padded as above: exactly w units *)
Theorem C12_padding_table_truncate_and_pad : forall f a w v,
  pad (Some {| fill := f; al := Some a; width := w; mode := MTrunc |}) v =
  pad (Some {| fill := f; al := Some a; width := w; mode := MNone |})
      (if (N.to_nat w <? length v)%nat then match a with ARight => lastn (N.to_nat w) v | _ => firstn (N.to_nat w) v end else v).
Proof. exact truncate_and_pad. Qed.
Print Assumptions C12_padding_table_truncate_and_pad.
Theorem C12_padding_table_truncate_and_pad_exact : forall f a w v,
  length (pad (Some {| fill := f; al := Some a; width := w; mode := MTrunc |}) v) = N.to_nat w.
Proof. exact truncate_and_pad_exact. Qed.
Print Assumptions C12_padding_table_truncate_and_pad_exact.

(* ---- 3. conditionals ---- *)
(* %{if-T} B %{endif}: exactly the tokens of B (literal text included) carry condition T; what comes
   before keeps its own condition, what comes after has none; A, B, C are arbitrary grammar patterns
   (B and C without further if-/endif) *)
Theorem C12_conditional_tokens : forall A B C name T,
  In (name, T) documented_types -> Forall wf_item A -> Forall wf_item B -> Forall wf_item C ->
  forallb (fun i => negb (is_cond_item i)) B = true -> forallb (fun i => negb (is_cond_item i)) C = true ->
  parse_pattern (unparse (A ++ IPh (x_if name) :: B ++ IPh src_ph_endif :: C))
  = parse_pattern (unparse A) ++ map (set_cond (Some T)) (parse_pattern (unparse B)) ++ parse_pattern (unparse C).
Proof. exact conditional_tokens. Qed.
Print Assumptions C12_conditional_tokens.
(* ... and a token under condition T is evaluated iff the message has type T: *)
Theorem C12_condition_holds_iff_type : forall m T t, cond_ok m (set_cond (Some T) t) = true <-> T = mt m.
Proof. exact (fun m T t => mtype_eqb_eq T (mt m)). Qed.
Print Assumptions C12_condition_holds_iff_type.
(* ... the output is the output of the tokens whose condition holds (unless none is left: then it is
   the empty string, not the raw message) *)
Theorem C12_only_active_tokens_count : forall toks m, active m toks <> [] ->
  format_model toks m = format_model (active m toks) m.
Proof. exact (M_conditional C12_source_removal_is_out_of_band). Qed.
Print Assumptions C12_only_active_tokens_count.
Theorem C12_inactive_token_contributes_nothing : forall m a t b st, cond_ok m t = false ->
  run_oob m (a ++ t :: b) st = run_oob m (a ++ b) st.
Proof. exact inactive_contributes_nothing. Qed.
Print Assumptions C12_inactive_token_contributes_nothing.

(* ---- 4. values are verbatim ---- *)
(* (c) the tokeniser has this type: it is given the pattern and nothing else, so no character of a
   message, category, file or attribute value can be read as pattern syntax.  (A typing fact of the
   model; on the implementation side parsePattern() runs in the constructor, before any message exists.) *)
Definition C12_tokeniser_never_sees_a_value : qstr -> list token := parse_pattern.
(* Likewise the message record [msg] the evaluator reads has a [text] field and NO formatted-text field:
   %{message} is the raw message text whatever an earlier formatter (or an earlier pass of this one) left
   in the message - the correspondence leg formats a share of the cases on messages that already carry
   formatter output and compares with the model on the original text. *)
Theorem C12_format_is_parse_then_evaluate : forall p m, format_pattern p m = format_model (parse_pattern p) m.
Proof. exact (fun p m => eq_refl). Qed.
Print Assumptions C12_format_is_parse_then_evaluate.
(* (a) if no missing optional attribute asks for a removal, the output is EXACTLY the concatenation,
   token by token, of literal text / padded value / nothing — every value at its token's position,
   verbatim or as its documented padding/truncation, whatever characters it contains *)
Theorem C12_values_verbatim : forall toks m, toks <> [] -> existsb (removes m) (active m toks) = false ->
  format_model toks m = concat_pieces m toks.
Proof. exact (M_values_verbatim C12_source_removal_is_out_of_band). Qed.
Print Assumptions C12_values_verbatim.
Theorem C12_no_token_raw_message : forall toks m, toks = [] -> format_model toks m = text m.
Proof. exact (M_empty C12_source_removal_is_out_of_band). Qed.
Print Assumptions C12_no_token_raw_message.
(* (b) the missing optional attribute a?N,M.  [pre]/[post] contain no other active removing attribute,
   [mid] only tokens that insert nothing (inactive, or an empty value); counts fit in int (they always do:
   C12_removal_counts_fit_int).  The last N units of the text produced so far go (none if fewer than N
   exist), and the first M units of the literal emitted directly after it (all of it if it is shorter) *)
Theorem C12_missing_optional_literal_next : forall m pre mid post o n rb ra,
  forallb (plain m) pre = true -> kind o = KAttr n true rb ra -> cond_ok m o = true -> lookup n (attrs m) = None ->
  ra <= src_pending_max -> forallb (silent m) mid = true -> forallb (plain m) post = true ->
  forall l txt, kind l = KLit txt -> cond_ok m l = true ->
  format_model (pre ++ o :: mid ++ l :: post) m
  = chop_if rb (concat_pieces m pre) ++ skipn (N.to_nat ra) txt ++ concat_pieces m post.
Proof. exact (M_rule_literal_next C12_source_removal_is_out_of_band). Qed.
Print Assumptions C12_missing_optional_literal_next.
(* ... a token that inserts a non-empty value directly after it cancels the "M after" request *)
Theorem C12_missing_optional_value_next : forall m pre mid post o n rb ra,
  forallb (plain m) pre = true -> kind o = KAttr n true rb ra -> cond_ok m o = true -> lookup n (attrs m) = None ->
  ra <= src_pending_max -> forallb (silent m) mid = true -> forallb (plain m) post = true ->
  forall t, is_lit t = false -> removes m t = false -> cond_ok m t = true -> piece m t <> [] ->
  format_model (pre ++ o :: mid ++ t :: post) m
  = chop_if rb (concat_pieces m pre) ++ piece m t ++ concat_pieces m post.
Proof. exact (M_rule_value_next C12_source_removal_is_out_of_band). Qed.
Print Assumptions C12_missing_optional_value_next.
Theorem C12_missing_optional_at_end : forall m pre mid o n rb ra,
  forallb (plain m) pre = true -> kind o = KAttr n true rb ra -> cond_ok m o = true -> lookup n (attrs m) = None ->
  ra <= src_pending_max -> forallb (silent m) mid = true ->
  format_model (pre ++ o :: mid) m = chop_if rb (concat_pieces m pre).
Proof. exact (M_rule_at_end C12_source_removal_is_out_of_band). Qed.
Print Assumptions C12_missing_optional_at_end.
Theorem C12_removal_counts_fit_int : forall s, count_of s <= src_pending_max.
Proof. exact count_of_le. Qed.
Print Assumptions C12_removal_counts_fit_int.
(* ... and that is the ONLY way a character can disappear: for every token list and message the output
   is a subsequence of the concatenation (nothing added, altered, reordered) which lost at most the
   sum of the N's and M's of the active missing optional attributes *)
Theorem C12_only_requested_removals_lose_characters : forall toks m, toks <> [] ->
  Subseq (format_model toks m) (concat_pieces m toks) /\
  lenN (concat_pieces m toks) <= lenN (format_model toks m) + budget m toks.
Proof. exact (M_subsequence C12_source_removal_is_out_of_band). Qed.
Print Assumptions C12_only_requested_removals_lose_characters.

(* null vs empty: a pattern with at least one token never yields a NULL string - when no token emits
   anything (all sections conditional on other types) the result is the EMPTY string, so that the message
   counts as formatted and sinks print nothing instead of the raw text.  Without any token the result is
   the message itself (what the code does today). *)
Theorem C12_result_never_null_with_tokens : forall toks b, toks <> [] -> result_is_null toks b = false.
Proof. exact result_not_null. Qed.
Print Assumptions C12_result_never_null_with_tokens.
Theorem C12_result_without_tokens_is_the_message : forall b, result_is_null [] b = b.
Proof. exact result_null_no_token. Qed.
Print Assumptions C12_result_without_tokens_is_the_message.

(* ---- the oracle the check evaluates on the implementation's output ---- *)
Theorem C12_oracle_holds_of_model : forall toks m, prop_c12_b toks m (format_model toks m) = true.
Proof. exact (M_oracle C12_source_removal_is_out_of_band). Qed.
Print Assumptions C12_oracle_holds_of_model.
Theorem C12_oracle_meaning : forall toks m o, prop_c12_b toks m o = true ->
  match toks with [] => o = text m | _ =>
    (existsb (removes m) (active m toks) = false -> o = concat_pieces m toks) /\
    Subseq o (concat_pieces m toks) /\ lenN (concat_pieces m toks) <= lenN o + budget m toks end.
Proof. exact oracle_meaning. Qed.
Print Assumptions C12_oracle_meaning.

(* ---- 4b. ONE formatter object formats MANY messages: format is a function of (pattern, message) ----
   [format_seq p leftover ms] runs the state machine of a PatternFormatter object ([calls_model]: the token
   list made by the constructor + the thread's pending-remove counter, which the calls read and write) over
   the messages [ms] in order, starting from an arbitrary left-over counter value.  Call by call the result is
   what the pattern and THAT message give: which attributes the earlier (or later) messages had or lacked, how
   many calls came before, and what was left in the counter do not matter.  (A literal after two adjacent
   optional attributes loses 0, M1, M2 or M1+M2 units depending on the message at hand - nothing about it
   can be remembered from one message to the next.)  The correspondence leg formats sequences of k >= 2
   messages with different attribute sets on one real object and compares every result with this model. *)
Theorem C12_format_is_a_function_of_pattern_and_message : forall p leftover ms,
  format_seq p leftover ms = map (format_pattern p) ms.
Proof. exact seq_stateless. Qed.
Print Assumptions C12_format_is_a_function_of_pattern_and_message.
Theorem C12_call_result_independent_of_history : forall p leftover history m later,
  nth_error (format_seq p leftover (history ++ m :: later)) (length history) = Some (format_pattern p m).
Proof. exact seq_history_independent. Qed.
Print Assumptions C12_call_result_independent_of_history.
(* the object is not changed by being used, and no pending removal is left behind for whatever formats next
   on this thread *)
Theorem C12_calls_leave_the_object_unchanged : forall p leftover ms,
  otoks (snd (calls_model (construct p leftover) ms)) = parse_pattern p /\
  (parse_pattern p <> [] -> ms <> [] -> opending (snd (calls_model (construct p leftover) ms)) = 0).
Proof. exact (fun p l ms => conj (seq_object_unchanged p l ms) (seq_no_pending_left C12_source_removal_is_out_of_band p l ms)). Qed.
Print Assumptions C12_calls_leave_the_object_unchanged.
(* every result of a sequence satisfies the oracle of its own message *)
Theorem C12_oracle_holds_of_sequence_model : forall p leftover ms, oracle_seq p ms (format_seq p leftover ms) = true.
Proof. exact (oracle_seq_holds C12_source_removal_is_out_of_band). Qed.
Print Assumptions C12_oracle_holds_of_sequence_model.
Theorem C12_sequence_oracle_meaning : forall p ms os, oracle_seq p ms os = true ->
  Forall2 (fun m o => oracle_pattern p m o = true) ms os.
Proof. exact oracle_seq_meaning. Qed.
Print Assumptions C12_sequence_oracle_meaning.
(* not vacuous: a format() without its two counter resets is NOT a function of (pattern, message) *)
Theorem C12_without_the_resets_history_matters : exists p m,
  let o0 := construct p 0 in
  fst (call_leaky o0 m) = x_l_out1 /\ fst (call_leaky (snd (call_leaky o0 m)) m) = x_l_out2 /\
  format_seq p 0 [m; m] = [x_l_out1; x_l_out1].
Proof. exact leaky_refuted. Qed.
Print Assumptions C12_without_the_resets_history_matters.
(* "%{a?,1}%{b?,1}::: %{message}": the literal ":::" loses 2, then 1, then 2 units on the same object *)
Example C12_sequence_with_different_missing_attributes :
  format_seq x_q_pat 3 [msg0 Info [109] []; msg0 Info [109] [([97], AStr [65])]; msg0 Info [109] []] = [x_q_o1; x_q_o2; x_q_o1].
Proof. vm_compute. reflexivity. Qed.

(* ---- 4c. %{time <format>}: the text is that of the message at hand, call after call ----
   [mtime m f] stands for what the environment (QDateTime::toString of m's time stamp with format f, or the
   process-/boot-relative seconds of m's steady-clock stamp) renders for message m.  A time token contributes
   exactly this text (padded by its format spec, under its type condition) - for every call on the same object,
   whatever was formatted before: two messages of the same clock second that differ in their milliseconds get
   their own milliseconds.  The correspondence leg formats sequences of messages constructed a few milliseconds
   apart (inside one second and across a second boundary) on one real object and computes [mtime] from the
   message's own time stamps, without the formatter under test. *)
Theorem C12_time_token_prints_the_time_of_the_message : forall f c sp m,
  format_model [time_tok f c sp] m = if cond_ok m (time_tok f c sp) then pad sp (mtime m f) else [].
Proof. exact (time_token_text C12_source_removal_is_out_of_band). Qed.
Print Assumptions C12_time_token_prints_the_time_of_the_message.
Theorem C12_time_text_is_that_of_the_message_at_hand : forall p leftover history m later f c sp,
  parse_pattern p = [time_tok f c sp] ->
  nth_error (format_seq p leftover (history ++ m :: later)) (length history)
  = Some (if cond_ok m (time_tok f c sp) then pad sp (mtime m f) else []).
Proof. exact (time_seq_nth C12_source_removal_is_out_of_band). Qed.
Print Assumptions C12_time_text_is_that_of_the_message_at_hand.
Theorem C12_time_token_piece : forall f c sp m, piece m (time_tok f c sp) = pad sp (mtime m f).
Proof. exact time_piece. Qed.
Print Assumptions C12_time_token_piece.
(* not vacuous: a token that re-renders only when a key of the message (its clock second) changes gives the second
   of two messages with the same key the first one's text *)
Theorem C12_time_text_kept_per_key_is_refuted : forall key f a b, key a = key b -> mtime a f <> mtime b f ->
  fst (time_cached_call key f (snd (time_cached_call key f None a)) b) = mtime a f /\
  fst (time_cached_call key f (snd (time_cached_call key f None a)) b) <> mtime b f.
Proof. exact time_cached_refuted. Qed.
Print Assumptions C12_time_text_kept_per_key_is_refuted.
(* "%{time zzz}" on one object: messages stamped .198 and .238 of the same second (and .198 again) *)
Example C12_time_sequence_within_one_second :
  parse_pattern x_tz_pat = [time_tok x_zzz None None] /\
  format_seq x_tz_pat 3 [msg_at Info 29 x_198; msg_at Warning 29 x_238; msg_at Info 29 x_198] = [x_198; x_238; x_198] /\
  format_seq x_tzw_pat 0 [msg_at Info 29 x_198; msg_at Warning 29 x_238] = [[91;48;48;48] ++ x_198 ++ [93]; [91;48;48;48] ++ x_238 ++ [93]] /\
  fst (time_cached_call (fun m => Z.to_N (mline m)) x_zzz (snd (time_cached_call (fun m => Z.to_N (mline m)) x_zzz None (msg_at Info 29 x_198))) (msg_at Warning 29 x_238)) = x_198.
Proof. vm_compute. repeat split. Qed.

(* ---- 5. the repaired defect (DESIGN section 5, F4): the in-band marker evaluator is refuted ---- *)
Theorem C12_inband_refuted_zero_width_space : exists p m,
  format_inband zwsp (parse_pattern p) m <> format_oob (parse_pattern p) m /\
  format_inband zwsp (parse_pattern p) m = x_w1_old /\ format_oob (parse_pattern p) m = x_w1_out.
Proof. exact inband_zwsp_refuted. Qed.
Print Assumptions C12_inband_refuted_zero_width_space.
Theorem C12_inband_refuted_values_not_verbatim : exists p m,
  existsb (removes m) (active m (parse_pattern p)) = false /\
  format_inband zwsp (parse_pattern p) m <> concat_pieces m (parse_pattern p).
Proof. exact inband_values_not_verbatim. Qed.
Print Assumptions C12_inband_refuted_values_not_verbatim.
Theorem C12_inband_refuted_buried_marker : exists p m,
  ~ In zwsp p /\ ~ In zwsp (text m) /\ attrs m = [] /\
  format_inband zwsp (parse_pattern p) m = x_w2_old /\ format_oob (parse_pattern p) m = x_w2_out.
Proof. exact inband_buried_marker_refuted. Qed.
Print Assumptions C12_inband_refuted_buried_marker.

(* ---- 6. parseFormatSpec accepts exactly [fill][align]width[!] ---- *)
(* One trailing '!' is the truncation suffix.  What is in front of it must be: fill+align+width (pad only;
   with '!' truncate AND pad), or align+width (default fill; with '!' truncate ONLY - no padding: the
   documented quirk of "<5!"), or, only with '!', a bare width (truncate only: "5!").  Anything else is
   rejected (a bare number without '!', an empty width, a width that toInt rejects or that is <= 0).
   [valid_width W = Some w] = QString::toInt accepts W (surrounding white space, a leading '+' included)
   with 0 < w <= INT_MAX. *)
Theorem C12_parse_spec_accepts_exactly : forall s0 sp,
  parse_spec s0 = Some sp <->
  (exists b, s0 = b ++ [src_bang] /\ SpecBody b true sp) \/ ((forall b, s0 <> b ++ [src_bang]) /\ SpecBody s0 false sp).
Proof. exact parse_spec_accepts_exactly. Qed.
Print Assumptions C12_parse_spec_accepts_exactly.
(* every plain decimal number 1..INT_MAX is a valid width *)
Theorem C12_decimal_width_accepted : forall W v, forallb is_digit W = true -> digits_val W 0%Z = Some v ->
  (0 < v <= 2147483647)%Z -> valid_width W = Some (Z.to_N v).
Proof. exact decimal_width_accepted. Qed.
Print Assumptions C12_decimal_width_accepted.

(* ---- non-vacuity: the documented examples, computed by the model ---- *)
Example C12_doc_optional_attribute_missing : format_pattern x_d1_pat (msg0 Info x_hello []) = x_d1_out.   (* "[%{user?1,1}] %{message}" -> " Hello" *)
Proof. vm_compute. reflexivity. Qed.
Example C12_doc_optional_attribute_present : format_pattern x_d1_pat (msg0 Info x_hello [(x_user, AStr x_admin)]) = x_d1_out2.
Proof. vm_compute. reflexivity. Qed.
Example C12_doc_seq_number : format_pattern x_d2_pat (msg0 Info x_hello [(x_seq, AInt 42)]) = x_d2_out.       (* "#42 Hello" *)
Proof. vm_compute. reflexivity. Qed.
Example C12_doc_padding_rows :
  format_pattern x_t1 (msg0 Debug [] []) = x_t1o /\ format_pattern x_t2 (msg0 Debug [] []) = x_t2o /\
  format_pattern x_t3 (msg0 Debug [] []) = x_t3o /\ format_pattern x_t4 (msg0 Debug [] []) = x_t4o /\
  format_pattern x_t5 (msg0 Warning [] []) = x_t5o /\ format_pattern x_t6 (msg0 Critical [] []) = x_t6o /\
  format_pattern x_t7 (msg0 Critical [] []) = x_t7o /\ format_pattern x_t8 (msg0 Critical [] []) = x_t7o /\
  format_pattern x_t9 (msg0 Critical [] []) = x_t9o /\ format_pattern x_t10 (msg0 Debug [] []) = x_t10o /\
  format_pattern x_t10 (msg0 Critical [] []) = x_t6o /\ format_pattern x_t11 (msg0 Info [] []) = x_t11o.
Proof. vm_compute. repeat split. Qed.
Example C12_doc_conditionals :
  format_pattern x_c1 (msg0 Debug x_hello []) = x_c1d /\ format_pattern x_c1 (msg0 Warning x_hello []) = x_c1w /\
  format_pattern x_c1 (msg0 Fatal x_hello []) = x_c1f.
Proof. vm_compute. repeat split. Qed.
Example C12_quirk_last_colon_spec : format_pattern x_q1 (msg0 Debug [] [(x_xy, AStr x_v)]) = x_q1o.           (* %{x:y:<4} is attribute "x:y" *)
Proof. vm_compute. reflexivity. Qed.
Example C12_mixed_pattern : format_pattern x_s1 (msg0 Debug x_hello []) = x_s1o.   (* "%{message} 100%% %{nope} %" *)
Proof. vm_compute. reflexivity. Qed.
Example C12_values_with_pattern_syntax_are_inert :   (* a message that looks like a pattern *)
  format_pattern x_d1_pat (msg0 Info x_d1_pat [(x_user, AStr x_c1)]) = [91] ++ x_c1 ++ [93; 32] ++ x_d1_pat.
Proof. vm_compute. reflexivity. Qed.
Example C12_spec_quirks :   (* "5!" and "<5!" truncate only; "*<5!" truncates and pads; "5", "<", "<0", "!" are no specs *)
  parse_spec [53;33] = Some (mk_spec 32 None MOnly 5) /\ parse_spec [60;53;33] = Some (mk_spec 32 (Some ALeft) MOnly 5) /\
  parse_spec [42;60;53;33] = Some (mk_spec 42 (Some ALeft) MTrunc 5) /\ parse_spec [42;60;53] = Some (mk_spec 42 (Some ALeft) MNone 5) /\
  parse_spec [53] = None /\ parse_spec [60] = None /\ parse_spec [60;48] = None /\ parse_spec [33] = None /\
  parse_spec [60;60;53] = Some (mk_spec 60 (Some ALeft) MNone 5).
Proof. vm_compute. repeat split. Qed.
(* the documented placeholder names, the conditionals and the four attribute forms, as the tokeniser classifies them *)
Example C12_placeholder_classification :
  classify [116;121;112;101] = PTok KType /\
  classify [108;105;110;101] = PTok KLine /\
  classify [102;105;108;101] = PTok KFile /\
  classify [115;104;111;114;116;102;105;108;101] = PTok (KShortFile []) /\
  classify [115;104;111;114;116;102;105;108;101;32;47;98;97;115;101;47;112;97;116;104] = PTok (KShortFile [47;98;97;115;101;47;112;97;116;104]) /\
  classify [102;117;110;99;116;105;111;110] = PTok KFunction /\
  classify [102;117;110;99] = PTok KFunc /\
  classify [99;97;116;101;103;111;114;121] = PTok KCategory /\
  classify [116;105;109;101] = PTok (KTime []) /\
  classify [116;105;109;101;32;104;104;58;109;109;58;115;115] = PTok (KTime [104;104;58;109;109;58;115;115]) /\
  classify [116;105;109;101;32;112;114;111;99;101;115;115] = PTok (KTime [112;114;111;99;101;115;115]) /\
  classify [116;104;114;101;97;100;105;100] = PTok KThreadId /\
  classify [113;116;104;114;101;97;100;112;116;114] = PTok KQThreadPtr /\
  classify [109;101;115;115;97;103;101] = PTok KMessage /\
  classify [105;102;45;100;101;98;117;103] = PCond (Some Debug) /\
  classify [105;102;45;105;110;102;111] = PCond (Some Info) /\
  classify [105;102;45;119;97;114;110;105;110;103] = PCond (Some Warning) /\
  classify [105;102;45;99;114;105;116;105;99;97;108] = PCond (Some Critical) /\
  classify [105;102;45;102;97;116;97;108] = PCond (Some Fatal) /\
  classify [105;102;45;98;111;103;117;115] = PCond (Some Debug) /\
  classify [101;110;100;105;102] = PCond None /\
  classify [117;115;101;114] = PTok (KAttr [117;115;101;114] false 0 0) /\
  classify [117;115;101;114;63] = PTok (KAttr [117;115;101;114] true 0 0) /\
  classify [117;115;101;114;63;50] = PTok (KAttr [117;115;101;114] true 2 0) /\
  classify [117;115;101;114;63;50;44;51] = PTok (KAttr [117;115;101;114] true 2 3) /\
  classify [117;115;101;114;63;44;51] = PTok (KAttr [117;115;101;114] true 0 3) /\
  classify [117;115;101;114;63;45;49;44;120] = PTok (KAttr [117;115;101;114] true 0 0) /\
  classify [77;101;115;115;97;103;101] = PTok (KAttr [77;101;115;115;97;103;101] false 0 0) /\
  classify [32;109;101;115;115;97;103;101] = PTok (KAttr [32;109;101;115;115;97;103;101] false 0 0).
Proof. vm_compute. repeat split. Qed.

(* ---- 7. the fluent front end (round 8): SimplePipeline::format(pattern) ----
   An application rarely constructs a PatternFormatter itself: it writes pipeline.format("..."), and the front end decides which
   formatter object the pipeline gets and from which argument it is made.  [src_pattern_front] is translated from the body of
   SimplePipeline::format(const QString &) / formatByQt() (simplepipeline.cpp) and from messagepatterns.h on every run.
   [front_format fr hs p m] = the text the pipeline built by format(p) gives for m, in a process that has called format(h) for
   every h of [hs] before; [reserved_names] = "default", "qt", "pretty" (the names of ready-made formats). *)
Require Import QtlVerif.PatternFrontDefs QtlVerif.PatternFrontProofs.
Theorem C12_source_front_end_good : front_goodb src_pattern_front = true.
Proof. vm_compute. reflexivity. Qed.
Print Assumptions C12_source_front_end_good.

(* every pattern that is not one of the three names reaches the PatternFormatter constructor unchanged, whatever was requested
   before: the pipeline's text is format_pattern p m, so that EVERY theorem above holds for formatters obtained the fluent way *)
Theorem C12_front_end_is_transparent : forall hs p m, ~ In p reserved_names ->
  front_format src_pattern_front hs p m = Some (format_pattern p m).
Proof. exact (front_transparent src_pattern_front C12_source_front_end_good). Qed.
Print Assumptions C12_front_end_is_transparent.
(* ... in particular every pattern in which a '%' occurs (a name has none) *)
Theorem C12_pattern_with_a_percent_sign_is_not_a_reserved_name : forall p, In c_pct p -> ~ In p reserved_names.
Proof. exact percent_not_reserved. Qed.
Print Assumptions C12_pattern_with_a_percent_sign_is_not_a_reserved_name.
(* ... and the object the pipeline holds is the very state machine of section 4b: k messages in a row *)
Theorem C12_front_end_object_is_the_direct_object : forall hs p leftover ms, ~ In p reserved_names ->
  front_format_seq src_pattern_front hs p leftover ms = Some (format_seq p leftover ms).
Proof. exact (front_seq_is_direct_seq src_pattern_front C12_source_front_end_good). Qed.
Print Assumptions C12_front_end_object_is_the_direct_object.
Theorem C12_front_end_sequence_is_a_function_of_pattern_and_message : forall hs p leftover ms, ~ In p reserved_names ->
  front_format_seq src_pattern_front hs p leftover ms = Some (map (format_pattern p) ms).
Proof. exact (front_seq_transparent src_pattern_front C12_source_front_end_good). Qed.
Print Assumptions C12_front_end_sequence_is_a_function_of_pattern_and_message.
(* the name "default" stands for DefaultMessagePattern of messagepatterns.h, formatted by the same PatternFormatter *)
Theorem C12_front_end_default_name : forall hs m,
  front_format src_pattern_front hs x_default m = Some (format_pattern src_default_message_pattern m).
Proof. exact (front_named_const src_pattern_front x_default src_default_message_pattern eq_refl C12_source_front_end_good). Qed.
Print Assumptions C12_front_end_default_name.
(* not vacuous: front ends that do not hand the argument on / trim it / hand out one shared static object are refuted *)
Theorem C12_front_end_dropping_the_pattern_refuted : exists p m, In c_pct p /\
  front_format dropped_front [] p m <> Some (format_pattern p m).
Proof. exact dropped_front_refuted. Qed.
Print Assumptions C12_front_end_dropping_the_pattern_refuted.
Theorem C12_front_end_shared_formatter_object_refuted : exists hs p m, In c_pct p /\
  front_format shared_front hs p m <> Some (format_pattern p m) /\ front_format shared_front [] p m = Some (format_pattern p m).
Proof. exact shared_front_refuted. Qed.
Print Assumptions C12_front_end_shared_formatter_object_refuted.
Theorem C12_front_end_trimming_the_pattern_refuted : exists p m, In c_pct p /\
  front_format trimmed_front [] p m <> Some (format_pattern p m).
Proof. exact trimmed_front_refuted. Qed.
Print Assumptions C12_front_end_trimming_the_pattern_refuted.
Example C12_front_nonvacuous :
  front_format src_pattern_front [x_pat_m; x_default; x_qt] x_d1_pat (msg0 Info x_hello []) = Some x_d1_out /\
  front_format src_pattern_front [] x_qt (msg0 Info x_hello []) = None /\
  front_goodb dropped_front = false /\ front_goodb shared_front = false /\ front_goodb trimmed_front = false /\
  by_qt src_pattern_front = TQt.
Proof. vm_compute. repeat split. Qed.
