(* C16 — lemmas.  Everything is generic in the configuration the translator reads from the source:
   it holds for every [cfg] that passes the decidable check [cfg_goodb]. *)
From Coq Require Import List NArith ZArith Bool Lia Arith.
Import ListNotations.
Require Import QtlVerif.RegexDefs QtlVerif.RegexProofs QtlVerif.FiltersDefs.

Definition all_types : list mtype := [Debug; Warning; Critical; Fatal; Info].
Definition field_is_message (f : field) : bool := match f with FMessage => true | FFormatted => false end.
Definition remode_is_search (m : remode) : bool := match m with RSearch => true | RWhole => false end.
(* the decidable condition on the translated configuration *)
Definition cfg_goodb (cfg : filters_cfg) : bool :=
  forallb (fun mn => forallb (fun t => Bool.eqb (level_pass cfg mn t) (level_spec mn t)) all_types) all_types
  && field_is_message (dup_cmp cfg) && field_is_message (dup_store cfg) && isnil (dup_init cfg)
  && Z.eqb (seq_init cfg) 0 && seq_post cfg && Z.eqb (seq_inc cfg) 1
  && field_is_message (re_field cfg) && remode_is_search (re_mode cfg).

Record cfg_good (cfg : filters_cfg) : Prop := {
  g_level : forall mn t, level_pass cfg mn t = level_spec mn t;
  g_dup_cmp : dup_cmp cfg = FMessage; g_dup_store : dup_store cfg = FMessage; g_dup_init : dup_init cfg = [];
  g_seq_init : seq_init cfg = 0%Z; g_seq_post : seq_post cfg = true; g_seq_inc : seq_inc cfg = 1%Z;
  g_re_field : re_field cfg = FMessage; g_re_mode : re_mode cfg = RSearch }.

Lemma cfg_goodb_good cfg : cfg_goodb cfg = true -> cfg_good cfg.
Proof.
  unfold cfg_goodb. rewrite !andb_true_iff. intros [[[[[[[[Hl H1] H2] H3] H4] H5] H6] H7] H8].
  constructor.
  - intros mn t. rewrite forallb_forall in Hl.
    assert (Hin : forall x : mtype, In x all_types) by (intros []; cbn; tauto).
    specialize (Hl mn (Hin mn)). rewrite forallb_forall in Hl. specialize (Hl t (Hin t)).
    apply eqb_prop in Hl. exact Hl.
  - destruct (dup_cmp cfg); [reflexivity|discriminate].
  - destruct (dup_store cfg); [reflexivity|discriminate].
  - destruct (dup_init cfg); [reflexivity|discriminate].
  - apply Z.eqb_eq; assumption.
  - assumption.
  - apply Z.eqb_eq; assumption.
  - destruct (re_field cfg); [reflexivity|discriminate].
  - destruct (re_mode cfg); [reflexivity|discriminate].
Qed.

Lemma qstr_eqb_spec a : forall b, reflect (a = b) (qstr_eqb a b).
Proof.
  induction a as [|x a IH]; intros [|y b]; cbn; try (constructor; congruence).
  destruct (N.eqb_spec x y) as [->|]; cbn; [|constructor; congruence].
  destruct (IH b); constructor; congruence.
Qed.
Lemma qstr_eqb_refl a : qstr_eqb a a = true.
Proof. destruct (qstr_eqb_spec a a); congruence. Qed.

(* ---- level filter ---- *)
Lemma level_spec_iff mn t : level_spec mn t = true <-> severity mn <= severity t.
Proof. unfold level_spec. apply Nat.leb_le. Qed.
Lemma level_iff cfg : cfg_good cfg -> forall mn t, level_pass cfg mn t = true <-> severity mn <= severity t.
Proof. intros G mn t. rewrite (g_level _ G). apply level_spec_iff. Qed.

(* ---- duplicate filter on a plain sequence ---- *)
Lemma dup_step_good cfg : cfg_good cfg -> forall last m,
  dup_step cfg last m = (text m, negb (qstr_eqb (text m) last)).
Proof.
  intros G last m. unfold dup_step. rewrite (g_dup_cmp _ G), (g_dup_store _ G). cbn [get_field].
  destruct (qstr_eqb_spec (text m) last) as [->|]; cbn [negb]; [|reflexivity].
  destruct (dup_store_on_drop cfg); reflexivity.
Qed.
Lemma dup_drops_iff_equal_to_previous cfg : cfg_good cfg -> forall ms last,
  dup_run cfg last ms = prev_neq last (map text ms).
Proof.
  intros G. induction ms as [|m r IH]; intros last; cbn [dup_run prev_neq map]; [reflexivity|].
  rewrite (dup_step_good _ G). rewrite IH. reflexivity.
Qed.
Lemma select_prev_neq_collapse : forall ts last, select (prev_neq last ts) ts = collapse last ts.
Proof.
  induction ts as [|t r IH]; intros last; cbn; [reflexivity|].
  destruct (qstr_eqb t last); cbn; rewrite IH; reflexivity.
Qed.
Lemma dup_collapses_runs cfg : cfg_good cfg -> forall ms,
  select (dup_run cfg (dup_init cfg) ms) (map text ms) = collapse [] (map text ms).
Proof. intros G ms. rewrite (dup_drops_iff_equal_to_previous _ G), (g_dup_init _ G). apply select_prev_neq_collapse. Qed.
(* what "collapse" means: no two adjacent equal texts survive, nothing else is removed *)
Fixpoint no_adjacent_eq (prev : qstr) (ts : list qstr) : Prop :=
  match ts with [] => True | t :: r => t <> prev /\ no_adjacent_eq t r end.
Lemma collapse_no_adjacent : forall ts prev, no_adjacent_eq prev (collapse prev ts).
Proof.
  induction ts as [|t r IH]; intros prev; cbn; [exact I|].
  destruct (qstr_eqb_spec t prev) as [->|Hne]; [apply IH|]. cbn. split; [exact Hne|apply IH].
Qed.
Lemma collapse_fixed : forall ts prev, no_adjacent_eq prev ts -> collapse prev ts = ts.
Proof.
  induction ts as [|t r IH]; intros prev H; cbn; [reflexivity|]. destruct H as [Hne Hr].
  destruct (qstr_eqb_spec t prev); [contradiction|]. f_equal. apply IH, Hr.
Qed.

(* ---- sequence numbers on a plain sequence ---- *)
Lemma seq_step_good cfg : cfg_good cfg -> forall c, seq_step cfg c = (c, (c + 1)%Z).
Proof. intros G c. unfold seq_step. rewrite (g_seq_post _ G), (g_seq_inc _ G). reflexivity. Qed.
Lemma seq_consecutive cfg : cfg_good cfg -> forall n c,
  seq_run cfg c n = map (fun i => (c + Z.of_nat i)%Z) (seq 0 n).
Proof.
  intros G. induction n as [|k IH]; intros c; [reflexivity|].
  cbn [seq_run]. rewrite (seq_step_good _ G), IH.
  cbn [seq map]. f_equal; [lia|]. rewrite <- seq_shift, map_map. apply map_ext. intros i. lia.
Qed.

(* ================= handler objects shared between pipelines ================= *)
Lemma nth_error_upd {A} (x : A) : forall l i o,
  nth_error (upd i x l) o = if Nat.eqb i o then (match nth_error l o with Some _ => Some x | None => None end) else nth_error l o.
Proof.
  induction l as [|y t IH]; intros i o.
  - cbn. destruct i, o; cbn; try reflexivity; destruct (Nat.eqb i o); reflexivity.
  - destruct i, o; cbn; try reflexivity. apply IH.
Qed.
Lemma length_upd {A} (x : A) : forall l i, length (upd i x l) = length l.
Proof. induction l as [|y t IH]; intros [|i]; cbn; try reflexivity. now rewrite IH. Qed.

(* the calls of object [o] among a list of events *)
Definition calls_of (o : nat) (es : list event) : list event := filter (fun e => Nat.eqb (ev_obj e) o) es.
Lemma calls_of_app o a b : calls_of o (a ++ b) = calls_of o a ++ calls_of o b.
Proof. apply filter_app. Qed.

(* a list of calls of one object, each being that object's step from the state the previous
   call left behind *)
Inductive chain (cfg : filters_cfg) (o : nat) (h : hspec) : hstate -> list event -> hstate -> Prop :=
| ch_nil s : chain cfg o h s [] s
| ch_cons s e s' es s'' :
    hstep cfg o h s (ev_in e) = (s', ev_ok e, ev_out e) -> chain cfg o h s' es s'' -> chain cfg o h s (e :: es) s''.
Lemma chain_app cfg o h s1 a s2 b s3 : chain cfg o h s1 a s2 -> chain cfg o h s2 b s3 -> chain cfg o h s1 (a ++ b) s3.
Proof. induction 1; intros Hb; cbn; [assumption|]. econstructor; eauto. Qed.

(* messages keep type, text and flags on their way through a pipeline *)
Definition same_input (m m' : msg) : Prop := mt m' = mt m /\ text m' = text m /\ flags m' = flags m.
Lemma hstep_same_input cfg i h s m s' v m' : hstep cfg i h s m = (s', v, m') -> same_input m m'.
Proof.
  unfold hstep, same_input. intros H.
  destruct h, s; try destruct (dup_step cfg last m); try destruct (seq_step cfg count);
    inversion H; subst; cbn; auto.
Qed.

Lemma run_handlers_chain cfg ob o h : nth_error ob o = Some h ->
  forall pl st m s, nth_error st o = Some s ->
  exists s', nth_error (fst (run_handlers cfg ob st pl m)) o = Some s'
             /\ chain cfg o h s (calls_of o (snd (run_handlers cfg ob st pl m))) s'.
Proof.
  intros Hob. induction pl as [|i rest IH]; intros st m s Hs; cbn [run_handlers].
  - exists s. split; [exact Hs|constructor].
  - destruct (nth_error ob i) as [hi|] eqn:Ei; [|apply IH, Hs].
    destruct (nth_error st i) as [si|] eqn:Es; [|apply IH, Hs].
    destruct (hstep cfg i hi si m) as [[s1 v] m1] eqn:Eh.
    destruct (Nat.eqb_spec i o) as [->|Hne].
    + (* a call of o itself *)
      rewrite Hob in Ei. injection Ei as <-. rewrite Hs in Es. injection Es as <-.
      assert (Hu : nth_error (upd o s1 st) o = Some s1) by (rewrite nth_error_upd, Nat.eqb_refl, Hs; reflexivity).
      destruct v.
      * destruct (IH (upd o s1 st) m1 s1 Hu) as (s' & Hn & Hc).
        destruct (run_handlers cfg ob (upd o s1 st) rest m1) as [st'' es] eqn:Er. cbn [fst snd] in *.
        exists s'. split; [exact Hn|]. unfold calls_of. cbn [filter ev_obj]. rewrite Nat.eqb_refl.
        econstructor; [cbn; exact Eh|exact Hc].
      * cbn [fst snd]. exists s1. split; [exact Hu|]. unfold calls_of. cbn [filter ev_obj]. rewrite Nat.eqb_refl.
        econstructor; [cbn; exact Eh|constructor].
    + assert (Hu : nth_error (upd i s1 st) o = Some s).
      { rewrite nth_error_upd. destruct (Nat.eqb_spec i o); [contradiction|exact Hs]. }
      destruct v.
      * destruct (IH (upd i s1 st) m1 s Hu) as (s' & Hn & Hc).
        destruct (run_handlers cfg ob (upd i s1 st) rest m1) as [st'' es] eqn:Er. cbn [fst snd] in *.
        exists s'. split; [exact Hn|]. unfold calls_of. cbn [filter ev_obj].
        destruct (Nat.eqb_spec i o); [contradiction|exact Hc].
      * cbn [fst snd]. exists s. split; [exact Hu|]. unfold calls_of. cbn [filter ev_obj].
        destruct (Nat.eqb_spec i o); [contradiction|constructor].
Qed.

Lemma run_handlers_inputs cfg ob : forall pl st m,
  Forall (fun e => same_input m (ev_in e)) (snd (run_handlers cfg ob st pl m)).
Proof.
  induction pl as [|i rest IH]; intros st m; cbn [run_handlers]; [constructor|].
  destruct (nth_error ob i) as [hi|]; [|apply IH]. destruct (nth_error st i) as [si|]; [|apply IH].
  destruct (hstep cfg i hi si m) as [[s1 v] m1] eqn:Eh.
  assert (Hm : same_input m m) by (repeat split).
  destruct v.
  - specialize (IH (upd i s1 st) m1). destruct (run_handlers cfg ob (upd i s1 st) rest m1) as [st'' es]. cbn [snd] in *.
    constructor; [exact Hm|]. apply hstep_same_input in Eh. destruct Eh as (E1 & E2 & E3).
    eapply Forall_impl; [|exact IH]. intros e (F1 & F2 & F3). repeat split; congruence.
  - cbn. constructor; [exact Hm|constructor].
Qed.

(* all handler calls of a scenario, in the order they happen *)
Definition all_calls (cfg : filters_cfg) (sc : scenario) : list event := concat (run_scn cfg sc).

Lemma run_feed_chain cfg ob pp o h : nth_error ob o = Some h ->
  forall fd st s, nth_error st o = Some s ->
  exists s', chain cfg o h s (calls_of o (concat (run_feed cfg ob pp st fd))) s'.
Proof.
  intros Hob. induction fd as [|stp rest IH]; intros st s Hs; cbn [run_feed].
  - exists s. constructor.
  - destruct (run_handlers_chain cfg ob o h Hob (plan pp stp) st (smsg stp) s Hs) as (s1 & Hn & Hc).
    destruct (run_handlers cfg ob st (plan pp stp) (smsg stp)) as [st' es]. cbn [fst snd] in *.
    destruct (IH st' s1 Hn) as (s2 & Hc2). exists s2. cbn [concat]. rewrite calls_of_app.
    eapply chain_app; eassumption.
Qed.

Theorem object_calls_form_a_chain cfg sc o h : nth_error (objs sc) o = Some h ->
  exists s', chain cfg o h (init_state cfg h) (calls_of o (all_calls cfg sc)) s'.
Proof.
  intros Hob. unfold all_calls, run_scn.
  apply run_feed_chain; [exact Hob|]. rewrite nth_error_map, Hob. reflexivity.
Qed.

(* ---- what a chain means for each kind of object ---- *)
Lemma dup_chain cfg o : cfg_good cfg -> forall es l s',
  chain cfg o HDup (SDup l) es s' ->
  map ev_ok es = prev_neq l (map (fun e => text (ev_in e)) es).
Proof.
  intros G. induction es as [|e es IH]; intros l s' H; [reflexivity|].
  inversion H as [|? ? s1 ? ? Hst Hc]; subst. cbn [hstep] in Hst. rewrite (dup_step_good _ G) in Hst.
  injection Hst as <- Hv _. cbn [map prev_neq]. rewrite <- Hv. f_equal. eapply IH; eassumption.
Qed.
Lemma seq_chain cfg o : cfg_good cfg -> forall es c s',
  chain cfg o HSeq (SSeq c) es s' ->
  map (fun e => get_attr o (attrs (ev_out e))) es = map (fun k => Some (c + Z.of_nat k)%Z) (seq 0 (length es))
  /\ Forall (fun e => ev_ok e = true) es.
Proof.
  intros G. induction es as [|e es IH]; intros c s' H; [split; [reflexivity|constructor]|].
  inversion H as [|? ? s1 ? ? Hst Hc]; subst. cbn [hstep] in Hst. rewrite (seq_step_good _ G) in Hst.
  injection Hst as <- Hv Hm. destruct (IH _ _ Hc) as [IH1 IH2]. split.
  - cbn [map length seq]. f_equal.
    + rewrite <- Hm. cbn. rewrite Nat.eqb_refl. f_equal. lia.
    + rewrite IH1. rewrite <- seq_shift, map_map. apply map_ext. intros k. f_equal. lia.
  - constructor; [symmetry; exact Hv|exact IH2].
Qed.
Lemma chain_each cfg o h : forall s es s', chain cfg o h s es s' ->
  Forall (fun e => exists s1 s2, hstep cfg o h s1 (ev_in e) = (s2, ev_ok e, ev_out e)) es.
Proof. induction 1; constructor; eauto. Qed.

(* ---- the theorems in the property's terms ---- *)
Theorem shared_dup_drops_iff_equal_to_previous cfg : cfg_good cfg -> forall sc o,
  nth_error (objs sc) o = Some HDup ->
  let calls := calls_of o (all_calls cfg sc) in
  map ev_ok calls = prev_neq [] (map (fun e => text (ev_in e)) calls).
Proof.
  intros G sc o Hob calls. destruct (object_calls_form_a_chain cfg sc o HDup Hob) as (s' & Hc).
  cbn [init_state] in Hc. rewrite (g_dup_init _ G) in Hc. eapply dup_chain; eassumption.
Qed.
Theorem shared_dup_collapses_runs cfg : cfg_good cfg -> forall sc o,
  nth_error (objs sc) o = Some HDup ->
  let calls := calls_of o (all_calls cfg sc) in
  let seen := map (fun e => text (ev_in e)) calls in
  select (map ev_ok calls) seen = collapse [] seen.
Proof.
  intros G sc o Hob calls seen. unfold seen, calls.
  rewrite (shared_dup_drops_iff_equal_to_previous cfg G sc o Hob). apply select_prev_neq_collapse.
Qed.
Theorem shared_seq_consecutive cfg : cfg_good cfg -> forall sc o,
  nth_error (objs sc) o = Some HSeq ->
  let calls := calls_of o (all_calls cfg sc) in
  map (fun e => get_attr o (attrs (ev_out e))) calls = map (fun k => Some (Z.of_nat k)) (seq 0 (length calls))
  /\ Forall (fun e => ev_ok e = true) calls.
Proof.
  intros G sc o Hob calls. destruct (object_calls_form_a_chain cfg sc o HSeq Hob) as (s' & Hc).
  cbn [init_state] in Hc. rewrite (g_seq_init _ G) in Hc. exact (seq_chain cfg o G _ _ _ Hc).
Qed.
Theorem shared_seq_in_int_range cfg : cfg_good cfg -> forall sc o,
  nth_error (objs sc) o = Some HSeq ->
  let calls := calls_of o (all_calls cfg sc) in
  (Z.of_nat (length calls) <= int_max + 1)%Z ->
  forall k e, nth_error calls k = Some e ->
  get_attr o (attrs (ev_out e)) = Some (Z.of_nat k) /\ (0 <= Z.of_nat k <= int_max)%Z.
Proof.
  intros G sc o Hob calls Hn k e Hk.
  destruct (shared_seq_consecutive cfg G sc o Hob) as [Hv _]. fold calls in Hv.
  assert (Hlt : k < length calls) by (apply nth_error_Some; congruence).
  split; [|unfold int_max in *; lia].
  apply (f_equal (fun l => nth_error l k)) in Hv. rewrite !nth_error_map, Hk in Hv. cbn in Hv.
  assert (Hs : nth_error (seq 0 (length calls)) k = Some k).
  { rewrite (nth_error_nth' _ 0) by (rewrite seq_length; exact Hlt). rewrite seq_nth by exact Hlt. reflexivity. }
  rewrite Hs in Hv. cbn in Hv. injection Hv as Hv. exact Hv.
Qed.
Theorem level_calls cfg : cfg_good cfg -> forall sc o mn e,
  nth_error (objs sc) o = Some (HLevel mn) -> In e (calls_of o (all_calls cfg sc)) ->
  (ev_ok e = true <-> severity mn <= severity (mt (ev_in e))).
Proof.
  intros G sc o mn e Hob Hin. destruct (object_calls_form_a_chain cfg sc o _ Hob) as (s' & Hc).
  apply chain_each in Hc. rewrite Forall_forall in Hc. destruct (Hc e Hin) as (s1 & s2 & Hst).
  cbn [hstep] in Hst. injection Hst as _ Hv _. rewrite <- Hv. apply level_iff, G.
Qed.
Theorem regex_calls cfg : cfg_good cfg -> forall sc o r e,
  nth_error (objs sc) o = Some (HRegex r) -> In e (calls_of o (all_calls cfg sc)) ->
  ev_ok e = regex_search16 r (text (ev_in e)).
Proof.
  intros G sc o r e Hob Hin. destruct (object_calls_form_a_chain cfg sc o _ Hob) as (s' & Hc).
  apply chain_each in Hc. rewrite Forall_forall in Hc. destruct (Hc e Hin) as (s1 & s2 & Hst).
  cbn [hstep] in Hst. injection Hst as _ Hv _. rewrite <- Hv.
  unfold regex_pass, regex_search16. rewrite (g_re_field _ G), (g_re_mode _ G). reflexivity.
Qed.

(* ================= the reference monitor accepts every run of the model ================= *)
Definition srel (h : hspec) (s : hstate) (g : ghost) : Prop :=
  match h with
  | HDup => match s, g with SDup l, GDup p => l = p | _, _ => False end
  | HSeq => match s, g with SSeq c, GSeq n => c = Z.of_nat n | _, _ => False end
  | _ => match s, g with SNone, GNone => True | _, _ => False end
  end.
Inductive R3 : list hspec -> list hstate -> list ghost -> Prop :=
| R3_nil : R3 [] [] []
| R3_cons h s g hs ss gs : srel h s g -> R3 hs ss gs -> R3 (h :: hs) (s :: ss) (g :: gs).

Lemma R3_nth ob st gs : R3 ob st gs -> forall i,
  match nth_error ob i with
  | Some h => exists s g, nth_error st i = Some s /\ nth_error gs i = Some g /\ srel h s g
  | None => nth_error st i = None /\ nth_error gs i = None
  end.
Proof.
  induction 1 as [|h s g hs ss gs Hr HR IH]; intros [|i]; cbn; auto.
  - exists s, g. auto.
  - apply IH.
Qed.
Lemma R3_upd ob st gs : R3 ob st gs -> forall i h s' g',
  nth_error ob i = Some h -> srel h s' g' -> R3 ob (upd i s' st) (upd i g' gs).
Proof.
  induction 1 as [|h s g hs ss gs Hr HR IH]; intros [|i] h' s' g' Hn Hs; cbn in *; try discriminate.
  - injection Hn as ->. constructor; assumption.
  - constructor; [assumption|]. eapply IH; eassumption.
Qed.
Lemma R3_init cfg : cfg_good cfg -> forall ob, R3 ob (map (init_state cfg) ob) (map init_ghost ob).
Proof.
  intros G. induction ob as [|h t IH]; cbn; constructor; [|exact IH].
  destruct h; cbn; auto. - apply (g_dup_init _ G). - rewrite (g_seq_init _ G). reflexivity.
Qed.
Lemma obs_eqb_refl o : obs_eqb o o = true.
Proof.
  destruct o as [v [z|]]; unfold obs_eqb; cbn; rewrite eqb_reflx; [apply Z.eqb_refl|reflexivity].
Qed.
Lemma regex_pass_good cfg : cfg_good cfg -> forall r m, regex_pass cfg r m = regex_search16 r (text m).
Proof. intros G r m. unfold regex_pass, regex_search16. rewrite (g_re_field _ G), (g_re_mode _ G). reflexivity. Qed.

Lemma step_sim cfg : cfg_good cfg -> forall ob i h s g m,
  nth_error ob i = Some h -> srel h s g ->
  forall s' v m' g' want m'', hstep cfg i h s m = (s', v, m') -> spec_step i h g m = (g', want, m'') ->
  m' = m'' /\ srel h s' g' /\ observe_ev ob {| ev_obj := i; ev_in := m; ev_ok := v; ev_out := m' |} = want.
Proof.
  intros G ob i h s g m Hob Hr s' v m' g' want m'' Hs Hg.
  unfold observe_ev, is_seq. cbn [ev_obj ev_ok ev_out]. rewrite Hob.
  destruct h; cbn [srel] in Hr; destruct s; try contradiction; destruct g; try contradiction;
    cbn [hstep spec_step] in Hs, Hg.
  - subst prev. rewrite (dup_step_good _ G) in Hs. injection Hs as <- <- <-. injection Hg as <- <- <-. cbn. auto.
  - subst count. rewrite (seq_step_good _ G) in Hs. injection Hs as <- <- <-. injection Hg as <- <- <-.
    cbn [srel]. repeat split; [lia|]. cbn. rewrite Nat.eqb_refl. reflexivity.
  - injection Hs as <- <- <-. injection Hg as <- <- <-. rewrite (g_level _ G). cbn. auto.
  - injection Hs as <- <- <-. injection Hg as <- <- <-. rewrite (regex_pass_good _ G). cbn. auto.
  - injection Hs as <- <- <-. injection Hg as <- <- <-. cbn. auto.
  - injection Hs as <- <- <-. injection Hg as <- <- <-. cbn. auto.
  - injection Hs as <- <- <-. injection Hg as <- <- <-. cbn. auto.
Qed.

Lemma handlers_sim cfg : cfg_good cfg -> forall ob pl st gs m, R3 ob st gs ->
  exists gs', check_handlers ob gs pl m (map (observe_ev ob) (snd (run_handlers cfg ob st pl m))) = (gs', true)
              /\ R3 ob (fst (run_handlers cfg ob st pl m)) gs'.
Proof.
  intros G ob. induction pl as [|i rest IH]; intros st gs m HR; cbn [run_handlers check_handlers].
  - exists gs. cbn. auto.
  - pose proof (R3_nth _ _ _ HR i) as Hi. destruct (nth_error ob i) as [h|] eqn:Eo.
    + destruct Hi as (s & g & Es & Eg & Hr). rewrite Es, Eg.
      destruct (hstep cfg i h s m) as [[s' v] m'] eqn:Eh.
      destruct (spec_step i h g m) as [[g' want] m''] eqn:Esp.
      destruct (step_sim cfg G ob i h s g m Eo Hr _ _ _ _ _ _ Eh Esp) as (Hm & Hr' & Hobs). subst m''.
      pose proof (R3_upd _ _ _ HR i h s' g' Eo Hr') as HR'.
      destruct v.
      * destruct (IH (upd i s' st) (upd i g' gs) m' HR') as (gs' & Hc & HR'').
        destruct (run_handlers cfg ob (upd i s' st) rest m') as [st'' es]. cbn [fst snd map] in *.
        try rewrite Esp. subst want. rewrite obs_eqb_refl. unfold observe_ev at 1. cbn [fst ev_ok].
        exists gs'. auto.
      * cbn [fst snd map]. try rewrite Esp. subst want. rewrite obs_eqb_refl. unfold observe_ev at 1. cbn [fst ev_ok].
        exists (upd i g' gs). auto.
    + apply IH, HR.
Qed.

Lemma feed_sim cfg : cfg_good cfg -> forall ob pp fd st gs, R3 ob st gs ->
  check_feed ob pp gs fd (map (map (observe_ev ob)) (run_feed cfg ob pp st fd)) = true.
Proof.
  intros G ob pp. induction fd as [|stp rest IH]; intros st gs HR; cbn [run_feed check_feed map]; [reflexivity|].
  destruct (handlers_sim cfg G ob (plan pp stp) st gs (smsg stp) HR) as (gs' & Hc & HR').
  destruct (run_handlers cfg ob st (plan pp stp) (smsg stp)) as [st' es]. cbn [fst snd map] in *.
  rewrite Hc. cbn. apply IH, HR'.
Qed.

Theorem oracle_holds cfg : cfg_good cfg -> forall sc, prop_c16_b sc (observe cfg sc) = true.
Proof. intros G sc. unfold prop_c16_b, observe, run_scn. apply feed_sim; [exact G|]. apply R3_init, G. Qed.

Lemma seq_from_zero cfg : cfg_good cfg -> forall n, seq_run cfg (seq_init cfg) n = map Z.of_nat (seq 0 n).
Proof. intros G n. rewrite (seq_consecutive cfg G), (g_seq_init _ G). apply map_ext. intros i. reflexivity. Qed.

(* ---- and nothing else: the monitor accepts exactly the observations of the model ---- *)
Lemma obs_eqb_eq o w : obs_eqb o w = true -> o = w.
Proof.
  destruct o as [v [z|]], w as [v' [z'|]]; unfold obs_eqb; cbn; rewrite andb_true_iff; intros [H1 H2];
    try discriminate; apply eqb_prop in H1; subst; [apply Z.eqb_eq in H2; subst|]; reflexivity.
Qed.
Lemma handlers_sim_rev cfg : cfg_good cfg -> forall ob pl st gs m os gs', R3 ob st gs ->
  check_handlers ob gs pl m os = (gs', true) ->
  os = map (observe_ev ob) (snd (run_handlers cfg ob st pl m)) /\ R3 ob (fst (run_handlers cfg ob st pl m)) gs'.
Proof.
  intros G ob. induction pl as [|i rest IH]; intros st gs m os gs' HR Hc; cbn [run_handlers check_handlers] in *.
  - injection Hc as <- Hn. destruct os; [cbn; auto|discriminate].
  - pose proof (R3_nth _ _ _ HR i) as Hi. destruct (nth_error ob i) as [h|] eqn:Eo.
    + destruct Hi as (s & g & Es & Eg & Hr). rewrite Es. rewrite Eg in Hc.
      destruct os as [|o os']; [discriminate|].
      destruct (hstep cfg i h s m) as [[s' v] m'] eqn:Eh.
      destruct (spec_step i h g m) as [[g' want] m''] eqn:Esp.
      destruct (step_sim cfg G ob i h s g m Eo Hr _ _ _ _ _ _ Eh Esp) as (Hm & Hr' & Hobs). subst m''.
      pose proof (R3_upd _ _ _ HR i h s' g' Eo Hr') as HR'.
      destruct (obs_eqb o want) eqn:Eq; [|discriminate]. apply obs_eqb_eq in Eq. subst o.
      assert (Hv : fst want = v) by (rewrite <- Hobs; reflexivity). rewrite Hv in Hc.
      destruct v.
      * destruct (IH _ _ _ _ _ HR' Hc) as [E HR''].
        destruct (run_handlers cfg ob (upd i s' st) rest m') as [st'' es]. cbn [fst snd map] in *.
        split; [rewrite Hobs; f_equal; exact E|exact HR''].
      * injection Hc as <- Hn. destruct os'; [|discriminate]. cbn [fst snd map]. rewrite Hobs. auto.
    + eapply IH; eassumption.
Qed.
Lemma feed_sim_rev cfg : cfg_good cfg -> forall ob pp fd st gs oss, R3 ob st gs ->
  check_feed ob pp gs fd oss = true -> oss = map (map (observe_ev ob)) (run_feed cfg ob pp st fd).
Proof.
  intros G ob pp. induction fd as [|stp rest IH]; intros st gs oss HR Hc; cbn [run_feed check_feed map] in *.
  - destruct oss; [reflexivity|discriminate].
  - destruct oss as [|os oss']; [discriminate|].
    destruct (check_handlers ob gs (plan pp stp) (smsg stp) os) as [gs' ok] eqn:Ec.
    apply andb_true_iff in Hc. destruct Hc as [-> Hc].
    destruct (handlers_sim_rev cfg G ob _ st gs (smsg stp) os gs' HR Ec) as [E HR'].
    destruct (run_handlers cfg ob st (plan pp stp) (smsg stp)) as [st' es]. cbn [fst snd map] in *.
    f_equal; [exact E|]. eapply IH; eassumption.
Qed.
Theorem oracle_exact cfg : cfg_good cfg -> forall sc oss, prop_c16_b sc oss = true <-> oss = observe cfg sc.
Proof.
  intros G sc oss. split.
  - unfold prop_c16_b, observe, run_scn. apply feed_sim_rev; [exact G|]. apply R3_init, G.
  - intros ->. apply oracle_holds, G.
Qed.
