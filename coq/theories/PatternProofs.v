(* C12 — lemmas about the pattern model of PatternDefs.v (the definitions that are extracted and run
   against the real PatternFormatter).  No axioms. *)
From Coq Require Import List NArith ZArith Bool Lia Arith.
Require Import ZifyBool ZifyNat ZifyN.
Require Import QtlVerif.SrcPattern QtlVerif.PatternDefs.
Import ListNotations.
Local Open Scope N_scope.

(* ------------------------------------------------------------------ A. basics *)
Lemma lenN_acc (l : qstr) (a : N) : fold_left (fun n _ => N.succ n) l a = a + N.of_nat (length l).
Proof. revert a. induction l as [|x l IH]; intros a; cbn [fold_left length]; [lia|]. rewrite IH. lia. Qed.
Lemma lenN_spec (l : qstr) : lenN l = N.of_nat (length l).
Proof. unfold lenN. rewrite lenN_acc. lia. Qed.
Lemma lenN_zero (l : qstr) : lenN l = 0 -> l = [].
Proof. rewrite lenN_spec. destruct l; [reflexivity|cbn [length]; lia]. Qed.
Lemma lastn_length (n : nat) (l : qstr) : (n <= length l)%nat -> length (lastn n l) = n.
Proof. intros H. unfold lastn. rewrite skipn_length. lia. Qed.
Lemma firstn_length_le' (n : nat) (l : qstr) : (n <= length l)%nat -> length (firstn n l) = n.
Proof. intros H. rewrite firstn_length. lia. Qed.
Lemma chop_length (n : nat) (l : qstr) : length (chop n l) = (length l - n)%nat.
Proof. unfold chop. rewrite firstn_length. lia. Qed.
Lemma chop_zero (l : qstr) : chop 0 l = l.
Proof. unfold chop. rewrite Nat.sub_0_r. apply firstn_all. Qed.
Lemma qeqb_refl (a : qstr) : qeqb a a = true.
Proof. induction a as [|x a IH]; [reflexivity|]. cbn [qeqb]. rewrite N.eqb_refl. exact IH. Qed.
Lemma qeqb_eq (a b : qstr) : qeqb a b = true -> a = b.
Proof.
  revert b. induction a as [|x a IH]; intros [|y b] H; try discriminate; [reflexivity|].
  cbn [qeqb] in H. apply andb_prop in H as [H1 H2]. apply N.eqb_eq in H1. subst. f_equal. apply IH, H2.
Qed.
Lemma keep_length (a : option align) (w : nat) (v : qstr) : (w <= length v)%nat -> length (keep a w v) = w.
Proof. intros H. unfold keep. destruct a as [[]|]; try apply firstn_length_le'; try apply lastn_length; exact H. Qed.

(* ------------------------------------------------------------------ B. applyPadding: the documented tables *)
Definition lpad (a : align) (p : nat) : nat := match a with ALeft => 0 | ARight => p | ACenter => p / 2 end%nat.
Definition rpad (a : align) (p : nat) : nat := match a with ALeft => p | ARight => 0 | ACenter => p - p / 2 end%nat.
Lemma lpad_rpad (a : align) (p : nat) : (lpad a p + rpad a p = p)%nat.
Proof.
  destruct a; cbn [lpad rpad]; lia.
Qed.

(* "Padding Only (No !)": never truncates; a value shorter than the width gets width - |v| fill
   units: all on the right for '<', all on the left for '>', floor(p/2) left and the rest right for '^' *)
Lemma pad_only (f : N) (a : align) (w : N) (v : qstr) :
  let p := (N.to_nat w - length v)%nat in
  pad (Some {| fill := f; al := Some a; width := w; mode := MNone |}) v = repeat f (lpad a p) ++ v ++ repeat f (rpad a p).
Proof.
  cbn zeta. unfold pad; cbn [mode al width fill]. rewrite lenN_spec.
  destruct (N.leb_spec w (N.of_nat (length v))) as [Hle|Hgt].
  - replace (N.to_nat w - length v)%nat with 0%nat by lia.
    destruct a; cbn [lpad rpad Nat.div Nat.divmod fst repeat app Nat.sub]; rewrite ?app_nil_r; reflexivity.
  - replace (N.to_nat (w - N.of_nat (length v))) with (N.to_nat w - length v)%nat by lia.
    destruct a; cbn [lpad rpad repeat app]; rewrite ?app_nil_r; reflexivity.
Qed.
Lemma pad_only_length (f : N) (a : align) (w : N) (v : qstr) :
  length (pad (Some {| fill := f; al := Some a; width := w; mode := MNone |}) v) = Nat.max (length v) (N.to_nat w).
Proof. rewrite pad_only. rewrite !app_length, !repeat_length. pose proof (lpad_rpad a (N.to_nat w - length v)). lia. Qed.

(* "Truncation Only (! without fill)": never pads; keeps the first w units, the last w for '>' *)
Lemma truncate_only (f : N) (a : option align) (w : N) (v : qstr) :
  pad (Some {| fill := f; al := a; width := w; mode := MOnly |}) v =
  if (length v <=? N.to_nat w)%nat then v else match a with Some ARight => lastn (N.to_nat w) v | _ => firstn (N.to_nat w) v end.
Proof.
  unfold pad; cbn [mode al width fill]. rewrite lenN_spec.
  destruct (N.leb_spec (N.of_nat (length v)) w); destruct (Nat.leb_spec (length v) (N.to_nat w)); try lia; reflexivity.
Qed.
Lemma truncate_only_length (f : N) (a : option align) (w : N) (v : qstr) :
  length (pad (Some {| fill := f; al := a; width := w; mode := MOnly |}) v) = Nat.min (length v) (N.to_nat w).
Proof.
  rewrite truncate_only. destruct (Nat.leb_spec (length v) (N.to_nat w)); [lia|].
  destruct a as [[]|]; rewrite ?lastn_length, ?firstn_length_le' by lia; lia.
Qed.

(* "Truncation AND Padding (! with fill)": truncate as above, then pad as above: exactly w units *)
Lemma truncate_and_pad (f : N) (a : align) (w : N) (v : qstr) :
  pad (Some {| fill := f; al := Some a; width := w; mode := MTrunc |}) v =
  pad (Some {| fill := f; al := Some a; width := w; mode := MNone |})
      (if (N.to_nat w <? length v)%nat then match a with ARight => lastn (N.to_nat w) v | _ => firstn (N.to_nat w) v end else v).
Proof.
  unfold pad; cbn [mode al width fill]. rewrite !lenN_spec.
  destruct (N.ltb_spec w (N.of_nat (length v))); destruct (Nat.ltb_spec (N.to_nat w) (length v)); try lia; [|reflexivity].
  unfold keep. destruct a; reflexivity.
Qed.
Lemma truncate_and_pad_exact (f : N) (a : align) (w : N) (v : qstr) :
  length (pad (Some {| fill := f; al := Some a; width := w; mode := MTrunc |}) v) = N.to_nat w.
Proof.
  rewrite truncate_and_pad, pad_only_length.
  destruct (Nat.ltb_spec (N.to_nat w) (length v)); [|lia].
  destruct a; rewrite ?lastn_length, ?firstn_length_le' by lia; lia.
Qed.
Lemma pad_none (v : qstr) : pad None v = v.
Proof. reflexivity. Qed.

(* ------------------------------------------------------------------ E. the evaluator *)
Lemma run_app m a b st : run_oob m (a ++ b) st = run_oob m b (run_oob m a st).
Proof. unfold run_oob. apply fold_left_app. Qed.
Lemma run_cons m t l st : run_oob m (t :: l) st = run_oob m l (if cond_ok m t then emit_oob m st t else st).
Proof. reflexivity. Qed.
Lemma run_active m l st : run_oob m (active m l) st = run_oob m l st.
Proof.
  revert st. induction l as [|t l IH]; intros st; [reflexivity|]. unfold active in *. cbn [filter]. rewrite run_cons.
  destruct (cond_ok m t) eqn:E; [rewrite run_cons, E|]; apply IH.
Qed.
Lemma concat_pieces_app m a b : concat_pieces m (a ++ b) = concat_pieces m a ++ concat_pieces m b.
Proof. unfold concat_pieces, active. rewrite filter_app, map_app, concat_app. reflexivity. Qed.
Lemma concat_pieces_cons m t l : concat_pieces m (t :: l) = (if cond_ok m t then piece m t else []) ++ concat_pieces m l.
Proof. unfold concat_pieces, active. cbn [filter]. destruct (cond_ok m t); reflexivity. Qed.

Definition is_lit (t : token) : bool := match kind t with KLit _ => true | _ => false end.
(* a token that is not an active removing optional attribute *)
Definition plain (m : msg) (t : token) : bool := negb (cond_ok m t && removes m t).
(* a token that leaves the state alone: inactive, or a non-literal that inserts the empty string *)
Definition silent (m : msg) (t : token) : bool :=
  negb (cond_ok m t) || (negb (is_lit t) && negb (removes m t) && match piece m t with [] => true | _ => false end).

Lemma emit_lit m out p t txt : kind t = KLit txt ->
  emit_oob m (out, p) t = (out ++ skipn (N.to_nat p) txt, 0).
Proof.
  intros K. unfold emit_oob. rewrite K. cbn [fst snd]. rewrite lenN_spec.
  destruct (N.ltb_spec p (N.of_nat (length txt))); [reflexivity|].
  rewrite skipn_all2 by lia. reflexivity.
Qed.
Lemma emit_value m st t : is_lit t = false -> removes m t = false -> emit_oob m st t = grow (piece m t) st.
Proof.
  unfold is_lit, removes, emit_oob, piece. intros L R.
  destruct (kind t) as [txt| | | | |b| | | |f| | |n o rb ra] eqn:K; try discriminate; try reflexivity.
  destruct o; [|reflexivity]. destruct (lookup n (attrs m)); [reflexivity|].
  apply orb_false_elim in R as [R1 R2]. rewrite R1, R2. cbn [andb]. destruct st as [out p]. unfold grow. cbn [fst snd].
  rewrite app_nil_r. reflexivity.
Qed.
Lemma emit_plain m out t : removes m t = false -> emit_oob m (out, 0) t = (out ++ piece m t, 0).
Proof.
  intros R. destruct (is_lit t) eqn:L.
  - unfold is_lit in L. destruct (kind t) as [txt| | | | | | | | | | | |] eqn:K; try discriminate.
    rewrite (emit_lit m out 0 t txt K). unfold piece. rewrite K. reflexivity.
  - rewrite emit_value by assumption. unfold grow. cbn [fst snd]. destruct (piece m t); reflexivity.
Qed.
Lemma run_plain m l out : forallb (plain m) l = true -> run_oob m l (out, 0) = (out ++ concat_pieces m l, 0).
Proof.
  revert out. induction l as [|t l IH]; intros out H.
  - cbn. rewrite app_nil_r. reflexivity.
  - cbn [forallb] in H. apply andb_prop in H as [Ht Hl]. rewrite run_cons, concat_pieces_cons.
    unfold plain in Ht. destruct (cond_ok m t).
    + cbn [andb] in Ht. apply negb_true_iff in Ht. rewrite emit_plain by exact Ht. rewrite IH by exact Hl.
      rewrite app_assoc. reflexivity.
    + rewrite IH by exact Hl. reflexivity.
Qed.
Lemma run_silent m l st : forallb (silent m) l = true -> run_oob m l st = st.
Proof.
  induction l as [|t l IH]; intros H; [reflexivity|]. cbn [forallb] in H. apply andb_prop in H as [Ht Hl].
  rewrite run_cons. unfold silent in Ht. destruct (cond_ok m t); [|apply IH, Hl].
  cbn [negb orb] in Ht. apply andb_prop in Ht as [Ht1 Ht3]. apply andb_prop in Ht1 as [Ht1 Ht2].
  apply negb_true_iff in Ht1, Ht2. rewrite emit_value by assumption.
  destruct (piece m t); [|discriminate]. unfold grow. rewrite app_nil_r. destruct st. cbn [fst snd]. apply IH, Hl.
Qed.
Lemma no_removing_plain m l : existsb (removes m) (active m l) = false -> forallb (plain m) l = true.
Proof.
  induction l as [|t l IH]; intros H; [reflexivity|]. unfold active in *. cbn [filter forallb] in *. unfold plain at 1.
  destruct (cond_ok m t); cbn [andb negb].
  - cbn [existsb] in H. apply orb_false_elim in H as [H1 H2]. rewrite H1. apply IH, H2.
  - apply IH, H.
Qed.

(* (a) no active missing optional attribute asks for a removal: the output is exactly the
   token-by-token concatenation of literal text / padded value / nothing *)
Lemma values_verbatim toks m : toks <> [] -> existsb (removes m) (active m toks) = false ->
  format_oob toks m = concat_pieces m toks.
Proof.
  intros Hne H. unfold format_oob. destruct toks as [|t0 ts] eqn:E; [contradiction|]. rewrite <- E in *.
  rewrite run_plain by (apply no_removing_plain, H). reflexivity.
Qed.

(* (b) a missing optional attribute a?N,M : the last N units of the text so far go (none if fewer
   than N exist); then, after tokens that insert nothing, ... *)
Definition chop_if (n : N) (s : qstr) : qstr := if n <=? lenN s then chop (N.to_nat n) s else s.
Lemma emit_missing m out t n rb ra : kind t = KAttr n true rb ra -> lookup n (attrs m) = None -> ra <= src_pending_max ->
  emit_oob m (out, 0) t = (chop_if rb out, ra).
Proof.
  intros K L Hra. unfold emit_oob. rewrite K, L. cbn [fst snd]. unfold chop_if. rewrite N.add_0_r.
  assert (S : forall o : qstr, (o, if 0 <? ra then N.min (0 + ra) src_pending_max else 0) = (o, ra)).
  { intros o. f_equal. destruct (N.ltb_spec 0 ra); lia. }
  destruct (N.ltb_spec 0 rb); cbn [andb].
  - destruct (N.leb_spec rb (lenN out)); [|apply S]. rewrite N.min_0_r, !N.sub_0_r. apply S.
  - assert (rb = 0) by lia. subst. rewrite chop_zero. destruct (0 <=? lenN out); apply S.
Qed.
Section Rule.
  Variables (m : msg) (pre mid post : list token) (o : token) (n : qstr) (rb ra : N).
  Hypothesis Hpre : forallb (plain m) pre = true.
  Hypothesis Ho : kind o = KAttr n true rb ra.
  Hypothesis Hoc : cond_ok m o = true.
  Hypothesis Hmiss : lookup n (attrs m) = None.
  Hypothesis Hra : ra <= src_pending_max.    (* every count the tokeniser produces fits in int: count_of_le *)
  Hypothesis Hmid : forallb (silent m) mid = true.
  Hypothesis Hpost : forallb (plain m) post = true.
  Lemma rule_state : run_oob m (pre ++ o :: mid) ([], 0) = (chop_if rb (concat_pieces m pre), ra).
  Proof.
    rewrite run_app, run_plain by exact Hpre. cbn [app]. rewrite run_cons, Hoc, (emit_missing m _ o n rb ra Ho Hmiss Hra).
    apply run_silent, Hmid.
  Qed.
  (* ... the directly following literal loses its first M units (all of it if it is shorter) *)
  Lemma rule_literal_next (l : token) (txt : qstr) : kind l = KLit txt -> cond_ok m l = true ->
    format_oob (pre ++ o :: mid ++ l :: post) m
    = chop_if rb (concat_pieces m pre) ++ skipn (N.to_nat ra) txt ++ concat_pieces m post.
  Proof.
    intros K C. unfold format_oob. destruct (pre ++ o :: mid ++ l :: post) eqn:E; [destruct pre; discriminate|]. rewrite <- E.
    replace (pre ++ o :: mid ++ l :: post) with ((pre ++ o :: mid) ++ l :: post) by (rewrite <- app_assoc; reflexivity).
    rewrite run_app, rule_state, run_cons, C, (emit_lit m _ _ l txt K), run_plain by exact Hpost.
    cbn [fst]. rewrite app_assoc. reflexivity.
  Qed.
  (* ... a directly following token that inserts a non-empty value cancels the request: nothing is removed after *)
  Lemma rule_value_next (t : token) : is_lit t = false -> removes m t = false -> cond_ok m t = true -> piece m t <> [] ->
    format_oob (pre ++ o :: mid ++ t :: post) m
    = chop_if rb (concat_pieces m pre) ++ piece m t ++ concat_pieces m post.
  Proof.
    intros L R C NE. unfold format_oob. destruct (pre ++ o :: mid ++ t :: post) eqn:E; [destruct pre; discriminate|]. rewrite <- E.
    replace (pre ++ o :: mid ++ t :: post) with ((pre ++ o :: mid) ++ t :: post) by (rewrite <- app_assoc; reflexivity).
    rewrite run_app, rule_state, run_cons, C, emit_value by assumption. unfold grow. cbn [fst snd].
    destruct (piece m t) eqn:P; [contradiction|]. rewrite run_plain by exact Hpost. cbn [fst]. rewrite app_assoc. reflexivity.
  Qed.
  (* ... at the end of the pattern only the N units before go *)
  Lemma rule_at_end : format_oob (pre ++ o :: mid) m = chop_if rb (concat_pieces m pre).
  Proof.
    unfold format_oob. destruct (pre ++ o :: mid) eqn:E; [destruct pre; discriminate|]. rewrite <- E, rule_state. reflexivity.
  Qed.
End Rule.

(* nothing is ever added, altered or reordered: the output is a subsequence of the concatenation,
   and at most the requested number of units is lost *)
Inductive Subseq : qstr -> qstr -> Prop :=
| sub_nil : Subseq [] []
| sub_both x a b : Subseq a b -> Subseq (x :: a) (x :: b)
| sub_right y a b : Subseq a b -> Subseq a (y :: b).
Lemma subseq_nil_l b : Subseq [] b.
Proof. induction b; constructor; assumption. Qed.
Lemma subseq_refl a : Subseq a a.
Proof. induction a; constructor; assumption. Qed.
Lemma subseq_app a b c d : Subseq a b -> Subseq c d -> Subseq (a ++ c) (b ++ d).
Proof. intros H1 H2. induction H1; cbn [app]; try (constructor; assumption). exact H2. Qed.
Lemma subseq_trans a b c : Subseq a b -> Subseq b c -> Subseq a c.
Proof.
  intros H1 H2. revert a H1. induction H2; intros a' H1.
  - exact H1.
  - inversion H1; subst; constructor; apply IHSubseq; assumption.
  - constructor. apply IHSubseq, H1.
Qed.
Lemma subseq_skipn n (l : qstr) : Subseq (skipn n l) l.
Proof. revert n. induction l as [|x l IH]; intros [|n]; cbn [skipn]; try apply subseq_refl. constructor. apply IH. Qed.
Lemma subseq_firstn n (l : qstr) : Subseq (firstn n l) l.
Proof. revert n. induction l as [|x l IH]; intros [|n]; cbn [firstn]; try apply subseq_nil_l. constructor. apply IH. Qed.
Lemma subseq_length a b : Subseq a b -> (length a <= length b)%nat.
Proof. induction 1; cbn [length]; lia. Qed.
Lemma subseqb_tail x a b : subseqb (x :: a) b = true -> subseqb a b = true.
Proof.
  revert x a. induction b as [|y b IH]; intros x a H; [discriminate|]. cbn [subseqb] in *.
  destruct a as [|x' a']; [reflexivity|]. destruct (x =? y).
  - destruct (x' =? y); [apply (IH x' a'), H|exact H].
  - destruct (x' =? y); [apply (IH x' a'), (IH x (x' :: a')), H|apply (IH x (x' :: a')), H].
Qed.
Lemma subseqb_complete a b : Subseq a b -> subseqb a b = true.
Proof.
  induction 1 as [|x a b H IH|y a b H IH]; [reflexivity| |].
  - cbn [subseqb]. rewrite N.eqb_refl. exact IH.
  - cbn [subseqb]. destruct a as [|x a']; [reflexivity|]. destruct (x =? y); [apply (subseqb_tail x), IH|exact IH].
Qed.
Lemma subseqb_sound a b : subseqb a b = true -> Subseq a b.
Proof.
  revert a. induction b as [|y b IH]; intros [|x a] H; try discriminate; try apply subseq_nil_l.
  cbn [subseqb] in H. destruct (N.eqb_spec x y); [subst; constructor|constructor]; apply IH, H.
Qed.

Definition Inv (st : qstr * N) (full : qstr) (B : N) : Prop :=
  Subseq (fst st) full /\ lenN full + snd st <= lenN (fst st) + B.
Lemma grow_inv e st full B : Inv st full B -> Inv (grow e st) (full ++ e) B.
Proof.
  intros [H1 H2]. destruct st as [out p]. unfold Inv, grow in *. cbn [fst snd] in *. split.
  - apply subseq_app; [exact H1|apply subseq_refl].
  - rewrite !lenN_spec, !app_length in *. destruct e; cbn [length]; lia.
Qed.
Lemma emit_inv m st t full B : Inv st full B -> Inv (emit_oob m st t) (full ++ piece m t) (B + removal_of m t).
Proof.
  intros I. destruct (is_lit t) eqn:L.
  - unfold is_lit in L. destruct (kind t) as [txt| | | | | | | | | | | |] eqn:K; try discriminate.
    destruct st as [out p]. rewrite (emit_lit m out p t txt K). unfold piece, removal_of. rewrite K.
    destruct I as [H1 H2]. unfold Inv in *. cbn [fst snd] in *. split.
    + apply subseq_app; [exact H1|apply subseq_skipn].
    + rewrite !lenN_spec, !app_length, skipn_length in *. lia.
  - destruct (removes m t) eqn:R.
    + unfold removes in R. unfold emit_oob, piece, removal_of.
      destruct (kind t) as [txt| | | | |b| | | |f| | |n o rb ra] eqn:K; try discriminate.
      destruct o; [|discriminate]. destruct (lookup n (attrs m)); [discriminate|]. rewrite app_nil_r.
      destruct st as [out p]. destruct I as [H1 H2]. unfold Inv in *. cbn [fst snd] in *.
      destruct ((0 <? rb) && (rb <=? lenN out + p)) eqn:C; cbn [fst snd].
      * split; [eapply subseq_trans; [apply subseq_firstn|exact H1]|].
        rewrite !lenN_spec in *. rewrite chop_length. destruct (0 <? ra); lia.
      * split; [exact H1|destruct (0 <? ra); lia].
    + rewrite emit_value by assumption. replace (removal_of m t) with 0.
      * rewrite N.add_0_r. apply grow_inv, I.
      * unfold removes in R. unfold removal_of. destruct (kind t); try reflexivity. destruct opt; try reflexivity.
        destruct (lookup name (attrs m)); [reflexivity|]. apply orb_false_elim in R. lia.
Qed.
Lemma run_inv m l : forall st full B, Inv st full B ->
  Inv (run_oob m l st) (full ++ concat_pieces m l) (fold_left (fun n t => n + removal_of m t) (active m l) B).
Proof.
  induction l as [|t l IH]; intros st full B I.
  - cbn. rewrite app_nil_r. exact I.
  - rewrite run_cons, concat_pieces_cons. unfold active. cbn [filter]. destruct (cond_ok m t).
    + cbn [fold_left]. rewrite app_assoc. apply IH, emit_inv, I.
    + cbn [app]. apply IH, I.
Qed.
Lemma output_subsequence toks m : toks <> [] ->
  Subseq (format_oob toks m) (concat_pieces m toks) /\ lenN (concat_pieces m toks) <= lenN (format_oob toks m) + budget m toks.
Proof.
  intros Hne. unfold format_oob. destruct toks as [|t0 ts] eqn:E; [contradiction|]. rewrite <- E.
  destruct (run_inv m toks ([], 0) [] 0) as [H1 H2].
  - split; [constructor|cbn; lia].
  - cbn [app] in *. split; [exact H1|]. unfold budget. lia.
Qed.
Lemma oracle_holds toks m : prop_c12_b toks m (format_oob toks m) = true.
Proof.
  unfold prop_c12_b. destruct toks as [|t0 ts] eqn:E; [apply qeqb_refl|]. rewrite <- E.
  assert (Hne : toks <> []) by (subst; discriminate).
  destruct (existsb (removes m) (active m toks)) eqn:X.
  - destruct (output_subsequence toks m Hne) as [H1 H2]. rewrite (subseqb_complete _ _ H1). cbn [andb]. lia.
  - rewrite values_verbatim by assumption. apply qeqb_refl.
Qed.
(* what a true verdict of the oracle says about an implementation output o *)
Lemma oracle_meaning toks m o : prop_c12_b toks m o = true ->
  match toks with [] => o = text m | _ =>
    (existsb (removes m) (active m toks) = false -> o = concat_pieces m toks) /\
    Subseq o (concat_pieces m toks) /\ lenN (concat_pieces m toks) <= lenN o + budget m toks end.
Proof.
  unfold prop_c12_b. destruct toks as [|t0 ts] eqn:E; [apply qeqb_eq|]. rewrite <- E.
  destruct (existsb (removes m) (active m toks)) eqn:X; intros H.
  - apply andb_prop in H as [H1 H2]. split; [discriminate|]. split; [apply subseqb_sound, H1|lia].
  - apply qeqb_eq in H. subst o. split; [reflexivity|]. split; [apply subseq_refl|lia].
Qed.

(* conditionals: a token whose condition does not hold contributes nothing *)
Lemma inactive_contributes_nothing m a t b st : cond_ok m t = false -> run_oob m (a ++ t :: b) st = run_oob m (a ++ b) st.
Proof. intros C. rewrite !run_app, run_cons, C. reflexivity. Qed.
Lemma format_active toks m : toks <> [] -> format_oob toks m = fst (run_oob m (active m toks) ([], 0)).
Proof. intros H. unfold format_oob. destruct toks; [contradiction|]. rewrite run_active. reflexivity. Qed.

(* ------------------------------------------------------------------ D. the tokeniser *)
Lemma parse_aux_nil f lit cnd toks : parse_aux f [] lit cnd toks = flush lit cnd toks.
Proof. destruct f; reflexivity. Qed.
Lemma parse_aux_S f c d r lit cnd toks : parse_aux (S f) (c :: d :: r) lit cnd toks =
  if c =? c_pct then
    if d =? c_lbrace then
      match index_of c_rbrace r with
      | None => parse_aux f (d :: r) [c_pct] cnd (flush lit cnd toks)
      | Some k => let '(cnd', toks2) := ph_step (firstn k r) cnd (flush lit cnd toks) in parse_aux f (skipn (S k) r) [] cnd' toks2
      end
    else if d =? c_pct then parse_aux f r (lit ++ [c_pct]) cnd toks
    else parse_aux f (d :: r) (lit ++ [c_pct]) cnd toks
  else parse_aux f (d :: r) (lit ++ [c]) cnd toks.
Proof. reflexivity. Qed.
Lemma skipn_length_le (n : nat) (l : qstr) : (length (skipn n l) <= length l)%nat.
Proof. rewrite skipn_length. lia. Qed.
(* the fuel is irrelevant once it exceeds the length of the pattern *)
Lemma parse_aux_fuel : forall f1 f2 p lit cnd toks, (length p < f1)%nat -> (length p < f2)%nat ->
  parse_aux f1 p lit cnd toks = parse_aux f2 p lit cnd toks.
Proof.
  induction f1 as [|f1 IH]; intros f2 p lit cnd toks H1 H2; [lia|]. destruct f2 as [|f2]; [lia|].
  destruct p as [|c [|d r]]; [reflexivity| |].
  - cbn [parse_aux]. rewrite !parse_aux_nil. reflexivity.
  - rewrite !parse_aux_S. cbn [length] in *. destruct (c =? c_pct).
    + destruct (d =? c_lbrace).
      * destruct (index_of c_rbrace r) as [k|].
        -- destruct (ph_step (firstn k r) cnd (flush lit cnd toks)) as [c' t']. pose proof (skipn_length_le (S k) r). apply IH; lia.
        -- apply IH; cbn [length]; lia.
      * destruct (d =? c_pct); apply IH; cbn [length]; lia.
    + apply IH; cbn [length]; lia.
Qed.
Definition parse_from (p lit : qstr) (cnd : option mtype) (toks : list token) : list token :=
  parse_aux (S (length p)) p lit cnd toks.
Lemma parse_pattern_from p : parse_pattern p = parse_from p [] None [].
Proof. reflexivity. Qed.
Lemma pf_nil lit cnd toks : parse_from [] lit cnd toks = flush lit cnd toks.
Proof. reflexivity. Qed.
Lemma pf_last c lit cnd toks : parse_from [c] lit cnd toks = flush (lit ++ [c]) cnd toks.
Proof. reflexivity. Qed.
Lemma pf_char c tl lit cnd toks : c <> c_pct -> parse_from (c :: tl) lit cnd toks = parse_from tl (lit ++ [c]) cnd toks.
Proof.
  intros H. destruct tl as [|d r]; [reflexivity|]. unfold parse_from. cbn [length]. rewrite parse_aux_S.
  destruct (N.eqb_spec c c_pct); [contradiction|]. apply parse_aux_fuel; cbn [length]; lia.
Qed.
Lemma pf_escape r lit cnd toks : parse_from (c_pct :: c_pct :: r) lit cnd toks = parse_from r (lit ++ [c_pct]) cnd toks.
Proof. unfold parse_from. cbn [length]. rewrite parse_aux_S. cbn [N.eqb c_pct c_lbrace Pos.eqb]. apply parse_aux_fuel; lia. Qed.
Lemma pf_lone d r lit cnd toks : d <> c_lbrace -> d <> c_pct ->
  parse_from (c_pct :: d :: r) lit cnd toks = parse_from (d :: r) (lit ++ [c_pct]) cnd toks.
Proof.
  intros H1 H2. unfold parse_from. cbn [length]. rewrite parse_aux_S, N.eqb_refl.
  destruct (N.eqb_spec d c_lbrace); [contradiction|]. destruct (N.eqb_spec d c_pct); [contradiction|].
  apply parse_aux_fuel; cbn [length]; lia.
Qed.
Lemma pf_unterminated r lit cnd toks : index_of c_rbrace r = None ->
  parse_from (c_pct :: c_lbrace :: r) lit cnd toks = parse_from (c_lbrace :: r) [c_pct] cnd (flush lit cnd toks).
Proof.
  intros H. unfold parse_from. cbn [length]. rewrite parse_aux_S, !N.eqb_refl, H. apply parse_aux_fuel; cbn [length]; lia.
Qed.
Lemma pf_placeholder r k lit cnd toks : index_of c_rbrace r = Some k ->
  parse_from (c_pct :: c_lbrace :: r) lit cnd toks =
  parse_from (skipn (S k) r) [] (fst (ph_step (firstn k r) cnd (flush lit cnd toks))) (snd (ph_step (firstn k r) cnd (flush lit cnd toks))).
Proof.
  intros H. unfold parse_from. cbn [length]. rewrite parse_aux_S, !N.eqb_refl, H.
  destruct (ph_step (firstn k r) cnd (flush lit cnd toks)) as [c' t']. cbn [fst snd].
  pose proof (skipn_length_le (S k) r). apply parse_aux_fuel; lia.
Qed.
Lemma index_of_none c l : ~ In c l -> index_of c l = None.
Proof.
  induction l as [|x l IH]; intros H; [reflexivity|]. cbn [index_of]. destruct (N.eqb_spec x c).
  - exfalso. apply H. left. exact e.
  - rewrite IH; [reflexivity|]. intros H'. apply H. right. exact H'.
Qed.
Lemma index_of_app_here c a b : ~ In c a -> index_of c (a ++ c :: b) = Some (length a).
Proof.
  induction a as [|x a IH]; intros H; cbn [app index_of length].
  - rewrite N.eqb_refl. reflexivity.
  - destruct (N.eqb_spec x c); [exfalso; apply H; left; assumption|].
    rewrite IH; [reflexivity|]. intros H'. apply H. right. exact H'.
Qed.

(* D1. patterns without a (terminated) placeholder: the output is the pattern with every "%%"
   collapsed to "%" — literal text, a lone '%', a trailing '%' and an unterminated "%{" are all
   reproduced unchanged *)
Fixpoint unescape (p : qstr) : qstr :=
  match p with
  | c :: ((d :: r) as tl) => if (c =? c_pct) && (d =? c_pct) then c_pct :: unescape r else c :: unescape tl
  | _ => p
  end.
(* no "%{" (read as the tokeniser reads: "%%" is a pair) is followed by a '}' *)
Fixpoint no_placeholder (p : qstr) : bool :=
  match p with
  | c :: ((d :: r) as tl) =>
      if c =? c_pct then
        if d =? c_lbrace then (match index_of c_rbrace r with None => true | Some _ => false end) && no_placeholder tl
        else if d =? c_pct then no_placeholder r else no_placeholder tl
      else no_placeholder tl
  | _ => true
  end.
Lemma unescape_S c d r : unescape (c :: d :: r) = if (c =? c_pct) && (d =? c_pct) then c_pct :: unescape r else c :: unescape (d :: r).
Proof. reflexivity. Qed.
Lemma np_S c d r : no_placeholder (c :: d :: r) =
  if c =? c_pct then
    if d =? c_lbrace then (match index_of c_rbrace r with None => true | Some _ => false end) && no_placeholder (d :: r)
    else if d =? c_pct then no_placeholder r else no_placeholder (d :: r)
  else no_placeholder (d :: r).
Proof. reflexivity. Qed.
Definition plain_lit (t : token) : Prop := exists txt, t = {| kind := KLit txt; cond := None; tspec := None |}.
Definition lits (toks : list token) : qstr := concat (map (fun t => match kind t with KLit x => x | _ => [] end) toks).
Lemma lits_app a b : lits (a ++ b) = lits a ++ lits b.
Proof. unfold lits. rewrite map_app, concat_app. reflexivity. Qed.
Lemma flush_lits lit toks : Forall plain_lit toks ->
  Forall plain_lit (flush lit None toks) /\ lits (flush lit None toks) = lits toks ++ lit.
Proof.
  intros H. unfold flush. destruct lit as [|c l]; [rewrite app_nil_r; split; [exact H|reflexivity]|].
  split.
  - apply Forall_app. split; [exact H|]. constructor; [|constructor]. eexists. reflexivity.
  - rewrite lits_app. unfold lits at 2. cbn. rewrite app_nil_r. reflexivity.
Qed.
Lemma parse_no_placeholder : forall n p lit toks, (length p <= n)%nat -> no_placeholder p = true -> Forall plain_lit toks ->
  Forall plain_lit (parse_from p lit None toks) /\ lits (parse_from p lit None toks) = lits toks ++ lit ++ unescape p.
Proof.
  induction n as [|n IH]; intros p lit toks Hn Hp Ht.
  - destruct p; [|cbn [length] in Hn; lia]. rewrite pf_nil, app_nil_r. apply flush_lits, Ht.
  - destruct p as [|c [|d r]].
    + rewrite pf_nil, app_nil_r. apply flush_lits, Ht.
    + rewrite pf_last. apply flush_lits, Ht.
    + cbn [length] in Hn. rewrite np_S in Hp. rewrite unescape_S. destruct (N.eqb_spec c c_pct) as [->|Hc].
      * destruct (N.eqb_spec d c_lbrace) as [->|Hd].
        -- apply andb_prop in Hp as [Hi Hp]. destruct (index_of c_rbrace r) eqn:Ei; [discriminate|].
           rewrite pf_unterminated by exact Ei. destruct (flush_lits lit toks Ht) as [F1 F2].
           destruct (IH (c_lbrace :: r) [c_pct] (flush lit None toks)) as [G1 G2]; [cbn [length]; lia|exact Hp|exact F1|].
           split; [exact G1|]. rewrite G2, F2. cbn [andb N.eqb c_pct c_lbrace Pos.eqb]. rewrite <- app_assoc. reflexivity.
        -- destruct (N.eqb_spec d c_pct) as [->|Hd2].
           ++ rewrite pf_escape. destruct (IH r (lit ++ [c_pct]) toks) as [G1 G2]; [lia|exact Hp|exact Ht|].
              split; [exact G1|]. rewrite G2. cbn [andb]. rewrite <- !app_assoc. reflexivity.
           ++ rewrite pf_lone by assumption. destruct (IH (d :: r) (lit ++ [c_pct]) toks) as [G1 G2]; [cbn [length]; lia|exact Hp|exact Ht|].
              split; [exact G1|]. rewrite G2. cbn [andb]. rewrite <- !app_assoc. reflexivity.
      * rewrite pf_char by exact Hc. destruct (IH (d :: r) (lit ++ [c]) toks) as [G1 G2]; [cbn [length]; lia|exact Hp|exact Ht|].
        split; [exact G1|]. rewrite G2. cbn [andb]. rewrite <- !app_assoc. reflexivity.
Qed.
Lemma unescape_nonempty p : p <> [] -> unescape p <> [].
Proof. destruct p as [|c [|d r]]; intros H; try contradiction; cbn [unescape]; [discriminate|]. destruct ((c =? c_pct) && (d =? c_pct)); discriminate. Qed.
Lemma plain_lits_format toks m : Forall plain_lit toks -> toks <> [] -> format_oob toks m = lits toks.
Proof.
  intros H Hne. rewrite values_verbatim; [|exact Hne|].
  - unfold concat_pieces, lits. induction H as [|t l [txt ->] Hl IH]; [reflexivity|].
    unfold active in *. cbn [filter cond_ok cond map concat kind piece]. f_equal.
    destruct l; [reflexivity|]. apply IH. discriminate.
  - clear Hne. induction H as [|t l [txt ->] Hl IH]; [reflexivity|]. unfold active in *. cbn [filter cond_ok cond existsb removes kind orb]. exact IH.
Qed.
Lemma pattern_without_placeholder p m : p <> [] -> no_placeholder p = true -> format_oob (parse_pattern p) m = unescape p.
Proof.
  intros Hne Hp. destruct (parse_no_placeholder (length p) p [] [] (le_n _) Hp (Forall_nil _)) as [H1 H2].
  rewrite parse_pattern_from, plain_lits_format; [exact H2|exact H1|].
  intros E. rewrite E in H2. cbn in H2. symmetry in H2. revert H2. apply unescape_nonempty, Hne.
Qed.
Lemma no_pct_unescape p : ~ In c_pct p -> unescape p = p /\ no_placeholder p = true.
Proof.
  induction p as [|c p IH]; intros H; [split; reflexivity|].
  assert (Hc : c <> c_pct) by (intros E; apply H; left; exact E).
  assert (Hp : ~ In c_pct p) by (intros E; apply H; right; exact E).
  destruct (IH Hp) as [I1 I2]. destruct p as [|d r]; [split; reflexivity|].
  rewrite unescape_S, np_S. destruct (N.eqb_spec c c_pct); [contradiction|]. cbn [andb]. split; [f_equal; exact I1|exact I2].
Qed.
Lemma unescape_prefix a p : ~ In c_pct a -> unescape (a ++ p) = a ++ unescape p.
Proof.
  induction a as [|c a IH]; intros H; [reflexivity|].
  assert (Hc : c <> c_pct) by (intros E; apply H; left; exact E).
  assert (Ha : ~ In c_pct a) by (intros E; apply H; right; exact E).
  cbn [app]. destruct (a ++ p) as [|d r] eqn:E.
  - destruct a; [|discriminate]. cbn [app] in E. subst p. reflexivity.
  - rewrite unescape_S. destruct (N.eqb_spec c c_pct); [contradiction|]. cbn [andb]. rewrite IH by exact Ha. reflexivity.
Qed.
Lemma no_placeholder_prefix a p : ~ In c_pct a -> no_placeholder (a ++ p) = no_placeholder p.
Proof.
  induction a as [|c a IH]; intros H; [reflexivity|].
  assert (Hc : c <> c_pct) by (intros E; apply H; left; exact E).
  assert (Ha : ~ In c_pct a) by (intros E; apply H; right; exact E).
  cbn [app]. destruct (a ++ p) as [|d r] eqn:E.
  - destruct a; [|discriminate]. cbn [app] in E. subst p. reflexivity.
  - rewrite np_S. destruct (N.eqb_spec c c_pct); [contradiction|]. apply IH, Ha.
Qed.
(* the four named cases *)
Lemma literal_verbatim p m : p <> [] -> ~ In c_pct p -> format_oob (parse_pattern p) m = p.
Proof. intros Hne H. destruct (no_pct_unescape p H) as [H1 H2]. rewrite pattern_without_placeholder by assumption. exact H1. Qed.
Lemma percent_escape a b m : ~ In c_pct a -> ~ In c_pct b ->
  format_oob (parse_pattern (a ++ [c_pct; c_pct] ++ b)) m = a ++ [c_pct] ++ b.
Proof.
  intros Ha Hb. destruct (no_pct_unescape b Hb) as [H1 H2]. rewrite pattern_without_placeholder.
  - rewrite unescape_prefix by exact Ha. cbn [app unescape N.eqb c_pct Pos.eqb andb]. rewrite H1. reflexivity.
  - destruct a; discriminate.
  - rewrite no_placeholder_prefix by exact Ha. cbn [app no_placeholder N.eqb c_pct c_lbrace Pos.eqb]. exact H2.
Qed.
Lemma lone_percent a b m : ~ In c_pct a -> ~ In c_pct b -> (match b with c :: _ => c <> c_lbrace | [] => True end) ->
  format_oob (parse_pattern (a ++ [c_pct] ++ b)) m = a ++ [c_pct] ++ b.
Proof.
  intros Ha Hb Hc. destruct (no_pct_unescape b Hb) as [H1 H2]. rewrite pattern_without_placeholder.
  - rewrite unescape_prefix by exact Ha. f_equal. destruct b as [|c r]; [reflexivity|]. cbn [app]. rewrite unescape_S.
    destruct (N.eqb_spec c c_pct) as [->|]; [exfalso; apply Hb; left; reflexivity|]. rewrite andb_false_r. f_equal. exact H1.
  - destruct a; discriminate.
  - rewrite no_placeholder_prefix by exact Ha. destruct b as [|c r]; [reflexivity|]. cbn [app]. rewrite np_S, N.eqb_refl.
    destruct (N.eqb_spec c c_lbrace); [contradiction|].
    destruct (N.eqb_spec c c_pct) as [->|]; [exfalso; apply Hb; left; reflexivity|]. exact H2.
Qed.
Lemma unterminated_placeholder_literal a b m : ~ In c_pct a -> ~ In c_pct b -> ~ In c_rbrace b ->
  format_oob (parse_pattern (a ++ [c_pct; c_lbrace] ++ b)) m = a ++ [c_pct; c_lbrace] ++ b.
Proof.
  intros Ha Hb Hr. assert (Hlb : ~ In c_pct (c_lbrace :: b)) by (intros [E|E]; [discriminate|contradiction]).
  destruct (no_pct_unescape _ Hlb) as [H1 H2]. rewrite pattern_without_placeholder.
  - rewrite unescape_prefix by exact Ha. f_equal. cbn [app]. rewrite unescape_S.
    cbn [N.eqb c_pct c_lbrace Pos.eqb andb]. f_equal. exact H1.
  - destruct a; discriminate.
  - rewrite no_placeholder_prefix by exact Ha. cbn [app]. rewrite np_S. cbn [N.eqb c_pct c_lbrace Pos.eqb].
    rewrite (index_of_none _ _ Hr). cbn [andb]. exact H2.
Qed.

(* D2. patterns written in the documented grammar: text, "%%", "%{body}" *)
Inductive item := IText (s : qstr) | IEsc | IPh (body : qstr).
Definition wf_item (i : item) : Prop :=
  match i with IText s => ~ In c_pct s | IEsc => True | IPh b => ~ In c_rbrace b end.
Definition unparse_item (i : item) : qstr :=
  match i with IText s => s | IEsc => [c_pct; c_pct] | IPh b => [c_pct; c_lbrace] ++ b ++ [c_rbrace] end.
Definition unparse (l : list item) : qstr := concat (map unparse_item l).
Definition tstate := (qstr * option mtype * list token)%type.
(* what each item does to (pending literal, condition in force, tokens so far) *)
Definition sem_item (st : tstate) (i : item) : tstate :=
  let '(lit, cnd, toks) := st in
  match i with
  | IText s => (lit ++ s, cnd, toks)
  | IEsc => (lit ++ [c_pct], cnd, toks)
  | IPh b => let r := ph_step b cnd (flush lit cnd toks) in ([], fst r, snd r)
  end.
Definition finish (st : tstate) : list token := let '(lit, cnd, toks) := st in flush lit cnd toks.
Lemma pf_text s rest lit cnd toks : ~ In c_pct s -> parse_from (s ++ rest) lit cnd toks = parse_from rest (lit ++ s) cnd toks.
Proof.
  revert lit. induction s as [|c s IH]; intros lit H; [rewrite app_nil_r; reflexivity|].
  cbn [app]. rewrite pf_char by (intros E; apply H; left; exact E).
  rewrite IH by (intros E; apply H; right; exact E). rewrite <- app_assoc. reflexivity.
Qed.
Lemma skipn_past (b : qstr) c rest : skipn (S (length b)) (b ++ c :: rest) = rest.
Proof. induction b as [|x b IH]; [reflexivity|]. cbn [length app]. exact IH. Qed.
Lemma parse_items : forall items lit cnd toks, Forall wf_item items ->
  parse_from (unparse items) lit cnd toks = finish (fold_left sem_item items (lit, cnd, toks)).
Proof.
  induction items as [|i items IH]; intros lit cnd toks H; [reflexivity|].
  inversion H as [|? ? Hi Hr]; subst. unfold unparse in *. cbn [map concat fold_left].
  destruct i as [s| |b]; cbn [unparse_item sem_item wf_item] in *.
  - rewrite pf_text by exact Hi. apply IH, Hr.
  - cbn [app]. rewrite pf_escape. apply IH, Hr.
  - cbn [app]. rewrite <- app_assoc. cbn [app].
    rewrite (pf_placeholder _ (length b)) by (apply index_of_app_here, Hi).
    rewrite firstn_app, firstn_all, Nat.sub_diag, firstn_O, app_nil_r.
    replace (skipn (S (length b)) (b ++ c_rbrace :: concat (map unparse_item items))) with (concat (map unparse_item items)).
    + apply IH, Hr.
    + symmetry. apply skipn_past.
Qed.
Lemma parse_grammar items : Forall wf_item items -> parse_pattern (unparse items) = finish (fold_left sem_item items ([], None, [])).
Proof. intros H. rewrite parse_pattern_from. apply parse_items, H. Qed.

(* D3. conditionals in the grammar: %{if-T} B %{endif} puts exactly the tokens of B under condition T *)
Definition set_cond (c : option mtype) (t : token) : token := {| kind := kind t; cond := c; tspec := tspec t |}.
Definition is_cond_item (i : item) : bool :=
  match i with IPh b => match classify (fst (split_spec b)) with PCond _ => true | PTok _ => false end | _ => false end.
Lemma flush_prefix lit c X t : flush lit c (X ++ t) = X ++ flush lit c t.
Proof. unfold flush. destruct lit; [reflexivity|apply app_assoc_reverse]. Qed.
Lemma ph_step_prefix b c X t : ph_step b c (X ++ t) = (fst (ph_step b c t), X ++ snd (ph_step b c t)).
Proof. unfold ph_step. destruct (split_spec b) as [ph sp]. destruct (classify ph); cbn [fst snd]; [rewrite app_assoc_reverse|]; reflexivity. Qed.
Lemma fold_prefix : forall items lit c X t0,
  fold_left sem_item items (lit, c, X ++ t0) =
  (fst (fst (fold_left sem_item items (lit, c, t0))), snd (fst (fold_left sem_item items (lit, c, t0))), X ++ snd (fold_left sem_item items (lit, c, t0))).
Proof.
  induction items as [|i items IH]; intros lit c X t0; [reflexivity|]. cbn [fold_left].
  destruct i as [s| |b]; cbn [sem_item]; try apply IH.
  rewrite flush_prefix, ph_step_prefix. cbn [fst snd]. apply IH.
Qed.
Lemma flush_set_cond lit c t : flush lit c (map (set_cond c) t) = map (set_cond c) (flush lit None t).
Proof. unfold flush. destruct lit; [reflexivity|]. rewrite map_app. reflexivity. Qed.
Lemma fold_nocond : forall items lit c t0, forallb (fun i => negb (is_cond_item i)) items = true ->
  fold_left sem_item items (lit, c, map (set_cond c) t0) =
  (fst (fst (fold_left sem_item items (lit, None, t0))), c, map (set_cond c) (snd (fold_left sem_item items (lit, None, t0))))
  /\ snd (fst (fold_left sem_item items (lit, None, t0))) = None.
Proof.
  induction items as [|i items IH]; intros lit c t0 H; [split; reflexivity|]. cbn [forallb] in H. apply andb_prop in H as [Hi Hr].
  cbn [fold_left]. destruct i as [s| |b]; cbn [sem_item]; try (apply IH, Hr).
  cbn [is_cond_item] in Hi. unfold ph_step. destruct (split_spec b) as [ph sp]. cbn [fst] in Hi.
  destruct (classify ph) as [k|c']; [|discriminate]. cbn [fst snd].
  rewrite flush_set_cond.
  change (map (set_cond c) (flush lit None t0) ++ [{| kind := k; cond := c; tspec := sp |}])
    with (map (set_cond c) (flush lit None t0) ++ map (set_cond c) [{| kind := k; cond := None; tspec := sp |}]).
  rewrite <- map_app. apply IH, Hr.
Qed.
Lemma unparse_app a b : unparse (a ++ b) = unparse a ++ unparse b.
Proof. unfold unparse. rewrite map_app, concat_app. reflexivity. Qed.
Lemma conditional_block (A B C : list item) (bi be : qstr) (T : mtype) :
  Forall wf_item A -> Forall wf_item B -> Forall wf_item C -> ~ In c_rbrace bi -> ~ In c_rbrace be ->
  (forall cnd toks, ph_step bi cnd toks = (Some T, toks)) -> (forall cnd toks, ph_step be cnd toks = (None, toks)) ->
  forallb (fun i => negb (is_cond_item i)) B = true -> forallb (fun i => negb (is_cond_item i)) C = true ->
  parse_pattern (unparse (A ++ IPh bi :: B ++ IPh be :: C))
  = parse_pattern (unparse A) ++ map (set_cond (Some T)) (parse_pattern (unparse B)) ++ parse_pattern (unparse C).
Proof.
  intros WA WB WC Wi We Hi He NB NC.
  rewrite !parse_grammar; try assumption.
  2:{ apply Forall_app. split; [exact WA|]. constructor; [exact Wi|]. apply Forall_app. split; [exact WB|]. constructor; [exact We|exact WC]. }
  rewrite fold_left_app. cbn [fold_left]. rewrite fold_left_app. cbn [fold_left].
  destruct (fold_left sem_item A ([], None, [])) as [[la ca] ta]. cbn [sem_item finish]. rewrite Hi. cbn [fst snd].
  pose proof (fold_prefix B [] (Some T) (flush la ca ta) []) as P. rewrite app_nil_r in P. unfold qstr in *. rewrite P. clear P.
  destruct (fold_nocond B [] (Some T) [] NB) as [Q _]. cbn [map] in Q. unfold qstr in *. rewrite Q. clear Q. cbn [fst snd].
  destruct (fold_left sem_item B ([], None, [])) as [[lb cb] tb] eqn:EB. cbn [fst snd finish sem_item].
  rewrite He. cbn [fst snd]. rewrite flush_prefix, flush_set_cond.
  pose proof (fold_prefix C [] None (flush la ca ta ++ map (set_cond (Some T)) (flush lb None tb)) []) as P. rewrite app_nil_r in P.
  unfold qstr in *. rewrite P. clear P.
  destruct (fold_nocond C [] None [] NC) as [_ Q]. destruct (fold_nocond B [] None [] NB) as [_ Q2].
  unfold qstr in *. rewrite EB in Q2. cbn [fst snd] in Q2. subst cb.
  destruct (fold_left sem_item C ([], None, [])) as [[lc cc] tc]. cbn [fst snd finish] in *. subst cc.
  rewrite flush_prefix, <- app_assoc. reflexivity.
Qed.

(* ------------------------------------------------------------------ F. closed examples and the refuted in-band evaluator *)
(* every removal count the tokeniser produces fits in int (QString::toInt), so the pending count
   only ever saturates when several maximal counts are summed *)
Lemma count_of_le s : count_of s <= src_pending_max.
Proof.
  unfold count_of, to_int. change src_pending_max with 2147483647.
  destruct (trimmed s) as [|c r]; [cbn; lia|].
  destruct (c =? 45); [|destruct (c =? 43)].
  1,2: destruct r as [|d r']; [cbn; lia|].
  all: match goal with |- context [digits_val ?a ?b] => destruct (digits_val a b) as [v|] end; [|cbn; lia];
       match goal with |- context [if ?b then _ else _] => destruct b eqn:E end; cbn [fst]; lia.
Qed.
Definition msg0 (t : mtype) (txt : qstr) (a : list (qstr * aval)) : msg :=
  {| mt := t; text := txt; mfile := []; mfunc := []; mfunc_clean := []; mcat := []; mline := 0%Z;
     mtime := fun _ => []; mtid := 0; mptr := 0; attrs := a |}.
Definition x_w1_pat : qstr := [91;37;123;109;101;115;115;97;103;101;125;93;32;60;37;123;117;115;101;114;63;49;44;49;125;62;120].
Definition x_w1_msg : qstr := [97;8203;98;8203].
Definition x_w1_out : qstr := [91;97;8203;98;8203;93;32;120].
Definition x_w1_old : qstr := [91;97;98;32;120].
Definition x_w2_pat : qstr := [37;123;109;101;115;115;97;103;101;58;60;56;125;37;123;117;63;49;44;49;125;37;123;109;101;115;115;97;103;101;58;62;56;33;125;37;123;117;63;49;125;62].
Definition x_w2_msg : qstr := [97].
Definition x_w2_out : qstr := [97;32;32;32;32;32;32;62].
Definition x_w2_old : qstr := [97;32;32;32;32;32;32].
Definition x_w3_pat : qstr := [37;123;109;101;115;115;97;103;101;125;124].
Definition x_w3_msg : qstr := [97;8203].
Definition x_w3_old : qstr := [97].
Definition x_d1_pat : qstr := [91;37;123;117;115;101;114;63;49;44;49;125;93;32;37;123;109;101;115;115;97;103;101;125].
Definition x_hello : qstr := [72;101;108;108;111].
Definition x_d1_out : qstr := [32;72;101;108;108;111].
Definition x_user : qstr := [117;115;101;114].
Definition x_admin : qstr := [97;100;109;105;110].
Definition x_d1_out2 : qstr := [91;97;100;109;105;110;93;32;72;101;108;108;111].
Definition x_d2_pat : qstr := [35;37;123;115;101;113;95;110;117;109;98;101;114;63;49;125;32;37;123;109;101;115;115;97;103;101;125].
Definition x_seq : qstr := [115;101;113;95;110;117;109;98;101;114].
Definition x_d2_out : qstr := [35;52;50;32;72;101;108;108;111].
Definition x_t1 : qstr := [37;123;116;121;112;101;58;60;49;48;125].
Definition x_t1o : qstr := [100;101;98;117;103;32;32;32;32;32].
Definition x_t2 : qstr := [37;123;116;121;112;101;58;62;49;48;125].
Definition x_t2o : qstr := [32;32;32;32;32;100;101;98;117;103].
Definition x_t3 : qstr := [37;123;116;121;112;101;58;94;49;48;125].
Definition x_t3o : qstr := [32;32;100;101;98;117;103;32;32;32].
Definition x_t4 : qstr := [37;123;116;121;112;101;58;42;60;49;48;125].
Definition x_t4o : qstr := [100;101;98;117;103;42;42;42;42;42].
Definition x_t5 : qstr := [37;123;116;121;112;101;58;60;53;125].
Definition x_t5o : qstr := [119;97;114;110;105;110;103].
Definition x_t6 : qstr := [37;123;116;121;112;101;58;49;48;33;125].
Definition x_t6o : qstr := [99;114;105;116;105;99;97;108].
Definition x_t7 : qstr := [37;123;116;121;112;101;58;53;33;125].
Definition x_t7o : qstr := [99;114;105;116;105].
Definition x_t8 : qstr := [37;123;116;121;112;101;58;60;53;33;125].
Definition x_t9 : qstr := [37;123;116;121;112;101;58;62;53;33;125].
Definition x_t9o : qstr := [116;105;99;97;108].
Definition x_t10 : qstr := [37;123;116;121;112;101;58;32;60;56;33;125].
Definition x_t10o : qstr := [100;101;98;117;103;32;32;32].
Definition x_t11 : qstr := [37;123;116;121;112;101;58;42;62;49;48;33;125].
Definition x_t11o : qstr := [42;42;42;42;42;42;105;110;102;111].
Definition x_t12 : qstr := [37;123;99;97;116;101;103;111;114;121;58;60;49;48;33;125].
Definition x_cat : qstr := [97;112;112;46;117;105;46;100;105;97;108;111;103;115].
Definition x_t12o : qstr := [97;112;112;46;117;105;46;100;105;97].
Definition x_c1 : qstr := [37;123;105;102;45;100;101;98;117;103;125;68;37;123;101;110;100;105;102;125;37;123;105;102;45;105;110;102;111;125;73;37;123;101;110;100;105;102;125;37;123;105;102;45;119;97;114;110;105;110;103;125;87;37;123;101;110;100;105;102;125;37;123;105;102;45;99;114;105;116;105;99;97;108;125;69;37;123;101;110;100;105;102;125;37;123;105;102;45;102;97;116;97;108;125;70;37;123;101;110;100;105;102;125;32;37;123;109;101;115;115;97;103;101;125].
Definition x_c1d : qstr := [68;32;72;101;108;108;111].
Definition x_c1w : qstr := [87;32;72;101;108;108;111].
Definition x_c1f : qstr := [70;32;72;101;108;108;111].
Definition x_q1 : qstr := [37;123;120;58;121;58;60;52;125].
Definition x_xy : qstr := [120;58;121].
Definition x_v : qstr := [118].
Definition x_q1o : qstr := [118;32;32;32].
Definition x_s1 : qstr := [37;123;109;101;115;115;97;103;101;125;32;49;48;48;37;37;32;37;123;110;111;112;101;125;32;37].
Definition x_s1o : qstr := [72;101;108;108;111;32;49;48;48;37;32;37;123;110;111;112;101;125;32;37].
Definition zwsp : N := 8203.
(* DESIGN section 5, F4: the evaluator of the code before the repair (marker U+200B written into the
   output buffer) drops value characters and eats a literal ... *)
Lemma inband_zwsp_refuted : exists p m,
  format_inband zwsp (parse_pattern p) m <> format_oob (parse_pattern p) m /\
  format_inband zwsp (parse_pattern p) m = x_w1_old /\ format_oob (parse_pattern p) m = x_w1_out.
Proof. exists x_w1_pat, (msg0 Debug x_w1_msg []). vm_compute. repeat split. discriminate. Qed.
(* ... even without any optional attribute: the value loses its last unit and the literal after it is dropped *)
Lemma inband_values_not_verbatim : exists p m,
  existsb (removes m) (active m (parse_pattern p)) = false /\
  format_inband zwsp (parse_pattern p) m <> concat_pieces m (parse_pattern p).
Proof. exists x_w3_pat, (msg0 Debug x_w3_msg []). vm_compute. split; [reflexivity|discriminate]. Qed.
(* ... and without any U+200B anywhere: a buried marker re-surfaces after a later chop and eats the final '>' *)
Lemma inband_buried_marker_refuted : exists p m,
  ~ In zwsp p /\ ~ In zwsp (text m) /\ attrs m = [] /\
  format_inband zwsp (parse_pattern p) m = x_w2_old /\ format_oob (parse_pattern p) m = x_w2_out.
Proof.
  exists x_w2_pat, (msg0 Debug x_w2_msg []). repeat split; try (vm_compute; reflexivity);
  intros H; vm_compute in H; repeat (destruct H as [H|H]; [discriminate|]); exact H.
Qed.

(* ------------------------------------------------------------------ G. the same statements about THE model
   (format_model = the evaluator the translator finds in the source) *)
Section Model.
  Hypothesis Hsrc : src_inband_marker = None.
  Lemma model_oob toks m : format_model toks m = format_oob toks m.
  Proof. unfold format_model. rewrite Hsrc. reflexivity. Qed.
  Lemma M_literal_verbatim p m : p <> [] -> ~ In c_pct p -> format_pattern p m = p.
  Proof. unfold format_pattern. rewrite model_oob. apply literal_verbatim. Qed.
  Lemma M_percent_escape a b m : ~ In c_pct a -> ~ In c_pct b -> format_pattern (a ++ [c_pct; c_pct] ++ b) m = a ++ [c_pct] ++ b.
  Proof. unfold format_pattern. rewrite model_oob. apply percent_escape. Qed.
  Lemma M_lone_percent a b m : ~ In c_pct a -> ~ In c_pct b -> (match b with c :: _ => c <> c_lbrace | [] => True end) ->
    format_pattern (a ++ [c_pct] ++ b) m = a ++ [c_pct] ++ b.
  Proof. unfold format_pattern. rewrite model_oob. apply lone_percent. Qed.
  Lemma M_unterminated a b m : ~ In c_pct a -> ~ In c_pct b -> ~ In c_rbrace b ->
    format_pattern (a ++ [c_pct; c_lbrace] ++ b) m = a ++ [c_pct; c_lbrace] ++ b.
  Proof. unfold format_pattern. rewrite model_oob. apply unterminated_placeholder_literal. Qed.
  Lemma M_without_placeholder p m : p <> [] -> no_placeholder p = true -> format_pattern p m = unescape p.
  Proof. unfold format_pattern. rewrite model_oob. apply pattern_without_placeholder. Qed.
  Lemma M_values_verbatim toks m : toks <> [] -> existsb (removes m) (active m toks) = false ->
    format_model toks m = concat_pieces m toks.
  Proof. rewrite model_oob. apply values_verbatim. Qed.
  Lemma M_empty toks m : toks = [] -> format_model toks m = text m.
  Proof. intros ->. rewrite model_oob. reflexivity. Qed.
  Lemma M_subsequence toks m : toks <> [] ->
    Subseq (format_model toks m) (concat_pieces m toks) /\ lenN (concat_pieces m toks) <= lenN (format_model toks m) + budget m toks.
  Proof. rewrite model_oob. apply output_subsequence. Qed.
  Lemma M_oracle toks m : prop_c12_b toks m (format_model toks m) = true.
  Proof. rewrite model_oob. apply oracle_holds. Qed.
  Lemma M_conditional toks m : active m toks <> [] -> format_model toks m = format_model (active m toks) m.
  Proof.
    intros H. assert (Hne : toks <> []) by (intros ->; apply H; reflexivity).
    rewrite (model_oob toks), (model_oob (active m toks)), (format_active toks m Hne), (format_active (active m toks) m H), !run_active. reflexivity.
  Qed.
  Lemma M_inactive toks m : toks <> [] -> format_model toks m = fst (run_oob m (active m toks) ([], 0)).
  Proof. rewrite model_oob. apply format_active. Qed.
  Section MRule.
    Variables (m : msg) (pre mid post : list token) (o : token) (n : qstr) (rb ra : N).
    Hypothesis Hpre : forallb (plain m) pre = true.
    Hypothesis Ho : kind o = KAttr n true rb ra.
    Hypothesis Hoc : cond_ok m o = true.
    Hypothesis Hmiss : lookup n (attrs m) = None.
    Hypothesis Hra : ra <= src_pending_max.
    Hypothesis Hmid : forallb (silent m) mid = true.
    Hypothesis Hpost : forallb (plain m) post = true.
    Lemma M_rule_literal_next (l : token) (txt : qstr) : kind l = KLit txt -> cond_ok m l = true ->
      format_model (pre ++ o :: mid ++ l :: post) m
      = chop_if rb (concat_pieces m pre) ++ skipn (N.to_nat ra) txt ++ concat_pieces m post.
    Proof. rewrite model_oob. apply (rule_literal_next m pre mid post o n rb ra); assumption. Qed.
    Lemma M_rule_value_next (t : token) : is_lit t = false -> removes m t = false -> cond_ok m t = true -> piece m t <> [] ->
      format_model (pre ++ o :: mid ++ t :: post) m
      = chop_if rb (concat_pieces m pre) ++ piece m t ++ concat_pieces m post.
    Proof. rewrite model_oob. apply (rule_value_next m pre mid post o n rb ra); assumption. Qed.
    Lemma M_rule_at_end : format_model (pre ++ o :: mid) m = chop_if rb (concat_pieces m pre).
    Proof. rewrite model_oob. apply (rule_at_end m pre mid o n rb ra); assumption. Qed.
  End MRule.
End Model.

(* the documented conditionals: %{if-debug} ... %{if-fatal}, %{endif}; an unknown name means debug *)
Definition x_if (name : qstr) : qstr := src_ph_if ++ name.
Definition documented_types : list (qstr * mtype) :=
  [([100;101;98;117;103], Debug); ([105;110;102;111], Info); ([119;97;114;110;105;110;103], Warning);
   ([99;114;105;116;105;99;97;108], Critical); ([102;97;116;97;108], Fatal)].
Lemma ph_step_if name T : In (name, T) documented_types -> forall cnd toks, ph_step (x_if name) cnd toks = (Some T, toks).
Proof.
  intros H. repeat (destruct H as [H|H]; [inversion H; subst; intros; reflexivity|]). destruct H.
Qed.
Lemma ph_step_endif : forall cnd toks, ph_step src_ph_endif cnd toks = (None, toks).
Proof. intros. reflexivity. Qed.
Lemma no_rbrace_if name T : In (name, T) documented_types -> ~ In c_rbrace (x_if name).
Proof.
  intros H. repeat (destruct H as [H|H]; [inversion H; subst; intros I; vm_compute in I; repeat (destruct I as [I|I]; [discriminate|]); exact I|]). destruct H.
Qed.
Lemma conditional_tokens (A B C : list item) (name : qstr) (T : mtype) :
  In (name, T) documented_types -> Forall wf_item A -> Forall wf_item B -> Forall wf_item C ->
  forallb (fun i => negb (is_cond_item i)) B = true -> forallb (fun i => negb (is_cond_item i)) C = true ->
  parse_pattern (unparse (A ++ IPh (x_if name) :: B ++ IPh src_ph_endif :: C))
  = parse_pattern (unparse A) ++ map (set_cond (Some T)) (parse_pattern (unparse B)) ++ parse_pattern (unparse C).
Proof.
  intros HT WA WB WC NB NC. apply conditional_block; try assumption.
  - apply (no_rbrace_if name T HT).
  - intros I. vm_compute in I. repeat (destruct I as [I|I]; [discriminate|]). exact I.
  - apply ph_step_if, HT.
  - apply ph_step_endif.
Qed.
(* a token under condition T is emitted iff the message has type T *)
Lemma cond_ok_set_cond m T t : cond_ok m (set_cond (Some T) t) = mtype_eqb T (mt m).
Proof. reflexivity. Qed.
Lemma mtype_eqb_eq a b : mtype_eqb a b = true <-> a = b.
Proof. destruct a, b; cbn; split; intros H; try reflexivity; try discriminate. Qed.

(* ------------------------------------------------------------------ C. parseFormatSpec accepts exactly the documented grammar *)
(* [fill][align]width[!] : the text after one trailing '!' (if any) has been cut off *)
Inductive SpecBody : qstr -> bool -> spec -> Prop :=
| SB_fill_align f c A W w bang :       (* fill align width [!] : pad only / with '!' truncate AND pad *)
    align_of c = Some A -> valid_width W = Some w ->
    SpecBody (f :: c :: W) bang (mk_spec f (Some A) (if bang then MTrunc else MNone) w)
| SB_align c A W w bang :              (* align width [!] : default fill; with '!' this is truncate ONLY (quirk) *)
    align_of c = Some A -> (match W with d :: _ => align_of d = None | [] => True end) -> valid_width W = Some w ->
    SpecBody (c :: W) bang (mk_spec src_default_fill (Some A) (if bang then MOnly else MNone) w)
| SB_number W w :                      (* width ! : truncate only; a bare number without '!' is NOT a spec *)
    (match W with f :: c :: _ => align_of c = None /\ align_of f = None | [f] => align_of f = None | [] => True end) ->
    valid_width W = Some w ->
    SpecBody W true (mk_spec src_default_fill None MOnly w).
Lemma valid_width_nil : valid_width [] = None.
Proof. reflexivity. Qed.
Definition body_spec (s : qstr) (bang : bool) : option spec :=
  match s with
  | [] => None
  | f :: rest1 =>
    match (match rest1 with c :: r => match align_of c with Some a => Some (a, r) | None => None end | [] => None end) with
    | Some (a, r) =>
        match r with [] => None | _ => option_map (mk_spec f (Some a) (if bang then MTrunc else MNone)) (valid_width r) end
    | None =>
      match align_of f with
      | Some a =>
          match rest1 with [] => None | _ => option_map (mk_spec src_default_fill (Some a) (if bang then MOnly else MNone)) (valid_width rest1) end
      | None =>
          if bang then option_map (mk_spec src_default_fill None MOnly) (valid_width s) else None
      end
    end
  end.
Lemma parse_spec_body s0 : parse_spec s0 = body_spec (fst (strip_bang s0)) (snd (strip_bang s0)).
Proof. unfold parse_spec. destruct (strip_bang s0) as [s bang]. reflexivity. Qed.
Lemma body_spec_sound s bang sp : body_spec s bang = Some sp -> SpecBody s bang sp.
Proof.
  unfold body_spec. destruct s as [|f rest1]; [discriminate|].
  destruct rest1 as [|c r].
  - destruct (align_of f) as [a|] eqn:Af; [discriminate|]. destruct bang; [|discriminate].
    destruct (valid_width [f]) as [w|] eqn:V; [|discriminate]. cbn [option_map]. intros H. inversion H; subst.
    apply SB_number; [exact Af|exact V].
  - destruct (align_of c) as [a|] eqn:Ac.
    + destruct r as [|d r]; [discriminate|]. destruct (valid_width (d :: r)) as [w|] eqn:V; [|discriminate].
      cbn [option_map]. intros H. inversion H; subst. apply SB_fill_align; assumption.
    + destruct (align_of f) as [a|] eqn:Af.
      * destruct (valid_width (c :: r)) as [w|] eqn:V; [|discriminate]. cbn [option_map]. intros H. inversion H; subst.
        apply SB_align; assumption.
      * destruct bang; [|discriminate]. destruct (valid_width (f :: c :: r)) as [w|] eqn:V; [|discriminate].
        cbn [option_map]. intros H. inversion H; subst. apply SB_number; [split; assumption|exact V].
Qed.
Lemma body_spec_complete s bang sp : SpecBody s bang sp -> body_spec s bang = Some sp.
Proof.
  intros H. destruct H as [f c A W w bang Ac V|c A W w bang Ac HW V|W w HW V]; unfold body_spec.
  - rewrite Ac. destruct W; [rewrite valid_width_nil in V; discriminate|]. rewrite V. reflexivity.
  - destruct W as [|d r]; [rewrite valid_width_nil in V; discriminate|]. rewrite HW, Ac, V. reflexivity.
  - destruct W as [|f [|c r]]; [rewrite valid_width_nil in V; discriminate| |].
    + rewrite HW, V. reflexivity.
    + destruct HW as [H1 H2]. rewrite H1, H2, V. reflexivity.
Qed.
(* strip_bang: exactly one trailing '!' is taken as the truncation suffix *)
Lemma strip_bang_yes b : strip_bang (b ++ [src_bang]) = (b, true).
Proof. unfold strip_bang, last_and_init. rewrite rev_app_distr. cbn [rev app]. rewrite rev_involutive, N.eqb_refl. reflexivity. Qed.
Lemma strip_bang_no s : (forall b, s <> b ++ [src_bang]) -> strip_bang s = (s, false).
Proof.
  intros H. unfold strip_bang, last_and_init. destruct (rev s) as [|c r] eqn:E; [reflexivity|].
  destruct (N.eqb_spec c src_bang); [|reflexivity]. exfalso. apply (H (rev r)). subst c.
  rewrite <- (rev_involutive s), E. reflexivity.
Qed.
Lemma parse_spec_accepts_exactly s0 sp :
  parse_spec s0 = Some sp <->
  (exists b, s0 = b ++ [src_bang] /\ SpecBody b true sp) \/ ((forall b, s0 <> b ++ [src_bang]) /\ SpecBody s0 false sp).
Proof.
  rewrite parse_spec_body. split.
  - intros H. apply body_spec_sound in H. unfold strip_bang, last_and_init in H.
    destruct (rev s0) as [|c r] eqn:E.
    + right. split; [|exact H]. intros b Hb. rewrite Hb, rev_app_distr in E. discriminate.
    + assert (Es : s0 = rev r ++ [c]) by (rewrite <- (rev_involutive s0), E; reflexivity).
      destruct (N.eqb_spec c src_bang) as [->|Hc]; cbn [fst snd] in H.
      * left. exists (rev r). split; assumption.
      * right. split; [|exact H]. intros b Hb. rewrite Hb in Es. apply app_inj_tail in Es. destruct Es as [_ Es]. congruence.
  - intros [[b [-> H]]|[Hn H]].
    + rewrite strip_bang_yes. apply body_spec_complete, H.
    + rewrite strip_bang_no by exact Hn. apply body_spec_complete, H.
Qed.

(* the width: QString::toInt of the text must succeed with a value > 0.  A plain decimal number does: *)
Definition is_digit (c : N) : bool := (48 <=? c) && (c <=? 57).
Lemma digit_not_space c : is_digit c = true -> is_space c = false.
Proof. unfold is_digit, is_space. intros H. apply andb_prop in H as [H1 H2]. apply N.leb_le in H1, H2.
  repeat (apply orb_false_intro); try (apply N.eqb_neq; lia); try (apply andb_false_iff; (left; apply N.leb_gt; lia) || (right; apply N.leb_gt; lia)).
Qed.
Lemma drop_space_digit c r : is_digit c = true -> drop_space (c :: r) = c :: r.
Proof. intros H. cbn [drop_space]. rewrite (digit_not_space c H). reflexivity. Qed.
Lemma trimmed_digits W : forallb is_digit W = true -> trimmed W = W.
Proof.
  intros H. unfold trimmed. destruct W as [|c r]; [reflexivity|]. cbn [forallb] in H. apply andb_prop in H as [Hc Hr].
  rewrite drop_space_digit by exact Hc.
  destruct (rev (c :: r)) as [|d t] eqn:E; [apply (f_equal (@length N)) in E; rewrite rev_length in E; discriminate|].
  assert (Hd : is_digit d = true).
  { assert (I : In d (c :: r)) by (apply in_rev; rewrite E; left; reflexivity).
    destruct I as [->|I]; [exact Hc|]. rewrite forallb_forall in Hr. apply Hr, I. }
  rewrite drop_space_digit by exact Hd. rewrite <- E. apply rev_involutive.
Qed.
Lemma decimal_width_accepted W v : forallb is_digit W = true -> digits_val W 0%Z = Some v -> (0 < v <= 2147483647)%Z ->
  valid_width W = Some (Z.to_N v).
Proof.
  intros HW Hv Hr. unfold valid_width, to_int. rewrite trimmed_digits by exact HW.
  destruct W as [|c r]; [cbn in Hv; inversion Hv; lia|].
  cbn [forallb] in HW. apply andb_prop in HW as [Hc _]. unfold is_digit in Hc. apply andb_prop in Hc as [H1 H2]. apply N.leb_le in H1, H2.
  destruct (N.eqb_spec c 45); [lia|]. destruct (N.eqb_spec c 43); [lia|]. rewrite Hv.
  destruct (Z.leb_spec (-2147483648) v); [|lia]. destruct (Z.leb_spec v 2147483647); [|lia]. cbn [andb].
  destruct (Z.ltb_spec 0 v); [|lia]. reflexivity.
Qed.

(* ------------------------------------------------------------------ H. null vs empty *)
Lemma result_not_null toks b : toks <> [] -> result_is_null toks b = false.
Proof. destruct toks; [contradiction|reflexivity]. Qed.
Lemma result_null_no_token b : result_is_null [] b = b.
Proof. reflexivity. Qed.

(* ------------------------------------------------------------------ I. one formatter object, several messages *)
Lemma call_oob_result o m : fst (call_oob o m) = format_oob (otoks o) m.
Proof. unfold call_oob, format_oob. destruct (otoks o); reflexivity. Qed.
Lemma call_oob_toks o m : otoks (snd (call_oob o m)) = otoks o.
Proof. unfold call_oob. destruct (otoks o) eqn:E; cbn [snd otoks]; [exact E|reflexivity]. Qed.
Lemma call_oob_pending o m : otoks o <> [] -> opending (snd (call_oob o m)) = 0.
Proof. unfold call_oob. destruct (otoks o); [contradiction|reflexivity]. Qed.
Lemma call_model_result o m : fst (call_model o m) = format_model (otoks o) m.
Proof. unfold call_model, format_model. destruct src_inband_marker; [reflexivity|apply call_oob_result]. Qed.
Lemma call_model_toks o m : otoks (snd (call_model o m)) = otoks o.
Proof. unfold call_model. destruct src_inband_marker; [reflexivity|apply call_oob_toks]. Qed.
Lemma calls_model_results ms : forall o, fst (calls_model o ms) = map (format_model (otoks o)) ms.
Proof.
  induction ms as [|m r IH]; intros o; [reflexivity|].
  cbn [calls_model map]. pose proof (call_model_result o m) as H1. pose proof (call_model_toks o m) as H2.
  destruct (call_model o m) as [x o1]. cbn [fst snd] in H1, H2. specialize (IH o1).
  destruct (calls_model o1 r) as [xs o2]. cbn [fst] in IH |- *. rewrite H1, IH, H2. reflexivity.
Qed.
Lemma calls_model_toks ms : forall o, otoks (snd (calls_model o ms)) = otoks o.
Proof.
  induction ms as [|m r IH]; intros o; [reflexivity|].
  cbn [calls_model]. pose proof (call_model_toks o m) as H2.
  destruct (call_model o m) as [x o1]. cbn [snd] in H2. specialize (IH o1).
  destruct (calls_model o1 r) as [xs o2]. cbn [snd] in IH |- *. rewrite IH. exact H2.
Qed.
(* the results of a sequence of calls on one object are, call by call, what the pattern and THAT message give *)
Lemma seq_stateless p l ms : format_seq p l ms = map (format_pattern p) ms.
Proof. unfold format_seq. rewrite calls_model_results. reflexivity. Qed.
Lemma seq_nth p l ms i m : nth_error ms i = Some m -> nth_error (format_seq p l ms) i = Some (format_pattern p m).
Proof. intros H. rewrite seq_stateless. apply map_nth_error, H. Qed.
Lemma seq_history_independent p l h m t : nth_error (format_seq p l (h ++ m :: t)) (length h) = Some (format_pattern p m).
Proof. apply seq_nth. rewrite nth_error_app2 by lia. rewrite Nat.sub_diag. reflexivity. Qed.
Lemma seq_length p l ms : length (format_seq p l ms) = length ms.
Proof. rewrite seq_stateless. apply map_length. Qed.
Lemma seq_object_unchanged p l ms : otoks (snd (calls_model (construct p l) ms)) = parse_pattern p.
Proof. rewrite calls_model_toks. reflexivity. Qed.
Lemma calls_model_pending (Hsrc : src_inband_marker = None) ms : forall o, otoks o <> [] ->
  opending (snd (calls_model o ms)) = match ms with [] => opending o | _ => 0 end.
Proof.
  induction ms as [|m r IH]; intros o Ho; [reflexivity|].
  cbn [calls_model]. pose proof (call_model_toks o m) as H2.
  assert (H3 : opending (snd (call_model o m)) = 0) by (unfold call_model; rewrite Hsrc; apply call_oob_pending, Ho).
  destruct (call_model o m) as [x o1]. cbn [snd] in H2, H3. assert (Ho1 : otoks o1 <> []) by (rewrite H2; exact Ho).
  specialize (IH o1 Ho1). destruct (calls_model o1 r) as [xs o2]. cbn [snd] in IH |- *. rewrite IH. destruct r; [exact H3|reflexivity].
Qed.
Lemma seq_no_pending_left (Hsrc : src_inband_marker = None) p l ms : parse_pattern p <> [] -> ms <> [] ->
  opending (snd (calls_model (construct p l) ms)) = 0.
Proof. intros Hp Hms. rewrite (calls_model_pending Hsrc) by exact Hp. destruct ms; [contradiction|reflexivity]. Qed.
Lemma oracle_seq_meaning p ms : forall os, oracle_seq p ms os = true -> Forall2 (fun m o => oracle_pattern p m o = true) ms os.
Proof.
  induction ms as [|m r IH]; intros [|o os] H; try discriminate; [constructor|].
  cbn [oracle_seq] in H. apply andb_prop in H as [H1 H2]. constructor; [exact H1|apply IH, H2].
Qed.
Lemma oracle_seq_holds (Hsrc : src_inband_marker = None) p l ms : oracle_seq p ms (format_seq p l ms) = true.
Proof.
  rewrite seq_stateless. induction ms as [|m r IH]; [reflexivity|].
  cbn [map oracle_seq]. rewrite IH, andb_true_r. unfold oracle_pattern, format_pattern. apply (M_oracle Hsrc).
Qed.
(* ---- time tokens: the text is the environment's rendering of the time stamps of the message AT HAND ----
   [mtime m f] is what QDateTime::toString(f) / the process- and boot-relative seconds give for m's own time
   stamps; a time token contributes exactly that (padded), whatever the object formatted before. *)
Definition time_tok (f : qstr) (c : option mtype) (sp : option spec) : token := {| kind := KTime f; cond := c; tspec := sp |}.
Lemma time_token_text (Hsrc : src_inband_marker = None) f c sp m :
  format_model [time_tok f c sp] m = if cond_ok m (time_tok f c sp) then pad sp (mtime m f) else [].
Proof.
  unfold format_model. rewrite Hsrc. unfold format_oob, run_oob. cbn [fold_left].
  destruct (cond_ok m (time_tok f c sp)); [|reflexivity].
  unfold emit_oob, time_tok. cbn [kind tspec value_of grow fst snd app]. reflexivity.
Qed.
Lemma time_seq_text (Hsrc : src_inband_marker = None) p l ms f c sp : parse_pattern p = [time_tok f c sp] ->
  format_seq p l ms = map (fun m => if cond_ok m (time_tok f c sp) then pad sp (mtime m f) else []) ms.
Proof.
  intros Hp. rewrite seq_stateless. apply map_ext. intros m. unfold format_pattern. rewrite Hp. apply (time_token_text Hsrc).
Qed.
Lemma time_seq_nth (Hsrc : src_inband_marker = None) p l h m t f c sp : parse_pattern p = [time_tok f c sp] ->
  nth_error (format_seq p l (h ++ m :: t)) (length h) = Some (if cond_ok m (time_tok f c sp) then pad sp (mtime m f) else []).
Proof.
  intros Hp. rewrite seq_history_independent. unfold format_pattern. rewrite Hp, (time_token_text Hsrc). reflexivity.
Qed.
(* in any pattern: a time token that is active contributes pad (mtime m f) to the documented concatenation *)
Lemma time_piece f c sp m : piece m (time_tok f c sp) = pad sp (mtime m f).
Proof. reflexivity. Qed.
(* a token that keeps its text while a key of the message is unchanged prints the PREVIOUS message's time for the
   second of two messages that share the key and differ in the rendered time *)
Lemma time_cached_refuted key f a b : key a = key b -> mtime a f <> mtime b f ->
  fst (time_cached_call key f (snd (time_cached_call key f None a)) b) = mtime a f /\
  fst (time_cached_call key f (snd (time_cached_call key f None a)) b) <> mtime b f.
Proof.
  intros Hk Hd. cbn [time_cached_call snd]. rewrite Hk, N.eqb_refl. cbn [fst]. split; [reflexivity|exact Hd].
Qed.
(* "%{time zzz}" and "[%{time zzz:0>6}]"; a message whose time renders as [stamp] *)
Definition x_tz_pat : qstr := [37;123;116;105;109;101;32;122;122;122;125].
Definition x_tzw_pat : qstr := [91;37;123;116;105;109;101;32;122;122;122;58;48;62;54;125;93].
Definition x_zzz : qstr := [122;122;122].
Definition msg_at (t : mtype) (sec : Z) (stamp : qstr) : msg :=
  {| mt := t; text := [109]; mfile := []; mfunc := []; mfunc_clean := []; mcat := []; mline := sec;
     mtime := fun _ => stamp; mtid := 0; mptr := 0; attrs := [] |}.
Definition x_198 : qstr := [49;57;56].
Definition x_238 : qstr := [50;51;56].

(* the statement is not vacuous: without the two resets of format() the same object gives a different text
   for the same message the second time ("abcd%{a?,2}", attribute a missing: "abcd", then "cd") *)
Definition x_l_pat : qstr := [97;98;99;100;37;123;97;63;44;50;125].
Definition x_l_out1 : qstr := [97;98;99;100].
Definition x_l_out2 : qstr := [99;100].
Lemma leaky_refuted : exists p m,
  let o0 := construct p 0 in
  fst (call_leaky o0 m) = x_l_out1 /\ fst (call_leaky (snd (call_leaky o0 m)) m) = x_l_out2 /\
  format_seq p 0 [m; m] = [x_l_out1; x_l_out1].
Proof. exists x_l_pat, (msg0 Debug [] []). vm_compute. repeat split. Qed.
(* the demo of seeded/C12-ind-r4-1: "%{a?,1}%{b?,1}::: %{message}", message "m"; a and b missing, then a = "A", then both missing *)
Definition x_q_pat : qstr := [37;123;97;63;44;49;125;37;123;98;63;44;49;125;58;58;58;32;37;123;109;101;115;115;97;103;101;125].
Definition x_q_o1 : qstr := [58;32;109].
Definition x_q_o2 : qstr := [65;58;58;32;109].
