(* C03 — asynchronous hand-off: executable definitions only (no proofs).

   * [msg] / [obs]: a LogMessage and what a sink can observe of it through the accessors (null C string
     == "" in every observation);
   * [copy_msg_with cfg amb]: field-by-field model of LogMessage's copy constructor, driven by the table
     [cfg] that tools/s2c/async.py reads from the constructor's initialiser list (SrcAsync.v);
   * the skeleton IR of OwnThreadHandler::process / Worker::customEvent and the skeletons the protocol
     model below was written for ([expected_process], [expected_custom_event]);
   * the protocol: producers (call, post under M, release M, return), the FIFO event queue, the pending
     counter, the worker (take, done), the sink log; run over arbitrary action lists;
   * the trace acceptor [accept_async] run on the ticketed traces recorded from the real code. *)
From Coq Require Import List Arith Bool.
Import ListNotations.

(* ---- messages ---------------------------------------------------------------------------------- *)
Definition bytes := list nat.
(* scalars (line, time, steady time, thread id) are carried as their decimal rendering: the hand-off
   never computes with them *)
Record msg := { m_type : nat; m_text : bytes; m_file : option bytes; m_line : bytes; m_func : option bytes;
                m_cat : option bytes; m_time : bytes; m_steady : bytes; m_tid : bytes;
                m_fmt : option bytes; m_attrs : list (bytes * bytes) }.
Definition cstr (s : option bytes) : bytes := match s with Some b => b | None => [] end.
Record observation := { o_type : nat; o_text : bytes; o_file : bytes; o_line : bytes; o_func : bytes; o_cat : bytes;
                        o_time : bytes; o_steady : bytes; o_tid : bytes; o_fmt : option bytes;
                        o_attrs : list (bytes * bytes) }.
Definition obs (m : msg) : observation :=
  {| o_type := m_type m; o_text := m_text m; o_file := cstr (m_file m); o_line := m_line m; o_func := cstr (m_func m);
     o_cat := cstr (m_cat m); o_time := m_time m; o_steady := m_steady m; o_tid := m_tid m; o_fmt := m_fmt m;
     o_attrs := m_attrs m |}.

Inductive field := FType | FText | FFile | FLine | FFunc | FCat | FTime | FSteady | FTid | FFmt | FAttrs.
(* how the copy constructor initialises a member:
   CopyVal — from the same member of the source object;
   Rehome  — (context strings) bytes copied into an owned QByteArray and the context pointer re-pointed to it;
             a null pointer becomes "";
   Alias   — (context strings) the caller's pointer is kept: after the call it points into a buffer the caller
             may have overwritten or freed;
   Fresh   — not mentioned: the default member initialiser runs again on the copying thread (current time,
             current thread id, null formatted text, no attributes, ...) *)
Inductive ckind := CopyVal | Rehome | Alias | Fresh.
Definition copy_cfg := field -> ckind.
Definition field_eqb (a b : field) : bool :=
  match a, b with
  | FType, FType | FText, FText | FFile, FFile | FLine, FLine | FFunc, FFunc | FCat, FCat | FTime, FTime
  | FSteady, FSteady | FTid, FTid | FFmt, FFmt | FAttrs, FAttrs => true
  | _, _ => false end.
Fixpoint cfg_of (l : list (field * ckind)) : copy_cfg :=
  fun f => match l with [] => Fresh | (g, k) :: r => if field_eqb f g then k else cfg_of r f end.
(* [amb] = what a re-run default initialiser / a dangling pointer yields at the time of the copy *)
Definition pick {A} (k : ckind) (src amb : A) : A := match k with CopyVal | Rehome => src | _ => amb end.
Definition pick_str (k : ckind) (src amb : option bytes) : option bytes :=
  match k with CopyVal => src | Rehome => Some (cstr src) | Alias => amb | Fresh => None end.
Definition copy_msg_with (cfg : copy_cfg) (amb m : msg) : msg :=
  {| m_type := pick (cfg FType) (m_type m) (m_type amb); m_text := pick (cfg FText) (m_text m) (m_text amb);
     m_file := pick_str (cfg FFile) (m_file m) (m_file amb); m_line := pick (cfg FLine) (m_line m) (m_line amb);
     m_func := pick_str (cfg FFunc) (m_func m) (m_func amb); m_cat := pick_str (cfg FCat) (m_cat m) (m_cat amb);
     m_time := pick (cfg FTime) (m_time m) (m_time amb); m_steady := pick (cfg FSteady) (m_steady m) (m_steady amb);
     m_tid := pick (cfg FTid) (m_tid m) (m_tid amb); m_fmt := pick (cfg FFmt) (m_fmt m) (m_fmt amb);
     m_attrs := pick (cfg FAttrs) (m_attrs m) (m_attrs amb) |}.
Definition is_ptr (f : field) : bool := match f with FFile | FFunc | FCat => true | _ => false end.
Definition all_fields : list field := [FType; FText; FFile; FLine; FFunc; FCat; FTime; FSteady; FTid; FFmt; FAttrs].
(* the copy is deep and complete: context strings re-homed, everything else copied *)
Definition copy_ok (cfg : copy_cfg) : bool :=
  forallb (fun f => match cfg f with Rehome => is_ptr f | CopyVal => negb (is_ptr f) | _ => false end) all_fields.

(* ---- handlers that render the message's time stamp (PatternFormatter: %{time process}, %{time boot}) ------------ *)
(* where a relative time format takes its value from: the steady time stamp carried by the message (lmsg.steadyTime()),
   or the clock at the moment the handler runs — in asynchronous mode the moment the logger thread got round to the
   message.  tools/s2c/async.py reads the two branches of TimeToken::appendToString (SrcAsync.v). *)
Inductive tsrc := TSMessage | TSClock.
Definition tsrc_is_message (t : tsrc) : bool := match t with TSMessage => true | TSClock => false end.
(* the rendered text: [fmt] is the (external) number formatting, [now] the clock when the handler runs *)
Definition render_rel (src : tsrc) (fmt : bytes -> bytes) (now : bytes) (m : msg) : bytes :=
  fmt (match src with TSMessage => m_steady m | TSClock => now end).
(* what a sink behind such a formatter receives for the k-th delivered message, the k-th run of the handler
   happening at clock value [clk k] *)
Fixpoint rendered_from (src : tsrc) (fmt : bytes -> bytes) (clk : nat -> bytes) (k : nat) (l : list msg) : list bytes :=
  match l with [] => [] | m :: r => render_rel src fmt (clk k) m :: rendered_from src fmt clk (S k) r end.

(* ---- skeleton IR ------------------------------------------------------------------------------- *)
Inductive amutex := MM.   (* OwnThreadHandler::m_mutex *)
Inductive ainstr :=
| ALock (m : amutex) | AUnlock (m : amutex)
| AInc | ADec            (* m_pendingCount.fetchAndAddOrdered(1) / fetchAndSubOrdered(1) *)
| APostEv                (* QCoreApplication::postEvent(m_worker, new LogEvent(lmsg)) — default priority *)
| APostPrio              (* postEvent with an explicit priority argument *)
| AWork                  (* BaseHandler::process(...) *)
| AOther
| AIfWorker (a b : list ainstr)     (* if (m_worker) a else b *)
| AGuard (a : list ainstr).         (* if (cond) a   — cond unrelated to the protocol *)
Fixpoint strip (i : ainstr) : list ainstr :=
  match i with
  | AOther => []
  | AIfWorker a b => [AIfWorker (flat_map strip a) (flat_map strip b)]
  | AGuard a => [AGuard (flat_map strip a)]
  | x => [x]
  end.
Definition strip_other (l : list ainstr) : list ainstr := flat_map strip l.
(* the skeletons the protocol model below transcribes *)
Definition expected_process : list ainstr :=
  [ALock MM; AIfWorker [AInc; APostEv] [AWork]; AUnlock MM].
Definition expected_custom_event : list ainstr := [AGuard [AGuard [AWork; ADec]]].

(* ---- the protocol ------------------------------------------------------------------------------ *)
Definition item := (nat * nat * msg)%type.        (* producer, per-producer index, message *)
Definition it_id (x : item) : nat * nat := fst x.
Inductive pphase := PIdle | PCalled (m : msg) | PPosted | PReleased.
Record pstate := { pph : pphase; pnext : nat }.
Inductive aevent :=
| VCall (p i : nat)       (* the logging call begins *)
| VPost (p i : nat)       (* M acquired; the message is counted and posted inside this critical section *)
| VRel (p i : nat)        (* posting done (still inside the critical section, M released right after) *)
| VRet (p i : nat)        (* the logging call has returned *)
| VDeliver (p i : nat).   (* the worker ran the pipeline on the message: the sink received it *)
Inductive action := ACall (p : nat) (m : msg) | APost (p : nat) | ARel (p : nat) | ARet (p : nat) | ATake | ADone.
Record state := { prod : nat -> pstate; mtx : option nat; queue : list item; pending : nat; inflight : option item;
                  slog : list item;        (* what the sink received, in order; appended by the worker only *)
                  posted : list item;      (* ghost: the original messages in post order *)
                  tr : list aevent }.      (* ghost: observable events in order *)
Definition upd {A} (f : nat -> A) (t : nat) (v : A) : nat -> A := fun t' => if Nat.eqb t' t then v else f t'.
Definition mk_p (ph : pphase) (n : nat) : pstate := {| pph := ph; pnext := n |}.

Definition step (cp : msg -> msg) (s : state) (a : action) : option state :=
  match a with
  | ACall p m =>
      match pph (prod s p) with
      | PIdle => Some {| prod := upd (prod s) p (mk_p (PCalled m) (pnext (prod s p))); mtx := mtx s; queue := queue s;
                         pending := pending s; inflight := inflight s; slog := slog s; posted := posted s;
                         tr := tr s ++ [VCall p (pnext (prod s p))] |}
      | _ => None end
  | APost p =>      (* Lock M; pending++; postEvent(copy) — atomic: everything happens inside the critical section *)
      match pph (prod s p), mtx s with
      | PCalled m, None =>
          let i := pnext (prod s p) in
          Some {| prod := upd (prod s) p (mk_p PPosted i); mtx := Some p; queue := queue s ++ [(p, i, cp m)];
                  pending := S (pending s); inflight := inflight s; slog := slog s; posted := posted s ++ [(p, i, m)];
                  tr := tr s ++ [VPost p i] |}
      | _, _ => None end
  | ARel p =>       (* Unlock M *)
      match pph (prod s p) with
      | PPosted => Some {| prod := upd (prod s) p (mk_p PReleased (pnext (prod s p))); mtx := None; queue := queue s;
                           pending := pending s; inflight := inflight s; slog := slog s; posted := posted s;
                           tr := tr s ++ [VRel p (pnext (prod s p))] |}
      | _ => None end
  | ARet p =>
      match pph (prod s p) with
      | PReleased => Some {| prod := upd (prod s) p (mk_p PIdle (S (pnext (prod s p)))); mtx := mtx s; queue := queue s;
                             pending := pending s; inflight := inflight s; slog := slog s; posted := posted s;
                             tr := tr s ++ [VRet p (pnext (prod s p))] |}
      | _ => None end
  | ATake =>        (* the event loop of the worker thread takes the oldest posted event *)
      match inflight s, queue s with
      | None, x :: q => Some {| prod := prod s; mtx := mtx s; queue := q; pending := pending s; inflight := Some x;
                                slog := slog s; posted := posted s; tr := tr s |}
      | _, _ => None end
  | ADone =>        (* customEvent: BaseHandler::process(copy) then pending-- *)
      match inflight s with
      | Some x => Some {| prod := prod s; mtx := mtx s; queue := queue s; pending := pred (pending s); inflight := None;
                          slog := slog s ++ [x]; posted := posted s;
                          tr := tr s ++ [VDeliver (fst (fst x)) (snd (fst x))] |}
      | None => None end
  end.
Fixpoint run (cp : msg -> msg) (s : state) (acts : list action) : state :=
  match acts with
  | [] => s
  | a :: r => match step cp s a with Some s' => run cp s' r | None => run cp s r end
  end.
Definition s0 : state := {| prod := fun _ => mk_p PIdle 0; mtx := None; queue := []; pending := 0; inflight := None;
                            slog := []; posted := []; tr := [] |}.
Definition is_producer_action (a : action) : bool := match a with ATake | ADone => false | _ => true end.
Definition quiescent (s : state) : Prop := queue s = [] /\ inflight s = None.
(* what a recording sink sees: the observation of each delivered message and its position *)
Definition sink_view (l : list item) : list (nat * nat * observation * nat) :=
  combine (map (fun x => (fst x, obs (snd x))) l) (seq 0 (length l)).

(* ---- the trace acceptor ------------------------------------------------------------------------ *)
Inductive xphase := XIdle | XCalled | XPosted | XReleased.
Record xstate := { x_ph : nat -> xphase; x_next : nat -> nat; x_q : list (nat * nat); x_lock : option nat }.
Definition xphase_eqb (a b : xphase) : bool :=
  match a, b with XIdle, XIdle | XCalled, XCalled | XPosted, XPosted | XReleased, XReleased => true | _, _ => false end.
Definition xstep (x : xstate) (e : aevent) : option xstate :=
  match e with
  | VCall p i => if xphase_eqb (x_ph x p) XIdle && Nat.eqb i (x_next x p)
                 then Some {| x_ph := upd (x_ph x) p XCalled; x_next := x_next x; x_q := x_q x; x_lock := x_lock x |} else None
  | VPost p i => match x_lock x with
                 | None => if xphase_eqb (x_ph x p) XCalled && Nat.eqb i (x_next x p)
                           then Some {| x_ph := upd (x_ph x) p XPosted; x_next := x_next x; x_q := x_q x ++ [(p, i)]; x_lock := Some p |}
                           else None
                 | Some _ => None end
  | VRel p i => if xphase_eqb (x_ph x p) XPosted && Nat.eqb i (x_next x p)
                then Some {| x_ph := upd (x_ph x) p XReleased; x_next := x_next x; x_q := x_q x; x_lock := None |} else None
  | VRet p i => if xphase_eqb (x_ph x p) XReleased && Nat.eqb i (x_next x p)
                then Some {| x_ph := upd (x_ph x) p XIdle; x_next := upd (x_next x) p (S i); x_q := x_q x; x_lock := x_lock x |} else None
  | VDeliver p i => match x_q x with
                    | (p', i') :: r => if Nat.eqb p p' && Nat.eqb i i'
                                       then Some {| x_ph := x_ph x; x_next := x_next x; x_q := r; x_lock := x_lock x |} else None
                    | [] => None end
  end.
Fixpoint xrun (x : xstate) (t : list aevent) : option xstate :=
  match t with [] => Some x | e :: r => match xstep x e with Some x' => xrun x' r | None => None end end.
Definition x0 : xstate := {| x_ph := fun _ => XIdle; x_next := fun _ => 0; x_q := []; x_lock := None |}.
Definition x_final (quota : nat -> nat) (n : nat) (x : xstate) : bool :=
  match x_q x with [] => forallb (fun p => xphase_eqb (x_ph x p) XIdle && Nat.eqb (x_next x p) (quota p)) (seq 0 n) | _ => false end.
Definition accept_async (quota : nat -> nat) (n : nat) (t : list aevent) : bool :=
  match xrun x0 t with Some x => x_final quota n x | None => false end.
Fixpoint accepted_prefix (x : xstate) (t : list aevent) : nat :=
  match t with [] => 0 | e :: r => match xstep x e with Some x' => S (accepted_prefix x' r) | None => 0 end end.

Fixpoint posts (t : list aevent) : list (nat * nat) :=
  match t with [] => [] | VPost p i :: r => (p, i) :: posts r | _ :: r => posts r end.
Fixpoint delivs (t : list aevent) : list (nat * nat) :=
  match t with [] => [] | VDeliver p i :: r => (p, i) :: delivs r | _ :: r => delivs r end.
Definition of_prod (p : nat) (l : list (nat * nat)) : list (nat * nat) := filter (fun x => Nat.eqb (fst x) p) l.

(* ---- which thread executes a step ------------------------------------------------------------------
   moveToOwnThread() may be called before the QCoreApplication exists ([app] = false) or after it ([app] = true).  The worker
   object (the receiver of the posted events) executes ATake/ADone on the thread it has affinity to; producer actions run on
   the calling thread.  [wmove] = under which condition moveToOwnThread() moves the worker to the own thread (translated). *)
Inductive tid := TCaller | TOwn.
Inductive wmove := WMAlways | WMIfApp | WMNever.
Definition worker_affinity (w : wmove) (app : bool) : tid :=
  match w with WMAlways => TOwn | WMIfApp => if app then TOwn else TCaller | WMNever => TCaller end.
Definition exec_thread (w : wmove) (app : bool) (a : action) : tid :=
  if is_producer_action a then TCaller else worker_affinity w app.
